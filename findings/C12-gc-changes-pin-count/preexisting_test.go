//go:build preexisting
// +build preexisting

package c12_test

// PRE-EXISTING violation of C12, independent of the seeded change: it fails on
// the unmodified tree as well.  It is behind the "preexisting" build tag so
// that it does not interfere with the demonstration in c12_test.go.
//
// collectGarbage (pkg/localstore/gc.go) does not skip pinned chunks of a file
// it evicts: for every chunk of the file it either lowers the pin counter by
// the chunk's multiplicity or removes the pin entry and the chunk data.  The
// only thing that keeps pinned content away from the collector is that a fully
// pinned file has no gc index entry any more.  A file that is only partly
// pinned (a pin request that was interrupted after some chunks, or a chunk that
// is pinned more often than it occurs in the file) is still in the gc index.

import (
	"context"
	"testing"

	"github.com/gauss-project/aurorafs/pkg/sctx"
	"github.com/gauss-project/aurorafs/pkg/storage"
)

func TestPreexistingGCDropsPinsOfPartlyPinnedCachedFile(t *testing.T) {
	n := newNode(t, 5)

	// R = A | B, a requested (cached) file: root chunk + 2 data chunks.
	rRoot, rChunks := n.cache(t, concat(randomChunk(11), randomChunk(12)), true)
	if len(rChunks) != 3 {
		t.Fatalf("expected 3 chunks, got %d", len(rChunks))
	}

	// A pin request for R (pinning.CreatePin sets the root hash and pins chunk
	// by chunk) that stops after the first data chunk; that chunk is pinned
	// twice, e.g. by a second request.
	var pinned = rChunks[0]
	if pinned.Address().Equal(rRoot) {
		pinned = rChunks[1]
	}
	pinCtx := sctx.SetRootHash(context.Background(), rRoot)
	for i := 0; i < 2; i++ {
		if err := n.db.Set(pinCtx, storage.ModeSetPin, pinned.Address()); err != nil {
			t.Fatalf("pin: %v", err)
		}
	}
	if got := n.pinCount(t, pinned.Address()); got != 2 {
		t.Fatalf("pin count before gc = %d, want 2", got)
	}

	// one run evicts R, the oldest cache entry
	n.evictOldest(t, rRoot, 4)

	if got := n.pinCount(t, pinned.Address()); got != 2 {
		t.Errorf("C12 VIOLATION (pre-existing): garbage collection changed pin count of chunk %s from 2 to %d", pinned.Address(), got)
	}
	if !n.hasChunk(t, pinned.Address()) {
		t.Errorf("C12 VIOLATION (pre-existing): garbage collection deleted pinned chunk %s", pinned.Address())
	}
}
