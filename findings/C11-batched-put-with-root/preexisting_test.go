package c11_test

import (
	"context"
	"testing"

	"github.com/gauss-project/aurorafs/pkg/sctx"
	"github.com/gauss-project/aurorafs/pkg/storage"
	chunktesting "github.com/gauss-project/aurorafs/pkg/storage/testing"
)

// TestPreexistingBatchWithFileContext: with a file context (root hash R),
// putting [R, A] in ONE ModePutRequest call must behave like putting R and
// then A. On the unmodified code the batched call fails, because setGC looks
// the root chunk up in the committed retrieval index while R is still only in
// the uncommitted batch (putRequest updates rootItem.BinID on a by-value copy).
func TestPreexistingBatchWithFileContext(t *testing.T) {
	chs := chunktesting.GenerateTestRandomChunks(2)
	root, other := chs[0], chs[1]
	ctx := sctx.SetRootHash(context.Background(), root.Address())

	seqDB := newDB(t)
	for i, ch := range chs {
		e, err := seqDB.Put(ctx, storage.ModePutRequest, ch)
		if err != nil {
			t.Fatalf("one-at-a-time put %d: %v", i, err)
		}
		if e[0] {
			t.Fatalf("one-at-a-time put %d: reported as existing", i)
		}
	}

	batchDB := newDB(t)
	e, err := batchDB.Put(ctx, storage.ModePutRequest, root, other)
	if err != nil {
		t.Fatalf("batched put [root, other] with file context failed although one-at-a-time succeeded: %v", err)
	}
	if e[0] || e[1] {
		t.Fatalf("batched exist = %v, want [false false]", e)
	}
	for _, ch := range chs {
		has, err := batchDB.Has(ctx, storage.ModeHasChunk, ch.Address())
		if err != nil {
			t.Fatal(err)
		}
		if !has {
			t.Errorf("chunk %s missing after batched put", ch.Address())
		}
	}
}

// TestPreexistingRemoveOfDoublyPinned: a chunk whose pin counter is above one
// stays present (and retrievable) after a successful Set(ModeSetRemove):
// setRemove only decrements the pin counter and returns nil.
func TestPreexistingRemoveOfDoublyPinned(t *testing.T) {
	ctx := context.Background()
	db := newDB(t)
	ch := chunktesting.GenerateTestRandomChunk()

	if _, err := db.Put(ctx, storage.ModePutUploadPin, ch); err != nil {
		t.Fatal(err)
	}
	if err := db.Set(ctx, storage.ModeSetPin, ch.Address()); err != nil {
		t.Fatal(err)
	}
	if err := db.Set(ctx, storage.ModeSetRemove, ch.Address()); err != nil {
		t.Fatalf("remove: %v", err)
	}
	has, err := db.Has(ctx, storage.ModeHasChunk, ch.Address())
	if err != nil {
		t.Fatal(err)
	}
	if has {
		t.Error("chunk still reported present after a successful ModeSetRemove")
	}
}
