package c37_test

// PRE-EXISTING violations of C37 (they fail on the UNMODIFIED tree, they are
// independent of patch.diff). Run them one at a time: each one kills the test
// process with the panic it provokes.
//
//	go test -count=1 -ldflags=-checklinkname=0 -run TestPreexistingPyramidManifestNode ./verifdemo/c37/
//	go test -count=1 -ldflags=-checklinkname=0 -run TestPreexistingPyramidMisalignedIntermediate ./verifdemo/c37/

import (
	"context"
	"encoding/binary"
	"encoding/hex"
	"testing"
	"time"

	"github.com/gauss-project/aurorafs/pkg/boson"
	"github.com/gauss-project/aurorafs/pkg/cac"
	"github.com/gauss-project/aurorafs/pkg/chunkinfo/pb"
	"github.com/gauss-project/aurorafs/pkg/p2p"
	"github.com/gauss-project/aurorafs/pkg/p2p/protobuf"
	"github.com/gauss-project/aurorafs/pkg/p2p/streamtest"
	smock "github.com/gauss-project/aurorafs/pkg/statestore/mock"
	"github.com/gauss-project/aurorafs/pkg/storage/mock"
)

func withSpan(span uint64, payload []byte) []byte {
	b := make([]byte, 8+len(payload))
	binary.LittleEndian.PutUint64(b, span)
	copy(b[8:], payload)
	return b
}

func chunkAddr(t *testing.T, data []byte) boson.Address {
	t.Helper()
	ch, err := cac.NewWithDataSpan(data)
	if err != nil {
		t.Fatal(err)
	}
	return ch.Address()
}

// pyramidAttack plays a single malicious peer against a node that knows
// nothing about the file:
//   - the peer opens the chunkpyramid stream of the node and asks for the
//     pyramid of rootCid with itself as target, so the node relays the request
//     (handlerPyramid -> sendPyramid) back to the peer;
//   - the peer answers the relayed request with the given chunks. Every chunk
//     hashes to the address it is sent under, so the integrity check of
//     traversal.GetChunkHashes accepts the pyramid.
//
// The node must fail the stream, not panic.
func pyramidAttack(t *testing.T, rootCid boson.Address, chunks map[string][]byte) {
	t.Helper()

	// what the malicious peer serves on the relayed request
	attacker := p2p.ProtocolSpec{
		Name:    ciProtocol,
		Version: ciVersion,
		StreamSpecs: []p2p.StreamSpec{{
			Name: ciPyramid,
			Handler: func(ctx context.Context, _ p2p.Peer, s p2p.Stream) error {
				w, r := protobuf.NewWriterAndReader(s)
				var req pb.ChunkPyramidReq
				if err := r.ReadMsgWithContext(ctx, &req); err != nil {
					return err
				}
				for h, c := range chunks {
					if err := w.WriteMsgWithContext(ctx, &pb.ChunkPyramidResp{Hash: boson.MustParseHexAddress(h).Bytes(), Chunk: c}); err != nil {
						return err
					}
				}
				return w.WriteMsgWithContext(ctx, &pb.ChunkPyramidResp{Ok: true})
			},
		}},
	}

	out := streamtest.New(streamtest.WithProtocols(attacker), streamtest.WithBaseAddr(victimAddr))
	node := newNode(t, victimAddr, out, smock.NewStateStore(), mock.NewStorer())

	in := streamtest.New(streamtest.WithProtocols(node.Protocol()), streamtest.WithBaseAddr(peerAddr))
	s, err := in.NewStream(context.Background(), victimAddr, nil, ciProtocol, ciVersion, ciPyramid)
	if err != nil {
		t.Fatal(err)
	}
	if err := protobuf.NewWriter(s).WriteMsg(&pb.ChunkPyramidReq{RootCid: rootCid.Bytes(), Target: peerAddr.Bytes()}); err != nil {
		t.Fatal(err)
	}
	done := make(chan struct{})
	go func() {
		_, _ = in.Records(victimAddr, ciProtocol, ciVersion, ciPyramid) // waits for the node's handler
		close(done)
	}()
	select {
	case <-done:
		t.Log("handler returned without panic")
	case <-time.After(20 * time.Second):
		t.Fatal("handler did not return")
	}
}

// The root chunk is a 64 byte mantaray node: zero obfuscation key, the
// "mantaray:0.2" version hash and refBytesSize=32, and then nothing. The node's
// traversal loads it as a manifest and mantaray.(*Node).UnmarshalBinary slices
// data[64:96] of a 64 byte buffer: slice bounds out of range.
func TestPreexistingPyramidManifestNode(t *testing.T) {
	v02, _ := hex.DecodeString("5768b3b6a7db56d21d1abff40d41cebfc83448fed8d7e9b06ec0d3b073f28f7b")
	node := make([]byte, 64)
	copy(node[32:63], v02[:31])
	node[63] = 32
	root := withSpan(64, node)
	rootCid := chunkAddr(t, root)
	pyramidAttack(t, rootCid, map[string][]byte{rootCid.String(): root})
}

// The root chunk is an intermediate chunk whose payload is one reference plus
// one stray byte (span 34, 33 bytes). Reading it as a file works (the reference
// resolves to a 34 byte leaf, too short for a manifest), so GetChunkHashes falls
// back to plain file iteration and joiner.processChunkAddresses slices
// data[32:64] of the 33 byte payload: slice bounds out of range.
func TestPreexistingPyramidMisalignedIntermediate(t *testing.T) {
	leaf := withSpan(34, make([]byte, 34))
	leafAddr := chunkAddr(t, leaf)
	root := withSpan(34, append(append([]byte{}, leafAddr.Bytes()...), 0x00))
	rootCid := chunkAddr(t, root)
	pyramidAttack(t, rootCid, map[string][]byte{
		rootCid.String():  root,
		leafAddr.String(): leaf,
	})
}
