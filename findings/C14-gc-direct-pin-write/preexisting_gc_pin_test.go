package c14_test

// PRE-EXISTING (independent of the seeded change): collectGarbage in
// pkg/localstore/gc.go lowers the pin counter of a chunk that stays pinned
// with a direct db.pinIndex.Put, outside of the batch that removes the rest
// of the collected file. A crash between that write and batch.Commit leaves
// the pin counter already lowered while the file (root chunk, gc index entry,
// sibling chunks) is still there, so the next garbage collection run lowers
// the same counter a second time.

import (
	"context"
	"io"
	"os"
	"testing"
	"time"

	"github.com/gauss-project/aurorafs/pkg/boson"
	"github.com/gauss-project/aurorafs/pkg/chunkinfo"
	"github.com/gauss-project/aurorafs/pkg/localstore"
	"github.com/gauss-project/aurorafs/pkg/logging"
	"github.com/gauss-project/aurorafs/pkg/sctx"
	"github.com/gauss-project/aurorafs/pkg/storage"
)

// gcDiscover implements only the chunkinfo methods used by collectGarbage.
type gcDiscover struct {
	chunkinfo.Interface
	pyramid []*chunkinfo.PyramidCidNum
	ran     chan struct{}
}

func (d *gcDiscover) IsDiscover(boson.Address) bool { return false }
func (d *gcDiscover) DelDiscover(boson.Address)     {}
func (d *gcDiscover) GetChunkPyramid(boson.Address) []*chunkinfo.PyramidCidNum {
	return d.pyramid
}
func (d *gcDiscover) DelFile(_ boson.Address, del func() error) error {
	err := del()
	select {
	case d.ran <- struct{}{}:
	default:
	}
	return err
}

const (
	gcRoot = 0xd0
	gcC1   = 0xc1
	gcCap  = 5
)

func openGCStore(t *testing.T, dir string) (*localstore.DB, *gcDiscover) {
	t.Helper()
	db, err := localstore.New(dir, make([]byte, 32), &localstore.Options{Driver: crashDriverName, Capacity: gcCap}, logging.New(io.Discard, 0))
	if err != nil {
		t.Fatalf("open localstore: %v", err)
	}
	d := &gcDiscover{ran: make(chan struct{}, 1)}
	for _, b := range []byte{gcC1, 0xc2, 0xc3, 0xc4, 0xc5} {
		d.pyramid = append(d.pyramid, &chunkinfo.PyramidCidNum{Cid: testAddr(b), Number: 1})
	}
	db.SetChunkInfo(d)
	return db, d
}

// putAndCollect stores one more chunk of the file, which makes the cache
// reach its capacity, and waits for the garbage collection run.
func putAndCollect(t *testing.T, db *localstore.DB, d *gcDiscover, b byte) {
	t.Helper()
	ctxR := sctx.SetRootHash(context.Background(), testAddr(gcRoot))
	_, _ = db.Put(ctxR, storage.ModePutRequest, testChunk(b))
	select {
	case <-d.ran:
	case <-time.After(3 * time.Second):
	}
}

type gcSnap struct {
	pin     uint64
	hasRoot bool
}

// runGC builds a file of four cached chunks whose chunk c1 is pinned three
// times by the user, then caches a fifth chunk (gc size reaches the capacity
// and the whole file is collected) while only limit storage writes get
// through. With again set, a further chunk is cached after the restart so
// that the garbage collector runs once more.
func runGC(t *testing.T, limit int, again bool) (before, got gcSnap, writes int) {
	t.Helper()
	dir, err := os.MkdirTemp("", "c14gc-")
	if err != nil {
		t.Fatal(err)
	}
	defer os.RemoveAll(dir)
	ctx := context.Background()
	ctxR := sctx.SetRootHash(ctx, testAddr(gcRoot))

	snap := func() gcSnap {
		db, _ := openGCStore(t, dir)
		has, err := db.Has(ctx, storage.ModeHasChunk, testAddr(gcRoot))
		if err != nil {
			t.Fatal(err)
		}
		if err := db.Close(); err != nil {
			t.Fatal(err)
		}
		return gcSnap{pin: readPins(t, dir)["c1c1"], hasRoot: has}
	}

	db, _ := openGCStore(t, dir)
	for _, b := range []byte{gcRoot, gcC1, 0xc2, 0xc3} {
		if _, err := db.Put(ctxR, storage.ModePutRequest, testChunk(b)); err != nil {
			t.Fatalf("put: %v", err)
		}
	}
	for i := 0; i < 3; i++ {
		if err := db.Set(ctx, storage.ModeSetPin, testAddr(gcC1)); err != nil {
			t.Fatalf("pin: %v", err)
		}
	}
	if err := db.Close(); err != nil {
		t.Fatal(err)
	}
	before = snap()

	db, d := openGCStore(t, dir)
	fault.arm(limit)
	putAndCollect(t, db, d, 0xc4)
	_ = db.Close()
	writes = fault.disarm()

	if again {
		db, d = openGCStore(t, dir)
		putAndCollect(t, db, d, 0xc5)
		if err := db.Close(); err != nil {
			t.Fatal(err)
		}
	}
	got = snap()
	return before, got, writes
}

func TestPreexistingGCPinDecrementOutsideBatch(t *testing.T) {
	const unlimited = 1 << 30
	before, after, total := runGC(t, unlimited, false)
	t.Logf("before=%+v after=%+v storage writes=%d", before, after, total)
	if before.pin != 3 || after.pin != 2 || after.hasRoot {
		t.Fatalf("unexpected reference run: before=%+v after=%+v", before, after)
	}

	for k := 0; k < total; k++ {
		_, got, _ := runGC(t, k, false)
		if got == before || got == after {
			t.Logf("crash after %d/%d writes: %+v ok", k, total, got)
			continue
		}
		t.Errorf("VIOLATION C14 (pre-existing): crash after %d of %d storage writes: state after reopen %+v is neither before %+v nor after %+v",
			k, total, got, before, after)

		// the file was not collected, so the collector takes it again
		_, final, _ := runGC(t, k, true)
		if final.pin != before.pin && final.pin != after.pin {
			t.Errorf("  after the next gc run the file is collected once but pin counter of c1 is %d (before %d, after %d)",
				final.pin, before.pin, after.pin)
		}
	}
}
