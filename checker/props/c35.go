package props

import (
	"aurora-verif/checker/core"

	"golang.org/x/tools/go/ssa"
)

func init() {
	reg("C35", Meta{
		Technique:   "must-guard reachability on SSA (policy decision / re-encryption / ServeHTTP only behind decode, decrypt, unmarshal, expiry and policy checks), provenance of the role, slice-bound guard check with interval analysis",
		Explanation: "C35 (API tokens), structural clauses: (G1) Authenticator.Enforce consults the policy and can return a non-false verdict only behind successful base64 decode, authenticated decryption, JSON decode and the not-expired test, and the role given to the policy engine is the decoded record's role; (G2) RefreshKey re-encrypts only behind the same four checks, assigns the new expiry only after (behind) the test of the presented token's expiry, and never writes the role; (G3) the HTTP middleware calls the wrapped handler only behind err==nil and allowed==true of Enforce; (I1) encrypter.decrypt slices the token only behind a length guard against the nonce size (a short token must give an error, not a panic). Not decided: cryptographic strength (AES-GCM authenticity is trusted), the casbin policy semantics.",
		Assumptions: []string{"cipher.AEAD.Open fails on any altered ciphertext", "casbin Enforcer.Enforce implements the configured policy"},
	}, c35)
}

func errNilOf(names ...string) core.Atom {
	return core.ErrNilAtom(func(c *ssa.Call) bool { return core.IsCallTo(c, names...) })
}

// behindAll checks that sink is only reachable behind each named guard and records one
// obligation per guard.
type guardSpec struct {
	name string
	atom core.Atom
	pos  bool // sink must be behind the edges on which the atom holds (true) or fails (false)
}

func behindAll(r *core.Run, rule string, fn *ssa.Function, sink ssa.Instruction, sinkName string, guards []guardSpec) {
	for _, g := range guards {
		pos, neg := core.AtomEdges(fn, g.atom)
		good := pos
		if !g.pos {
			good = neg
		}
		ok := len(good) > 0 && core.OnlyBehind(fn, sink, good)
		r.Check(rule, core.Key(rule, fn, sinkName+" behind "+g.name), sink.Pos(), ok,
			sinkName+" is reachable only after "+g.name, "a path reaches "+sinkName+" without passing the check: "+g.name)
	}
}

func c35(r *core.Run) {
	w := r.W
	const decode = "(*encoding/base64.Encoding).DecodeString"
	const decrypt = "(pkg/auth.encrypter).decrypt"
	const unmarshal = "encoding/json.Unmarshal"
	const after = "(time.Time).After"
	tokenGuards := []guardSpec{
		{"base64 decode succeeded", errNilOf(decode), true},
		{"authenticated decryption succeeded", errNilOf(decrypt), true},
		{"JSON decode of the record succeeded", errNilOf(unmarshal), true},
		{"token not expired (!Now().After(Expiry))", core.BoolCallAtom(func(c *ssa.Call) bool { return core.IsCallTo(c, after) }), false},
	}

	// G1 Enforce
	if fn := w.Func("pkg/auth", "(*Authenticator).Enforce"); fn == nil {
		r.Fatal("unresolved anchor pkg/auth.(*Authenticator).Enforce")
	} else {
		r.Saw(core.FuncName(fn))
		r.Eval(core.EdgeCount(fn))
		const pol = "(*github.com/casbin/casbin/v2.Enforcer).Enforce"
		calls := core.Calls(fn, pol)
		r.Floor("C35.G1", "policy decisions in Enforce", len(calls), 1)
		for _, c := range calls {
			behindAll(r, "C35.G1", fn, c, "policy decision", tokenGuards)
			// role provenance: first variadic arg derives from the record unmarshaled
			um := core.Calls(fn, unmarshal)
			okRole := false
			if len(um) == 1 {
				recAddr := core.Strip(core.Common(um[0]).Args[1])
				args := core.Common(c).Args
				okRole = core.DerivesFrom(args[len(args)-1], func(x ssa.Value) bool {
					if fr, ok := core.AsField(x); ok && fr.Name == "Role" && fr.Base == recAddr {
						return true
					}
					return false
				}, nil) || roleInVariadic(args[len(args)-1], recAddr)
			}
			r.Check("C35.P1", core.Key("C35.P1", fn, "role from decoded record"), c.Pos(), okRole,
				"the role handed to the policy engine is the Role field of the record decoded from the token", "the policy is consulted with a role that does not come from the decoded token record")
		}
		// returns: non-constant verdict only from the policy call, behind its err == nil
		core.EachInstr(fn, func(_ *ssa.BasicBlock, _ int, in ssa.Instruction) {
			ret, ok := in.(*ssa.Return)
			if !ok {
				return
			}
			v := ret.Results[0]
			if b, isC := core.ConstBool(v); isC && !b {
				return
			}
			c, idx := core.CallOf(v)
			ok2 := c != nil && idx == 0 && core.IsCallTo(c, pol)
			if ok2 {
				good, _ := core.AtomEdges(fn, core.ErrNilAtom(func(x *ssa.Call) bool { return x == c }))
				ok2 = core.OnlyBehind(fn, ret, good)
			}
			r.Check("C35.G1", core.Key("C35.G1", fn, "non-false verdict"), ret.Pos(), ok2,
				"a verdict other than false is the policy engine's answer, returned only when it reported no error", "a non-false verdict is returned that is not the checked policy answer")
		})
	}

	// G2 RefreshKey
	if fn := w.Func("pkg/auth", "(*Authenticator).RefreshKey"); fn == nil {
		r.Fatal("unresolved anchor pkg/auth.(*Authenticator).RefreshKey")
	} else {
		r.Saw(core.FuncName(fn))
		r.Eval(core.EdgeCount(fn))
		calls := core.Calls(fn, "(pkg/auth.encrypter).encrypt")
		r.Floor("C35.G2", "re-encryptions in RefreshKey", len(calls), 1)
		for _, c := range calls {
			behindAll(r, "C35.G2", fn, c, "re-encryption", tokenGuards)
		}
		// the expiry test reads the token's own expiry: the record's Expiry is (re)assigned
		// only after — behind — the not-expired test
		_, notExpired := core.AtomEdges(fn, core.BoolCallAtom(func(c *ssa.Call) bool { return core.IsCallTo(c, after) }))
		for _, st := range fieldStores(fn, "pkg/auth.authRecord", "Expiry") {
			r.Check("C35.G2", core.Key("C35.G2", fn, "new expiry assigned only after the expiry test"), st.Pos(), len(notExpired) > 0 && core.OnlyBehind(fn, st, notExpired),
				"the presented token's expiry is tested before it is replaced by the new one", "the record's Expiry is overwritten before the expiry test: the test then sees the new, future expiry and an expired token is revived")
		}
		roleStores := fieldStores(fn, "pkg/auth.authRecord", "Role")
		r.Check("C35.P2", core.Key("C35.P2", fn, "role unchanged"), fn.Pos(), len(roleStores) == 0,
			"refreshing never assigns the record's role", "RefreshKey writes the role field")
		// the record marshaled is the record unmarshaled
		um, ma := core.Calls(fn, unmarshal), core.Calls(fn, "encoding/json.Marshal")
		same := false
		if len(um) == 1 && len(ma) == 1 {
			rec := core.Strip(core.Common(um[0]).Args[1])
			marg := core.Strip(core.Common(ma[0]).Args[0])
			if p, ok := core.LoadedFrom(marg); ok && p == rec {
				same = true
			}
		}
		r.Check("C35.P2", core.Key("C35.P2", fn, "same record re-encoded"), fn.Pos(), same,
			"the record that is re-encrypted is the one decoded from the presented token", "RefreshKey encodes a different record than the one it decoded")
	}

	// G3 middleware
	var mw *ssa.Function
	if outer := w.Func("pkg/auth", "PermissionCheckHandler"); outer != nil {
		for _, cl := range core.Closures(outer) {
			if len(core.Calls(cl, "(pkg/auth.auth).Enforce")) > 0 {
				mw = cl
			}
		}
	}
	if mw == nil {
		r.Fatal("unresolved anchor: closure of pkg/auth.PermissionCheckHandler that calls auth.Enforce")
	} else {
		r.Saw(core.FuncName(mw))
		r.Eval(core.EdgeCount(mw))
		serves := core.Calls(mw, "(net/http.Handler).ServeHTTP")
		r.Floor("C35.G3", "ServeHTTP calls in the permission middleware", len(serves), 1)
		for _, s := range serves {
			behindAll(r, "C35.G3", mw, s, "wrapped handler", []guardSpec{
				{"Enforce returned no error", errNilOf("(pkg/auth.auth).Enforce"), true},
				{"Enforce allowed the request", func(base ssa.Value) (bool, bool) {
					if c, idx := core.CallOf(base); c != nil && idx == 0 && core.IsCallTo(c, "(pkg/auth.auth).Enforce") {
						return true, true
					}
					return false, false
				}, true},
			})
		}
	}

	// I1 decrypt slicing
	if fn := w.Func("pkg/auth", "(encrypter).decrypt"); fn == nil {
		r.Fatal("unresolved anchor pkg/auth.(encrypter).decrypt")
	} else {
		r.Saw(core.FuncName(fn))
		r.Eval(core.EdgeCount(fn))
		ia := core.Intervals(fn)
		data := fn.Params[1]
		n := 0
		core.EachInstr(fn, func(_ *ssa.BasicBlock, _ int, in ssa.Instruction) {
			sl, ok := in.(*ssa.Slice)
			if !ok || core.Strip(sl.X) != ssa.Value(data) {
				return
			}
			n++
			ok2, why := sliceGuarded(fn, ia, sl)
			what := "data[:n]"
			if sl.High == nil {
				what = "data[n:]"
			}
			r.Check("C35.I1", core.Key("C35.I1", fn, "slice "+what), sl.Pos(), ok2,
				"the token bytes are sliced at the nonce size only when they are at least that long", why+": a token shorter than the nonce makes decrypt panic instead of returning an error")
		})
		r.Floor("C35.I1", "slicings of the token in decrypt", n, 2)
	}
	c35More(r)
	c35Matcher(r)
	c35MethodAnchored(r)
}

// roleInVariadic: the variadic slice is a fresh array whose element stores include the
// boxed Role field of the record.
func roleInVariadic(v ssa.Value, rec ssa.Value) bool {
	sl, ok := v.(*ssa.Slice)
	if !ok {
		return false
	}
	arr, ok := sl.X.(*ssa.Alloc)
	if !ok {
		return false
	}
	found := false
	for _, u := range core.Uses(arr) {
		ia, ok := u.(*ssa.IndexAddr)
		if !ok {
			continue
		}
		for _, uu := range core.Uses(ia) {
			if st, ok := uu.(*ssa.Store); ok {
				x := core.Strip(st.Val)
				if fr, ok := core.AsField(x); ok && fr.Name == "Role" && fr.Base == rec {
					found = true
				}
			}
		}
	}
	return found
}
