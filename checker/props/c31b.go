package props

import (

	"aurora-verif/checker/core"

	"golang.org/x/tools/go/ssa"
)

// c31Resets (W2): the running totals of a peer (retrieveTraffic, retrieveChequeTraffic,
// transferTraffic, transferChequeTraffic) only ever grow. Outside the constructor every
// assignment to one of them is max(current, x), current + x on a fresh big.Int, or the
// cumulative payout of the cheque being recorded (whose growth C30 / C31 check where the
// cheque is accepted or issued). A plain copy of another field (the on-chain total, say)
// can lower the total: during the 24h refresh a cheque issued after the refresh took its
// snapshot of the persisted cheques is forgotten, and the next cheque repeats a delivered
// cumulative payout; from the cash-out receipt handler the issued total would drop to what
// the peer has cashed.
func c31Resets(r *core.Run, funcs []*ssa.Function) {
	const rule = "C31.W2"
	const pkg = "pkg/settlement/traffic"
	totals := map[string]bool{"retrieveTraffic": true, "retrieveChequeTraffic": true, "transferTraffic": true, "transferChequeTraffic": true}
	n := 0
	done := map[*ssa.Function]bool{}
	for _, top := range funcs {
		for _, f := range core.WithClosures(top) {
			if done[f] {
				continue
			}
			done[f] = true
			core.EachInstr(f, func(_ *ssa.BasicBlock, _ int, in ssa.Instruction) {
				st, ok := in.(*ssa.Store)
				if !ok {
					return
				}
				fr, ok := core.AsField(st.Addr)
				if !ok || fr.Struct != trafficT || !totals[fr.Name] {
					return
				}
				if _, fresh := fr.Base.(*ssa.Alloc); fresh {
					return // constructor literal
				}
				n++
				v := core.Forward(st.Val)
				good, form := false, "a value that is not derived from the current total"
				if c, _ := core.CallOf(v); c != nil {
					args := core.CallArgs(&c.Call)
					hasCur := false
					for _, a := range args {
						if loadsField(trafficT, fr.Name)(core.Forward(a)) {
							hasCur = true
						}
					}
					switch core.CalleeName(&c.Call) {
					case "(*" + pkg + ".Service).maxBigint":
						good = hasCur
					case "(*math/big.Int).Add":
						// on a fresh receiver
						if cc, _ := core.CallOf(core.Forward(args[0])); cc != nil && core.IsCallTo(cc, "builtin.new") {
							good = hasCur
						} else if _, isAlloc := core.Forward(args[0]).(*ssa.Alloc); isAlloc {
							good = hasCur
						}
					}
				} else if src, ok := core.AsField(v); ok {
					if src.Name == "CumulativePayout" {
						good = true
					} else {
						form = "a plain copy of " + core.TypeName(src.Base.Type()) + "." + src.Name
					}
				}
				r.Saw(core.FuncName(f))
				r.Check(rule, lsKey(rule, f, "assignment to "+fr.Name+" cannot lower it"), st.Pos(), good,
					"a running total is assigned max(current, x), current + x, or the cumulative payout of the cheque being recorded", core.FuncName(f)+" assigns Traffic."+fr.Name+" "+form+": the total can drop (a cheque issued during a refresh is forgotten, or the issued total falls to the cashed amount) and the next cheque repeats or undercuts a delivered cumulative payout")
			})
		}
	}
	r.Floor(rule, "assignments to a running total", n, 8)
}
