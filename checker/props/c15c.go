package props

import (
	"aurora-verif/checker/core"

	"golang.org/x/tools/go/ssa"
)

// c15UploadPinEveryChunk (G4): an upload with the pin header counts one pin per chunk of the
// uploaded reference — also for a chunk that is in the store already (shared with another
// reference, or repeated inside the file) — because DeletePin later decrements once per
// occurrence the traversal reports. In localstore.put the setPin call of the upload-pin mode
// does not depend on putUpload's "exists" answer: it is reached on both of its outcomes.
func c15UploadPinEveryChunk(r *core.Run) {
	const rule = "C15.G4"
	fn := r.W.Func("pkg/localstore", "(*DB).put")
	if fn == nil {
		r.Fatal("unresolved anchor pkg/localstore.(*DB).put")
		return
	}
	r.Saw(core.FuncName(fn))
	r.Eval(core.EdgeCount(fn))
	ups := core.Calls(fn, "(*pkg/localstore.DB).putUpload")
	r.Floor(rule, "putUpload calls in put", len(ups), 1)
	isExists := func(base ssa.Value) (bool, bool) {
		ex, ok := core.Forward(base).(*ssa.Extract)
		if !ok || ex.Index != 0 {
			return false, false
		}
		c, _ := core.CallOf(ex.Tuple)
		if c == nil || !core.IsCallTo(c, "(*pkg/localstore.DB).putUpload") {
			return false, false
		}
		return true, true
	}
	had, fresh := core.AtomEdges(fn, isExists)
	n := 0
	for _, c := range core.Calls(fn, "(*pkg/localstore.DB).setPin") {
		n++
		dep := (len(had) > 0 && core.OnlyBehind(fn, c, had)) || (len(fresh) > 0 && core.OnlyBehind(fn, c, fresh))
		r.Check(rule, lsKey(rule, fn, "upload-pin counts every chunk, stored already or not"), c.Pos(), !dep,
			"the pin of an uploaded chunk does not depend on whether the chunk was in the store already", "setPin in put is reached only on one outcome of putUpload's exists answer: chunks shared with another reference (or repeated in the file) are not counted for this reference, and its later unpin takes the other reference's count down to 0")
	}
	r.Floor(rule, "setPin calls in put", n, 1)
}
