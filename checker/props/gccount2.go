package props

import (
	"aurora-verif/checker/core"

	"golang.org/x/tools/go/ssa"
)

// gcCounterFreshRead (Lk3): the value a collection run writes back to the persisted counter
// is computed from a counter value read inside the same batchMu critical section as the
// write. collectGarbage reads gcSize once without the lock to choose its target — puts and
// removals that commit while the run is deleting its candidates change the counter, so the
// value written back must come from a re-read under the lock; writing "value at the start
// minus collected" overwrites those changes and the counter drifts from the per-file counts.
func gcCounterFreshRead(r *core.Run, rule string) {
	gc := lsFunc(r, "(*DB).collectGarbage")
	if gc == nil {
		return
	}
	la := core.NewLockAnalysis(r.W, lsPkg)
	la.SyncCallees["(*pkg/shed.Index).Iterate"] = true
	la.SyncCallees["(pkg/chunkinfo.Interface).DelFile"] = true
	la.Run()
	isGet := func(v ssa.Value) *ssa.Call {
		c, idx := core.CallOf(v)
		if c == nil || idx != 0 {
			return nil
		}
		for _, ic := range lsIndexCalls([]*ssa.Function{gc}) {
			if ic.in == ssa.Instruction(c) && ic.field == "gcSize" && ic.method == "Get" {
				return c
			}
		}
		return nil
	}
	n := 0
	for _, ic := range lsIndexCalls([]*ssa.Function{gc}) {
		if ic.field != "gcSize" || !idxWriteMethods[ic.method] {
			continue
		}
		n++
		val := ic.in.Call.Args[len(ic.in.Call.Args)-1]
		var reads []*ssa.Call
		unresolved := false
		seen := map[ssa.Value]bool{}
		var walk func(v ssa.Value, d int)
		walk = func(v ssa.Value, d int) {
			if v == nil || seen[v] || d > 40 {
				return
			}
			seen[v] = true
			f := core.Forward(v)
			if c := isGet(f); c != nil {
				reads = append(reads, c)
				return
			}
			switch x := f.(type) {
			case *ssa.BinOp:
				walk(x.X, d+1)
				walk(x.Y, d+1)
			case *ssa.Phi:
				for _, e := range x.Edges {
					walk(e, d+1)
				}
			case *ssa.Convert:
				walk(x.X, d+1)
			case *ssa.ChangeType:
				walk(x.X, d+1)
			case *ssa.UnOp:
				// a cell load Forward could not resolve to one reaching store: every
				// store to the cell may be the value
				if a, ok := x.X.(*ssa.Alloc); ok {
					for _, u := range core.Uses(a) {
						if st, ok := u.(*ssa.Store); ok && st.Addr == ssa.Value(a) {
							walk(st.Val, d+1)
						}
					}
				} else if _, isFV := x.X.(*ssa.FreeVar); isFV {
					unresolved = true
				}
			}
		}
		walk(val, 0)
		okAll := len(reads) > 0 && !unresolved
		held := ""
		for _, c := range reads {
			h := la.HeldAt(c)
			if h == nil || !h.Holds(dbT+".batchMu", true) {
				okAll = false
				held = la.HeldAt(c).String()
			}
		}
		r.Check(rule, core.Key(rule, gc, "counter written back from a value read under batchMu"), ic.in.Pos(), okAll,
			"the counter value a run writes back derives from gcSize.Get() calls made with batchMu held", "the value written to gcSize derives from a gcSize.Get() made without DB.batchMu (held: "+held+"): counter changes committed while the run deleted its candidates are overwritten")
	}
	r.Floor(rule, "gcSize write-backs in collectGarbage", n, 1)
}
