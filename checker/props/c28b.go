package props

import (
	"aurora-verif/checker/core"

	"golang.org/x/tools/go/ssa"
)

// c28SignOnce (W2): doRouteReq / doRouteResp extend, in place, the path list of the message
// they are handed (msg.Paths = generatePaths(msg.Paths) appends this node to every path).
// Called in a loop with the same message object, the second call appends this node a second
// time: the next requester receives — and records — a path in which the forwarding node
// occurs twice. A function that accumulates into a field of its pointer parameter is not
// called from inside a loop with an argument that is the same object on every iteration.
func c28SignOnce(r *core.Run) {
	const rule = "C28.W2"
	funcs := r.W.PkgFuncs("pkg/routetab")
	// accumulating callees: p.F = g(… p.F …)
	acc := map[*ssa.Function]map[int]string{}
	for _, fn := range funcs {
		for pi, p := range fn.Params {
			p := p
			core.EachInstr(fn, func(_ *ssa.BasicBlock, _ int, in ssa.Instruction) {
				st, ok := in.(*ssa.Store)
				if !ok {
					return
				}
				fa, ok := st.Addr.(*ssa.FieldAddr)
				if !ok || core.Forward(fa.X) != ssa.Value(p) {
					return
				}
				fr, _ := core.AsField(fa)
				selfDep := false
				seen := map[ssa.Value]bool{}
				var walk func(v ssa.Value, d int)
				walk = func(v ssa.Value, d int) {
					if v == nil || seen[v] || d > 8 || selfDep {
						return
					}
					seen[v] = true
					switch x := v.(type) {
					case *ssa.UnOp:
						if fa2, ok := x.X.(*ssa.FieldAddr); ok && core.Forward(fa2.X) == ssa.Value(p) && fa2.Field == fa.Field {
							selfDep = true
						}
					case *ssa.Call:
						for _, a := range x.Call.Args {
							walk(a, d+1)
						}
					case *ssa.Phi:
						for _, e := range x.Edges {
							walk(e, d+1)
						}
					case *ssa.Slice:
						walk(x.X, d+1)
					}
				}
				walk(st.Val, 0)
				if selfDep {
					if acc[fn] == nil {
						acc[fn] = map[int]string{}
					}
					acc[fn][pi] = fr.Name
				}
			})
		}
	}
	r.Floor(rule, "functions of pkg/routetab that extend a field of the message they are given", len(acc), 2)
	n := 0
	done := map[*ssa.Function]bool{}
	for _, top := range funcs {
		for _, fn := range core.WithClosures(top) {
			if done[fn] {
				continue
			}
			done[fn] = true
			core.EachInstr(fn, func(_ *ssa.BasicBlock, _ int, in ssa.Instruction) {
				c, ok := in.(*ssa.Call)
				if !ok {
					return
				}
				m := acc[c.Call.StaticCallee()]
				if len(m) == 0 {
					return
				}
				h := loopHeader(fn, c.Block())
				for pi, field := range m {
					if pi >= len(c.Call.Args) {
						continue
					}
					arg := c.Call.Args[pi]
					if core.IsNilConst(arg) {
						continue
					}
					n++
					shared := h != nil && loopInvariant(fn, arg, h, 0)
					r.Saw(core.FuncName(fn))
					r.Check(rule, lsKey(rule, fn, c.Call.StaticCallee().Name()+" gets its own message per call"), c.Pos(), !shared,
						"a message is signed (its paths extended by this node) once", core.FuncName(fn)+" calls "+c.Call.StaticCallee().Name()+" in a loop with the same message object: its "+field+" are extended in place on every call, the second recipient gets paths in which this node occurs twice and records a path with a repeated node")
				}
			})
		}
	}
	r.Floor(rule, "calls handing a message to a function that extends it", n, 3)
}
