package props

import (
	"aurora-verif/checker/core"

	"golang.org/x/tools/go/ssa"
)

// c25ListingComplete (E1): "the listing of blocked peers agrees with the per-peer answer" —
// for every stored entry, not only up to the first lapsed one. The state-store callback of
// Blocklist.Peers answers "stop" (first result constant true) only behind a non-nil error
// or behind the test that the key has left the blocklist prefix; a lapsed entry is skipped
// with "continue". Stopping at it hides every blocked peer whose key sorts after it while
// Exists still reports them blocked.
func c25ListingComplete(r *core.Run, cb *ssa.Function) {
	const rule = "C25.E1"
	r.Saw(core.FuncName(cb))
	r.Eval(core.EdgeCount(cb))
	_, failed := core.AtomEdges(cb, func(base ssa.Value) (bool, bool) {
		x, eq, ok := core.NilCmp(base)
		if !ok || x.Type().String() != "error" {
			return false, false
		}
		return true, eq
	})
	// the key left the prefix: strings.HasPrefix / bytes.HasPrefix answering false
	_, foreign := core.AtomEdges(cb, core.BoolCallAtom(func(c *ssa.Call) bool {
		n := core.CalleeName(&c.Call)
		return n == "strings.HasPrefix" || n == "bytes.HasPrefix"
	}))
	ok := core.EdgeSet{}
	for e := range failed {
		ok[e] = true
	}
	for e := range foreign {
		ok[e] = true
	}
	n, stops := 0, 0
	core.EachInstr(cb, func(b *ssa.BasicBlock, _ int, in ssa.Instruction) {
		ret, isRet := in.(*ssa.Return)
		if !isRet || b == cb.Recover || len(ret.Results) != 2 {
			return
		}
		n++
		v := core.Forward(ret.Results[0])
		if c, isC := core.ConstBool(v); isC && !c {
			return // continue
		}
		stops++
		r.Check(rule, lsKey(rule, cb, "listing stops only on an error or past the prefix"), ret.Pos(), len(ok) > 0 && core.OnlyBehind(cb, ret, ok),
			"the listing walks every blocklist entry: it stops only on an error or on a key outside the prefix", "the listing callback can answer 'stop' for an ordinary entry (e.g. a lapsed one): every blocked peer whose key sorts after it is missing from Peers() while Exists() reports it blocked")
	})
	r.Floor(rule, "returns of the listing callback", n, 3)
	r.Floor(rule, "stop-returns of the listing callback", stops, 1)
}
