package props

import (
	"fmt"
	"go/token"
	"strings"

	"aurora-verif/checker/core"

	"golang.org/x/tools/go/ssa"
)

func init() {
	reg("C08", Meta{
		Technique:   "sibling agreement of encrypt-side and decrypt-side cipher parameters (folded constants), constant relations for the reference size, must-guard / bad-edge reachability for the padding rules",
		Explanation: "C08 (chunk encryption invertible, padding exact), structural clauses: (A1) the span and data ciphers are constructed with identical (padding, initial counter, hash) on the encrypting side (pkg/encryption) and the decrypting side (pkg/encryption/store): data (ChunkSize, 0), span (0, ChunkSize/ReferenceSize); (K1) the decrypting store's per-reference size is HashSize+KeyLength = encryption.ReferenceSize = the reference length the encrypting hash-trie writer is built with, and its chunk size is boson.ChunkSize; (G1) Encrypt with padding configured refuses longer input and allocates exactly `padding` output bytes; Decrypt with padding configured refuses any other input length; (P1) the same key and 8/rest split of the chunk is used on both sides. Not decided: the keystream (keccak counter mode) and the length-recovery loop's arithmetic.",
	}, c08)
	reg("C09", Meta{
		Technique:   "must-precede / per-iteration must-follow on SSA (every reference is reported before anything else happens to it), error-propagation rule for the callback",
		Explanation: "C09 (traversal reports the chunks), the 'reports every chunk' direction only: (F1) joiner.IterateChunkAddresses reports the root first and returns the callback's error; processChunkAddresses reports, in every loop iteration, the reference it cut from the intermediate chunk before any `continue` or descent, the reference is data[cursor:cursor+refLength], the loop covers the whole chunk in refLength steps, and a callback error is returned; the recursive descent passes the same callback; (E1) the manifest walker reports node references and value entries and returns the callback's error for both. Not decided: 'no chunk outside the file', the data/pyramid split used for pinning and deletion, and the manifest trie walk itself (external module).",
	}, c09)
}

// newArgs returns the folded (padding, initCtr) and hash constructor name of the
// encryption.New call in fn.
func cipherParams(fn *ssa.Function) (pad, ctr int64, hash string, ok bool) {
	calls := core.Calls(fn, "pkg/encryption.New")
	if len(calls) != 1 {
		return 0, 0, "", false
	}
	a := core.Common(calls[0]).Args
	p, o1 := foldedInt(a[1])
	c, o2 := foldedInt(a[2])
	h := ""
	if f, isF := a[3].(*ssa.Function); isF {
		h = f.String()
	}
	return p, c, h, o1 && o2 && h != ""
}

func c08(r *core.Run) {
	c08CipherAlways(r)
	w := r.W
	chunk := mustConst(r, "pkg/boson", "ChunkSize")
	refSize := mustConst(r, "pkg/encryption", "ReferenceSize")
	hashSize := mustConst(r, "pkg/boson", "HashSize")
	keyLen := mustConst(r, "pkg/encryption", "KeyLength")
	for _, kind := range []string{"newSpanEncryption", "newDataEncryption"} {
		a := w.Func("pkg/encryption", kind)
		b := w.Func("pkg/encryption/store", kind)
		if a == nil || b == nil {
			r.Fatal("unresolved anchor %s in pkg/encryption or pkg/encryption/store", kind)
			continue
		}
		r.Saw(core.FuncName(a))
		r.Saw(core.FuncName(b))
		r.Eval(core.EdgeCount(a) + core.EdgeCount(b))
		p1, c1, h1, ok1 := cipherParams(a)
		p2, c2, h2, ok2 := cipherParams(b)
		want := ""
		okVal := false
		if kind == "newDataEncryption" {
			okVal = p1 == chunk && c1 == 0
			want = fmt.Sprintf("(padding=ChunkSize=%d, initCtr=0)", chunk)
		} else {
			okVal = p1 == 0 && refSize > 0 && c1 == chunk/refSize
			want = fmt.Sprintf("(padding=0, initCtr=ChunkSize/ReferenceSize=%d)", chunk/refSize)
		}
		r.Check("C08.A1", "C08.A1@pkg/encryption+store#"+kind+" parameters agree", a.Pos(), ok1 && ok2 && p1 == p2 && c1 == c2 && h1 == h2 && okVal,
			"encrypting and decrypting side build the "+kind[3:]+" cipher with the same "+want,
			fmt.Sprintf("cipher parameters differ or are not %s: encrypt side (%d,%d,%s) decrypt side (%d,%d,%s)", want, p1, c1, h1, p2, c2, h2))
	}
	r.Check("C08.K1", "C08.K1@pkg/encryption#ReferenceSize = HashSize+KeyLength", token.NoPos, refSize == hashSize+keyLen,
		"an encrypted reference is address plus key", fmt.Sprintf("ReferenceSize=%d but HashSize+KeyLength=%d", refSize, hashSize+keyLen))
	if fn := w.Func("pkg/encryption/store", "decryptChunkData"); fn == nil {
		r.Fatal("unresolved anchor pkg/encryption/store.decryptChunkData")
	} else {
		r.Saw(core.FuncName(fn))
		r.Eval(core.EdgeCount(fn))
		// constants used in the length-recovery loop
		usesChunk, usesRef := false, false
		core.EachInstr(fn, func(_ *ssa.BasicBlock, _ int, in ssa.Instruction) {
			b, ok := in.(*ssa.BinOp)
			if !ok {
				return
			}
			for _, op := range []ssa.Value{b.X, b.Y} {
				if k, isC := foldedInt(op); isC {
					if (b.Op == token.GTR || b.Op == token.QUO) && k == chunk {
						usesChunk = true
					}
					if b.Op == token.MUL && k == refSize {
						usesRef = true
					}
				}
			}
		})
		r.Check("C08.K1", core.Key("C08.K1", fn, "length recovery uses ChunkSize and ReferenceSize"), fn.Pos(), usesChunk && usesRef,
			"the decrypting reader recovers payload lengths with the writer's chunk size and 64-byte references", "decryptChunkData's length recovery no longer uses boson.ChunkSize / (HashSize+KeyLength)")
		// I1/P2: the number of payload bytes kept is reduced from the span until it fits a
		// chunk (the interval analysis proves <= ChunkSize at the strip), and it is computed
		// from the span by arithmetic only — never replaced by a constant (a clamp would keep
		// padding bytes for trees deeper than one level).
		ia := core.Intervals(fn)
		n := 0
		core.EachInstr(fn, func(_ *ssa.BasicBlock, _ int, in ssa.Instruction) {
			sl, ok := in.(*ssa.Slice)
			if !ok || sl.High == nil {
				return
			}
			if _, isC := core.ConstInt(sl.High); isC {
				return
			}
			n++
			iv := ia.ValueAt(sl.High, sl)
			r.Check("C08.I1", core.Key("C08.I1", fn, "payload length reduced until it fits a chunk"), sl.Pos(), !ia.Incomplete && iv.Hi <= chunk,
				"at the strip the payload length is proven <= ChunkSize: the span is reduced level by level until it fits", fmt.Sprintf("the payload length can reach %s at the strip: the span-to-length reduction stops before the length fits one chunk (trees deeper than the reduction handles are mis-stripped or panic)", fmtBound(iv.Hi)))
			r.Check("C08.P2", core.Key("C08.P2", fn, "payload length computed from the span by arithmetic only"), sl.Pos(), arithmeticOf(sl.High, func(v ssa.Value) bool {
				c, _ := core.CallOf(v)
				return c != nil && core.IsCallTo(c, "(encoding/binary.littleEndian).Uint64")
			}),
				"the kept length is the span pushed through the ceil-divide/multiply reduction, with no constant substituted on any path", "on some path the payload length is a constant (clamp) or comes from something other than the decrypted span: padding bytes are kept as payload")
		})
		r.Floor("C08.I1", "variable-length strips in decryptChunkData", n, 1)
		levelReductionRule(r, fn, "C08.K2")
	}
	// G1 Encrypt / Decrypt padding rules
	const E = "pkg/encryption.Encryption"
	if fn := w.Func("pkg/encryption", "(*Encryption).Encrypt"); fn == nil {
		r.Fatal("unresolved anchor pkg/encryption.(*Encryption).Encrypt")
	} else {
		r.Saw(core.FuncName(fn))
		r.Eval(core.EdgeCount(fn))
		data := fn.Params[1]
		isLenData := func(v ssa.Value) bool {
			c, ok := isBuiltinCall(v, "len")
			return ok && c.Call.Args[0] == ssa.Value(data)
		}
		tooLong, _ := core.AtomEdges(fn, cmpAtom(isLenData, loadsField(E, "padding"), ">"))
		fixed, _ := core.AtomEdges(fn, cmpAtom(loadsField(E, "padding"), func(y ssa.Value) bool { k, ok := core.ConstInt(y); return ok && k == 0 }, ">"))
		n := 0
		core.EachInstr(fn, func(_ *ssa.BasicBlock, _ int, in ssa.Instruction) {
			ms, ok := in.(*ssa.MakeSlice)
			if !ok {
				return
			}
			n++
			r.Check("C08.G1", core.Key("C08.G1", fn, "refuse input longer than padding"), ms.Pos(), len(tooLong) > 0 && !core.ReachableFromEdges(fn, tooLong, ms, false),
				"with padding configured, input longer than the padding is refused", "Encrypt produces output although the input is longer than the padding (it would be truncated)")
			// output length: padding on the fixed-padding path, len(data) otherwise
			okLen := false
			if phi, isPhi := ms.Len.(*ssa.Phi); isPhi {
				hasPad, hasLen := false, false
				for i, e := range phi.Edges {
					if loadsField(E, "padding")(core.Forward(e)) {
						// this edge must come from the padding>0 side
						pred := phi.Block().Preds[i]
						fromFixed := false
						for fe := range fixed {
							if fe.To == pred || core.ReachBlocks([]*ssa.BasicBlock{fe.To}, nil)[pred] {
								fromFixed = true
							}
						}
						hasPad = fromFixed
					}
					if isLenData(e) {
						hasLen = true
					}
				}
				okLen = hasPad && hasLen && len(phi.Edges) == 2
			}
			r.Check("C08.G1", core.Key("C08.G1", fn, "ciphertext length = padding when configured"), ms.Pos(), okLen,
				"the ciphertext is exactly `padding` bytes long when padding is configured, else as long as the input", "Encrypt's output length is not (padding if padding>0 else len(data))")
		})
		r.Floor("C08.G1", "output allocations in Encrypt", n, 1)
	}
	if fn := w.Func("pkg/encryption", "(*Encryption).Decrypt"); fn == nil {
		r.Fatal("unresolved anchor pkg/encryption.(*Encryption).Decrypt")
	} else {
		r.Saw(core.FuncName(fn))
		r.Eval(core.EdgeCount(fn))
		data := fn.Params[1]
		isLenData := func(v ssa.Value) bool {
			c, ok := isBuiltinCall(v, "len")
			return ok && c.Call.Args[0] == ssa.Value(data)
		}
		good := core.EdgeSet{}
		_, notFixed := core.AtomEdges(fn, cmpAtom(loadsField(E, "padding"), func(y ssa.Value) bool { k, ok := core.ConstInt(y); return ok && k == 0 }, ">"))
		same, _ := core.AtomEdges(fn, cmpAtom(isLenData, loadsField(E, "padding"), "=="))
		for e := range notFixed {
			good[e] = true
		}
		for e := range same {
			good[e] = true
		}
		core.EachInstr(fn, func(_ *ssa.BasicBlock, _ int, in ssa.Instruction) {
			ms, ok := in.(*ssa.MakeSlice)
			if !ok {
				return
			}
			r.Check("C08.G1", core.Key("C08.G1", fn, "refuse length != padding"), ms.Pos(), len(notFixed) > 0 && len(same) > 0 && core.OnlyBehind(fn, ms, good),
				"with padding configured, only input of exactly the padded length is decrypted", "Decrypt accepts input whose length differs from the configured padding")
		})
	}
	// P1 chunk split and key on both sides
	enc := w.Func("pkg/encryption", "(*chunkEncrypter).EncryptChunk")
	dec := w.Func("pkg/encryption/store", "decrypt")
	if enc == nil || dec == nil {
		r.Fatal("unresolved anchor EncryptChunk / store.decrypt")
		return
	}
	split := func(fn *ssa.Function, chunkData ssa.Value, spanCtor, dataCtor, method string) bool {
		r.Saw(core.FuncName(fn))
		r.Eval(core.EdgeCount(fn))
		okSpan, okData := false, false
		for _, c := range core.Calls(fn, method) {
			call := c.(*ssa.Call)
			recv := core.CallArgs(&call.Call)[0]
			ctor, _ := core.CallOf(recv)
			arg, isSl := core.CallArgs(&call.Call)[1].(*ssa.Slice)
			if ctor == nil || !isSl || arg.X != chunkData {
				continue
			}
			if core.IsCallTo(ctor, spanCtor) {
				hi, ok := foldedInt(arg.High)
				okSpan = ok && hi == 8 && arg.Low == nil
			}
			if core.IsCallTo(ctor, dataCtor) {
				lo, ok := foldedInt(arg.Low)
				okData = ok && lo == 8 && arg.High == nil
			}
		}
		return okSpan && okData
	}
	okE := split(enc, enc.Params[1], "pkg/encryption.newSpanEncryption", "pkg/encryption.newDataEncryption", "(pkg/encryption.Encrypter).Encrypt")
	okD := split(dec, dec.Params[0], "pkg/encryption/store.newSpanEncryption", "pkg/encryption/store.newDataEncryption", "(pkg/encryption.Decrypter).Decrypt")
	r.Check("C08.P1", "C08.P1@pkg/encryption+store#span = first 8 bytes, data = rest, on both sides", enc.Pos(), okE && okD,
		"both sides treat the first 8 bytes as span and the rest as data, each with its own cipher", "the span/data split or cipher assignment differs between EncryptChunk and store.decrypt")
	c08Transform(r)
	// the decrypting reader strips padding by the (clear) span of each intermediate chunk:
	// the hash trie must carry the clear span upwards, next to the encrypted data
	hashtrieRules(r, "C08")
}

func c09(r *core.Run) {
	w := r.W
	const J = "pkg/file/joiner.joiner"
	if dc := w.Func("pkg/encryption/store", "decryptChunkData"); dc != nil {
		r.Saw(core.FuncName(dc))
		levelReductionRule(r, dc, "C09.K2")
	} else {
		r.Fatal("unresolved anchor pkg/encryption/store.decryptChunkData")
	}
	it := w.Func("pkg/file/joiner", "(*joiner).IterateChunkAddresses")
	pc := w.Func("pkg/file/joiner", "(*joiner).processChunkAddresses")
	if it == nil || pc == nil {
		r.Fatal("unresolved anchor joiner.IterateChunkAddresses / processChunkAddresses")
		return
	}
	r.Saw(core.FuncName(it))
	r.Eval(core.EdgeCount(it))
	fnCalls := func(fn *ssa.Function, p ssa.Value) []*ssa.Call {
		var out []*ssa.Call
		core.EachInstr(fn, func(_ *ssa.BasicBlock, _ int, in ssa.Instruction) {
			if c, ok := in.(*ssa.Call); ok && !c.Call.IsInvoke() && core.Forward(c.Call.Value) == p {
				out = append(out, c)
			}
		})
		return out
	}
	errReturned := func(fn *ssa.Function, c *ssa.Call) bool {
		ok, _ := errMustSurface(fn, c)
		return ok
	}
	// root first
	rootCalls := fnCalls(it, it.Params[1])
	okRoot := len(rootCalls) == 1
	if okRoot {
		c := rootCalls[0]
		okRoot = loadsField(J, "addr")(core.Forward(c.Call.Args[0])) && errReturned(it, c)
		for _, d := range core.Calls(it, "(*pkg/file/joiner.joiner).processChunkAddresses") {
			if !core.Precedes(c, d) {
				okRoot = false
			}
			if core.Common(d).Args[2] != ssa.Value(it.Params[1]) {
				okRoot = false
			}
		}
	}
	r.Check("C09.F1", core.Key("C09.F1", it, "root reported first, error returned"), it.Pos(), okRoot,
		"the root chunk is reported before the descent and a callback error aborts the traversal", "IterateChunkAddresses does not report j.addr first / drops the callback's error / descends with another callback")
	// loop
	r.Saw(core.FuncName(pc))
	r.Eval(core.EdgeCount(pc))
	cb := pc.Params[2]
	data := pc.Params[3]
	calls := fnCalls(pc, cb)
	r.Floor("C09.F1", "callback invocations in processChunkAddresses", len(calls), 1)
	for _, c := range calls {
		// argument: NewAddress(data[cursor:cursor+refLength])
		okArg := false
		var cursor ssa.Value
		if na, _ := core.CallOf(c.Call.Args[0]); na != nil && core.IsCallTo(na, "pkg/boson.NewAddress") {
			if sl, ok := na.Call.Args[0].(*ssa.Slice); ok && sl.X == ssa.Value(data) {
				cursor = sl.Low
				if add, ok := sl.High.(*ssa.BinOp); ok && add.Op == token.ADD && add.X == sl.Low && loadsField(J, "refLength")(core.Forward(add.Y)) {
					okArg = true
				}
			}
		}
		r.Check("C09.F1", core.Key("C09.F1", pc, "reported reference = data[cursor:cursor+refLength]"), c.Pos(), okArg,
			"the reference reported is the one cut from the intermediate chunk at the cursor", "the callback is not given NewAddress(data[cursor:cursor+j.refLength])")
		// cursor: phi(0, cursor + refLength), loop bound len(data)
		okLoop := false
		if phi, ok := cursor.(*ssa.Phi); ok {
			zero, step := false, false
			for _, e := range phi.Edges {
				if k, isC := core.ConstInt(e); isC && k == 0 {
					zero = true
				}
				if add, isAdd := e.(*ssa.BinOp); isAdd && add.Op == token.ADD && add.X == ssa.Value(phi) && loadsField(J, "refLength")(core.Forward(add.Y)) {
					step = true
				}
			}
			bound, _ := core.AtomEdges(pc, cmpAtom(func(v ssa.Value) bool { return v == ssa.Value(phi) }, func(y ssa.Value) bool {
				l, ok := isBuiltinCall(y, "len")
				return ok && l.Call.Args[0] == ssa.Value(data)
			}, "<"))
			// equivalent for whole references (and safe for a payload that is not a
			// multiple of the reference length): cursor + refLength <= len(data)
			bound2, _ := core.AtomEdges(pc, cmpAtom(func(v ssa.Value) bool {
				add, isAdd := v.(*ssa.BinOp)
				return isAdd && add.Op == token.ADD && add.X == ssa.Value(phi) && loadsField(J, "refLength")(core.Forward(add.Y))
			}, func(y ssa.Value) bool {
				l, ok := isBuiltinCall(y, "len")
				return ok && l.Call.Args[0] == ssa.Value(data)
			}, "<="))
			okLoop = zero && step && (len(bound) > 0 || len(bound2) > 0)
		}
		r.Check("C09.F1", core.Key("C09.F1", pc, "loop covers the whole chunk in reference steps"), c.Pos(), okLoop,
			"the loop visits every whole reference of the intermediate chunk (cursor from 0 to len(data) in refLength steps)", "the reference loop does not run cursor = 0; cursor < len(data) (or cursor+refLength <= len(data)); cursor += refLength")
		// first thing in the iteration: from the loop header to the callback no other branch out
		h := loopHeader(pc, c.Block())
		okFirst := h != nil
		if okFirst {
			// every path from the loop body entry to the back edge passes the callback block
			back := core.BackEdges(pc)
			avoid := core.EdgeSet{}
			for e := range back {
				avoid[e] = true
			}
			var bodyEntry *ssa.BasicBlock
			if ifi, ok := h.Instrs[len(h.Instrs)-1].(*ssa.If); ok {
				_ = ifi
				bodyEntry = h.Succs[0]
			}
			if bodyEntry == nil || !c.Block().Dominates(c.Block()) {
				okFirst = false
			} else {
				// callback block must dominate every in-loop block other than the header/body entry prefix
				for _, b := range pc.Blocks {
					if !loopContains(pc, h, b) || b == h {
						continue
					}
					if b != c.Block() && !c.Block().Dominates(b) && !b.Dominates(c.Block()) {
						okFirst = false
					}
				}
			}
		}
		r.Check("C09.F1", core.Key("C09.F1", pc, "reported before continue / descent"), c.Pos(), okFirst,
			"in every iteration the reference is reported before the iteration can continue or descend", "an in-loop path bypasses the callback (a reference can be skipped)")
		r.Check("C09.F1", core.Key("C09.F1", pc, "callback error returned"), c.Pos(), errReturned(pc, c),
			"a callback error aborts the traversal and is returned", "processChunkAddresses drops the callback's error")
		// P2: each reference is classified (data chunk vs. subtree to descend) by the section
		// size computed for its own position in the chunk
		secs := core.Calls(pc, "pkg/file/joiner.subtrieSection")
		r.Floor("C09.P2", "subtrieSection calls in processChunkAddresses", len(secs), 1)
		for _, sc := range secs {
			a := core.Common(sc).Args
			okSec := len(a) == 4 && a[0] == ssa.Value(data) && cursor != nil && (a[1] == cursor || core.SameExpr(a[1], cursor)) &&
				loadsField(J, "refLength")(core.Forward(a[2])) && a[3] == ssa.Value(pc.Params[4])
			r.Check("C09.P2", core.Key("C09.P2", pc, "section size of the reference at the cursor"), sc.Pos(), okSec,
				"the data-chunk / subtree decision for a reference uses subtrieSection(data, cursor, j.refLength, subTrieSize) at that reference's own cursor", "the section size is not computed for the reported reference's own position (the last reference of a chunk can sit on a shallower level than the first): a data chunk is descended into or a subtree is listed as a data chunk")
		}
	}
	// recursion passes the same callback
	okRec := false
	for _, cl := range core.Closures(pc) {
		for _, d := range core.Calls(cl, "(*pkg/file/joiner.joiner).processChunkAddresses") {
			a := core.Common(d).Args[2]
			if p, ok := core.LoadedFrom(a); ok {
				a = p
			}
			if fv, ok := a.(*ssa.FreeVar); ok && fv.Name() == cb.Name() {
				okRec = true
			}
		}
	}
	r.Check("C09.F1", core.Key("C09.F1", pc, "descent keeps the callback"), pc.Pos(), okRec,
		"the recursive descent reports to the same callback", "the recursive call does not pass the caller's callback")

	// E1 manifest walker
	mf := w.Func("pkg/manifest", "(*mantarayManifest).IterateAddresses")
	if mf == nil {
		r.Fatal("unresolved anchor pkg/manifest.(*mantarayManifest).IterateAddresses")
		return
	}
	n := 0
	for _, cl := range core.Closures(mf) {
		var cbv ssa.Value
		for _, fv := range cl.FreeVars {
			if fv.Name() == mf.Params[2].Name() {
				cbv = fv
			}
		}
		if cbv == nil {
			continue
		}
		r.Saw(core.FuncName(cl))
		r.Eval(core.EdgeCount(cl))
		var calls []*ssa.Call
		core.EachInstr(cl, func(_ *ssa.BasicBlock, _ int, in ssa.Instruction) {
			if c, ok := in.(*ssa.Call); ok && !c.Call.IsInvoke() {
				v := c.Call.Value
				if p, isLoad := core.LoadedFrom(v); isLoad {
					v = p
				}
				if v == cbv {
					calls = append(calls, c)
				}
			}
		})
		for _, c := range calls {
			n++
			what := "node entry"
			if na, _ := core.CallOf(c.Call.Args[0]); na != nil {
				if rc, _ := core.CallOf(na.Call.Args[0]); rc != nil && core.CalleeFunc(&rc.Call) != nil && core.CalleeFunc(&rc.Call).Name() == "Reference" {
					what = "node reference"
				}
			}
			r.Check("C09.E1", core.Key("C09.E1", mf, "callback error returned for "+what), c.Pos(), errReturnedGeneric(cl, c),
				"the manifest walker returns the callback's error", "the manifest walker drops the error the callback returned for a "+what)
			// G2: the report is guarded by nothing but "there is something to report": the
			// walk error, node != nil, Reference() != nil / IsValueType() && len(Entry()) > 0,
			// the empty-address workaround, and the previous report's error
			var extra []string
			for _, b := range cl.Blocks {
				ifi, ok := b.Instrs[len(b.Instrs)-1].(*ssa.If)
				if !ok || !b.Dominates(c.Block()) || b == c.Block() {
					continue
				}
				r0 := core.ReachBlocks([]*ssa.BasicBlock{b.Succs[0]}, nil)[c.Block()] || b.Succs[0] == c.Block()
				r1 := core.ReachBlocks([]*ssa.BasicBlock{b.Succs[1]}, nil)[c.Block()] || b.Succs[1] == c.Block()
				if r0 == r1 {
					continue // not a guard of the report
				}
				base, _ := core.Normalize(ifi.Cond)
				if !allowedWalkerGuard(base) {
					extra = append(extra, w.Pos(ifi.Cond.Pos()))
				}
			}
			r.Check("C09.G2", core.Key("C09.G2", mf, what+" reported whenever present"), c.Pos(), len(extra) == 0,
				"the "+what+" is handed to the callback under no condition other than its presence", "the report of the "+what+" depends on an additional condition ("+strings.Join(extra, ", ")+"): some manifest nodes' addresses (e.g. a file whose path is a prefix of another path) are never reported, so pin/unpin/delete and the pyramid miss chunks")
		}
	}
	r.Floor("C09.E1", "callback invocations in the manifest walker", n, 2)
	c09Pyramid(r)
}

// errReturnedGeneric: on the err != nil edge of call c every reachable return returns
// that error (the error may have been assigned to a variable first).
func errReturnedGeneric(fn *ssa.Function, c *ssa.Call) bool {
	_, bad := core.AtomEdges(fn, core.ErrNilAtom(func(x *ssa.Call) bool { return x == c }))
	if len(bad) == 0 {
		return false
	}
	reach := core.ReachBlocks(edgeTargets(bad), nil)
	n := 0
	for b := range reach {
		ret, isRet := b.Instrs[len(b.Instrs)-1].(*ssa.Return)
		if !isRet {
			continue
		}
		// only returns directly on the error branch count: the first return reachable
		if !isDirectSucc(bad, b) {
			continue
		}
		n++
		if cc, _ := core.CallOf(ret.Results[len(ret.Results)-1]); cc != c {
			return false
		}
	}
	return n > 0
}

func isDirectSucc(es core.EdgeSet, b *ssa.BasicBlock) bool {
	for e := range es {
		if e.To == b {
			return true
		}
	}
	return false
}

// levelReductionRule (C08.K2 / C09.K2): counting how many chunks / references hold N bytes
// rounds UP: every division of the span-derived length by a constant d in decryptChunkData is
// (x + d-1) / d. The traversal of an encrypted file walks the references that survive this
// strip: one reference too many (or too few) is a chunk address that was never written (or a
// written chunk that is not reported).
func levelReductionRule(r *core.Run, fn *ssa.Function, rule string) {
	// K2: counting how many chunks / references hold N bytes rounds UP: every division of
	// the span-derived length by a constant d is (x + d-1) / d
	nq := 0
	core.EachInstr(fn, func(_ *ssa.BasicBlock, _ int, in ssa.Instruction) {
		q, ok := in.(*ssa.BinOp)
		if !ok || q.Op != token.QUO {
			return
		}
		d, isC := foldedInt(q.Y)
		if !isC || d <= 1 {
			return
		}
		fromSpan := arithmeticOf(q.X, func(v ssa.Value) bool {
			c, _ := core.CallOf(v)
			return c != nil && core.IsCallTo(c, "(encoding/binary.littleEndian).Uint64")
		})
		if !fromSpan {
			return
		}
		nq++
		// total constant offset added to the variable part, in any spelling
		// (x + (d-1), (x + d) - 1, …)
		off, v := int64(0), q.X
		for i := 0; i < 4; i++ {
			b, isB := v.(*ssa.BinOp)
			if !isB || (b.Op != token.ADD && b.Op != token.SUB) {
				break
			}
			if k, isK := foldedInt(b.Y); isK {
				if b.Op == token.ADD {
					off += k
				} else {
					off -= k
				}
				v = b.X
				continue
			}
			if k, isK := foldedInt(b.X); isK && b.Op == token.ADD {
				off += k
				v = b.Y
				continue
			}
			break
		}
		okCeil := off == d-1
		r.Check(rule, core.Key(rule, fn, "level reduction rounds up"), q.Pos(), okCeil,
			"the number of children needed for N bytes is ceil(N/d): the dividend is x + (d-1)", fmt.Sprintf("the span-derived length is divided by %d without adding %d first (rounds down): a partly filled last child is not counted and its reference is stripped as padding", d, d-1))
	})
	r.Floor(rule, "divisions of the span-derived length in decryptChunkData", nq, 1)
}
