package props

import (
	"aurora-verif/checker/core"

	"golang.org/x/tools/go/ssa"
)

func init() {
	reg("C21", Meta{
		Technique:   "lockset (guarded-by) analysis of PSlice.peers + copy-on-write discipline rule (no element store / copy into an existing bin array)",
		Explanation: "C21 (proximity-indexed peer sets), race-freedom clause only: (Lk1) every read of PSlice.peers (the bins array and its bin headers) holds PSlice.mu at least in read mode and every write holds it in write mode, in all methods (helpers index/po inherit the caller's lock: ∩ over their call sites); (W1) the only accesses outside the lock are iterations over a bin header read under the lock, which is race-free because no method stores into, or copies into, an element of an existing bin array — Remove writes only into a fresh make(), Add only appends (beyond every reader's length) or copies into a fresh make(), and a bin header stored back into the bins array is never a truncating re-slice of an existing bin (which would let the next append overwrite a slot an older snapshot still covers). Not decided: set semantics (exactly-once membership, batch duplicates, iteration order) — value reasoning.",
		Assumptions: []string{"append writes only at indices >= the old length"},
	}, c21)
}

func c21(r *core.Run) {
	c21Derived(r)
	w := r.W
	const T = "pkg/topology/pslice.PSlice"
	la := core.NewLockAnalysis(w, "pkg/topology/pslice")
	la.Run()
	n := la.CheckGuarded(r, "C21.Lk1", T, "peers", T+".mu", nil)
	r.Floor("C21.Lk1", "accesses to PSlice.peers", n, 6)

	psliceCopyOnWrite(r, "C21.W1")
	psliceRules(r, "C21")
}

// psliceCopyOnWrite (C21.W1, also run as C29.W3): elements are only written into freshly
// allocated bins. hive2.onFindNode (C29 "never repeats a peer") walks bin snapshots through
// Kad.EachPeer / EachKnownPeer outside the set's lock: an in-place removal moves a peer into
// a slot the walk has yet to read, and the reply lists that peer twice.
func psliceCopyOnWrite(r *core.Run, rule string) {
	w := r.W
	const T = "pkg/topology/pslice.PSlice"
	// W1: element stores / copy destinations that alias an existing bin
	fromPeers := func(v ssa.Value) bool {
		return core.DerivesFrom(v, func(x ssa.Value) bool { return loadsField(T, "peers")(x) }, nil)
	}
	funcs := w.PkgFuncs("pkg/topology/pslice")
	nf := 0
	for _, fn := range funcs {
		var bad ssa.Instruction
		touched := false
		core.EachInstr(fn, func(_ *ssa.BasicBlock, _ int, in ssa.Instruction) {
			switch x := in.(type) {
			case *ssa.Store:
				ia, ok := x.Addr.(*ssa.IndexAddr)
				if !ok {
					return
				}
				// storing a bin header into the bins array (s.peers[po] = …): the new header
				// must not be a truncating re-slice of an existing bin — it would keep the
				// old backing array, and the next append would overwrite a slot that an
				// iterator holding the longer, older header is still going to read
				if loadsField(T, "peers")(core.Forward(ia.X)) {
					touched = true
					if sl, isSlice := core.Forward(x.Val).(*ssa.Slice); isSlice && sl.High != nil && fromPeers(sl.X) {
						bad = in
					}
					return
				}
				if core.TypeName(x.Val.Type()) != "pkg/boson.Address" {
					return
				}
				touched = true
				if fromPeers(ia.X) {
					bad = in
				}
			case *ssa.Call:
				if _, ok := isBuiltinCall(x, "copy"); ok {
					touched = true
					if fromPeers(x.Call.Args[0]) {
						bad = in
					}
				}
			}
		})
		if !touched {
			continue
		}
		nf++
		r.Saw(core.FuncName(fn))
		r.Eval(core.EdgeCount(fn))
		pos := fn.Pos()
		if bad != nil {
			pos = bad.Pos()
		}
		r.Check(rule, core.Key(rule, fn, "no in-place write into a shared bin"), pos, bad == nil,
			"elements are only written into freshly allocated bins (copy-on-write), so a bin header read under the lock can be iterated without it",
			"an element of an existing bin array is overwritten in place: EachBin/EachBinRev iterate bin snapshots outside the lock and would race")
	}
	r.Floor(rule, "methods writing bin elements", nf, 2)
}
