package props

// extraNotes4: clauses added in round 4 (merged into extraNotes before registration).
var extraNotes4 = map[string][2]string{
	"C08": {"rounding rule for the level reduction", "(K2) in decryptChunkData every division of the span-derived length by the per-level capacity rounds up ((x + d-1)/d), so a partially filled last reference is still counted."},
	"C09": {"threshold rule for the pyramid walk", "(K1) GetPyramid skips the walk over intermediate chunks only for a single-chunk file (span <= ChunkSize), for no larger threshold."},
	"C13": {"provenance rule for the counter write-back", "(P2) the value collectGarbage writes back to gcSize does not depend on any variable accumulated by the candidate-selection callback handed to gcIndex.Iterate."},
	"C17": {"coverage rule of the all-bits-set test behind the fully-downloaded report", "(V1) BitVector.Equals answers true only after a counting loop from 0 to bv.len (bit form, advancing only behind Get(i)) or to bv.len/8 (byte form, advancing only behind b[j]==0xff, the tail compared under the mask 1<<(len%8)-1) has run to its end; (V2) isDownload answers the constant false or Equals of a vector read from the presence table."},
	"C19": {"must-stage rule", "(F3) every return of a shed *InBatch method is preceded on all paths by a staging call on the batch parameter, or lies only behind a non-nil error of some call — no method decides from the currently stored value to skip the staging; (W2) every append onto Index.prefix (the filter prefix of Iterate / First / Last) starts from bytes clipped to their length, at the site or at every store of the field — the shared prefix bytes are never written."},
	"C39": {"coverage rule of the all-bits-set test", "(V1) as C17.V1."},
	"C22": {"adjacency rule for the saturation pass", "(G4) in recalcDepth's saturation callback the cursor cell (compared == with the peer's bin) is set to the peer's bin only behind bin <= cursor+1: a bin with no reachable peer is not passed over."},
	"C20": {"scan-width rule", "(K1) the byte limit of the comparison loop in Proximity / ExtendedProximity starts from a constant K with K*8 >= the function's own cap (MaxPO / ExtendedPO)."},
}

var _ = mergeNotes4()

func mergeNotes4() bool {
	for id, n := range extraNotes4 {
		if old, ok := extraNotes[id]; ok {
			extraNotes[id] = [2]string{old[0] + "; " + n[0], old[1] + " " + n[1]}
		} else {
			extraNotes[id] = n
		}
	}
	return true
}
