package props

// extraNotes4: clauses added in round 4 (merged into extraNotes before registration).
var extraNotes4 = map[string][2]string{
	"C08": {"rounding rule for the level reduction", "(K2) in decryptChunkData every division of the span-derived length by the per-level capacity rounds up ((x + d-1)/d), so a partially filled last reference is still counted."},
	"C09": {"threshold rule for the pyramid walk", "(K1) GetPyramid skips the walk over intermediate chunks only for a single-chunk file (span <= ChunkSize), for no larger threshold."},
	"C13": {"provenance, freshness and write-off rules for the counter write-back", "(P2) the value collectGarbage writes back to gcSize does not depend on any variable accumulated by the candidate-selection callback handed to gcIndex.Iterate; (Lk3) it derives from gcSize.Get() calls made with batchMu held; (G4) the branch that writes the whole counter off is guarded by the emptiness of the slice the selection callback fills; (G5) setPin lowers its counter delta only behind the successful read of the root's gc-index entry."},
	"C17": {"coverage rule of the all-bits-set test behind the fully-downloaded report", "(V1) BitVector.Equals answers true only after a counting loop from 0 to bv.len (bit form, advancing only behind Get(i)) or to bv.len/8 (byte form, advancing only behind b[j]==0xff, the tail compared under the mask 1<<(len%8)-1) has run to its end; (V2) isDownload answers the constant false or Equals of a vector read from the presence table; (F3) in the reload callback of initChunkInfoDiscover every return is preceded by putChunkInfoDiscover, lies behind a non-nil error, or is the foreign-key stop; (F4) a fresh per-file entry of the discovery table (presence[file] = make(...)) is followed on every path to the exit by an insertion into it."},
	"C19": {"must-stage rule", "(F3) every return of a shed *InBatch method is preceded on all paths by a staging call on the batch parameter, or lies only behind a non-nil error of some call — no method decides from the currently stored value to skip the staging; (W2) every append onto Index.prefix (the filter prefix of Iterate / First / Last) starts from bytes clipped to their length, at the site or at every store of the field — the shared prefix bytes are never written; (G4) before the walk Index.Iterate steps the cursor only behind bytes.Equal(start key, cursor key); (P4) in Index.Get / Fill the receiver of Item.Merge is the item decoded by decodeValueFunc, the argument the caller's item."},
	"C39": {"coverage rules", "(V1) as C17.V1; (V2) every counting loop of a BitVector method starts its counter at 0 and only advances it by one (a sufficient condition: a correct skip-ahead optimisation would be reported for review)."},
	"C22": {"adjacency rule for the saturation pass", "(G4) in recalcDepth's saturation callback the cursor cell (compared == with the peer's bin) is set to the peer's bin only behind bin <= cursor+1: a bin with no reachable peer is not passed over."},
	"C12": {"removal-list rule shared with C16", "(G4) = C16.G1: the list of chunks an eviction may delete (getUnRepeatChunk) never holds a chunk whose per-file reference count exceeds one."},
	"C25": {"choice rule for the written duration", "(G2) on the edges carrying each alternative into the written duration: the stored duration is kept only where it is 0 (forever) or the request is not 0; the requested one is written only where the stored one is not 0 and the request is 0 or not smaller."},
	"C29": {"requested-orders test", "(G4) inArray answers true only behind an equality of the proximity with an element of the requested orders, neither side narrowed first (uint8(order) maps 258 onto 2)."},
	"C31": {"monotone-write rule for the running totals", "(W2) outside the constructor every assignment to retrieveTraffic / retrieveChequeTraffic / transferTraffic / transferChequeTraffic is max(current, x), current + x on a fresh big.Int, or the cumulative payout of the cheque being recorded — never a plain copy that could lower it; (W3) chequeStore.PutChainRetrieveTraffic (the persisted cashed amount) is handed only a value returned by the chain's TransAmount."},
	"C33": {"restore-set exhaustiveness", "(H1) in trafficInit the keys of LastSendCheques() and LastReceivedCheques() are inserted into the address set that getAllAddress / replaceTraffic restore; (Lk3) the balance Pay hands to issue is computed from Traffic fields read with the peer's mutex held, in the critical section that issues and records the cheque."},
	"C40": {"ordering rule for subscription vs unsubscription", "(O1) Subscribe queues the subscription before starting the unsubscribing goroutine, and either both travel on one channel or the unsubscription branch of process first receives len(subInfoChan) queued subscriptions before loading the subscriber list."},
	"C21": {"derived-answer rule for the queries", "(P3) Length / BinSize / BinPeers / ShallowestEmpty / Exists read no field of the set other than the bins, the lock and the fixed configuration (sufficient condition: a cached size would be reported for review)."},
	"C32": {"atomic test-and-record in Debit", "(Lk2) Debit calls TransferTraffic (the read deciding the refusal) and PutTransferTraffic (the record) with the peer's lock held."},
	"C38": {"goroutine / loop-variable rule", "(Y1) no goroutine started inside a loop in pkg/multicast reads a variable that the loop overwrites per iteration (shared loop variable under the module's go 1.17 semantics); (Lk2) every cache.SetIfNotExist call of pkg/multicast (Contains + Set in the library, not atomic) is made with a mutex of the multicast service write-held; (P2) the lifetime handed to it is a constant or a package variable, not computed from the message."},
	"C15": {"guard rule for HasPin", "(G3) HasPin can answer true only where the state-store Get under rootPinKey(ref) returned no error."},
	"C27": {"key/items agreement; persist-after-update pairing", "(A3) in generatePathItems the append feeding the hash and the append building the item list both run on every iteration of the loop; (F2) every assignment to Table.routes[target] outside the reload callback is followed on all paths by a store.Put of the same list under route_index_; (W2) Table.paths.Delete and store.Delete under the path prefix occur only in Table.Delete and ResumePaths."},
	"C02": {"accumulator rule for the intermediate span", "(H2 ext) the span accumulator of wrapFullLevel has no incoming value other than the constant 0 and accumulator + entry span, and the addition runs on every iteration."},
	"C05": {"fresh-storage rule; low-s rule", "(W2) no append in pkg/soc starts from a SOC field or a parameter (the serialisation never writes into the caller's id / signature storage); (G4) RecoverCompact in crypto.Recover is reached only behind big(signature[32:64]).Cmp(half order) <= 0."},
	"C06": {"every-iteration rule of the pyramid validation", "(G2 ext) the validation loop of GetChunkHashes returns to its head only from the edge where the entry's BMT hash equals its key."},
	"C11": {"window of the in-call duplicate test; stale committed read", "(P5) put's duplicate test is containsChunk(chs[i].Address(), chs[:i]...) and the store helpers run only behind its negative answer; (B2) inside put's per-chunk loop no helper reads the data index from committed state under a key that is the same for every chunk of the call, unless the read lies behind a committed entry of another index under that key — the one site that does (setGC, the root's BinID) is an open finding."},
	"C28": {"sign-once rule", "(W2) a function of pkg/routetab that extends a field of the message it is given (msg.Paths = generatePaths(msg.Paths)) is not called inside a loop with an argument that is the same object on every iteration."},
	"C24": {"guard rule for removals from the known set", "(G3) every knownPeers.Remove(p) is preceded in its function by connectedPeers.Remove(p) or lies behind connectedPeers.Exists(p) == false."},
	"C37": {"error-then-dereference rule", "(S10) the pointer result of a (pointer, error) call whose arguments are peer-controlled (also through library parsers) is dereferenced only behind the edge on which that error is nil, or the pointer was tested non-nil."},
	"C26": {"unconditional clearing", "(F2 ext) every return of Unflag is preceded by the delete of the peer's entry — a success clears the flag whatever the network status."},
	"C04": {"exactness of the refusals", "(I3) at every constant-false return of cac.Valid the payload length is proven outside [SpanSize, ChunkSize+SpanSize] (interval analysis, which relates len(x[k:]) to len(x)): nothing else is refused without the hash comparison."},
	"C20": {"scan-width rule", "(K1) the byte limit of the comparison loop in Proximity / ExtendedProximity starts from a constant K with K*8 >= the function's own cap (MaxPO / ExtendedPO)."},
}

var _ = mergeNotes4()

func mergeNotes4() bool {
	for id, n := range extraNotes4 {
		if old, ok := extraNotes[id]; ok {
			extraNotes[id] = [2]string{old[0] + "; " + n[0], old[1] + " " + n[1]}
		} else {
			extraNotes[id] = n
		}
	}
	return true
}
