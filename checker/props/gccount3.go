package props

import (
	"go/token"

	"aurora-verif/checker/core"

	"golang.org/x/tools/go/ssa"
)

// gcForceCleanGuard (G4): collectGarbage has a recovery branch for a gc index that holds
// nothing although the counter says the cache is over its target: it then counts the whole
// counter as collected, i.e. writes 0 back. That branch must be guarded by "the selection
// pass found no candidate" (len of the slice the gcIndex.Iterate callback fills), not by
// "nothing was recycled": when every candidate is skipped because it was touched during
// the run, nothing is recycled, yet the files are still cached and indexed — zeroing the
// counter then leaves it below the sum of the per-file counts.
func gcForceCleanGuard(r *core.Run, rule string) {
	gc := lsFunc(r, "(*DB).collectGarbage")
	if gc == nil {
		return
	}
	// cells filled by the selection callback
	var sel *ssa.Function
	for _, ic := range lsIndexCalls([]*ssa.Function{gc}) {
		if ic.field == "gcIndex" && ic.method == "Iterate" {
			for _, a := range ic.in.Call.Args {
				if ct, ok := a.(*ssa.ChangeType); ok {
					a = ct.X
				}
				if mc, ok := a.(*ssa.MakeClosure); ok {
					sel = mc.Fn.(*ssa.Function)
				}
			}
		}
	}
	if sel == nil {
		r.Fatal("unresolved anchor: selection callback handed to gcIndex.Iterate in collectGarbage")
		return
	}
	selCells := map[ssa.Value]bool{}
	for _, fv := range sel.FreeVars {
		for _, u := range core.Uses(fv) {
			if st, ok := u.(*ssa.Store); ok && st.Addr == ssa.Value(fv) {
				if b := freeVarBinding(sel, fv); b != nil {
					selCells[b] = true
				}
			}
		}
	}
	isCounterRead := func(v ssa.Value) bool {
		c, idx := core.CallOf(core.Forward(v))
		if c == nil || idx != 0 {
			return false
		}
		for _, ic := range lsIndexCalls([]*ssa.Function{gc}) {
			if ic.in == ssa.Instruction(c) && ic.field == "gcSize" && ic.method == "Get" {
				return true
			}
		}
		return false
	}
	fromSelection := func(v ssa.Value) bool {
		return core.DerivesFrom(v, func(x ssa.Value) bool {
			p, ok := core.LoadedFrom(x)
			return ok && selCells[p]
		}, nil)
	}
	n := 0
	for _, b := range gc.Blocks {
		ifi, ok := b.Instrs[len(b.Instrs)-1].(*ssa.If)
		if !ok {
			continue
		}
		cmp, ok := ifi.Cond.(*ssa.BinOp)
		if !ok || (cmp.Op != token.EQL && cmp.Op != token.NEQ) {
			continue
		}
		k, isC := core.ConstInt(cmp.Y)
		lc, isLen := isBuiltinCall(cmp.X, "len")
		if !isC || k != 0 || !isLen {
			continue
		}
		empty := b.Succs[0]
		if cmp.Op == token.NEQ {
			empty = b.Succs[1]
		}
		// an override inside the "empty" branch: the whole counter is taken as collected
		override := false
		for _, d := range gc.Blocks {
			if !empty.Dominates(d) || len(empty.Preds) != 1 {
				continue
			}
			for _, in := range d.Instrs {
				if st, ok := in.(*ssa.Store); ok && isCounterRead(st.Val) {
					override = true
				}
			}
		}
		// phi form (the collected count is not captured by a closure)
		for _, s := range empty.Succs {
			for _, in := range s.Instrs {
				if phi, ok := in.(*ssa.Phi); ok {
					for i, e := range phi.Edges {
						if s.Preds[i] == empty && isCounterRead(e) {
							override = true
						}
					}
				}
			}
		}
		if !override {
			continue
		}
		n++
		r.Check(rule, core.Key(rule, gc, "whole counter written off only when no candidate was selected"), cmp.Pos(), fromSelection(lc.Call.Args[0]),
			"the recovery branch that writes the counter off is taken only when the selection pass found no candidate", "the counter is written off (set to 0) when nothing was recycled — also when every selected candidate was skipped as touched during the run: the files stay cached and indexed while the persisted counter drops to 0")
	}
	r.Floor(rule, "write-off branches of collectGarbage", n, 1)
}
