package props

import (
	"strings"

	"aurora-verif/checker/core"

	"golang.org/x/tools/go/ssa"
)

func init() {
	reg("C36", Meta{
		Technique:   "must-guard reachability on SSA (plaintext only behind a MAC match / password compare, key generation only on the absent branch), sibling agreement of writer/reader MAC input, cipher key and KDF parameters",
		Explanation: "C36 (keystores), structural clauses: (G1) file.decryptData decrypts and returns plaintext only behind a MAC match (bytes.Equal of the stored MAC with one of the two recomputed MACs), and the final mismatch returns keystore.ErrInvalidPassword; (G2) mem.Service.Key returns a stored key only behind password equality and otherwise ErrInvalidPassword; (G3) both Key implementations generate a key only on the branch where none is stored (file: empty data; mem: map miss), and return the stored/decrypted key otherwise; (F1) in ImportKey / ImportPrivateKey every path from the successful backup (rename) of the stored key file to a return passes the registration of the deferred restore — otherwise a failed import leaves no key file and the next Key() silently creates a new key under any password; (A1) writer and reader agree on the MAC input (derivedKey[16:32] || cipherText), the cipher key (derivedKey[:16]) and the KDF parameters (the constants written are the ones passed to scrypt, the reader passes the stored N,R,P,DKLen). Not decided: scrypt/AES/keccak themselves; export→import value equality.",
		Assumptions: []string{"scrypt.Key, AES-CTR and keccak behave as specified"},
	}, c36)
}

func c36(r *core.Run) {
	c36DecodeTotal(r)
	w := r.W
	const fp = "pkg/keystore/file"
	dec := w.Func(fp, "decryptData")
	enc := w.Func(fp, "encryptData")
	kdf := w.Func(fp, "getKDFKey")
	fkey := w.Func(fp, "(*Service).Key")
	mkey := w.Func("pkg/keystore/mem", "(*Service).Key")
	for n, f := range map[string]*ssa.Function{"file.decryptData": dec, "file.encryptData": enc, "file.getKDFKey": kdf, "file.(*Service).Key": fkey, "mem.(*Service).Key": mkey} {
		if f == nil {
			r.Fatal("unresolved anchor pkg/keystore/%s", n)
			return
		}
		r.Saw(core.FuncName(f))
		r.Eval(core.EdgeCount(f))
	}
	// --- G1 decryptData
	var macVal ssa.Value // hex.DecodeString(v.MAC)
	for _, c := range core.Calls(dec, "encoding/hex.DecodeString") {
		if fr, ok := core.AsField(core.Forward(core.Common(c).Args[0])); ok && fr.Name == "MAC" {
			macVal = c.(*ssa.Call)
		}
	}
	isMAC := func(v ssa.Value) bool {
		c, idx := core.CallOf(v)
		return macVal != nil && c == macVal.(*ssa.Call) && idx == 0
	}
	macMatch := core.BoolCallAtom(func(c *ssa.Call) bool {
		return core.IsCallTo(c, "bytes.Equal") && (isMAC(c.Call.Args[0]) || isMAC(c.Call.Args[1]))
	})
	good, bad := core.AtomEdges(dec, macMatch)
	r.Floor("C36.G1", "MAC comparisons in decryptData", len(good), 1)
	for _, c := range core.Calls(dec, fp+".aesCTRXOR") {
		r.Check("C36.G1", core.Key("C36.G1", dec, "decrypt behind MAC match"), c.Pos(), len(good) > 0 && core.OnlyBehind(dec, c, good),
			"the key material is decrypted only after the stored MAC matched a MAC recomputed from the password", "decryption is reachable without a MAC match: a wrong password yields garbage instead of ErrInvalidPassword")
	}
	core.EachInstr(dec, func(_ *ssa.BasicBlock, _ int, in ssa.Instruction) {
		ret, ok := in.(*ssa.Return)
		if !ok || core.IsNilConst(ret.Results[0]) {
			return
		}
		r.Check("C36.G1", core.Key("C36.G1", dec, "plaintext return behind MAC match"), ret.Pos(), len(good) > 0 && core.OnlyBehind(dec, ret, good),
			"plaintext is returned only after a MAC match", "plaintext can be returned without a MAC match")
	})
	// all-mismatch path returns ErrInvalidPassword: blocks reachable from bad edges avoiding good edges
	okErr := false
	{
		var start []*ssa.BasicBlock
		for e := range bad {
			start = append(start, e.To)
		}
		reach := core.ReachBlocks(start, good)
		okErr = len(start) > 0
		nret := 0
		for b := range reach {
			ret, isRet := b.Instrs[len(b.Instrs)-1].(*ssa.Return)
			if !isRet {
				continue
			}
			// returns reachable without any match: error must be non-nil; the one directly
			// after the last comparison must be ErrInvalidPassword
			if core.IsNilConst(ret.Results[1]) {
				okErr = false
			}
			if g, ok := core.Forward(ret.Results[1]).(*ssa.UnOp); ok {
				if gl, ok := g.X.(*ssa.Global); ok && gl.Name() == "ErrInvalidPassword" {
					nret++
				}
			}
		}
		if nret == 0 {
			okErr = false
		}
	}
	r.Check("C36.G1", core.Key("C36.G1", dec, "mismatch => ErrInvalidPassword"), dec.Pos(), okErr,
		"when no recomputed MAC matches, decryptData fails with keystore.ErrInvalidPassword", "the MAC-mismatch path does not end in keystore.ErrInvalidPassword")

	// --- A1 MAC input / key slices / KDF params
	leafFor := func(fn *ssa.Function) func(ssa.Value) (string, bool) {
		return func(v ssa.Value) (string, bool) {
			c, idx := core.CallOf(v)
			if c == nil || idx != 0 {
				return "", false
			}
			switch {
			case core.IsCallTo(c, "golang.org/x/crypto/scrypt.Key"), core.IsCallTo(c, fp+".getKDFKey"):
				return "DK", true
			case core.IsCallTo(c, fp+".aesCTRXOR") && fn == enc:
				return "CT", true
			case core.IsCallTo(c, "encoding/hex.DecodeString"):
				if fr, ok := core.AsField(core.Forward(c.Call.Args[0])); ok && fr.Name == "CipherText" {
					return "CT", true
				}
			}
			return "", false
		}
	}
	macInputs := func(fn *ssa.Function) []string {
		var out []string
		for _, c := range core.Calls(fn, "pkg/crypto.LegacyKeccak256") {
			out = append(out, core.Render(core.Common(c).Args[0], leafFor(fn)))
		}
		return out
	}
	ei, di := macInputs(enc), macInputs(dec)
	r.Check("C36.A1", "C36.A1@"+fp+"#MAC input writer/reader", enc.Pos(), len(ei) == 1 && len(di) >= 1 && ei[0] == di[0] && strings.Contains(ei[0], "DK[16:32]") && strings.Contains(ei[0], "CT"),
		"writer and reader compute the MAC over derivedKey[16:32] || cipherText", "MAC inputs differ: writer "+strings.Join(ei, "|")+" reader "+strings.Join(di, "|"))
	keyArg := func(fn *ssa.Function) string {
		for _, c := range core.Calls(fn, fp+".aesCTRXOR") {
			return core.Render(core.Common(c).Args[0], leafFor(fn))
		}
		return ""
	}
	r.Check("C36.A1", "C36.A1@"+fp+"#cipher key writer/reader", enc.Pos(), keyArg(enc) == keyArg(dec) && keyArg(enc) == "DK[nil:16]",
		"writer and reader use derivedKey[:16] as the AES key", "cipher keys differ: writer "+keyArg(enc)+" reader "+keyArg(dec))
	// KDF params
	okKDF := false
	if sc := core.Calls(enc, "golang.org/x/crypto/scrypt.Key"); len(sc) == 1 {
		a := core.Common(sc[0]).Args
		want := map[string]int64{}
		for i, n := range []string{"N", "R", "P", "DKLen"} {
			if k, ok := core.ConstInt(a[2+i]); ok {
				want[n] = k
			}
		}
		okKDF = len(want) == 4
		for n, k := range want {
			found := false
			for _, st := range fieldStoresAny(enc, n) {
				if v, ok := core.ConstInt(st.Val); ok && v == k {
					found = true
				}
			}
			if !found {
				okKDF = false
			}
		}
	}
	r.Check("C36.A1", core.Key("C36.A1", enc, "KDF parameters written = used"), enc.Pos(), okKDF,
		"the scrypt parameters written to the key file are the ones the key was derived with", "encryptData records KDF parameters that differ from those passed to scrypt.Key")
	okKDFr := false
	if sc := core.Calls(kdf, "golang.org/x/crypto/scrypt.Key"); len(sc) == 1 {
		a := core.Common(sc[0]).Args
		okKDFr = true
		for i, n := range []string{"N", "R", "P", "DKLen"} {
			fr, ok := core.AsField(core.Forward(a[2+i]))
			if !ok || fr.Name != n {
				okKDFr = false
			}
		}
		if sc0, idx := core.CallOf(a[1]); sc0 == nil || idx != 0 || !core.IsCallTo(sc0, "encoding/hex.DecodeString") {
			okKDFr = false
		}
	}
	r.Check("C36.A1", core.Key("C36.A1", kdf, "KDF parameters read in order"), kdf.Pos(), okKDFr,
		"the reader derives the key with the stored salt, N, R, P, DKLen", "getKDFKey does not pass the stored (salt, N, R, P, DKLen) to scrypt.Key")

	// --- G2/G3 mem.Key
	var lk *ssa.Lookup
	core.EachInstr(mkey, func(_ *ssa.BasicBlock, _ int, in ssa.Instruction) {
		if l, ok := in.(*ssa.Lookup); ok && l.CommaOk {
			lk = l
		}
	})
	if lk == nil {
		r.Fatal("mem.(*Service).Key: comma-ok map lookup not found")
		return
	}
	present, absent := core.AtomEdges(mkey, func(base ssa.Value) (bool, bool) {
		e, ok := base.(*ssa.Extract)
		if ok && e.Tuple == ssa.Value(lk) && e.Index == 1 {
			return true, true
		}
		return false, false
	})
	for _, c := range core.Calls(mkey, "pkg/crypto.GenerateSecp256k1Key") {
		r.Check("C36.G3", core.Key("C36.G3", mkey, "generate only when absent"), c.Pos(), len(absent) > 0 && core.OnlyBehind(mkey, c, absent),
			"the in-memory keystore creates a key only when the name is unknown", "a key is generated although one is stored under the name")
	}
	pwEq, _ := core.AtomEdges(mkey, secretEqAtom(func(v ssa.Value) bool {
		fr, ok := core.AsField(v)
		return ok && fr.Name == "password"
	}, func(y ssa.Value) bool { return y == ssa.Value(mkey.Params[2]) }))
	nStored := 0
	core.EachInstr(mkey, func(_ *ssa.BasicBlock, _ int, in ssa.Instruction) {
		ret, ok := in.(*ssa.Return)
		if !ok || ret.Block() == mkey.Recover {
			return
		}
		v := core.Forward(ret.Results[0])
		if fr, ok := core.AsField(v); ok && fr.Name == "pk" {
			nStored++
			r.Check("C36.G2", core.Key("C36.G2", mkey, "stored key behind password =="), ret.Pos(), len(pwEq) > 0 && core.OnlyBehind(mkey, ret, pwEq) && core.OnlyBehind(mkey, ret, present),
				"a stored key is returned only for the password it was stored with", "the stored key can be returned without the password comparison")
		}
	})
	r.Floor("C36.G2", "returns of the stored key in mem.Key", nStored, 1)

	// --- F1 import rollback: after the existing key file was moved away (bak), every path
	// to a return passes the registration of the deferred restore
	for _, name := range []string{"(*Service).ImportKey", "(*Service).ImportPrivateKey"} {
		fn := w.Func(fp, name)
		if fn == nil {
			r.Fatal("unresolved anchor %s.%s", fp, name)
			continue
		}
		r.Saw(core.FuncName(fn))
		r.Eval(core.EdgeCount(fn))
		baks := core.Calls(fn, "(*"+fp+".Service).bak")
		r.Floor("C36.F1", "backup calls in "+name, len(baks), 1)
		isRestoreDefer := func(in ssa.Instruction) bool {
			d, ok := in.(*ssa.Defer)
			if !ok {
				return false
			}
			mc, ok := d.Call.Value.(*ssa.MakeClosure)
			if !ok {
				return false
			}
			return len(core.Calls(mc.Fn.(*ssa.Function), "(*"+fp+".Service).restore")) > 0
		}
		for _, b := range baks {
			okEdges, _ := core.AtomEdges(fn, core.ErrNilAtom(func(c *ssa.Call) bool { return c == b.(*ssa.Call) }))
			ok := len(okEdges) > 0 && mustPassFrom(edgeTargets(okEdges), isRestoreDefer)
			r.Check("C36.F1", core.Key("C36.F1", fn, "restore registered right after backup"), b.Pos(), ok,
				"once the stored key file has been moved to its backup, every way out of the import restores it on error",
				"a path from the successful backup to a return bypasses the deferred restore: a failed import leaves the key file renamed away, and the next Key() call silently creates a new key under any password")
		}
		// F2: inside the deferred closure, restore runs for EVERY error: from the edge
		// "err != nil" every path to the closure's return passes the restore call, and no
		// other branch sits between that test and the restore
		for _, cl := range core.Closures(fn) {
			rs := core.Calls(cl, "(*"+fp+".Service).restore")
			if len(rs) == 0 {
				continue
			}
			r.Saw(core.FuncName(cl))
			r.Eval(core.EdgeCount(cl))
			isErrCell := func(v ssa.Value) bool {
				p, ok := core.LoadedFrom(v)
				if !ok {
					return false
				}
				fv, ok := p.(*ssa.FreeVar)
				return ok && isErrResultOf(cl, fv)
			}
			failed, _ := core.AtomEdges(cl, func(base ssa.Value) (bool, bool) {
				x, eq, ok := core.NilCmp(base)
				if ok && isErrCell(x) {
					return true, !eq
				}
				return false, false
			})
			isRestore := func(in ssa.Instruction) bool { return core.IsCallTo(in, "(*"+fp+".Service).restore") }
			ok := len(failed) > 0 && mustPassFrom(edgeTargets(failed), isRestore)
			r.Check("C36.F2", lsKey("C36.F2", cl, "rollback for every error of the import"), rs[0].Pos(), ok,
				"the deferred rollback restores the key file whenever the import returns an error, whatever the error", "the deferred rollback does not restore the backup for some errors (a path from err != nil reaches the closure's return without restore): an import rejected after the backup leaves the key file renamed away, and the next Key() silently creates a new key under any password")
		}
	}

	// --- G3 file.Key
	var data ssa.Value
	for _, c := range core.Calls(fkey, "os.ReadFile") {
		data = c.(*ssa.Call)
	}
	emptyE, nonEmpty := core.AtomEdges(fkey, cmpAtom(func(v ssa.Value) bool {
		c, ok := isBuiltinCall(v, "len")
		if !ok {
			return false
		}
		cc, idx := core.CallOf(c.Call.Args[0])
		return data != nil && cc == data.(*ssa.Call) && idx == 0
	}, func(y ssa.Value) bool { k, ok := core.ConstInt(y); return ok && k == 0 }, "=="))
	for _, c := range core.Calls(fkey, "pkg/crypto.GenerateSecp256k1Key") {
		r.Check("C36.G3", core.Key("C36.G3", fkey, "generate only when absent"), c.Pos(), len(emptyE) > 0 && core.OnlyBehind(fkey, c, emptyE),
			"the file keystore creates a key only when no key file content exists", "a key is generated although a key file exists")
	}
	for _, c := range core.Calls(fkey, "os.WriteFile") {
		r.Check("C36.G3", core.Key("C36.G3", fkey, "write only when absent"), c.Pos(), len(emptyE) > 0 && core.OnlyBehind(fkey, c, emptyE),
			"the key file is written only when none existed", "an existing key file can be overwritten by Key()")
	}
	nd := 0
	for _, c := range core.Calls(fkey, fp+".decryptKey") {
		nd++
		r.Check("C36.G3", core.Key("C36.G3", fkey, "existing key is decrypted"), c.Pos(), len(nonEmpty) > 0 && core.OnlyBehind(fkey, c, nonEmpty) && core.Common(c).Args[1] == ssa.Value(fkey.Params[2]),
			"an existing key file is decrypted with the given password", "the existing key is not decrypted with the caller's password")
	}
	r.Floor("C36.G3", "decryptKey calls in file.Key", nd, 1)
	c36KeyCodec(r)
}
