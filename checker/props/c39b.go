package props

import (
	"fmt"
	"go/token"
	"go/types"

	"aurora-verif/checker/core"

	"golang.org/x/tools/go/ssa"
)

// bitAddr describes one "bit i of byte slice S" addressing: element &S[q] with q = i/8 and a
// mask 1 << (i%8) combined with the loaded element.
type bitAddr struct {
	elem  *ssa.IndexAddr
	idx   ssa.Value // i
	mask  ssa.Value
	okIdx bool   // element index is i/8
	okMsk bool   // mask is 1 << convert(i%8) with the same i
	why   string // what deviates
}

// unconv strips integer conversions.
func unconv(v ssa.Value) ssa.Value {
	for {
		c, ok := v.(*ssa.Convert)
		if !ok {
			return v
		}
		v = c.X
	}
}

func binop(v ssa.Value, op token.Token) (*ssa.BinOp, bool) {
	b, ok := v.(*ssa.BinOp)
	return b, ok && b.Op == op
}

// maskShape: m == 1 << conv(i % 8); returns i.
func maskShape(m ssa.Value) (ssa.Value, bool) {
	sh, ok := binop(m, token.SHL)
	if !ok {
		return nil, false
	}
	if c, isC := core.ConstInt(sh.X); !isC || c != 1 {
		return nil, false
	}
	rem, ok := binop(unconv(sh.Y), token.REM)
	if !ok {
		return nil, false
	}
	if c, isC := core.ConstInt(rem.Y); !isC || c != 8 {
		return nil, false
	}
	return rem.X, true
}

// singleBitMask: a shift of a constant with exactly one bit set (1<<k, 0x80>>k): the mask
// selects one bit by position.
func singleBitMask(m ssa.Value) bool {
	b, ok := unconv(m).(*ssa.BinOp)
	if !ok || (b.Op != token.SHL && b.Op != token.SHR) {
		return false
	}
	c, isC := core.ConstInt(b.X)
	return isC && c > 0 && c&(c-1) == 0
}

// byteIndexShape: q == i / 8; returns i.
func byteIndexShape(q ssa.Value) (ssa.Value, bool) {
	d, ok := binop(q, token.QUO)
	if !ok {
		return nil, false
	}
	if c, isC := core.ConstInt(d.Y); !isC || c != 8 {
		return nil, false
	}
	return d.X, true
}

// isByteSlice: []byte
func isByteSlice(t types.Type) bool {
	s, ok := t.Underlying().(*types.Slice)
	if !ok {
		return false
	}
	b, ok := s.Elem().Underlying().(*types.Basic)
	return ok && b.Kind() == types.Byte
}

// c39more: the bit-addressing, write-ownership, polarity and padding clauses of C39.
func c39more(r *core.Run) {
	w := r.W
	const bvT = "pkg/bitvector.BitVector"
	isBackingLoad := func(v ssa.Value) bool { return core.IsFieldOf(v, bvT, "b") }
	var methods []*ssa.Function
	for _, fn := range w.PkgFuncs("pkg/bitvector") {
		if fn.Signature.Recv() != nil && core.TypeName(fn.Signature.Recv().Type()) == bvT {
			methods = append(methods, fn)
		}
	}

	// A1 bit addressing agreement: wherever a byte of a []byte is combined with a shifted
	// mask (AND / XOR), the byte is element i/8 and the mask is 1<<(i%8) for the same i, in
	// every method — reader (Get), writer (set) and the mask readers (SetBytes/UnsetBytes)
	// use one bit numbering.
	nA := 0
	for _, fn := range methods {
		fn := fn
		core.EachInstr(fn, func(_ *ssa.BasicBlock, _ int, in ssa.Instruction) {
			b, ok := in.(*ssa.BinOp)
			if !ok || (b.Op != token.AND && b.Op != token.XOR && b.Op != token.OR && b.Op != token.AND_NOT) {
				return
			}
			// one operand a loaded []byte element, the other a shift
			var ld *ssa.UnOp
			var mask ssa.Value
			for _, pair := range [][2]ssa.Value{{b.X, b.Y}, {b.Y, b.X}} {
				if u, ok := pair[0].(*ssa.UnOp); ok && u.Op == token.MUL {
					if ia, ok := u.X.(*ssa.IndexAddr); ok && isByteSlice(ia.X.Type()) {
						ld, mask = u, pair[1]
					}
				}
			}
			if ld == nil || !singleBitMask(mask) {
				return // not a single-bit selection (e.g. a multi-bit mask of the last byte)
			}
			nA++
			r.Saw(core.FuncName(fn))
			ia := ld.X.(*ssa.IndexAddr)
			iq, okQ := byteIndexShape(ia.Index)
			im, okM := maskShape(mask)
			same := okQ && okM && (iq == im || core.SameExpr(iq, im))
			why := "the byte index is not i/8"
			if okQ && !okM {
				why = "the mask is not 1<<(i%8)"
			} else if okQ && okM && !same {
				why = "byte index and mask are computed from different positions"
			}
			r.Check("C39.A1", lsKey("C39.A1", fn, fmt.Sprintf("bit addressing #%d (%s)", nA, b.Op)), b.Pos(), same,
				"bit i lives in byte i/8 under mask 1<<(i%8), the numbering every method shares", why+": this method addresses a different bit than Get/set do for the same position")
		})
	}
	r.Floor("C39.A1", "bit-addressing sites (Get, set, SetBytes, UnsetBytes)", nA, 4)

	// W1 write ownership: bytes of the backing slice are stored only by set, the stored value
	// is old ^ mask, and only behind Get(i) != v.
	nW := 0
	for _, fn := range methods {
		fn := fn
		core.EachInstr(fn, func(_ *ssa.BasicBlock, _ int, in ssa.Instruction) {
			st, ok := in.(*ssa.Store)
			if !ok {
				return
			}
			ia, ok := st.Addr.(*ssa.IndexAddr)
			if !ok || !isBackingLoad(ia.X) {
				return
			}
			nW++
			r.Saw(core.FuncName(fn))
			r.Eval(core.EdgeCount(fn))
			inSet := fn.Name() == "set"
			x, isXor := binop(st.Val, token.XOR)
			shape := false
			if isXor {
				for _, pair := range [][2]ssa.Value{{x.X, x.Y}, {x.Y, x.X}} {
					if u, ok := pair[0].(*ssa.UnOp); ok && u.Op == token.MUL {
						if ia2, ok := u.X.(*ssa.IndexAddr); ok && core.SameExpr(ia2.X, ia.X) && core.SameExpr(ia2.Index, ia.Index) {
							if _, okM := maskShape(pair[1]); okM {
								shape = true
							}
						}
					}
				}
			}
			// guard: Get(bv, i) != v
			differs, _ := core.AtomEdges(fn, func(base ssa.Value) (bool, bool) {
				b, ok := base.(*ssa.BinOp)
				if !ok || (b.Op != token.NEQ && b.Op != token.EQL) {
					return false, false
				}
				isGet := func(v ssa.Value) bool {
					c, ok := v.(*ssa.Call)
					return ok && core.IsCallTo(c, "(*pkg/bitvector.BitVector).Get")
				}
				isV := func(v ssa.Value) bool { _, ok := v.(*ssa.Parameter); return ok }
				if (isGet(b.X) && isV(b.Y)) || (isGet(b.Y) && isV(b.X)) {
					return true, b.Op == token.NEQ
				}
				return false, false
			})
			r.Check("C39.W1", lsKey("C39.W1", fn, "byte store is a guarded flip in set"), st.Pos(), inSet && shape && len(differs) > 0 && core.OnlyBehind(fn, st, differs),
				"the only write to the backing bytes is set's `b[i/8] ^= mask`, executed only when the current bit differs from the wanted value", "a backing byte is written outside set, or not as a flip of the addressed bit guarded by Get(i) != v: other bits of the byte can change or the wanted value is not reached")
		})
	}
	r.Floor("C39.W1", "stores into the backing bytes", nW, 1)

	// P1 polarity: Set → set(i,true), Unset → set(i,false); SetBytes calls set(·,true) and
	// UnsetBytes set(·,false), each only behind the mask test of the argument's bit.
	want := map[string]bool{"Set": true, "Unset": false, "SetBytes": true, "UnsetBytes": false}
	nP := 0
	for _, fn := range methods {
		pol, ok := want[fn.Name()]
		if !ok {
			continue
		}
		calls := core.Calls(fn, "(*pkg/bitvector.BitVector).set")
		r.Saw(core.FuncName(fn))
		for k, c := range calls {
			nP++
			args := core.Common(c).Args
			v, isC := core.ConstBool(args[len(args)-1])
			r.Check("C39.P1", lsKey("C39.P1", fn, fmt.Sprintf("set call #%d polarity", k+1)), c.Pos(), isC && v == pol,
				fmt.Sprintf("%s writes the constant %v", fn.Name(), pol), fmt.Sprintf("%s does not write the constant %v", fn.Name(), pol))
			if fn.Name() == "SetBytes" || fn.Name() == "UnsetBytes" {
				// behind: arg[i/8] & (1<<(i%8)) is non-zero, for the same i that is passed to set
				i := args[len(args)-2]
				bitSet, _ := core.AtomEdges(fn, func(base ssa.Value) (bool, bool) {
					b, ok := base.(*ssa.BinOp)
					if !ok {
						return false, false
					}
					and, ok := binop(b.X, token.AND)
					if !ok {
						return false, false
					}
					z, isZ := core.ConstInt(b.Y)
					if !isZ || z != 0 {
						return false, false
					}
					var okShape bool
					for _, pair := range [][2]ssa.Value{{and.X, and.Y}, {and.Y, and.X}} {
						u, ok := pair[0].(*ssa.UnOp)
						if !ok || u.Op != token.MUL {
							continue
						}
						ia, ok := u.X.(*ssa.IndexAddr)
						if !ok || ia.X != ssa.Value(fn.Params[1]) {
							continue
						}
						iq, okQ := byteIndexShape(ia.Index)
						im, okM := maskShape(pair[1])
						if okQ && okM && iq == i && im == i {
							okShape = true
						}
					}
					if !okShape {
						return false, false
					}
					switch b.Op {
					case token.GTR, token.NEQ:
						return true, true
					case token.EQL, token.LEQ:
						return true, false
					}
					return false, false
				})
				r.Check("C39.P1", lsKey("C39.P1", fn, fmt.Sprintf("set call #%d only for mask bits", k+1)), c.Pos(), len(bitSet) > 0 && core.OnlyBehind(fn, c, bitSet),
					"bit i of the vector is written only when bit i of the mask argument is set", "set is reached without the test of the mask argument's bit i: bits not named by the mask change")
			}
		}
		if len(calls) == 0 {
			r.Check("C39.P1", lsKey("C39.P1", fn, "delegates to set"), fn.Pos(), false, "", fn.Name()+" no longer goes through set")
		}
	}
	r.Floor("C39.P1", "set calls in Set/Unset/SetBytes/UnsetBytes", nP, 4)

	// G2: SetBytes/UnsetBytes index the argument only behind len(bs) == len(bv.b)
	for _, name := range []string{"SetBytes", "UnsetBytes"} {
		fn := w.Func("pkg/bitvector", "(*BitVector)."+name)
		if fn == nil {
			r.Fatal("unresolved anchor pkg/bitvector.(*BitVector).%s", name)
			continue
		}
		r.Eval(core.EdgeCount(fn))
		bs := fn.Params[1]
		sameLen, _ := core.AtomEdges(fn, cmpAtom(func(x ssa.Value) bool {
			c, ok := isBuiltinCall(x, "len")
			return ok && c.Call.Args[0] == ssa.Value(bs)
		}, func(y ssa.Value) bool {
			c, ok := isBuiltinCall(y, "len")
			return ok && isBackingLoad(c.Call.Args[0])
		}, "=="))
		n := 0
		core.EachInstr(fn, func(_ *ssa.BasicBlock, _ int, in ssa.Instruction) {
			ia, ok := in.(*ssa.IndexAddr)
			if !ok || ia.X != ssa.Value(bs) {
				return
			}
			n++
			r.Check("C39.G2", lsKey("C39.G2", fn, "mask indexed behind the equal-length test"), ia.Pos(), len(sameLen) > 0 && core.OnlyBehind(fn, ia, sameLen),
				"the mask argument is read only when it has exactly the backing slice's length", "the mask is indexed without the len(bs) == len(bv.b) refusal: a shorter mask panics, a longer one is silently truncated")
		})
		r.Floor("C39.G2", "reads of the mask argument in "+name, n, 1)
	}

	// P2: Bytes returns the backing slice, Len the logical length
	for _, row := range [][2]string{{"Bytes", "b"}, {"Len", "len"}} {
		fn := w.Func("pkg/bitvector", "(*BitVector)."+row[0])
		if fn == nil {
			r.Fatal("unresolved anchor pkg/bitvector.(*BitVector).%s", row[0])
			continue
		}
		r.Saw(core.FuncName(fn))
		okAll, n := true, 0
		core.EachInstr(fn, func(_ *ssa.BasicBlock, _ int, in ssa.Instruction) {
			if ret, ok := in.(*ssa.Return); ok && len(ret.Results) == 1 {
				n++
				if !core.IsFieldOf(ret.Results[0], bvT, row[1]) {
					okAll = false
				}
			}
		})
		r.Check("C39.P2", core.Key("C39.P2", fn, "returns field "+row[1]), fn.Pos(), okAll && n > 0,
			row[0]+"() returns the vector's own "+row[1], row[0]+"() returns something other than the field "+row[1]+" (encode/decode no longer round-trips)")
	}

	// Y2 padding independence: a loaded backing byte is compared raw (without a mask) only at
	// an index proven below bv.len/8 (a byte all of whose bits are logical).
	nY := 0
	for _, fn := range methods {
		fn := fn
		core.EachInstr(fn, func(_ *ssa.BasicBlock, _ int, in ssa.Instruction) {
			ld, ok := in.(*ssa.UnOp)
			if !ok || ld.Op != token.MUL {
				return
			}
			ia, ok := ld.X.(*ssa.IndexAddr)
			if !ok || !isBackingLoad(ia.X) {
				return
			}
			nY++
			raw := rawCompare(ld, 0)
			if raw == nil {
				r.Check("C39.Y2", lsKey("C39.Y2", fn, fmt.Sprintf("backing byte load #%d masked", nY)), ld.Pos(), true, "the loaded backing byte is only used under a bit mask (or written back)", "")
				return
			}
			full, _ := core.AtomEdges(fn, cmpAtom(func(x ssa.Value) bool { return x == ia.Index || core.SameExpr(x, ia.Index) }, func(y ssa.Value) bool {
				q, ok := binop(unconv(y), token.QUO)
				if !ok {
					return false
				}
				c, isC := core.ConstInt(q.Y)
				return isC && c == 8 && core.IsFieldOf(unconv(q.X), bvT, "len")
			}, "<"))
			r.Check("C39.Y2", lsKey("C39.Y2", fn, fmt.Sprintf("backing byte load #%d compared raw", nY)), raw.Pos(), len(full) > 0 && core.OnlyBehind(fn, ld, full),
				"a whole backing byte is compared only when all its bits are logical (index < bv.len/8)", "a backing byte that may contain padding bits (index not proven < bv.len/8) is compared without a mask: SetBytes/NewFromBytes can leave padding bits set, so the result depends on bits outside the vector")
		})
	}
	r.Floor("C39.Y2", "loads of backing bytes", nY, 2)
}

// rawCompare follows v through conversions and phis and returns a comparison that consumes it
// without an intervening bitwise AND.
func rawCompare(v ssa.Value, depth int) ssa.Instruction {
	if depth > 4 {
		return nil
	}
	for _, u := range core.Uses(v) {
		switch x := u.(type) {
		case *ssa.BinOp:
			switch x.Op {
			case token.EQL, token.NEQ, token.LSS, token.LEQ, token.GTR, token.GEQ:
				return x
			case token.AND, token.AND_NOT, token.XOR:
				continue // masked, or the flip written back
			default:
				if in := rawCompare(x, depth+1); in != nil {
					return in
				}
			}
		case *ssa.Convert:
			if in := rawCompare(x, depth+1); in != nil {
				return in
			}
		case *ssa.Phi:
			if in := rawCompare(x, depth+1); in != nil {
				return in
			}
		}
	}
	return nil
}
