package props

import (
	"aurora-verif/checker/core"

	"golang.org/x/tools/go/ssa"
)

// c27KeyAgreesWithItems (A3): a stored path is found again (for Delete, Gc and DelRoute)
// by recomputing its key from its stored items, so the key generatePathItems returns must
// be a function of exactly the items it returns: inside its loop, the append that feeds
// the hash and the append that builds the item list both run on every iteration. A hop
// that is hashed but not listed (or listed but not hashed) gives a path whose recomputed
// key differs from the key it is stored under — it can never be deleted or expired.
func c27KeyAgreesWithItems(r *core.Run) {
	const rule = "C27.A3"
	fn := r.W.Func("pkg/routetab", "generatePathItems")
	if fn == nil {
		r.Fatal("unresolved anchor pkg/routetab.generatePathItems")
		return
	}
	r.Saw(core.FuncName(fn))
	r.Eval(core.EdgeCount(fn))
	back := core.BackEdges(fn)
	everyIter := func(in ssa.Instruction) bool {
		if len(back) == 0 {
			return false
		}
		inLoop := false
		for e := range back {
			// the loop of this back edge contains the instruction?
			if e.To.Dominates(in.Block()) {
				inLoop = true
				if !(in.Block() == e.From || in.Block().Dominates(e.From)) {
					return false
				}
			}
		}
		return inLoop
	}
	n := 0
	core.EachInstr(fn, func(_ *ssa.BasicBlock, _ int, in ssa.Instruction) {
		c, ok := in.(*ssa.Call)
		if !ok {
			return
		}
		if _, isApp := isBuiltinCall(c, "append"); !isApp {
			return
		}
		what := "the bytes that are hashed into the path key"
		if !isByteSlice(c.Type()) {
			what = "the item list"
		}
		n++
		r.Check(rule, lsKey(rule, fn, "append to "+what+" on every iteration"), c.Pos(), everyIter(in),
			"every hop of the given path is both hashed into the key and listed among the items", "a hop can be skipped when extending "+what+" while the other of key / items still takes it: the key no longer is the hash of the stored items, Table.Delete and Gc recompute a different key and the path is never removed")
	})
	r.Floor(rule, "appends in generatePathItems' loop (hash input, item list)", n, 2)
}
