package props

import (
	"go/token"

	"aurora-verif/checker/core"

	"golang.org/x/tools/go/ssa"
)

// trueOnlyBehind: every `return true` of fn is behind the positive edges of each atom, and
// fn has at least one such return.
func trueOnlyBehind(r *core.Run, rule string, fn *ssa.Function, what, why string, atoms ...core.Atom) {
	r.Saw(core.FuncName(fn))
	r.Eval(core.EdgeCount(fn))
	var sets []core.EdgeSet
	for _, a := range atoms {
		pos, _ := core.AtomEdges(fn, a)
		sets = append(sets, pos)
	}
	n := 0
	ok := true
	var bad token.Pos = fn.Pos()
	core.EachInstr(fn, func(_ *ssa.BasicBlock, _ int, in ssa.Instruction) {
		ret, isRet := in.(*ssa.Return)
		if !isRet || len(ret.Results) != 1 {
			return
		}
		v, isC := core.ConstBool(core.Forward(ret.Results[0]))
		if isC && !v {
			return
		}
		n++
		if !isC {
			ok, bad = false, ret.Pos()
			return
		}
		for _, s := range sets {
			if len(s) == 0 || !core.OnlyBehind(fn, ret, s) {
				ok, bad = false, ret.Pos()
			}
		}
	})
	r.Check(rule, core.Key(rule, fn, what), bad, ok && n > 0, what, why)
}

// c27Helpers: the small predicates the route table's guarantees rest on.
func c27Helpers(r *core.Run) {
	w := r.W
	callAtom := func(name string, argOK func(c *ssa.Call) bool) core.Atom {
		return core.BoolCallAtom(func(c *ssa.Call) bool { return core.IsCallTo(c, name) && argOK(c) })
	}
	if fn := w.Func("pkg/routetab", "inPath"); fn != nil {
		trueOnlyBehind(r, "C27.G3", fn, "inPath answers true only for a path element equal to the address",
			"inPath can answer true without bytes.Equal(element, b): a path is taken to contain a node it does not contain (or loops are not recognised)",
			callAtom("bytes.Equal", func(c *ssa.Call) bool {
				return c.Call.Args[0] == ssa.Value(fn.Params[0]) || c.Call.Args[1] == ssa.Value(fn.Params[0])
			}))
	} else {
		r.Fatal("unresolved anchor pkg/routetab.inPath")
	}
	if fn := w.Func("pkg/routetab", "inPaths"); fn != nil {
		trueOnlyBehind(r, "C27.G3", fn, "inPaths answers true only for an address equal to a path element",
			"inPaths can answer true without an element-wise bytes.Equal",
			callAtom("bytes.Equal", func(c *ssa.Call) bool { return true }))
	} else {
		r.Fatal("unresolved anchor pkg/routetab.inPaths")
	}
	if fn := w.Func("pkg/routetab", "existRoute"); fn != nil {
		trueOnlyBehind(r, "C27.G3", fn, "existRoute answers true only for the same path key and the same neighbour",
			"existRoute can answer true without both PathKey equality and Neighbor.Equal: distinct routes are merged (or duplicates stored)",
			func(base ssa.Value) (bool, bool) {
				b, ok := base.(*ssa.BinOp)
				if !ok || (b.Op != token.EQL && b.Op != token.NEQ) {
					return false, false
				}
				isKey := func(v ssa.Value) bool { fr, ok := core.AsField(core.Forward(v)); return ok && fr.Name == "PathKey" }
				if isKey(b.X) && isKey(b.Y) {
					return true, b.Op == token.EQL
				}
				return false, false
			},
			callAtom("(pkg/boson.Address).Equal", func(c *ssa.Call) bool {
				fr, ok := core.AsField(core.Forward(c.Call.Args[0]))
				return ok && fr.Name == "Neighbor"
			}))
	} else {
		r.Fatal("unresolved anchor pkg/routetab.existRoute")
	}
	if fn := w.Func("pkg/routetab", "skipPeers"); fn != nil {
		r.Saw(core.FuncName(fn))
		r.Eval(core.EdgeCount(fn))
		_, notSkipped := core.AtomEdges(fn, callAtom("(pkg/boson.Address).MemberOf", func(c *ssa.Call) bool {
			return c.Call.Args[1] == ssa.Value(fn.Params[1])
		}))
		n := 0
		core.EachInstr(fn, func(_ *ssa.BasicBlock, _ int, in ssa.Instruction) {
			c, ok := in.(*ssa.Call)
			if !ok {
				return
			}
			if _, isApp := isBuiltinCall(c, "append"); !isApp {
				return
			}
			n++
			r.Check("C27.G3", core.Key("C27.G3", fn, "skipPeers keeps only addresses not in the skip list"), c.Pos(), len(notSkipped) > 0 && core.OnlyBehind(fn, c, notSkipped),
				"an address is kept only behind !MemberOf(skip list)", "skipPeers keeps an address without testing it against the skip list: a skipped node is offered as next hop")
		})
		r.Floor("C27.G3", "appends in skipPeers", n, 1)
	} else {
		r.Fatal("unresolved anchor pkg/routetab.skipPeers")
	}
}
