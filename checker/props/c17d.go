package props

import (
	"aurora-verif/checker/core"

	"golang.org/x/tools/go/ssa"
)

// c17NoEmptyEntry (F4): "after the file is deleted no … discovery record for it remains, in
// memory". The per-file entry of the in-memory discovery table is created only together
// with a record in it: a `presence[file] = make(map…)` is followed on every path to the
// function's exit by an insertion into that inner map. updateChunkInfo is driven by peer
// messages; if it creates the entry first and then returns because the file's pyramid is
// unknown (the file was deleted), a late or unsolicited message re-creates an entry for a
// deleted file and cd.isExists(file) answers true again.
func c17NoEmptyEntry(r *core.Run) {
	const rule = "C17.F4"
	const T = ciPkg + ".chunkInfoDiscover"
	n := 0
	done := map[*ssa.Function]bool{}
	for _, top := range r.W.PkgFuncs(ciPkg) {
		for _, fn := range core.WithClosures(top) {
			if done[fn] {
				continue
			}
			done[fn] = true
			core.EachInstr(fn, func(_ *ssa.BasicBlock, _ int, in ssa.Instruction) {
				mu, ok := in.(*ssa.MapUpdate)
				if !ok || !loadsField(T, "presence")(core.Forward(mu.Map)) {
					return
				}
				if _, fresh := core.Forward(mu.Value).(*ssa.MakeMap); !fresh {
					return
				}
				n++
				okP, _ := core.MustPassAfter(fn, in, func(x ssa.Instruction) bool {
					in2, ok := x.(*ssa.MapUpdate)
					if !ok {
						return false
					}
					lk, ok := core.Forward(in2.Map).(*ssa.Lookup)
					return ok && loadsField(T, "presence")(core.Forward(lk.X))
				})
				r.Saw(core.FuncName(fn))
				r.Check(rule, lsKey(rule, fn, "per-file discovery entry created only together with a record"), mu.Pos(), okP,
					"a fresh per-file entry of the discovery table always receives a record before the function returns", core.FuncName(fn)+" creates presence[file] and can return without putting a record into it (the pyramid of a deleted file is unknown): a late peer message leaves an in-memory discovery entry for a deleted file")
			})
		}
	}
	r.Floor(rule, "creations of a per-file discovery entry", n, 1)
}
