package props

import (
	"go/token"
	"go/types"
	"strings"

	"aurora-verif/checker/core"

	"golang.org/x/tools/go/ssa"
)

func init() {
	reg("C07", Meta{
		Technique:   "SSA lint (no cap() of the destination buffer in reader methods), must-guard reachability on Seek, provenance/min-idiom check of the read length",
		Explanation: "C07 (reader contract), structural clauses only: (L1) no Read/ReadAt method under pkg/file applies cap() to its destination buffer or a re-slice of it; (P0) the byte count joiner.ReadAt hands to the copying routine is len(buffer) or a value chosen smaller under a comparison with it; (G1) joiner.Seek stores a new offset only behind the checks offset>=0, offset<=span and a recognised whence; (P1) Read advances the offset by exactly the count ReadAt returned. Not decided: that the bytes returned are the right bytes (offset arithmetic of readAtOffset).",
		Assumptions: []string{"copy() never writes beyond len(dst)"},
	}, c07)
}

// isReaderSig: Read([]byte)(int,error) or ReadAt([]byte,int64)(int,error) method.
func isReaderSig(fn *ssa.Function) bool {
	if fn.Signature.Recv() == nil {
		return false
	}
	if fn.Name() != "Read" && fn.Name() != "ReadAt" {
		return false
	}
	ps, rs := fn.Signature.Params(), fn.Signature.Results()
	if rs.Len() != 2 || rs.At(0).Type().String() != "int" || rs.At(1).Type().String() != "error" {
		return false
	}
	if ps.Len() < 1 || ps.At(0).Type().String() != "[]byte" {
		return false
	}
	if fn.Name() == "Read" {
		return ps.Len() == 1
	}
	return ps.Len() == 2 && ps.At(1).Type().String() == "int64"
}

func isBuiltinCall(v ssa.Value, name string) (*ssa.Call, bool) {
	c, ok := v.(*ssa.Call)
	if !ok {
		return nil, false
	}
	b, ok := c.Call.Value.(*ssa.Builtin)
	if !ok || b.Name() != name {
		return nil, false
	}
	return c, true
}

func c07(r *core.Run) {
	c07CountOnlyOnSuccess(r)
	w := r.W

	// L1: every reader method in pkg/file/...
	n := 0
	for _, fn := range w.Funcs {
		if !strings.HasPrefix(fn.Pkg.Pkg.Path(), core.P("pkg/file")) || !isReaderSig(fn) {
			continue
		}
		n++
		r.Saw(core.FuncName(fn))
		buf := fn.Params[1]
		var bad ssa.Instruction
		for _, f := range core.WithClosures(fn) {
			r.Eval(core.EdgeCount(f))
			core.EachInstr(f, func(_ *ssa.BasicBlock, _ int, in ssa.Instruction) {
				v, ok := in.(ssa.Value)
				if !ok {
					return
				}
				if c, ok := isBuiltinCall(v, "cap"); ok {
					if core.DerivesFrom(c.Call.Args[0], func(x ssa.Value) bool { return x == ssa.Value(buf) }, nil) {
						bad = in
					}
				}
			})
		}
		pos := fn.Pos()
		if bad != nil {
			pos = bad.Pos()
		}
		r.Check("C07.L1", core.Key("C07.L1", fn, "cap("+buf.Name()+")"), pos, bad == nil,
			"reader method never sizes its work by cap() of the destination buffer",
			"cap() of the destination buffer is used: a buffer with cap>len gets more than len bytes written and reported")
	}
	r.Floor("C07.L1", "reader methods under pkg/file", n, 4)

	// P0: ReadAt's byte count derives from len(buffer)
	if fn := w.Func("pkg/file/joiner", "(*joiner).ReadAt"); fn == nil {
		r.Fatal("unresolved anchor pkg/file/joiner.(*joiner).ReadAt")
	} else {
		buf := fn.Params[1]
		calls := core.Calls(fn, "(*pkg/file/joiner.joiner).readAtOffset")
		r.Floor("C07.P0", "readAtOffset calls in ReadAt", len(calls), 1)
		for _, c := range calls {
			args := core.Common(c).Args
			// bytesToRead is the 7th parameter (after receiver): recv,b,data,cur,subTrieSize,off,bufferOffset,bytesToRead
			arg := args[7]
			isLen := func(x ssa.Value) bool {
				if cl, ok := isBuiltinCall(x, "len"); ok {
					return core.Strip(cl.Call.Args[0]) == ssa.Value(buf)
				}
				return false
			}
			ok := boundedByLen(arg, isLen)
			r.Check("C07.P0", core.Key("C07.P0", fn, "readAtOffset.bytesToRead"), c.Pos(), ok,
				"the byte count given to readAtOffset is len(buffer) or a smaller value chosen under a comparison with it",
				"the byte count is not bounded by len(buffer)")
		}
	}

	// P1: Read adds exactly ReadAt's count
	if fn := w.Func("pkg/file/joiner", "(*joiner).Read"); fn == nil {
		r.Fatal("unresolved anchor pkg/file/joiner.(*joiner).Read")
	} else {
		r.Saw(core.FuncName(fn))
		stores := fieldStores(fn, "pkg/file/joiner.joiner", "off")
		r.Floor("C07.P1", "stores to joiner.off in Read", len(stores), 1)
		for _, st := range stores {
			ok := false
			if b, isBin := st.Val.(*ssa.BinOp); isBin && b.Op == token.ADD {
				x, y := b.X, b.Y
				if core.IsFieldOf(y, "pkg/file/joiner.joiner", "off") {
					x, y = y, x
				}
				if core.IsFieldOf(x, "pkg/file/joiner.joiner", "off") {
					if cv, isConv := y.(*ssa.Convert); isConv {
						y = cv.X
					}
					if c, idx := core.CallOf(y); c != nil && idx == 0 && core.IsCallTo(c, "(*pkg/file/joiner.joiner).ReadAt") {
						ok = true
					}
				}
			}
			r.Check("C07.P1", core.Key("C07.P1", fn, "j.off+=read"), st.Pos(), ok,
				"Read advances the offset by exactly the count returned by ReadAt", "offset is advanced by something else than ReadAt's count")
		}
	}

	// G1: Seek
	fn := w.Func("pkg/file/joiner", "(*joiner).Seek")
	if fn == nil {
		r.Fatal("unresolved anchor pkg/file/joiner.(*joiner).Seek")
		return
	}
	r.Saw(core.FuncName(fn))
	r.Eval(core.EdgeCount(fn))
	stores := fieldStores(fn, "pkg/file/joiner.joiner", "off")
	r.Floor("C07.G1", "stores to joiner.off in Seek", len(stores), 1)
	whence := fn.Params[2]
	for _, st := range stores {
		val := st.Val
		nonneg, _ := core.AtomEdges(fn, cmpAtom(func(x ssa.Value) bool { return x == val }, func(y ssa.Value) bool { c, ok := core.ConstInt(y); return ok && c == 0 }, ">="))
		r.Check("C07.G1", core.Key("C07.G1", fn, "store off behind offset>=0"), st.Pos(), core.OnlyBehind(fn, st, nonneg),
			"the stored offset was checked to be non-negative", "a path stores the offset without the offset<0 refusal")
		inspan, _ := core.AtomEdges(fn, cmpAtom(func(x ssa.Value) bool { return x == val }, func(y ssa.Value) bool { return core.IsFieldOf(y, "pkg/file/joiner.joiner", "span") }, "<="))
		r.Check("C07.G1", core.Key("C07.G1", fn, "store off behind offset<=span"), st.Pos(), core.OnlyBehind(fn, st, inspan),
			"the stored offset was checked to be at most the file size", "a path stores the offset without the offset>span refusal")
		wh, _ := core.AtomEdges(fn, func(base ssa.Value) (bool, bool) {
			b, ok := base.(*ssa.BinOp)
			if !ok || b.Op != token.EQL {
				return false, false
			}
			if b.X == ssa.Value(whence) {
				if c, ok := core.ConstInt(b.Y); ok && c >= 0 && c <= 2 {
					return true, true
				}
			}
			return false, false
		})
		r.Check("C07.G1", core.Key("C07.G1", fn, "store off behind known whence"), st.Pos(), core.OnlyBehind(fn, st, wh),
			"the offset is stored only for whence 0, 1 or 2", "an unknown whence value reaches the store")
	}
	readAtReentrant(r, "C07.W1")
}

// fieldStores lists the stores to structName.field in fn.
func fieldStores(fn *ssa.Function, structName, field string) []*ssa.Store {
	var out []*ssa.Store
	core.EachInstr(fn, func(_ *ssa.BasicBlock, _ int, in ssa.Instruction) {
		if st, ok := in.(*ssa.Store); ok {
			if fr, ok := core.AsField(st.Addr); ok && fr.Addr && fr.Struct == structName && fr.Name == field {
				out = append(out, st)
			}
		}
	})
	return out
}

// cmpAtom builds an atom "x REL y" (REL one of ">=", "<=", "<", ">", "==", "!=") that
// recognises every operator/operand-order spelling of the comparison or of its negation.
func cmpAtom(isX, isY func(ssa.Value) bool, rel string) core.Atom {
	return func(base ssa.Value) (bool, bool) {
		b, ok := base.(*ssa.BinOp)
		if !ok {
			return false, false
		}
		op := b.Op
		x, y := b.X, b.Y
		fx, fy := core.Forward(x), core.Forward(y)
		match := func(a, bb ssa.Value, fa, fb ssa.Value) bool {
			return (isX(a) || isX(fa)) && (isY(bb) || isY(fb))
		}
		if !match(x, y, fx, fy) {
			if match(y, x, fy, fx) {
				op = flipOp(op)
			} else {
				return false, false
			}
		}
		// now condition is  X op Y
		return relHolds(op, rel)
	}
}

func flipOp(op token.Token) token.Token {
	switch op {
	case token.LSS:
		return token.GTR
	case token.GTR:
		return token.LSS
	case token.LEQ:
		return token.GEQ
	case token.GEQ:
		return token.LEQ
	}
	return op
}

// relHolds: given the branch condition "X op Y", does it decide "X rel Y"? Returns
// (match, holdsWhenTrue): e.g. op "<", rel ">=" → match, holds when the condition is false.
func relHolds(op token.Token, rel string) (bool, bool) {
	neg := map[string]string{">=": "<", "<": ">=", "<=": ">", ">": "<=", "==": "!=", "!=": "=="}
	s := op.String()
	if s == rel {
		return true, true
	}
	if s == neg[rel] {
		return true, false
	}
	return false, false
}

// boundedByLen: v is the len-call itself (possibly converted), or a phi all of whose
// incoming values are either bounded by len or are selected on an edge where they compare
// smaller than a len-bounded value (the min idiom `n := len(b); if n > m { n = m }`).
func boundedByLen(v ssa.Value, isLen func(ssa.Value) bool) bool {
	seen := map[ssa.Value]bool{}
	var rec func(v ssa.Value) bool
	rec = func(v ssa.Value) bool {
		if seen[v] {
			return true
		}
		seen[v] = true
		if cv, ok := v.(*ssa.Convert); ok {
			if _, isInt := cv.Type().Underlying().(*types.Basic); isInt {
				return rec(cv.X)
			}
		}
		if isLen(v) {
			return true
		}
		if c, ok := isBuiltinCall(v, "min"); ok {
			for _, a := range c.Call.Args {
				if rec(a) {
					return true
				}
			}
			return false
		}
		phi, ok := v.(*ssa.Phi)
		if !ok {
			return false
		}
		// every incoming edge: either bounded, or the predecessor was entered on the edge
		// where (some bounded value) > incoming.
		for i, e := range phi.Edges {
			if rec(e) {
				continue
			}
			pred := phi.Block().Preds[i]
			if !enteredWhenSmaller(pred, phi.Block(), e, rec) {
				return false
			}
		}
		return true
	}
	return rec(v)
}

// enteredWhenSmaller: block pred (or its unique predecessor chain) is entered only on an
// edge of an If whose condition states bounded > e (or e < bounded).
func enteredWhenSmaller(pred, phiBlock *ssa.BasicBlock, e ssa.Value, bounded func(ssa.Value) bool) bool {
	b := pred
	for steps := 0; steps < 4; steps++ {
		if len(b.Preds) != 1 {
			return false
		}
		p := b.Preds[0]
		ifi, ok := p.Instrs[len(p.Instrs)-1].(*ssa.If)
		if !ok {
			b = p
			continue
		}
		base, neg := core.Normalize(ifi.Cond)
		bin, ok := base.(*ssa.BinOp)
		if !ok {
			return false
		}
		onTrue := p.Succs[0] == b
		op := bin.Op
		x, y := bin.X, bin.Y
		// want: bounded(X) and y==e with op GTR/GEQ, or x==e and bounded(Y) with LSS/LEQ
		holds := func(op token.Token) bool {
			if core.SameExpr(y, e) && bounded(x) {
				return op == token.GTR || op == token.GEQ
			}
			if core.SameExpr(x, e) && bounded(y) {
				return op == token.LSS || op == token.LEQ
			}
			return false
		}
		if onTrue != neg { // condition true on this edge
			return holds(op)
		}
		// condition false on this edge: negate op
		switch op {
		case token.LSS:
			op = token.GEQ
		case token.LEQ:
			op = token.GTR
		case token.GTR:
			op = token.LEQ
		case token.GEQ:
			op = token.LSS
		default:
			return false
		}
		return holds(op)
	}
	return false
}
