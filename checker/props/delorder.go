package props

import (
	"strings"

	"aurora-verif/checker/core"

	"golang.org/x/tools/go/ssa"
)

// delFileOrder: deleting a file first lets the caller's callback remove the chunks — the
// callback asks GetChunkPyramid, which protects chunks whose cross-file reference count is
// above one — and only after it succeeded releases the file's references (delRootCid) and
// drops its records. Released first, a chunk shared with another file looks exclusive and is
// deleted from the store while the other file's record still claims it.
func delFileOrder(r *core.Run, rule string) {
	fn := r.W.Func("pkg/chunkinfo", "(*ChunkInfo).DelFile")
	if fn == nil {
		r.Fatal("unresolved anchor pkg/chunkinfo.(*ChunkInfo).DelFile")
		return
	}
	r.Saw(core.FuncName(fn))
	r.Eval(core.EdgeCount(fn))
	var del *ssa.Call
	var releases []*ssa.Call
	core.EachInstr(fn, func(_ *ssa.BasicBlock, _ int, in ssa.Instruction) {
		c, ok := in.(*ssa.Call)
		if !ok {
			return
		}
		if c.Call.Value == ssa.Value(fn.Params[2]) {
			del = c
			return
		}
		for _, a := range c.Call.Args {
			v := a
			if mi, ok := v.(*ssa.MakeInterface); ok {
				v = mi.X
			}
			if mc, ok := v.(*ssa.MakeClosure); ok && strings.Contains(mc.Fn.Name(), "delRootCid") {
				releases = append(releases, c)
			}
		}
		if callee := c.Call.StaticCallee(); callee != nil && strings.HasSuffix(callee.Name(), "delRootCid") {
			releases = append(releases, c)
		}
	})
	if del == nil {
		r.Check(rule, core.Key(rule, fn, "removal callback invoked"), fn.Pos(), false, "", "DelFile no longer calls the removal callback")
		return
	}
	okE, _ := core.AtomEdges(fn, core.ErrNilAtom(func(x *ssa.Call) bool { return x == del }))
	r.Floor(rule, "reference releases (delRootCid) in DelFile", len(releases), 1)
	for _, rc := range releases {
		r.Check(rule, core.Key(rule, fn, "references released only after the chunks were removed"), rc.Pos(), core.Precedes(del, rc) && len(okE) > 0 && core.OnlyBehind(fn, rc, okE),
			"the file's chunk references are released (delRootCid) only after the removal callback ran successfully", "delRootCid is dispatched before (or regardless of) the removal callback: the callback's GetChunkPyramid then sees the shared chunks' counts already decremented and removes chunks another file still needs")
	}
}
