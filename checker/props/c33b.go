package props

import (
	"aurora-verif/checker/core"

	"golang.org/x/tools/go/ssa"
)

// c33RestoreSet (H1): the restore pass raises a peer's totals from the persisted cheques
// (the maps LastSendCheques / LastReceivedCheques), but only for the peers in the address
// set it iterates. Each of those maps therefore contributes its keys to that set: in
// trafficInit there is a range over the map whose key is inserted into a map that reaches
// getAllAddress / replaceTraffic. Otherwise a peer known only by a persisted cheque (one
// adopted in the handshake, say) restarts with totals 0 and is sent a cheque for an amount
// already paid.
func c33RestoreSet(r *core.Run) {
	const rule = "C33.H1"
	const pkg = "pkg/settlement/traffic"
	fn := r.W.Func(pkg, "(*Service).trafficInit")
	if fn == nil {
		r.Fatal("unresolved anchor %s.(*Service).trafficInit", pkg)
		return
	}
	r.Saw(core.FuncName(fn))
	r.Eval(core.EdgeCount(fn))
	// maps handed to the address collection / the restore loop
	sinkMaps := map[ssa.Value]bool{}
	core.EachInstr(fn, func(_ *ssa.BasicBlock, _ int, in ssa.Instruction) {
		c, ok := in.(*ssa.Call)
		if !ok {
			return
		}
		n := core.CalleeName(&c.Call)
		if n == "(*"+pkg+".Service).getAllAddress" || n == "(*"+pkg+".Service).replaceTraffic" {
			if len(c.Call.Args) >= 2 {
				sinkMaps[core.Forward(c.Call.Args[1])] = true
			}
		}
	})
	n := 0
	for _, src := range []string{"LastSendCheques", "LastReceivedCheques"} {
		var m ssa.Value
		pos := fn.Pos()
		core.EachInstr(fn, func(_ *ssa.BasicBlock, _ int, in ssa.Instruction) {
			c, ok := in.(*ssa.Call)
			if !ok || !c.Call.IsInvoke() || c.Call.Method.Name() != src {
				return
			}
			for _, u := range core.Uses(c) {
				if e, ok := u.(*ssa.Extract); ok && e.Index == 0 {
					m, pos = e, c.Pos()
				}
			}
		})
		if m == nil {
			continue
		}
		n++
		contributes := false
		for _, u := range core.Uses(m) {
			rg, ok := u.(*ssa.Range)
			if !ok {
				continue
			}
			for _, nu := range core.Uses(rg) {
				nx, ok := nu.(*ssa.Next)
				if !ok {
					continue
				}
				for _, eu := range core.Uses(nx) {
					key, ok := eu.(*ssa.Extract)
					if !ok || key.Index != 1 {
						continue
					}
					for _, ku := range core.Uses(key) {
						if mu, ok := ku.(*ssa.MapUpdate); ok && mu.Key == ssa.Value(key) && sinkMaps[core.Forward(mu.Map)] {
							contributes = true
						}
					}
				}
			}
		}
		r.Check(rule, core.Key(rule, fn, "peers of "+src+" are restored"), pos, contributes,
			"every peer that has a persisted cheque is in the set of peers whose totals are restored", "the keys of "+src+"() are not added to the address set trafficInit restores: a peer known only by a persisted cheque (adopted in the handshake) restarts with totals 0, the next cheque is issued for an amount already paid")
	}
	r.Floor(rule, "persisted cheque maps read by trafficInit", n, 2)
}
