package props

import (
	"aurora-verif/checker/core"

	"golang.org/x/tools/go/ssa"
)

// precededOnAllPaths: every Return of fn (other than the recover block) is preceded, on
// every path from the entry, by an instruction satisfying pred. Returns the first Return
// that is not.
func precededOnAllPaths(fn *ssa.Function, pred func(ssa.Instruction) bool) (ok bool, bad *ssa.Return, nRet int) {
	var marks []ssa.Instruction
	core.EachInstr(fn, func(_ *ssa.BasicBlock, _ int, in ssa.Instruction) {
		if pred(in) {
			marks = append(marks, in)
		}
	})
	ok = true
	core.EachInstr(fn, func(b *ssa.BasicBlock, _ int, in ssa.Instruction) {
		ret, isRet := in.(*ssa.Return)
		if !isRet || b == fn.Recover {
			return
		}
		nRet++
		hit := false
		for _, m := range marks {
			if core.Precedes(m, ret) {
				hit = true
			}
		}
		if !hit && ok {
			ok, bad = false, ret
		}
	})
	return
}

// c24ProtectReplaced (F2): the multicast service pushes the complete list of protected peers
// on every refresh; an empty list revokes every protection. RefreshProtectPeer therefore
// replaces Kad.protectPeers on every path — a shortcut for the empty list leaves formerly
// protected peers protected for good, and they are admitted into oversaturated bins.
func c24ProtectReplaced(r *core.Run) {
	const rule = "C24.F2"
	fn := r.W.Func(kadPkg, "(*Kad).RefreshProtectPeer")
	if fn == nil {
		r.Fatal("unresolved anchor %s.(*Kad).RefreshProtectPeer", kadPkg)
		return
	}
	r.Saw(core.FuncName(fn))
	r.Eval(core.EdgeCount(fn))
	ok, bad, n := precededOnAllPaths(fn, func(in ssa.Instruction) bool {
		st, isSt := in.(*ssa.Store)
		if !isSt {
			return false
		}
		fr, isF := core.AsField(st.Addr)
		// a replacement: the stored list is not built from the list it replaces (the
		// parameter itself, a copy of it, a filtered copy … all qualify)
		return isF && fr.Struct == kadT && fr.Name == "protectPeers" && !fromOldProtected(st.Val, 0)
	})
	pos := fn.Pos()
	if bad != nil {
		pos = bad.Pos()
	}
	r.Check(rule, core.Key(rule, fn, "protected set replaced on every path"), pos, ok && n > 0,
		"RefreshProtectPeer installs the list it is given, whatever its length", "RefreshProtectPeer can return without installing the new list (e.g. for an empty list): protection is never revoked and formerly protected peers are admitted into oversaturated bins")
}

// c33RestoreAlways (F2): at start-up (and on refresh) replaceTraffic first asks the chain and
// then restores the peer's totals and last cheque amounts from the persisted records
// (trafficPeerChequeUpdate). The second step does not depend on the first: the worker
// reaches trafficPeerChequeUpdate on every path, also when the chain refresh failed —
// otherwise the peer starts at zero, and the next update persists zero + delta over the
// stored totals.
func c33RestoreAlways(r *core.Run) {
	const rule = "C33.F2"
	const pkg = "pkg/settlement/traffic"
	top := r.W.Func(pkg, "(*Service).replaceTraffic")
	if top == nil {
		r.Fatal("unresolved anchor %s.(*Service).replaceTraffic", pkg)
		return
	}
	n := 0
	for _, fn := range core.WithClosures(top) {
		if len(core.Calls(fn, "(*"+pkg+".Service).trafficPeerChainUpdate")) == 0 {
			continue
		}
		n++
		r.Saw(core.FuncName(fn))
		r.Eval(core.EdgeCount(fn))
		ok, bad, nr := precededOnAllPaths(fn, func(in ssa.Instruction) bool {
			c, isC := in.(*ssa.Call)
			return isC && core.IsCallTo(c, "(*"+pkg+".Service).trafficPeerChequeUpdate")
		})
		pos := fn.Pos()
		if bad != nil {
			pos = bad.Pos()
		}
		r.Check(rule, lsKey(rule, fn, "persisted totals restored on every path"), pos, ok && nr > 0,
			"the per-peer restore from the persisted records runs whether or not the chain refresh succeeded", "the restore worker can finish without trafficPeerChequeUpdate (e.g. after a failed chain refresh): the peer starts with totals 0 although they are intact on disk, the next update persists 0 + delta over them")
	}
	r.Floor(rule, "restore workers in replaceTraffic", n, 1)
}

// c08CipherAlways (F1): "with padding configured every ciphertext has exactly the padded
// length" — also for a span-only chunk (empty file). EncryptChunk encrypts the span and the
// data part on every path that does not fail: each return is preceded by both Encrypt calls
// or lies behind a non-nil error.
func c08CipherAlways(r *core.Run) {
	const rule = "C08.F1"
	fn := r.W.Func("pkg/encryption", "(*chunkEncrypter).EncryptChunk")
	if fn == nil {
		r.Fatal("unresolved anchor pkg/encryption.(*chunkEncrypter).EncryptChunk")
		return
	}
	r.Saw(core.FuncName(fn))
	r.Eval(core.EdgeCount(fn))
	var encs []ssa.Instruction
	core.EachInstr(fn, func(_ *ssa.BasicBlock, _ int, in ssa.Instruction) {
		if c, ok := in.(*ssa.Call); ok && c.Call.IsInvoke() && c.Call.Method.Name() == "Encrypt" {
			encs = append(encs, in)
		}
	})
	_, failed := core.AtomEdges(fn, core.ErrNilAtom(func(*ssa.Call) bool { return true }))
	n := 0
	core.EachInstr(fn, func(b *ssa.BasicBlock, _ int, in ssa.Instruction) {
		ret, ok := in.(*ssa.Return)
		if !ok || b == fn.Recover {
			return
		}
		n++
		cnt := 0
		for _, e := range encs {
			if core.Precedes(e, ret) {
				cnt++
			}
		}
		r.Check(rule, lsKey(rule, fn, "span and data both encrypted before a successful return"), ret.Pos(), cnt >= 2 || (len(failed) > 0 && core.OnlyBehind(fn, ret, failed)),
			"every successful return of EncryptChunk has encrypted the span and the (padded) data part", "EncryptChunk can return successfully without having encrypted the data part (e.g. for a span-only chunk): the stored ciphertext lacks the padded data, the decrypting reader refuses it and an encrypted empty file cannot be read back")
	})
	r.Floor(rule, "returns of EncryptChunk", n, 2)
	r.Floor(rule, "Encrypt calls in EncryptChunk", len(encs), 2)
}

// c24FullOnly (G4): "the peers reported as connected are exactly the FULL nodes connected".
// Outbound enters its peer into the connected set only behind peer.Mode.IsFull(): through an
// "already connected" dial (Connection → connect → ErrAlreadyConnected → Outbound) it is
// also handed light nodes that are connected inbound and held by the light-node container.
func c24FullOnly(r *core.Run) {
	const rule = "C24.G4"
	fn := r.W.Func(kadPkg, "(*Kad).Outbound")
	if fn == nil {
		r.Fatal("unresolved anchor %s.(*Kad).Outbound", kadPkg)
		return
	}
	r.Saw(core.FuncName(fn))
	full, _ := core.AtomEdges(fn, core.BoolCallAtom(func(c *ssa.Call) bool {
		return core.CalleeName(&c.Call) == "(pkg/aurora.Model).IsFull"
	}))
	n := 0
	for _, c := range core.Calls(fn, psT+"Add") {
		if !isKadList(core.Common(c).Args[0], "connectedPeers") {
			continue
		}
		n++
		r.Check(rule, core.Key(rule, fn, "outbound peer counted only if it is a full node"), c.Pos(), len(full) > 0 && core.OnlyBehind(fn, c, full),
			"Outbound adds its peer to the connected set only behind Mode.IsFull()", "Outbound adds its peer to connectedPeers without testing Mode.IsFull(): a light node that is connected inbound and is dialled again (already connected) is reported as a connected full node")
	}
	r.Floor(rule, "connectedPeers.Add in Outbound", n, 1)
}

// c33HandshakeAtomic (Lk4): Handshake adopts a cheque the peer presents when it is newer than
// the last one this node recorded. The comparison (a read of chequeStore.LastSendCheque) and
// the recording (putSendCheque) are one critical section of the peer's Traffic mutex — the
// mutex Pay holds while it issues and records. Compared outside the lock, a cheque issued
// by Pay in between is overwritten by the older one the peer presented: the recorded last
// cheque goes back, and the next Pay issues a cheque for an amount already paid.
func c33HandshakeAtomic(r *core.Run, la *core.LockAnalysis, mu string) {
	const rule = "C33.Lk4"
	const pkg = "pkg/settlement/traffic"
	fn := r.W.Func(pkg, "(*Service).Handshake")
	if fn == nil {
		r.Fatal("unresolved anchor %s.(*Service).Handshake", pkg)
		return
	}
	r.Saw(core.FuncName(fn))
	r.Eval(core.EdgeCount(fn))
	n := 0
	// Handshake and the helpers of the package it reaches through static calls (a
	// maintainer may move the adoption into a helper; the entry lockset of a helper is
	// the intersection over its call sites)
	seen := map[*ssa.Function]bool{}
	var reach []*ssa.Function
	var walk func(f *ssa.Function, depth int)
	walk = func(f *ssa.Function, depth int) {
		if f == nil || seen[f] || depth > 3 || f.Pkg != fn.Pkg || len(f.Blocks) == 0 {
			return
		}
		seen[f] = true
		for _, g := range core.WithClosures(f) {
			if g != f {
				seen[g] = true
			}
			reach = append(reach, g)
			for _, b := range g.Blocks {
				for _, in := range b.Instrs {
					if c, ok := in.(ssa.CallInstruction); ok {
						if _, isGo := in.(*ssa.Go); !isGo {
							walk(c.Common().StaticCallee(), depth+1)
						}
					}
				}
			}
		}
	}
	walk(fn, 0)
	var reads []ssa.Instruction
	for _, g := range reach {
		reads = append(reads, core.Calls(g, "(pkg/settlement/traffic/cheque.ChequeStore).LastSendCheque")...)
	}
	for _, c := range reads {
		n++
		h := la.HeldAt(c)
		r.Check(rule, core.Key(rule, c.Parent(), "last recorded cheque read under the peer's mutex"), c.Pos(), h != nil && h.Holds(mu, true),
			"Handshake reads the last recorded cheque and records the adopted one in one critical section of the peer's Traffic mutex", "Handshake reads LastSendCheque without the Traffic mutex (held: "+h.String()+") and takes it only to record: a cheque Pay issued in between is overwritten by the older presented one, the next Pay pays that difference again")
	}
	r.Floor(rule, "reads of the last recorded cheque in Handshake", n, 1)
}

// fromOldProtected: v is computed from a load of Kad.protectPeers (also through append).
func fromOldProtected(v ssa.Value, depth int) bool {
	if v == nil || depth > 6 {
		return false
	}
	isOld := func(x ssa.Value) bool {
		u, ok := x.(*ssa.UnOp)
		if !ok {
			return false
		}
		fr, isF := core.AsField(u.X)
		return isF && fr.Struct == kadT && fr.Name == "protectPeers"
	}
	if core.DerivesFrom(v, isOld, nil) {
		return true
	}
	switch x := core.Strip(v).(type) {
	case *ssa.Call:
		if b, ok := x.Call.Value.(*ssa.Builtin); ok && b.Name() == "append" {
			for _, a := range x.Call.Args {
				if fromOldProtected(a, depth+1) {
					return true
				}
			}
		}
	case *ssa.Phi:
		for _, e := range x.Edges {
			if fromOldProtected(e, depth+1) {
				return true
			}
		}
	case *ssa.Slice:
		return fromOldProtected(x.X, depth+1)
	}
	return false
}
