package props

import (
	"sort"
	"strings"

	"aurora-verif/checker/core"

	"golang.org/x/tools/go/ssa"
)

func init() {
	reg("C25", Meta{
		Technique:   "sibling agreement on SSA normal forms (expiry predicate of the per-peer answer vs. the listing), provenance of store keys, zero-duration handling as guard shape",
		Explanation: "C25 (blocklist), structural clauses: (A1) Blocklist.Exists and the closure of Blocklist.Peers decide 'expired' with the same predicate over (timestamp, duration) — same operators, operands and the same branch polarities leading to 'still blocked' — so the listing agrees with the per-peer answer; (A2) both read the entry through the same decoder (get); (P1) Exists/Add/Remove address the store with generateKey(overlay), and Remove deletes that key; (F1) every return of Add is either the read error or the result of writing the entry — no early success return that would keep a stale timestamp; (G1) Add writes the entry with the current time and a duration that is either the requested one or the stored one (never a third value). Not decided: the max-merge arithmetic of Add and the exact expiry time (value reasoning).",
	}, c25)
	reg("C26", Meta{
		Technique:   "must-guard / bad-edge reachability and must-follow on SSA, lockset analysis for the flagged-peer map",
		Explanation: "C26 (blocker), structural clauses: (G1) the sequencer clock is only ever incremented, by exactly one tick, and only on NetworkStatus()==Available (an advance by a computed amount such as elapsed wall time would count unavailable time); (G2) Blocklist(...) is called only behind 0 < blockAfter and blockAfter < sequence.Load(); (F1) every path from a Blocklist call deletes that peer's entry before the loop continues or the function returns (a flag period leads to at most one blocklisting); (G3) Flag installs a deadline only when no entry exists (first deadline kept) and only when the network is available; (F2) Unflag and PruneUnseen delete entries (a success / unseen peer is never blocklisted later); (Lk1) every access to Blocker.peers holds Blocker.mu. Not decided: wall-clock timing (that the deadline equals the flag timeout).",
	}, c26)
}

func c25(r *core.Run) {
	w := r.W
	const pkg = "pkg/p2p/libp2p/internal/blocklist"
	exists := w.Func(pkg, "(*Blocklist).Exists")
	peers := w.Func(pkg, "(*Blocklist).Peers")
	add := w.Func(pkg, "(*Blocklist).Add")
	remove := w.Func(pkg, "(*Blocklist).Remove")
	if exists == nil || peers == nil || add == nil || remove == nil {
		r.Fatal("unresolved anchor %s.(*Blocklist).Exists/Peers/Add/Remove", pkg)
		return
	}
	var pcl *ssa.Function
	for _, cl := range core.Closures(peers) {
		if len(core.Calls(cl, "(*"+pkg+".Blocklist).get")) > 0 {
			pcl = cl
		}
	}
	if pcl == nil {
		r.Fatal("unresolved anchor: closure of Blocklist.Peers that reads entries")
		return
	}
	const get = "(*" + pkg + ".Blocklist).get"
	c25ListingComplete(r, pcl)
	// predicate signature of fn relative to its `get` call and a "still blocked" sink
	sig := func(fn *ssa.Function, sink func(ssa.Instruction) bool) ([]string, int) {
		r.Saw(core.FuncName(fn))
		r.Eval(core.EdgeCount(fn))
		gets := core.Calls(fn, get)
		if len(gets) != 1 {
			return nil, len(gets)
		}
		g := gets[0].(*ssa.Call)
		leaf := func(v ssa.Value) (string, bool) {
			if e, ok := v.(*ssa.Extract); ok && e.Tuple == ssa.Value(g) {
				return []string{"TIMESTAMP", "DURATION", "ERR"}[e.Index], true
			}
			return "", false
		}
		var sinks []*ssa.BasicBlock
		core.EachInstr(fn, func(b *ssa.BasicBlock, _ int, in ssa.Instruction) {
			if sink(in) {
				sinks = append(sinks, b)
			}
		})
		canReach := func(from *ssa.BasicBlock) bool {
			rb := core.ReachBlocks([]*ssa.BasicBlock{from}, nil)
			for _, s := range sinks {
				if rb[s] {
					return true
				}
			}
			return false
		}
		var out []string
		for _, b := range fn.Blocks {
			ifi, ok := b.Instrs[len(b.Instrs)-1].(*ssa.If)
			if !ok {
				continue
			}
			s := core.Render(ifi.Cond, leaf)
			if !strings.Contains(s, "TIMESTAMP") && !strings.Contains(s, "DURATION") {
				continue
			}
			pol := ""
			if canReach(b.Succs[0]) {
				pol += "T"
			}
			if canReach(b.Succs[1]) {
				pol += "F"
			}
			out = append(out, s+" blocked-on:"+pol)
		}
		sort.Strings(out)
		return out, 1
	}
	es, n1 := sig(exists, func(in ssa.Instruction) bool {
		ret, ok := in.(*ssa.Return)
		if !ok {
			return false
		}
		b, isC := core.ConstBool(ret.Results[0])
		return isC && b
	})
	ps, n2 := sig(pcl, func(in ssa.Instruction) bool {
		c, ok := in.(*ssa.Call)
		if !ok {
			return false
		}
		_, isApp := isBuiltinCall(c, "append")
		return isApp
	})
	r.Floor("C25.A2", "entry decoder calls (get) in Exists and Peers", n1+n2, 2)
	r.Check("C25.A1", "C25.A1@"+pkg+"#expiry predicate Exists vs Peers", exists.Pos(), len(es) > 0 && strings.Join(es, " ; ") == strings.Join(ps, " ; "),
		"the per-peer answer and the listing use the same expiry predicate: "+strings.Join(es, " ; "),
		"Exists decides with ["+strings.Join(es, " ; ")+"] but Peers with ["+strings.Join(ps, " ; ")+"]")
	r.Floor("C25.A1", "expiry conditions in Exists", len(es), 2)

	// P1 keys
	keyFrom := func(fn *ssa.Function, v ssa.Value) bool {
		c, _ := core.CallOf(v)
		return c != nil && core.IsCallTo(c, pkg+".generateKey") && c.Call.Args[0] == ssa.Value(fn.Params[1])
	}
	for _, row := range []struct {
		fn    *ssa.Function
		calls []string
	}{
		{exists, []string{get}},
		{add, []string{get, "(pkg/storage.StateStorer).Put"}},
		{remove, []string{"(pkg/storage.StateStorer).Delete"}},
	} {
		r.Saw(core.FuncName(row.fn))
		r.Eval(core.EdgeCount(row.fn))
		for _, name := range row.calls {
			cs := core.Calls(row.fn, name)
			ok := len(cs) >= 1
			for _, c := range cs {
				args := core.Common(c).Args
				k := args[0]
				if name == get {
					k = args[1]
				}
				if !keyFrom(row.fn, k) {
					ok = false
				}
			}
			r.Check("C25.P1", core.Key("C25.P1", row.fn, "key of "+name), row.fn.Pos(), ok,
				"the store is addressed with generateKey(overlay)", "a store access in "+core.FuncName(row.fn)+" does not use generateKey(overlay)")
		}
	}
	// G1 Add's stored duration ∈ {requested, stored}
	okDur := false
	for _, c := range core.Calls(add, "(time.Duration).String") {
		v := core.Common(c).Args[0]
		gets := core.Calls(add, get)
		okDur = len(gets) == 1
		var walk func(v ssa.Value, d int)
		walk = func(v ssa.Value, d int) {
			if d > 4 {
				okDur = false
				return
			}
			if phi, ok := v.(*ssa.Phi); ok {
				for _, e := range phi.Edges {
					walk(e, d+1)
				}
				return
			}
			if v == ssa.Value(add.Params[2]) {
				return
			}
			if cc, idx := core.CallOf(v); cc != nil && len(gets) == 1 && cc == gets[0].(*ssa.Call) && idx == 1 {
				return
			}
			okDur = false
		}
		walk(v, 0)
	}
	r.Check("C25.G1", core.Key("C25.G1", add, "stored duration is requested or existing"), add.Pos(), okDur,
		"Add stores either the requested duration or the already stored one", "Add stores a duration that is neither the requested nor the stored one")
	c25Choice(r, add, get)
	// F1: every successful Add (re)writes the entry: the only returns are the read error
	// and the result of store.Put — an early `return nil` keeps a stale timestamp, so a
	// requested period is not fully covered
	core.EachInstr(add, func(_ *ssa.BasicBlock, _ int, in ssa.Instruction) {
		ret, ok := in.(*ssa.Return)
		if !ok || ret.Block() == add.Recover {
			return
		}
		v := core.Forward(ret.Results[0])
		c, _ := core.CallOf(v)
		okRet := c != nil && (core.IsCallTo(c, "(pkg/storage.StateStorer).Put") || core.IsCallTo(c, get))
		r.Check("C25.F1", core.Key("C25.F1", add, "every successful Add writes the entry"), ret.Pos(), okRet,
			"Add ends either with the read error or with the result of writing the entry (fresh timestamp)", "Add can return without writing the entry (e.g. when a longer block exists): the old timestamp is kept and the newly requested period is not fully covered")
	})
	okTs := false
	for _, st := range fieldStoresAny(add, "Timestamp") {
		if c, _ := core.CallOf(st.Val); c != nil && !c.Call.IsInvoke() {
			if g, ok := core.Forward(c.Call.Value).(*ssa.UnOp); ok {
				if gl, ok := g.X.(*ssa.Global); ok && gl.Name() == "timeNow" {
					okTs = true
				}
			}
		}
	}
	r.Check("C25.G1", core.Key("C25.G1", add, "timestamp = now"), add.Pos(), okTs,
		"Add stamps the entry with the current time", "Add does not store timeNow() as the entry timestamp")
}

func c26(r *core.Run) {
	w := r.W
	const B = "pkg/blocker.Blocker"
	const P = "pkg/blocker.peer"
	newFn := w.Func("pkg/blocker", "New")
	block := w.Func("pkg/blocker", "(*Blocker).block")
	flag := w.Func("pkg/blocker", "(*Blocker).Flag")
	unflag := w.Func("pkg/blocker", "(*Blocker).Unflag")
	prune := w.Func("pkg/blocker", "(*Blocker).PruneUnseen")
	if newFn == nil || block == nil || flag == nil || unflag == nil || prune == nil {
		r.Fatal("unresolved anchor pkg/blocker New/block/Flag/Unflag/PruneUnseen")
		return
	}
	const status = "(pkg/p2p.NetworkStatuser).NetworkStatus"
	avail := mustConst(r, "pkg/p2p", "NetworkStatusAvailable")
	availAtom := cmpAtom(func(v ssa.Value) bool { c, _ := core.CallOf(v); return c != nil && core.IsCallTo(c, status) },
		func(y ssa.Value) bool { k, ok := core.ConstInt(y); return ok && k == avail }, "==")
	// G1: sequence.Inc only when available
	nInc := 0
	for _, fn := range w.PkgFuncs("pkg/blocker") {
		core.EachInstr(fn, func(_ *ssa.BasicBlock, _ int, in ssa.Instruction) {
			c, ok := in.(*ssa.Call)
			if !ok || len(c.Call.Args) == 0 || !core.IsFieldOf(c.Call.Args[0], B, "sequence") {
				return
			}
			name := core.CalleeName(&c.Call)
			const pre = "(*go.uber.org/atomic.Uint64)."
			if !strings.HasPrefix(name, pre) {
				return
			}
			switch m := strings.TrimPrefix(name, pre); m {
			case "Load", "String":
				return
			case "Inc", "Add":
				nInc++
				r.Saw(core.FuncName(fn))
				r.Eval(core.EdgeCount(fn))
				good, _ := core.AtomEdges(fn, availAtom)
				r.Check("C26.G1", lsKey("C26.G1", fn, "clock tick behind network available"), c.Pos(), len(good) > 0 && core.OnlyBehind(fn, c, good),
					"the flag-timeout clock advances only while the network is available", "the sequencer advances without the NetworkStatus()==Available check")
				okStep := m == "Inc"
				if m == "Add" {
					k, isC := core.ConstInt(c.Call.Args[1])
					okStep = isC && k == 1
				}
				r.Check("C26.G1", lsKey("C26.G1", fn, "clock advances one tick per available period"), c.Pos(), okStep,
					"each available tick advances the clock by exactly one", "the clock is advanced by a computed amount (for instance elapsed wall time): time during which the network was unavailable can be added to the flag timeout clock")
			default:
				r.Check("C26.G1", lsKey("C26.G1", fn, "clock written by "+m), c.Pos(), false,
					"the clock is only incremented", "the sequencer is modified by "+m)
			}
		})
	}
	r.Floor("C26.G1", "sequencer increments", nInc, 1)

	// G2 / F1 block()
	r.Saw(core.FuncName(block))
	r.Eval(core.EdgeCount(block))
	bl := core.Calls(block, "(pkg/p2p.Blocklister).Blocklist")
	r.Floor("C26.G2", "Blocklist calls in block()", len(bl), 1)
	isBlockAfter := loadsField(P, "blockAfter")
	isSeq := func(v ssa.Value) bool {
		c, _ := core.CallOf(v)
		return c != nil && core.IsCallTo(c, "(*go.uber.org/atomic.Uint64).Load") && core.IsFieldOf(c.Call.Args[0], B, "sequence")
	}
	for _, c := range bl {
		behindAll(r, "C26.G2", block, c, "blocklisting", []guardSpec{
			{"the peer is flagged (0 < blockAfter)", cmpAtom(isBlockAfter, func(y ssa.Value) bool { k, ok := core.ConstInt(y); return ok && k == 0 }, ">"), true},
			{"the deadline has passed (blockAfter < sequence)", cmpAtom(isBlockAfter, isSeq, "<"), true},
		})
		ok := mustPassFromInstr(c, func(in ssa.Instruction) bool {
			d, ok := in.(*ssa.Call)
			if !ok {
				return false
			}
			_, isDel := isBuiltinCall(d, "delete")
			return isDel && loadsField(B, "peers")(core.Forward(d.Call.Args[0]))
		}, block)
		r.Check("C26.F1", core.Key("C26.F1", block, "delete after Blocklist"), c.Pos(), ok,
			"after blocklisting a peer its flag entry is deleted before the next iteration or return", "a path from the Blocklist call reaches the next loop iteration or a return without delete(b.peers, key): the same flag period can blocklist again")
	}

	// G3 Flag
	r.Saw(core.FuncName(flag))
	r.Eval(core.EdgeCount(flag))
	var ups []ssa.Instruction
	core.EachInstr(flag, func(_ *ssa.BasicBlock, _ int, in ssa.Instruction) {
		if mu, ok := in.(*ssa.MapUpdate); ok && loadsField(B, "peers")(core.Forward(mu.Map)) {
			ups = append(ups, in)
		}
	})
	r.Floor("C26.G3", "map inserts in Flag", len(ups), 1)
	for _, u := range ups {
		absent, _ := core.AtomEdges(flag, func(base ssa.Value) (bool, bool) {
			e, ok := base.(*ssa.Extract)
			if !ok || e.Index != 1 {
				return false, false
			}
			lk, ok := e.Tuple.(*ssa.Lookup)
			if !ok || !lk.CommaOk || !loadsField(B, "peers")(core.Forward(lk.X)) {
				return false, false
			}
			return true, false // atom "absent" holds when ok is false
		})
		r.Check("C26.G3", core.Key("C26.G3", flag, "insert only when absent"), u.Pos(), len(absent) > 0 && core.OnlyBehind(flag, u, absent),
			"Flag keeps the first deadline: it inserts only when the peer has no entry", "Flag overwrites an existing entry: repeated failures keep pushing the deadline away")
		good, _ := core.AtomEdges(flag, availAtom)
		r.Check("C26.G3", core.Key("C26.G3", flag, "insert only when network available"), u.Pos(), len(good) > 0 && core.OnlyBehind(flag, u, good),
			"Flag records a failure only while the network is available", "Flag records failures while the network is unavailable")
	}
	// F2 Unflag / PruneUnseen delete
	for _, fn := range []*ssa.Function{unflag, prune} {
		r.Saw(core.FuncName(fn))
		r.Eval(core.EdgeCount(fn))
		n := 0
		core.EachInstr(fn, func(_ *ssa.BasicBlock, _ int, in ssa.Instruction) {
			if d, ok := in.(*ssa.Call); ok {
				if _, isDel := isBuiltinCall(d, "delete"); isDel && loadsField(B, "peers")(core.Forward(d.Call.Args[0])) {
					n++
				}
			}
		})
		r.Check("C26.F2", core.Key("C26.F2", fn, "deletes the entry"), fn.Pos(), n >= 1,
			"the flag entry is removed", core.FuncName(fn)+" no longer deletes from b.peers")
	}
	// F2 (unconditional): a success always clears the flag — every return of Unflag is
	// preceded by the delete of the peer's entry, whatever the network status (a success that
	// arrives during an outage still ends the flag period)
	{
		var dels []ssa.Instruction
		core.EachInstr(unflag, func(_ *ssa.BasicBlock, _ int, in ssa.Instruction) {
			if d, ok := in.(*ssa.Call); ok {
				if _, isDel := isBuiltinCall(d, "delete"); isDel && loadsField(B, "peers")(core.Forward(d.Call.Args[0])) {
					dels = append(dels, in)
				}
			}
		})
		core.EachInstr(unflag, func(b *ssa.BasicBlock, _ int, in ssa.Instruction) {
			ret, ok := in.(*ssa.Return)
			if !ok || b == unflag.Recover {
				return
			}
			cleared := false
			for _, d := range dels {
				if core.Precedes(d, ret) {
					cleared = true
				}
			}
			r.Check("C26.F2", lsKey("C26.F2", unflag, "every return has cleared the flag"), ret.Pos(), cleared,
				"Unflag clears the peer's flag on every path", "Unflag can return without deleting the peer's entry (e.g. while the network is unavailable): a peer that succeeded since it was flagged is blocklisted once the clock resumes")
		})
	}
	// PruneUnseen deletes only unseen
	var isSeenCall *ssa.Call
	core.EachInstr(prune, func(_ *ssa.BasicBlock, _ int, in ssa.Instruction) {
		if c, ok := in.(*ssa.Call); ok && !c.Call.IsInvoke() && c.Call.StaticCallee() == nil {
			if _, isB := c.Call.Value.(*ssa.Builtin); !isB {
				isSeenCall = c
			}
		}
		if c, ok := in.(*ssa.Call); ok {
			if mc, ok := c.Call.Value.(*ssa.MakeClosure); ok {
				_ = mc
				isSeenCall = c
			}
		}
	})
	if isSeenCall != nil {
		unseen, _ := core.AtomEdges(prune, func(base ssa.Value) (bool, bool) {
			if c, _ := core.CallOf(base); c == isSeenCall {
				return true, false
			}
			return false, false
		})
		core.EachInstr(prune, func(_ *ssa.BasicBlock, _ int, in ssa.Instruction) {
			if d, ok := in.(*ssa.Call); ok {
				if _, isDel := isBuiltinCall(d, "delete"); isDel {
					r.Check("C26.F2", core.Key("C26.F2", prune, "delete only unseen"), d.Pos(), len(unseen) > 0 && core.OnlyBehind(prune, d, unseen),
						"PruneUnseen removes only peers that are not in the seen list", "PruneUnseen deletes an entry without the !isSeen test")
				}
			}
		})
	}

	// Lk1
	la := core.NewLockAnalysis(w, "pkg/blocker")
	la.Run()
	n := la.CheckGuarded(r, "C26.Lk1", B, "peers", B+".mu", nil)
	r.Floor("C26.Lk1", "accesses to Blocker.peers", n, 3)
}

// mustPassFromInstr: every path from instruction a to a Return, or back to the loop header
// that controls a (next iteration), passes an instruction satisfying pred.
func mustPassFromInstr(a ssa.Instruction, pred func(ssa.Instruction) bool, fn *ssa.Function) bool {
	b := a.Block()
	idx := 0
	for i, in := range b.Instrs {
		if in == a {
			idx = i
		}
	}
	for _, in := range b.Instrs[idx+1:] {
		if pred(in) {
			return true
		}
	}
	back := core.BackEdges(fn)
	seen := map[*ssa.BasicBlock]bool{}
	work := []*ssa.BasicBlock{}
	push := func(from, s *ssa.BasicBlock) bool {
		if back[core.Edge{From: from, To: s}] {
			return false // reaching a back edge without pred: next iteration
		}
		if !seen[s] {
			seen[s] = true
			work = append(work, s)
		}
		return true
	}
	if _, isRet := b.Instrs[len(b.Instrs)-1].(*ssa.Return); isRet {
		return false
	}
	for _, s := range b.Succs {
		if !push(b, s) {
			return false
		}
	}
	for len(work) > 0 {
		x := work[len(work)-1]
		work = work[:len(work)-1]
		hit := false
		for _, in := range x.Instrs {
			if pred(in) {
				hit = true
				break
			}
		}
		if hit {
			continue
		}
		if _, isRet := x.Instrs[len(x.Instrs)-1].(*ssa.Return); isRet {
			return false
		}
		for _, s := range x.Succs {
			if !push(x, s) {
				return false
			}
		}
	}
	return true
}
