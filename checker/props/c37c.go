package props

import (
	"aurora-verif/checker/core"

	"golang.org/x/tools/go/ssa"
)

// c37PersistedVector (S11): "panics deferred to later local use of state the message
// created". The presence vectors peers send are persisted as chunkinfo.BitVector{B, Len} and
// reloaded at start-up with bitvector.NewFromBytes(B, Len), whose error the reload discards
// before dereferencing the result. That is safe exactly as long as every persisted record
// is self-consistent: at every construction of the record in pkg/chunkinfo, B is the result
// of (*bitvector.BitVector).Bytes() and Len the result of Len() of the same, validated
// in-memory vector — never the raw bytes a peer sent (which were only rejected in memory).
func c37PersistedVector(r *core.Run) {
	const rule = "C37.S11"
	const rec = "pkg/chunkinfo.BitVector"
	n := 0
	done := map[*ssa.Function]bool{}
	for _, top := range r.W.PkgFuncs("pkg/chunkinfo") {
		for _, fn := range core.WithClosures(top) {
			if done[fn] {
				continue
			}
			done[fn] = true
			bs := fieldStores(fn, rec, "B")
			if len(bs) == 0 {
				continue
			}
			r.Saw(core.FuncName(fn))
			ls := fieldStores(fn, rec, "Len")
			for _, b := range bs {
				n++
				recvOf := func(v ssa.Value, method string) ssa.Value {
					c, _ := core.CallOf(core.Forward(v))
					if c == nil || !core.IsCallTo(c, "(*pkg/bitvector.BitVector)."+method) {
						return nil
					}
					return core.Common(c).Args[0]
				}
				rb := recvOf(b.Val, "Bytes")
				ok := false
				if rb != nil {
					for _, l := range ls {
						fa, okA := b.Addr.(*ssa.FieldAddr)
						fl, okL := l.Addr.(*ssa.FieldAddr)
						if !okA || !okL || fa.X != fl.X {
							continue
						}
						if rl := recvOf(l.Val, "Len"); rl != nil && (core.SameExpr(core.Forward(rb), core.Forward(rl)) || sameFieldLoad(rb, rl)) {
							ok = true
						}
					}
				}
				r.Check(rule, lsKey(rule, fn, "persisted vector record = Bytes() and Len() of one in-memory vector"), b.Pos(), ok,
					"the persisted presence record is built from one validated in-memory vector (B = v.Bytes(), Len = v.Len())",
					"a chunkinfo.BitVector record is built from something else than v.Bytes() / v.Len() of one vector (e.g. the raw bytes a peer sent): the start-up reload discards NewFromBytes' error and dereferences its nil result — a short vector from a peer crashes this and every later start")
			}
		}
	}
	r.Floor(rule, "constructions of the persisted vector record", n, 4)
}

// sameFieldLoad: a and b are loads of the same field of the identical base value
// (x.f read twice with no call that could reassign x in between being visible in SSA as
// a different base value).
func sameFieldLoad(a, b ssa.Value) bool {
	if a == b {
		return true
	}
	la, okA := a.(*ssa.UnOp)
	lb, okB := b.(*ssa.UnOp)
	if !okA || !okB {
		return false
	}
	fa, okA := la.X.(*ssa.FieldAddr)
	fb, okB := lb.X.(*ssa.FieldAddr)
	return okA && okB && fa.Field == fb.Field && fa.X == fb.X
}
