package props

import (
	"aurora-verif/checker/core"

	"golang.org/x/tools/go/ssa"
)

// errMustSurface decides engine E for one call c whose last result is an error: on every
// path that leaves the call WITHOUT crossing the edge "that error == nil", the function
// neither invokes c again (next iteration) nor returns anything but that very error. This
// covers the plain `if err != nil { return err }` and also orderings such as testing a
// stop flag before the error (a callback returning (stop=true, err) must not lose err).
func errMustSurface(fn *ssa.Function, c *ssa.Call) (bool, string) {
	okEdges, bad := core.AtomEdges(fn, core.ErrNilAtom(func(x *ssa.Call) bool { return x == c }))
	if len(bad) == 0 {
		return false, "the error is never tested"
	}
	errIdx := c.Call.Signature().Results().Len() - 1
	var start []*ssa.BasicBlock
	for _, s := range c.Block().Succs {
		if !okEdges[core.Edge{From: c.Block(), To: s}] {
			start = append(start, s)
		}
	}
	reach := core.ReachBlocks(start, okEdges)
	// the call block itself may end in a return (no branch at all)
	blocks := []*ssa.BasicBlock{}
	for b := range reach {
		blocks = append(blocks, b)
	}
	if len(c.Block().Succs) == 0 {
		blocks = append(blocks, c.Block())
	}
	nret := 0
	for _, b := range blocks {
		if b == c.Block() && len(c.Block().Succs) > 0 {
			return false, "the call can be repeated (next iteration) on a path where its error was not found nil"
		}
		ret, isRet := b.Instrs[len(b.Instrs)-1].(*ssa.Return)
		if !isRet || b == fn.Recover {
			continue
		}
		nret++
		if len(ret.Results) == 0 {
			return false, "a return without results is reachable although the error may be non-nil"
		}
		cc, idx := core.CallOf(ret.Results[len(ret.Results)-1])
		if cc != c || idx != errIdx {
			return false, "a return reachable while the error may be non-nil returns something else (position " + fn.Prog.Fset.Position(ret.Pos()).String() + ")"
		}
	}
	if nret == 0 {
		return false, "no return is reachable from the error edge"
	}
	return true, ""
}
