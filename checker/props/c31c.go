package props

import (
	"aurora-verif/checker/core"

	"golang.org/x/tools/go/ssa"
)

// c31CashedPersisted (W3): the persisted copy of "what the peer has cashed from us"
// (chequeStore.PutChainRetrieveTraffic — read back when the chain cannot be asked) is
// written only with a value obtained from the chain (TransAmount), never with one of the
// node's own running totals. Writing the issued total there after our own cash-out makes
// the next chain outage report everything we ever issued as already cashed: the available
// balance is inflated without any cheque having been cashed.
func c31CashedPersisted(r *core.Run, funcs []*ssa.Function) {
	const rule = "C31.W3"
	n := 0
	done := map[*ssa.Function]bool{}
	for _, top := range funcs {
		for _, fn := range core.WithClosures(top) {
			if done[fn] {
				continue
			}
			done[fn] = true
			for _, c := range core.Calls(fn, "(pkg/settlement/traffic/cheque.ChequeStore).PutChainRetrieveTraffic") {
				n++
				args := core.CallArgs(core.Common(c))
				v := core.Forward(args[len(args)-1])
				fromChain := false
				if cc, idx := core.CallOf(v); cc != nil && idx == 0 && cc.Call.IsInvoke() && cc.Call.Method.Name() == "TransAmount" {
					fromChain = true
				}
				r.Saw(core.FuncName(fn))
				r.Check(rule, lsKey(rule, fn, "persisted cashed amount is a chain value"), c.Pos(), fromChain,
					"the persisted cashed amount is the value the chain returned", core.FuncName(fn)+" persists as the peer's cashed amount a value that does not come from the chain (one of the node's own totals): after the next failed chain call the node believes the peer cashed everything it was ever issued, the available balance is inflated")
			}
		}
	}
	r.Floor(rule, "writers of the persisted cashed amount", n, 1)
}
