package props

import (
	"aurora-verif/checker/core"
)

// errRows: decision inputs whose error must never be dropped, per property. Applied by
// applyErrRows at the end of the property's check as rule "<Cxx>.E0". Each row names a
// function and the callees (substring match on the resolved callee name) whose error
// result the function's decision depends on.
type errRow struct {
	rel, fn string
	callees []string
	why     string
}

var errRows = map[string][]errRow{
	"C05": {{"pkg/soc", "FromChunk", []string{"cac.NewWithDataSpan", "soc.hash", "soc.recoverAddress"}, "a chunk whose wrapped payload, digest or signature recovery failed would be treated as parsed"},
		{"pkg/soc", "Valid", []string{"soc.FromChunk", "SOC).address"}, "validity would be decided on a half-parsed chunk"}},
	"C06": {{"pkg/retrieval", "(*Service).retrieveChunk", []string{"Putter).Put", "Reader).ReadMsg"}, "a chunk that could not be stored/read would be reported as retrieved"}},
	"C15": {{"pkg/pinning", "(*Service).CreatePin", []string{"StateStorer).Get", "StateStorer).Put", "Traverser).Traverse"}, "a failed traversal or root-pin write would be reported as a successful pin"},
		{"pkg/pinning", "(*Service).DeletePin", []string{"Service).HasPin", "StateStorer).Delete", "Traverser).Traverse"}, "a failed unpin would be reported as success"},
		{"pkg/pinning", "(*Service).HasPin", []string{"StateStorer).Get"}, "a store failure would read as 'not pinned'"}},
	"C25": {{"pkg/p2p/libp2p/internal/blocklist", "(*Blocklist).Add", []string{"Blocklist).get", "StateStorer).Put"}, "a block that was not persisted would be reported as added"},
		{"pkg/p2p/libp2p/internal/blocklist", "(*Blocklist).Exists", []string{"Blocklist).get"}, "a store failure would read as 'not blocked'"},
		{"pkg/p2p/libp2p/internal/blocklist", "(*Blocklist).Remove", []string{"StateStorer).Delete"}, "a failed removal would be reported as success"}},
	"C30": {{"pkg/settlement/traffic/cheque", "(*chequeStore).ReceiveCheque", []string{"StateStorer).Get", "StateStorer).Put", "field:recoverChequeFunc"}, "a cheque would be accepted although its signature or the last stored cheque could not be read, or reported stored although the write failed"},
		{"pkg/settlement/traffic", "(*Service).ReceiveCheque", []string{"ChequeStore).ReceiveCheque"}, "the peer would be credited although the cheque store refused the cheque"}},
	"C32": {{"pkg/accounting", "(*Accounting).Debit", []string{"Interface).TransferTraffic", "Interface).PutTransferTraffic"}, "served traffic would go unrecorded or the tolerance test would run on a failed read"},
		{"pkg/accounting", "(*Accounting).Credit", []string{"Interface).PutRetrieveTraffic"}, "consumed traffic would go unrecorded"},
		{"pkg/accounting", "(*Accounting).Reserve", []string{"Interface).AvailableBalance"}, "the reservation would be granted on a failed balance read"}},
	"C33": {{"pkg/settlement/traffic", "(*Service).PutRetrieveTraffic", []string{"ChequeStore).PutRetrieveTraffic"}, "a total that was not persisted would be reported as recorded"},
		{"pkg/settlement/traffic", "(*Service).PutTransferTraffic", []string{"ChequeStore).PutTransferTraffic"}, "a total that was not persisted would be reported as recorded"},
		{"pkg/settlement/traffic", "(*Service).putSendCheque", []string{"ChequeStore).PutSendCheque"}, "a cheque that was not persisted would be reported as issued"},
		{"pkg/settlement/traffic", "(*Service).trafficPeerChequeUpdate", []string{"ChequeStore).GetRetrieveTraffic", "ChequeStore).GetTransferTraffic"}, "a failed read of a persisted total would restore a smaller total"}},
	"C34": {{"pkg/aurora", "ParseAddress", []string{"crypto.Recover", "crypto.NewOverlayAddress", "NewMultiaddrBytes"}, "a record whose signature recovery failed would be accepted"}},
	"C35": {{"pkg/auth", "(*Authenticator).Enforce", []string{"DecodeString", "encrypter).decrypt", "json.Unmarshal", "Enforcer).Enforce"}, "a token that failed to decode would be honoured"},
		{"pkg/auth", "(*Authenticator).RefreshKey", []string{"DecodeString", "encrypter).decrypt", "json.Unmarshal", "json.Marshal", "encrypter).encrypt"}, "a token that failed to decode would be refreshed"},
		{"pkg/auth", "(encrypter).decrypt", []string{"AEAD).Open"}, "an altered token would decrypt 'successfully'"}},
	"C36": {{"pkg/keystore/file", "decryptData", []string{"hex.DecodeString", "file.getKDFKey", "crypto.LegacyKeccak256", "file.aesCTRXOR"}, "a corrupt key file would be decrypted with zero-valued parameters"},
		{"pkg/keystore/file", "decryptKey", []string{"json.Unmarshal", "file.decryptData"}, "a key file that failed to decrypt would yield a key"},
		{"pkg/keystore/file", "(*Service).Key", []string{"file.decryptKey", "file.encryptKey", "os.WriteFile", "GenerateSecp256k1Key"}, "a key that was not written would be reported as created"}},
}

func applyErrRows(r *core.Run, id string) {
	n := 0
	for _, row := range errRows[id] {
		fn := r.W.Func(row.rel, row.fn)
		if fn == nil {
			r.Fatal("unresolved anchor %s.%s (error-discipline row)", row.rel, row.fn)
			continue
		}
		r.Saw(core.FuncName(fn))
		n += checkNoDiscardedErrors(r, id+".E0", fn, row.callees, row.why)
	}
	if len(errRows[id]) > 0 {
		r.Floor(id+".E0", "decision-input calls with an error result", n, len(errRows[id]))
	}
}
