package props

import (
	"aurora-verif/checker/core"

	"golang.org/x/tools/go/ssa"
)

// c21Derived (P3): the size and emptiness queries of a PSlice are computed from the bins
// themselves. Length, BinSize, BinPeers, ShallowestEmpty and Exists read no field of the
// set other than the bins (peers), the lock and the fixed configuration (maxBins,
// baseBytes): a cached counter kept "in step" by Add and Remove is a second copy of the
// size that the batch path (which counts before it inserts) lets drift. This is a
// sufficient condition — a correctly maintained cache would be reported for review.
func c21Derived(r *core.Run) {
	const rule = "C21.P3"
	const T = "pkg/topology/pslice.PSlice"
	allowed := map[string]bool{"peers": true, "mu": true, "maxBins": true, "baseBytes": true}
	n := 0
	for _, name := range []string{"Length", "BinSize", "BinPeers", "ShallowestEmpty", "Exists"} {
		fn := r.W.Func("pkg/topology/pslice", "(*PSlice)."+name)
		if fn == nil {
			continue
		}
		n++
		r.Saw(core.FuncName(fn))
		r.Eval(core.EdgeCount(fn))
		var bad ssa.Instruction
		badName := ""
		core.EachInstr(fn, func(_ *ssa.BasicBlock, _ int, in ssa.Instruction) {
			fa, ok := in.(*ssa.FieldAddr)
			if !ok {
				return
			}
			if fr, ok := core.AsField(fa); ok && fr.Struct == T && !allowed[fr.Name] {
				bad, badName = in, fr.Name
			}
		})
		pos := fn.Pos()
		if bad != nil {
			pos = bad.Pos()
		}
		r.Check(rule, core.Key(rule, fn, "answer computed from the bins"), pos, bad == nil,
			"the query reads only the bins, the lock and the fixed configuration of the set", core.FuncName(fn)+" reads PSlice."+badName+": the answer comes from a second copy of the set's size/membership that Add and Remove must keep in step (the batch path counts addresses before inserting them, a repeated new address is counted twice)")
	}
	r.Floor(rule, "size / emptiness / membership queries of PSlice", n, 4)
}
