package props

import (
	"go/token"

	"aurora-verif/checker/core"

	"golang.org/x/tools/go/ssa"
)

func init() {
	reg("C30", Meta{
		Technique:   "must-guard reachability on SSA for the cheque store write and the credit path, lockset analysis for the read-check-write window, provenance of the store key",
		Explanation: "C30 (cheques), structural clauses: (G1) chequeStore.ReceiveCheque persists a cheque only behind recipient==this node, signature recovery succeeded, recovered issuer==stated beneficiary, and cumulative payout strictly above the stored one (amount>0 with amount = cheque.payout − last stored payout or 0); (E1) the cheque is stored only when the last cheque was read successfully or is known absent (a swallowed read error would make the increase test run against zero); (Lk1) the read of the last cheque and the write of the new one both happen under the store lock with no release in between; (P1) both use the key built from the cheque's beneficiary; (G2) traffic.Service.ReceiveCheque hands a cheque to the store only behind `cheque.Beneficiary == chain address registered for the sending peer` and only credits transferChequeTraffic when the store accepted it. Not decided: the arithmetic identity total credited = highest accepted payout (follows from G1+Lk1 by reasoning, not checked), ECDSA recovery itself.",
		Assumptions: []string{"crypto.RecoverEIP712 returns the signer's key", "StateStorer.Put is atomic per key"},
	}, c30)
}

func eqFieldsAtom(isX, isY func(ssa.Value) bool) core.Atom { return cmpAtom(isX, isY, "==") }

func c30(r *core.Run) {
	recoverOnCurve(r, "C30.G3", "RecoverEIP712")
	c30CreditedNotShared(r)
	w := r.W
	const CS = "pkg/settlement/traffic/cheque.chequeStore"
	const CQ = "pkg/settlement/traffic/cheque.Cheque"
	const SC = "pkg/settlement/traffic/cheque.SignedCheque"
	fn := w.Func("pkg/settlement/traffic/cheque", "(*chequeStore).ReceiveCheque")
	if fn == nil {
		r.Fatal("unresolved anchor cheque.(*chequeStore).ReceiveCheque")
		return
	}
	r.Saw(core.FuncName(fn))
	r.Eval(core.EdgeCount(fn))
	chequeP := fn.Params[2]
	fieldOfCheque := func(name string) func(ssa.Value) bool {
		return func(v ssa.Value) bool {
			fr, ok := core.AsField(v)
			if !ok || fr.Addr || fr.Name != name || fr.Struct != CQ {
				return false
			}
			// base: &cheque.Cheque
			if b, ok := core.AsField(fr.Base); ok && b.Struct == SC && b.Name == "Cheque" && b.Base == ssa.Value(chequeP) {
				return true
			}
			return false
		}
	}
	isRecover := func(c *ssa.Call) bool {
		return !c.Call.IsInvoke() && loadsField(CS, "recoverChequeFunc")(c.Call.Value)
	}
	puts := core.Calls(fn, "(pkg/storage.StateStorer).Put")
	gets := core.Calls(fn, "(pkg/storage.StateStorer).Get")
	r.Floor("C30.G1", "store.Put in chequeStore.ReceiveCheque", len(puts), 1)
	r.Floor("C30.G1", "store.Get in chequeStore.ReceiveCheque", len(gets), 1)
	// amount
	var subCall *ssa.Call
	isAmount := func(v ssa.Value) bool {
		c, _ := core.CallOf(v)
		if c == nil || !core.IsCallTo(c, "(*math/big.Int).Sub") {
			return false
		}
		subCall = c
		return true
	}
	isZeroBig := func(v ssa.Value) bool {
		c, _ := core.CallOf(v)
		if c == nil || !core.IsCallTo(c, "math/big.NewInt") {
			return false
		}
		k, ok := core.ConstInt(c.Call.Args[0])
		return ok && k == 0
	}
	guards := []guardSpec{
		{"cheque.Recipient == this node's address", eqFieldsAtom(fieldOfCheque("Recipient"), loadsField(CS, "recipient")), true},
		{"signature recovery succeeded", core.ErrNilAtom(isRecover), true},
		{"recovered issuer == cheque.Beneficiary", eqFieldsAtom(func(v ssa.Value) bool {
			c, idx := core.CallOf(v)
			return c != nil && idx == 0 && isRecover(c)
		}, fieldOfCheque("Beneficiary")), true},
		{"cumulative payout increased (amount > 0)", bigCmpAtom(isAmount, isZeroBig, ">"), true},
	}
	for _, p := range puts {
		behindAll(r, "C30.G1", fn, p, "store of the cheque", guards)
	}
	// E1: a failing read of the last cheque (other than not-found) must stop the function:
	// otherwise the increase test runs against a made-up "last payout" and a replay passes
	readOK := core.EdgeSet{}
	isGet := func(c *ssa.Call) bool { return core.IsCallTo(c, "(pkg/storage.StateStorer).Get") }
	e1, _ := core.AtomEdges(fn, core.ErrNilAtom(isGet))
	e2, _ := core.AtomEdges(fn, func(base ssa.Value) (bool, bool) {
		// err == storage.ErrNotFound  /  errors.Is(err, storage.ErrNotFound)
		isNF := func(v ssa.Value) bool {
			p, ok := core.LoadedFrom(core.Forward(v))
			if !ok {
				return false
			}
			g, ok := p.(*ssa.Global)
			return ok && g.Name() == "ErrNotFound"
		}
		isErr := func(v ssa.Value) bool { c, _ := core.CallOf(v); return c != nil && isGet(c) }
		if b, ok := base.(*ssa.BinOp); ok && (b.Op == token.EQL || b.Op == token.NEQ) {
			if (isErr(b.X) && isNF(b.Y)) || (isErr(b.Y) && isNF(b.X)) {
				return true, b.Op == token.EQL
			}
		}
		if c, _ := core.CallOf(base); c != nil && core.IsCallTo(c, "errors.Is") && isErr(c.Call.Args[0]) && isNF(c.Call.Args[1]) {
			return true, true
		}
		return false, false
	})
	for e := range e1 {
		readOK[e] = true
	}
	for e := range e2 {
		readOK[e] = true
	}
	for _, p := range puts {
		r.Check("C30.E1", core.Key("C30.E1", fn, "store only after the last cheque was read or is known absent"), p.Pos(), len(e1) > 0 && len(e2) > 0 && core.OnlyBehind(fn, p, readOK),
			"the new cheque is stored only when the last cheque was read successfully or is known to be absent", "a failed read of the last cheque (any error but not-found) is swallowed: the increase test then runs against zero and a replayed or older cheque is accepted and credited again")
	}
	// amount operands
	okAmt := false
	if subCall != nil {
		a1 := core.Forward(subCall.Call.Args[1])
		a2 := subCall.Call.Args[2]
		okA1 := fieldOfCheque("CumulativePayout")(a1)
		okA2 := false
		if phi, ok := a2.(*ssa.Phi); ok {
			okA2 = true
			for _, e := range phi.Edges {
				e = core.Forward(e)
				if isZeroBig(e) {
					continue
				}
				if fr, ok := core.AsField(e); ok && fr.Name == "CumulativePayout" {
					continue
				}
				okA2 = false
			}
		}
		okAmt = okA1 && okA2
	}
	r.Check("C30.G1", core.Key("C30.G1", fn, "amount = payout - last"), fn.Pos(), okAmt,
		"the amount tested is cheque.CumulativePayout minus the last stored payout (or zero when none)", "the increase test is not computed from the cheque's payout and the stored payout")

	// Lk1
	la := core.NewLockAnalysis(w, "pkg/settlement/traffic/cheque")
	la.Run()
	for _, c := range append(append([]ssa.Instruction{}, gets...), puts...) {
		h := la.HeldAt(c)
		r.Check("C30.Lk1", core.Key("C30.Lk1", fn, core.CalleeName(core.Common(c))+" under lock"), c.Pos(), h != nil && h.Holds(CS+".lock", true),
			"the last-cheque read/write runs under the cheque store lock", "store access without chequeStore.lock; held: "+h.String())
	}
	unl := 0
	core.EachInstr(fn, func(_ *ssa.BasicBlock, _ int, in ssa.Instruction) {
		if c, ok := in.(*ssa.Call); ok && core.IsCallTo(c, "(*sync.Mutex).Unlock") && core.LockID(c.Call.Args[0]) == CS+".lock" {
			unl++
		}
	})
	r.Check("C30.Lk1", core.Key("C30.Lk1", fn, "no release between read and write"), fn.Pos(), unl == 0,
		"the lock is released only by the deferred unlock", "an explicit Unlock inside ReceiveCheque opens a window between reading the last cheque and storing the new one")

	// P1 keys
	keyOK := func(c ssa.Instruction) bool {
		args := core.Common(c).Args
		kc, _ := core.CallOf(args[0])
		if kc == nil || !core.IsCallTo(kc, "pkg/settlement/traffic/cheque.lastReceivedChequeKey") {
			return false
		}
		return fieldOfCheque("Beneficiary")(core.Forward(kc.Call.Args[0]))
	}
	for _, c := range append(append([]ssa.Instruction{}, gets...), puts...) {
		r.Check("C30.P1", core.Key("C30.P1", fn, core.CalleeName(core.Common(c))+" key"), c.Pos(), keyOK(c),
			"the cheque is read and stored under the key of its stated beneficiary", "the store key is not lastReceivedChequeKey(cheque.Beneficiary)")
	}

	// G2 traffic.Service.ReceiveCheque
	tf := w.Func("pkg/settlement/traffic", "(*Service).ReceiveCheque")
	if tf == nil {
		r.Fatal("unresolved anchor traffic.(*Service).ReceiveCheque")
		return
	}
	r.Saw(core.FuncName(tf))
	r.Eval(core.EdgeCount(tf))
	tcheque := tf.Params[3]
	sinks := core.Calls(tf, "(pkg/settlement/traffic/cheque.ChequeStore).ReceiveCheque")
	r.Floor("C30.G2", "hand-over to the cheque store", len(sinks), 1)
	benef := func(v ssa.Value) bool {
		fr, ok := core.AsField(v)
		if !ok || fr.Addr || fr.Name != "Beneficiary" {
			return false
		}
		b, ok := core.AsField(fr.Base)
		return ok && b.Name == "Cheque" && b.Base == ssa.Value(tcheque)
	}
	const bk = "(pkg/settlement/traffic.Addressbook).Beneficiary"
	for _, s := range sinks {
		behindAll(r, "C30.G2", tf, s, "hand-over to the cheque store", []guardSpec{
			{"sending peer has a registered chain address", func(base ssa.Value) (bool, bool) {
				c, idx := core.CallOf(base)
				if c != nil && idx == 1 && core.IsCallTo(c, bk) {
					return true, true
				}
				return false, false
			}, true},
			{"cheque.Beneficiary == chain address registered for the sending peer", eqFieldsAtom(benef, func(v ssa.Value) bool {
				c, idx := core.CallOf(v)
				return c != nil && idx == 0 && core.IsCallTo(c, bk)
			}), true},
		})
	}
	for _, st := range fieldStores(tf, "pkg/settlement/traffic.Traffic", "transferChequeTraffic") {
		good, _ := core.AtomEdges(tf, errNilOf("(pkg/settlement/traffic/cheque.ChequeStore).ReceiveCheque"))
		r.Check("C30.G2", core.Key("C30.G2", tf, "credit behind accepted"), st.Pos(), len(good) > 0 && core.OnlyBehind(tf, st, good),
			"the received total is raised only when the cheque store accepted the cheque", "transferChequeTraffic is updated on a path where the cheque store did not accept the cheque")
	}
}

var _ = token.EQL
