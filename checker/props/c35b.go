package props

import (
	"aurora-verif/checker/core"

	"golang.org/x/tools/go/ssa"
)

// c35More: the issuing side of the token scheme.
//
//	(G4) Authorize answers true exactly when bcrypt.CompareHashAndPassword(stored hash,
//	     given password) returned nil;
//	(P3) GenerateKey issues base64(encrypt(json(record))) where the record's Role is the role
//	     asked for and its Expiry derives from time.Now and the requested duration;
//	(A2) encrypt emits nonce || Seal(nonce, data) with a nonce freshly read from crypto/rand
//	     (error checked), and decrypt opens with the leading NonceSize bytes as nonce and the
//	     rest as ciphertext, both without additional data — the two sides agree on the layout.
func c35More(r *core.Run) {
	w := r.W
	const A = "pkg/auth.Authenticator"
	if fn := w.Func("pkg/auth", "(*Authenticator).Authorize"); fn == nil {
		r.Fatal("unresolved anchor pkg/auth.(*Authenticator).Authorize")
	} else {
		r.Saw(core.FuncName(fn))
		ok := false
		core.EachInstr(fn, func(_ *ssa.BasicBlock, _ int, in ssa.Instruction) {
			ret, isRet := in.(*ssa.Return)
			if !isRet {
				return
			}
			x, eq, isNil := core.NilCmp(ret.Results[0])
			if !isNil || !eq {
				return
			}
			c, _ := core.CallOf(x)
			if c != nil && core.IsCallTo(c, "golang.org/x/crypto/bcrypt.CompareHashAndPassword") {
				a := core.Common(c).Args
				fromPw := core.DerivesFrom(a[1], func(v ssa.Value) bool { return v == ssa.Value(fn.Params[1]) }, nil)
				if core.IsFieldOf(core.Forward(a[0]), A, "passwordHash") && fromPw {
					ok = true
				}
			}
		})
		r.Check("C35.G4", core.Key("C35.G4", fn, "Authorize = (bcrypt compare of stored hash and given password == nil)"), fn.Pos(), ok,
			"a password is accepted exactly when bcrypt matches it against the stored hash", "Authorize does not return nil == bcrypt.CompareHashAndPassword(a.passwordHash, []byte(password))")
	}
	if fn := w.Func("pkg/auth", "(*Authenticator).GenerateKey"); fn == nil {
		r.Fatal("unresolved anchor pkg/auth.(*Authenticator).GenerateKey")
	} else {
		r.Saw(core.FuncName(fn))
		r.Eval(core.EdgeCount(fn))
		okRole, okExp := false, false
		for _, st := range fieldStores(fn, "pkg/auth.authRecord", "Role") {
			if st.Val == ssa.Value(fn.Params[1]) {
				okRole = true
			}
		}
		for _, st := range fieldStores(fn, "pkg/auth.authRecord", "Expiry") {
			c, _ := core.CallOf(st.Val)
			if c != nil && core.IsCallTo(c, "(time.Time).Add") {
				now, _ := core.CallOf(c.Call.Args[0])
				fromDur := core.DerivesFrom(c.Call.Args[1], func(v ssa.Value) bool { return v == ssa.Value(fn.Params[2]) }, nil) || derivesThroughArith(c.Call.Args[1], fn.Params[2])
				if now != nil && core.IsCallTo(now, "time.Now") && fromDur {
					okExp = true
				}
			}
		}
		r.Check("C35.P3", core.Key("C35.P3", fn, "issued record carries the requested role and now+duration"), fn.Pos(), okRole && okExp,
			"the issued token's role is the one asked for and its expiry is time.Now() plus the requested duration", "GenerateKey does not store the requested role / an expiry derived from time.Now and the requested duration")
		// chain: Marshal(record) -> encrypt -> base64
		chain := false
		for _, c := range core.Calls(fn, "(*encoding/base64.Encoding).EncodeToString") {
			e, idx := core.CallOf(core.Common(c).Args[1])
			if e != nil && idx == 0 && core.IsCallTo(e, "(pkg/auth.encrypter).encrypt") {
				m, mi := core.CallOf(core.Common(e).Args[1])
				if m != nil && mi == 0 && core.IsCallTo(m, "encoding/json.Marshal") {
					chain = true
				}
			}
		}
		r.Check("C35.P3", core.Key("C35.P3", fn, "token = base64(encrypt(json(record)))"), fn.Pos(), chain,
			"the token is the base64 of the authenticated encryption of the JSON record (what Enforce undoes)", "GenerateKey does not build the token as base64(encrypt(json(record)))")
	}
	enc := w.Func("pkg/auth", "(encrypter).encrypt")
	dec := w.Func("pkg/auth", "(encrypter).decrypt")
	if enc == nil || dec == nil {
		r.Fatal("unresolved anchor pkg/auth.(encrypter).encrypt / decrypt")
		return
	}
	r.Saw(core.FuncName(enc))
	okSeal, okNonce := false, false
	var nonce ssa.Value
	core.EachInstr(enc, func(_ *ssa.BasicBlock, _ int, in ssa.Instruction) {
		c, ok := in.(*ssa.Call)
		if !ok || !c.Call.IsInvoke() || c.Call.Method.Name() != "Seal" {
			return
		}
		a := c.Call.Args
		if a[0] == a[1] && a[2] == ssa.Value(enc.Params[1]) && core.IsNilConst(a[3]) {
			okSeal, nonce = true, a[0]
		}
	})
	if nonce != nil {
		for _, c := range core.Calls(enc, "io.ReadFull") {
			a := core.Common(c).Args
			if a[1] == nonce {
				if u, ok := a[0].(*ssa.MakeInterface); ok {
					if ld, ok := u.X.(*ssa.UnOp); ok {
						if g, ok := ld.X.(*ssa.Global); ok && g.Name() == "Reader" && g.Pkg.Pkg.Path() == "crypto/rand" {
							okNonce = true
						}
					}
				} else if ld, ok := a[0].(*ssa.UnOp); ok {
					if g, ok := ld.X.(*ssa.Global); ok && g.Name() == "Reader" && g.Pkg.Pkg.Path() == "crypto/rand" {
						okNonce = true
					}
				}
			}
		}
	}
	okOpen := false
	core.EachInstr(dec, func(_ *ssa.BasicBlock, _ int, in ssa.Instruction) {
		c, ok := in.(*ssa.Call)
		if !ok || !c.Call.IsInvoke() || c.Call.Method.Name() != "Open" {
			return
		}
		a := c.Call.Args
		n, okN := a[1].(*ssa.Slice)
		ct, okC := a[2].(*ssa.Slice)
		if okN && okC && n.X == ssa.Value(dec.Params[1]) && ct.X == ssa.Value(dec.Params[1]) && n.Low == nil && n.High != nil && ct.High == nil && ct.Low != nil && (n.High == ct.Low || core.SameExpr(n.High, ct.Low)) && core.IsNilConst(a[3]) {
			okOpen = true
		}
	})
	r.Check("C35.A2", "C35.A2@pkg/auth#token layout nonce||ciphertext on both sides", enc.Pos(), okSeal && okNonce && okOpen,
		"encrypt emits nonce||Seal(nonce, data, no additional data) with a nonce read from crypto/rand, decrypt splits at the nonce size and opens with no additional data", "the sealing and the opening side of the token cipher disagree on the nonce||ciphertext layout / additional data, or the nonce is not freshly read from crypto/rand")
}

// derivesThroughArith: v is computed from p through conversions and multiplications by constants.
func derivesThroughArith(v ssa.Value, p *ssa.Parameter) bool {
	for i := 0; i < 6 && v != nil; i++ {
		switch x := v.(type) {
		case *ssa.Parameter:
			return x == p
		case *ssa.Convert:
			v = x.X
		case *ssa.ChangeType:
			v = x.X
		case *ssa.BinOp:
			if _, isC := x.X.(*ssa.Const); isC {
				v = x.Y
			} else {
				v = x.X
			}
		default:
			return false
		}
	}
	return false
}
