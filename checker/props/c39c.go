package props

import (
	"go/token"

	"aurora-verif/checker/core"

	"golang.org/x/tools/go/ssa"
)

// allSetCoverage (V1): the all-bits-set test (BitVector.Equals, the "file fully downloaded"
// predicate of chunkinfo) answers true only after every bit 0..len-1 has been tested.
// Two forms are recognised, anything else is reported as unrecognised:
//
//	bit form:  for i := 0; i < bv.len; i++  whose back edge lies only behind "bit i is set"
//	           (bv.Get(i), or b[i/8] & 1<<(i%8) != 0); true is returned only after the exit;
//	byte form: for j := 0; j < bv.len/8; j++ whose back edge lies only behind b[j] == 0xff,
//	           and true is returned only after the exit and behind bv.len%8 == 0 or
//	           b[bv.len/8] & (1<<(bv.len%8) - 1) == that same mask.
func allSetCoverage(r *core.Run, rule string) {
	const bvT = "pkg/bitvector.BitVector"
	fn := r.W.Func("pkg/bitvector", "(*BitVector).Equals")
	if fn == nil {
		r.Fatal("unresolved anchor pkg/bitvector.(*BitVector).Equals")
		return
	}
	r.Saw(core.FuncName(fn))
	r.Eval(core.EdgeCount(fn))
	recv := fn.Params[0]
	isLen := func(v ssa.Value) bool { return core.IsFieldOf(v, bvT, "len") }
	isLenDiv8 := func(v ssa.Value) bool {
		x, ok := byteIndexShape(v)
		return ok && isLen(x)
	}
	isLenMod8 := func(v ssa.Value) bool {
		b, ok := binop(v, token.REM)
		if !ok || !isLen(b.X) {
			return false
		}
		c, isC := core.ConstInt(b.Y)
		return isC && c == 8
	}
	// backing byte b[idx]
	byteAt := func(v ssa.Value, isIdx func(ssa.Value) bool) bool {
		ld, ok := v.(*ssa.UnOp)
		if !ok || ld.Op != token.MUL {
			return false
		}
		ia, ok := ld.X.(*ssa.IndexAddr)
		return ok && core.IsFieldOf(ia.X, bvT, "b") && isIdx(ia.Index)
	}
	type loop struct {
		ifi  *ssa.If
		phi  *ssa.Phi
		inc  ssa.Instruction
		byte bool // counts bytes (bound bv.len/8) rather than bits (bound bv.len)
	}
	var loops []loop
	for _, ifi := range cyclicIfs(fn) {
		c, ok := ifi.Cond.(*ssa.BinOp)
		if !ok || c.Op != token.LSS {
			continue
		}
		phi, ok := c.X.(*ssa.Phi)
		if !ok || len(phi.Edges) != 2 || phi.Block() != ifi.Block() {
			continue
		}
		var inc ssa.Instruction
		zero := false
		for _, e := range phi.Edges {
			if k, isC := core.ConstInt(e); isC && k == 0 {
				zero = true
			} else if b, ok := binop(e, token.ADD); ok && b.X == ssa.Value(phi) {
				if k, isC := core.ConstInt(b.Y); isC && k == 1 {
					inc = b
				}
			}
		}
		if !zero || inc == nil {
			continue
		}
		switch {
		case isLen(c.Y):
			loops = append(loops, loop{ifi, phi, inc, false})
		case isLenDiv8(c.Y):
			loops = append(loops, loop{ifi, phi, inc, true})
		}
	}
	why := ""
	ok := false
	if len(loops) != 1 {
		why = "no single counting loop from 0 to bv.len (or bv.len/8) in steps of one"
	} else {
		l := loops[0]
		exit := core.EdgeSet{}
		exit[core.Edge{From: l.ifi.Block(), To: l.ifi.Block().Succs[1]}] = true
		var stepGuard core.EdgeSet
		if !l.byte {
			isI := func(v ssa.Value) bool { return v == ssa.Value(l.phi) }
			stepGuard, _ = core.AtomEdges(fn, core.Or(
				core.BoolCallAtom(func(c *ssa.Call) bool {
					return core.CalleeName(&c.Call) == "(*"+bvT+").Get" && len(c.Call.Args) == 2 && c.Call.Args[0] == ssa.Value(recv) && isI(c.Call.Args[1])
				}),
				func(base ssa.Value) (bool, bool) {
					// b[i/8] & 1<<(i%8)  != 0  /  > 0  /  == 0
					b, isB := base.(*ssa.BinOp)
					if !isB {
						return false, false
					}
					k, isC := core.ConstInt(b.Y)
					and, isAnd := binop(b.X, token.AND)
					if !isC || k != 0 || !isAnd {
						return false, false
					}
					for _, o := range [][2]ssa.Value{{and.X, and.Y}, {and.Y, and.X}} {
						mi, mok := maskShape(o[1])
						if mok && isI(mi) && byteAt(o[0], func(q ssa.Value) bool { x, ok := byteIndexShape(q); return ok && isI(x) }) {
							switch b.Op {
							case token.NEQ, token.GTR:
								return true, true
							case token.EQL:
								return true, false
							}
						}
					}
					return false, false
				}))
		} else {
			isJ := func(v ssa.Value) bool { return v == ssa.Value(l.phi) }
			stepGuard, _ = core.AtomEdges(fn, func(base ssa.Value) (bool, bool) {
				b, isB := base.(*ssa.BinOp)
				if !isB || (b.Op != token.EQL && b.Op != token.NEQ) {
					return false, false
				}
				for _, o := range [][2]ssa.Value{{b.X, b.Y}, {b.Y, b.X}} {
					if k, isC := core.ConstInt(o[1]); isC && k == 0xff && byteAt(o[0], isJ) {
						return true, b.Op == token.EQL
					}
				}
				return false, false
			})
		}
		ok = true
		if len(stepGuard) == 0 || !core.OnlyBehind(fn, l.inc, stepGuard) {
			ok, why = false, "the loop advances to the next position without having found the current one all set"
		}
		// tail of the byte form
		tailMask := func(m ssa.Value) bool {
			// 1<<conv(bv.len%8) - 1
			s, isS := binop(unconv(m), token.SUB)
			if !isS {
				return false
			}
			if k, isC := core.ConstInt(s.Y); !isC || k != 1 {
				return false
			}
			sh, isSh := binop(unconv(s.X), token.SHL)
			if !isSh {
				return false
			}
			k, isC := core.ConstInt(sh.X)
			return isC && k == 1 && isLenMod8(unconv(sh.Y))
		}
		tailEq := func(base ssa.Value) (bool, bool) {
			b, isB := base.(*ssa.BinOp)
			if !isB || (b.Op != token.EQL && b.Op != token.NEQ) {
				return false, false
			}
			for _, o := range [][2]ssa.Value{{b.X, b.Y}, {b.Y, b.X}} {
				and, isAnd := binop(o[0], token.AND)
				if !isAnd || !tailMask(o[1]) {
					continue
				}
				for _, p := range [][2]ssa.Value{{and.X, and.Y}, {and.Y, and.X}} {
					if byteAt(p[0], isLenDiv8) && tailMask(p[1]) && core.SameExpr(unconv(p[1]), unconv(o[1])) {
						return true, b.Op == token.EQL
					}
				}
			}
			return false, false
		}
		var tailOK core.EdgeSet
		if l.byte {
			noTail, _ := core.AtomEdges(fn, func(base ssa.Value) (bool, bool) {
				b, isB := base.(*ssa.BinOp)
				if !isB || (b.Op != token.EQL && b.Op != token.NEQ) {
					return false, false
				}
				if k, isC := core.ConstInt(b.Y); isC && k == 0 && isLenMod8(b.X) {
					return true, b.Op == token.EQL
				}
				return false, false
			})
			masked, _ := core.AtomEdges(fn, tailEq)
			tailOK = core.EdgeSet{}
			for e := range noTail {
				tailOK[e] = true
			}
			for e := range masked {
				tailOK[e] = true
			}
		}
		nTrue := 0
		core.EachInstr(fn, func(b *ssa.BasicBlock, _ int, in ssa.Instruction) {
			ret, isRet := in.(*ssa.Return)
			if !isRet || b == fn.Recover {
				return
			}
			v := core.Forward(ret.Results[0])
			if c, isC := core.ConstBool(v); isC && !c {
				return
			}
			nTrue++
			if !core.OnlyBehind(fn, ret, exit) {
				ok, why = false, "true can be returned before the loop has run to its end"
				return
			}
			if c, isC := core.ConstBool(v); !isC || !c {
				// a computed answer: only the byte form's tail comparison itself
				if m, holds := tailEq(v); !(l.byte && m && holds) {
					ok, why = false, "the answer returned after the loop is neither the constant true nor the tail-byte comparison"
				}
				return
			}
			if l.byte && (len(tailOK) == 0 || !core.OnlyBehind(fn, ret, tailOK)) {
				ok, why = false, "true is returned although the bits of the last, partly used byte were not compared under the mask 1<<(len%8)-1"
			}
		})
		if nTrue == 0 {
			ok, why = false, "never answers true"
		}
	}
	r.Check(rule, core.Key(rule, fn, "true only after every bit 0..len-1 was tested"), fn.Pos(), ok,
		"the all-bits-set test answers true only after testing each of the len bits", "BitVector.Equals: "+why+" — a vector with a clear bit (a file with a missing data chunk) can be reported all set (fully downloaded)")
}
