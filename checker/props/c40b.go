package props

import (
	"fmt"

	"aurora-verif/checker/core"

	"golang.org/x/tools/go/ssa"
)

// publishedSlice: v may be (a re-slice / phi / append result of) a subscriber slice loaded
// from the keyToNotifier sync.Map — a slice that lock-free publishers may be ranging over.
func publishedSlice(v ssa.Value) bool {
	seen := map[ssa.Value]bool{}
	var rec func(v ssa.Value) bool
	rec = func(v ssa.Value) bool {
		if v == nil || seen[v] {
			return false
		}
		seen[v] = true
		switch x := v.(type) {
		case *ssa.TypeAssert:
			if c, idx := core.CallOf(x.X); c != nil && idx == 0 && core.IsCallTo(c, "(*sync.Map).Load") {
				return true
			}
			return rec(x.X)
		case *ssa.Extract:
			// v, ok := x.([]*subInfo)
			if ta, ok := x.Tuple.(*ssa.TypeAssert); ok && x.Index == 0 {
				return rec(ta)
			}
		case *ssa.Phi:
			for _, e := range x.Edges {
				if rec(e) {
					return true
				}
			}
		case *ssa.Slice:
			return rec(x.X)
		case *ssa.ChangeType:
			return rec(x.X)
		case *ssa.Call:
			if _, ok := isBuiltinCall(x, "append"); ok {
				return rec(x.Call.Args[0]) // append may return the same backing array
			}
		case *ssa.UnOp:
			if p, ok := core.LoadedFrom(x); ok {
				// spilled local: any store into the cell
				for _, u := range core.Uses(p) {
					if st, ok := u.(*ssa.Store); ok && st.Addr == p && rec(st.Val) {
						return true
					}
				}
			}
		}
		return false
	}
	return rec(v)
}

func isSubInfoSlice(v ssa.Value) bool {
	return v != nil && v.Type().String() == "[]*"+core.P("pkg/subscribe")+".subInfo"
}

// c40more: copy-on-write discipline of the subscriber lists and delivery to every subscriber.
func c40more(r *core.Run) {
	w := r.W
	// W1: published subscriber slices are never written in place. Element stores, appends
	// onto a truncated re-slice and copy() must target a fresh slice.
	nW := 0
	for _, fn := range w.PkgFuncs("pkg/subscribe") {
		fn := fn
		core.EachInstr(fn, func(_ *ssa.BasicBlock, _ int, in ssa.Instruction) {
			var dst ssa.Value
			what := ""
			switch x := in.(type) {
			case *ssa.Store:
				if ia, ok := x.Addr.(*ssa.IndexAddr); ok && isSubInfoSlice(ia.X) {
					dst, what = ia.X, "element store"
				}
			case *ssa.Call:
				if _, ok := isBuiltinCall(x, "append"); ok && isSubInfoSlice(x.Call.Args[0]) {
					if base := truncatedView(x.Call.Args[0]); base != nil {
						dst, what = base, "append onto a truncated re-slice (overwrites the elements behind the cut)"
					}
				}
				if _, ok := isBuiltinCall(x, "copy"); ok && isSubInfoSlice(x.Call.Args[0]) {
					dst, what = x.Call.Args[0], "copy into"
				}
			}
			if dst == nil {
				return
			}
			nW++
			r.Saw(core.FuncName(fn))
			r.Check("C40.W1", lsKey("C40.W1", fn, fmt.Sprintf("in-place write #%d targets a private slice", nW)), in.Pos(), !publishedSlice(dst),
				"subscriber lists are changed copy-on-write: element writes go to a fresh slice that is then stored", what+" on a subscriber slice loaded from keyToNotifier: a publisher ranging over that slice without a lock sees elements shift — a subscriber is skipped and another notified twice")
		})
	}
	r.Floor("C40.W1", "element-writing sites on subscriber slices", nW, 1)

	// F3: Publish / PublishArray notify every element of the loaded subscriber slice
	nF := 0
	for _, name := range []string{"(*subPub).Publish", "(*subPub).PublishArray"} {
		fn := w.Func("pkg/subscribe", name)
		if fn == nil {
			r.Fatal("unresolved anchor pkg/subscribe.%s", name)
			continue
		}
		r.Saw(core.FuncName(fn))
		r.Eval(core.EdgeCount(fn))
		core.EachInstr(fn, func(_ *ssa.BasicBlock, _ int, in ssa.Instruction) {
			ia, ok := in.(*ssa.IndexAddr)
			if !ok || !isSubInfoSlice(ia.X) || !publishedSlice(ia.X) {
				return
			}
			nF++
			isNotify := func(x ssa.Instruction) bool {
				c := core.Common(x)
				return c != nil && c.IsInvoke() && c.Method.Name() == "Notify"
			}
			r.Check("C40.F3", lsKey("C40.F3", fn, fmt.Sprintf("subscriber #%d of the loop is notified", nF)), ia.Pos(), notifiedEachIteration(ia, isNotify),
				"every subscriber taken from the list is notified before the loop moves on", "a path takes the next subscriber (or returns) without calling Notify on this one: a registered subscriber misses the message")
		})
	}
	r.Floor("C40.F3", "subscriber-list element reads in Publish/PublishArray", nF, 2)
}

// notifiedEachIteration: every path from e to a Return or back to e's own block passes pred.
func notifiedEachIteration(e ssa.Instruction, pred func(ssa.Instruction) bool) bool {
	blk := e.Block()
	after := false
	for _, in := range blk.Instrs {
		if in == e {
			after = true
			continue
		}
		if after && pred(in) {
			return true
		}
	}
	if _, isRet := blk.Instrs[len(blk.Instrs)-1].(*ssa.Return); isRet {
		return false
	}
	seen := map[*ssa.BasicBlock]bool{}
	work := append([]*ssa.BasicBlock{}, blk.Succs...)
	for len(work) > 0 {
		b := work[len(work)-1]
		work = work[:len(work)-1]
		if seen[b] {
			continue
		}
		seen[b] = true
		if b == blk {
			return false // next iteration reached without Notify
		}
		hit := false
		for _, in := range b.Instrs {
			if pred(in) {
				hit = true
				break
			}
		}
		if hit || innerLoopOver(blk, b, pred) {
			continue
		}
		if _, isRet := b.Instrs[len(b.Instrs)-1].(*ssa.Return); isRet {
			return false
		}
		work = append(work, b.Succs...)
	}
	return true
}

// innerLoopOver: h is the header of a loop nested inside the iteration that starts at blk
// (blk strictly dominates h), whose body contains a pred instruction in a block dominated by
// h that reaches h again: "for each message { Notify }" per subscriber. Zero trips of that
// loop mean there is no message for this subscriber, which is not a skipped delivery.
func innerLoopOver(blk, h *ssa.BasicBlock, pred func(ssa.Instruction) bool) bool {
	if h == blk || !blk.Dominates(h) {
		return false
	}
	for _, b := range h.Parent().Blocks {
		if b == h || !h.Dominates(b) {
			continue
		}
		has := false
		for _, in := range b.Instrs {
			if pred(in) {
				has = true
			}
		}
		if has && core.ReachBlocks(b.Succs, nil)[h] {
			return true
		}
	}
	return false
}

// truncatedView: v is (a phi of / a chain of appends onto) a re-slice x[:k] that cuts elements
// off; returns x. Appending to such a view writes into x's backing array behind the cut.
func truncatedView(v ssa.Value) ssa.Value {
	seen := map[ssa.Value]bool{}
	var rec func(v ssa.Value) ssa.Value
	rec = func(v ssa.Value) ssa.Value {
		if v == nil || seen[v] {
			return nil
		}
		seen[v] = true
		switch x := v.(type) {
		case *ssa.Slice:
			if x.High != nil {
				return x.X
			}
			return rec(x.X)
		case *ssa.Phi:
			for _, e := range x.Edges {
				if b := rec(e); b != nil {
					return b
				}
			}
		case *ssa.Call:
			if _, ok := isBuiltinCall(x, "append"); ok {
				return rec(x.Call.Args[0])
			}
		}
		return nil
	}
	return rec(v)
}
