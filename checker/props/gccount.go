package props

import (
	"aurora-verif/checker/core"

	"golang.org/x/tools/go/ssa"
)

// gcCounterProvenance (P2): what a collection run subtracts from the persisted cached-chunk
// counter is what it actually deleted. The value handed to gcSize.PutInBatch in
// collectGarbage must not depend on any variable written by the candidate-selection callback
// (the closure given to gcIndex.Iterate, which sums the counts of the candidates it picks —
// some of which are later skipped as dirty).
func gcCounterProvenance(r *core.Run, rule string) {
	gc := lsFunc(r, "(*DB).collectGarbage")
	if gc == nil {
		return
	}
	r.Saw(core.FuncName(gc))
	// the selection callback: closure passed to gcIndex.Iterate
	var sel *ssa.Function
	for _, ic := range lsIndexCalls([]*ssa.Function{gc}) {
		if ic.field == "gcIndex" && ic.method == "Iterate" {
			for _, a := range ic.in.Call.Args {
				if ct, ok := a.(*ssa.ChangeType); ok {
					a = ct.X
				}
				if mc, ok := a.(*ssa.MakeClosure); ok {
					sel = mc.Fn.(*ssa.Function)
				}
			}
		}
	}
	if sel == nil {
		r.Fatal("unresolved anchor: selection callback handed to gcIndex.Iterate in collectGarbage")
		return
	}
	r.Saw(core.FuncName(sel))
	// cells of collectGarbage written by the selection callback
	selCells := map[ssa.Value]bool{}
	for _, fv := range sel.FreeVars {
		written := false
		for _, u := range core.Uses(fv) {
			if st, ok := u.(*ssa.Store); ok && st.Addr == ssa.Value(fv) {
				written = true
			}
		}
		if written {
			if b := freeVarBinding(sel, fv); b != nil {
				selCells[b] = true
			}
		}
	}
	// every closure's stores to a cell of collectGarbage
	cellStores := map[ssa.Value][]ssa.Value{}
	var addStores func(f *ssa.Function)
	addStores = func(f *ssa.Function) {
		core.EachInstr(f, func(_ *ssa.BasicBlock, _ int, in ssa.Instruction) {
			st, ok := in.(*ssa.Store)
			if !ok {
				return
			}
			switch a := st.Addr.(type) {
			case *ssa.Alloc:
				cellStores[a] = append(cellStores[a], st.Val)
			case *ssa.FreeVar:
				if b := freeVarBinding(f, a); b != nil {
					cellStores[b] = append(cellStores[b], st.Val)
				}
			}
		})
		for _, a := range f.AnonFuncs {
			addStores(a)
		}
	}
	addStores(gc)
	seen := map[ssa.Value]bool{}
	var dep func(v ssa.Value, d int) bool
	dep = func(v ssa.Value, d int) bool {
		if v == nil || seen[v] || d > 40 {
			return false
		}
		seen[v] = true
		switch x := v.(type) {
		case *ssa.UnOp:
			cell := x.X
			if fv, ok := cell.(*ssa.FreeVar); ok {
				if b := freeVarBinding(x.Parent(), fv); b != nil {
					cell = b
				}
			}
			if selCells[cell] {
				return true
			}
			for _, sv := range cellStores[cell] {
				if dep(sv, d+1) {
					return true
				}
			}
		case *ssa.BinOp:
			return dep(x.X, d+1) || dep(x.Y, d+1)
		case *ssa.Phi:
			for _, e := range x.Edges {
				if dep(e, d+1) {
					return true
				}
			}
		case *ssa.Convert:
			return dep(x.X, d+1)
		case *ssa.ChangeType:
			return dep(x.X, d+1)
		case *ssa.MakeInterface:
			return dep(x.X, d+1)
		}
		return false
	}
	n := 0
	for _, ic := range lsIndexCalls([]*ssa.Function{gc}) {
		if ic.field != "gcSize" || !idxWriteMethods[ic.method] {
			continue
		}
		n++
		val := ic.in.Call.Args[len(ic.in.Call.Args)-1]
		seen = map[ssa.Value]bool{}
		r.Check(rule, core.Key(rule, gc, "counter write-back independent of the selection totals"), ic.in.Pos(), len(selCells) > 0 && !dep(val, 0),
			"the counter written back after a run is computed from what the run deleted, not from what the selection pass picked", "the value written to gcSize depends on a variable the candidate-selection callback accumulates: candidates skipped as dirty are subtracted although nothing was deleted, the persisted counter drops below the sum of the per-file counts")
	}
	r.Floor(rule, "gcSize write-backs in collectGarbage", n, 1)
}
