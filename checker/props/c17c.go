package props

import (
	"aurora-verif/checker/core"

	"golang.org/x/tools/go/ssa"
)

// c17ReloadAll (F3): DelFile removes the persisted discovery records of a file by walking the
// in-memory discovery table, so every persisted record has to be in that table after a
// restart. In the state-store callback of initChunkInfoDiscover each return is preceded by
// the insertion into the table (putChunkInfoDiscover), or lies behind a non-nil error, or
// is the "foreign key, stop" answer (true). A record that is skipped for any other reason
// (e.g. "the file is already complete") stays in the state store after the file is deleted.
func c17ReloadAll(r *core.Run) {
	const rule = "C17.F3"
	top := r.W.Func(ciPkg, "(*ChunkInfo).initChunkInfoDiscover")
	if top == nil {
		r.Fatal("unresolved anchor %s.(*ChunkInfo).initChunkInfoDiscover", ciPkg)
		return
	}
	var cb *ssa.Function
	for _, cl := range core.Closures(top) {
		if isIterateCallback(cl) {
			cb = cl
		}
	}
	if cb == nil {
		r.Fatal("unresolved anchor: state-store Iterate callback of initChunkInfoDiscover")
		return
	}
	r.Saw(core.FuncName(cb))
	r.Eval(core.EdgeCount(cb))
	puts := core.Calls(cb, "(*"+ciPkg+".chunkInfoDiscover).putChunkInfoDiscover")
	_, failed := core.AtomEdges(cb, func(base ssa.Value) (bool, bool) {
		x, eq, ok := core.NilCmp(base)
		if !ok || x.Type().String() != "error" {
			return false, false
		}
		return true, eq
	})
	n := 0
	core.EachInstr(cb, func(b *ssa.BasicBlock, _ int, in ssa.Instruction) {
		ret, ok := in.(*ssa.Return)
		if !ok || b == cb.Recover {
			return
		}
		if c, isC := core.ConstBool(core.Forward(ret.Results[0])); isC && c {
			return // stop: key outside the prefix
		}
		n++
		loaded := false
		for _, p := range puts {
			if core.Precedes(p, ret) {
				loaded = true
			}
		}
		r.Check(rule, lsKey(rule, cb, "persisted discovery record loaded before moving on"), ret.Pos(), loaded || (len(failed) > 0 && core.OnlyBehind(cb, ret, failed)),
			"every persisted discovery record is put into the in-memory table (or an error was met)", "the reload can move on to the next record without loading this one into the discovery table and without an error: DelFile walks that table to delete the persisted records, so this one survives the deletion of its file")
	})
	r.Floor(rule, "continue-returns of the discovery reload callback", n, 2)
}
