package props

import (
	"go/token"

	"aurora-verif/checker/core"

	"golang.org/x/tools/go/ssa"
)

// xorAt: v == p[i] ^ q[i] (either order) for parameters p, q at one index; returns the index.
func xorAt(v ssa.Value, p, q ssa.Value) (ssa.Value, bool) {
	x, ok := v.(*ssa.BinOp)
	if !ok || x.Op != token.XOR {
		return nil, false
	}
	elem := func(e ssa.Value) (ssa.Value, ssa.Value, bool) {
		ld, ok := e.(*ssa.UnOp)
		if !ok || ld.Op != token.MUL {
			return nil, nil, false
		}
		ia, ok := ld.X.(*ssa.IndexAddr)
		if !ok {
			return nil, nil, false
		}
		return ia.X, ia.Index, true
	}
	b1, i1, ok1 := elem(x.X)
	b2, i2, ok2 := elem(x.Y)
	if !ok1 || !ok2 || i1 != i2 {
		return nil, false
	}
	if (b1 == p && b2 == q) || (b1 == q && b2 == p) {
		return i1, true
	}
	return nil, false
}

// c20Distance: "closer to a target" is the order of the XOR distances read as big-endian
// integers: DistanceCmp walks the bytes from index 0 upwards, compares x[i]^a[i] with
// y[i]^a[i] at one index and lets the first difference decide (smaller distance = closer = 1);
// DistanceRaw is the byte-wise XOR; Address.Closer asks DistanceCmp with the target first.
func c20Distance(r *core.Run) {
	w := r.W
	if fn := w.Func("pkg/boson", "DistanceCmp"); fn == nil {
		r.Fatal("unresolved anchor pkg/boson.DistanceCmp")
	} else {
		r.Saw(core.FuncName(fn))
		r.Eval(core.EdgeCount(fn))
		a, x, y := ssa.Value(fn.Params[0]), ssa.Value(fn.Params[1]), ssa.Value(fn.Params[2])
		// the deciding comparison dx < dy
		var dx, dy, idx ssa.Value
		core.EachInstr(fn, func(_ *ssa.BasicBlock, _ int, in ssa.Instruction) {
			b, ok := in.(*ssa.BinOp)
			if !ok || (b.Op != token.LSS && b.Op != token.GTR) {
				return
			}
			l, r2 := b.X, b.Y
			if b.Op == token.GTR {
				l, r2 = r2, l
			}
			i1, ok1 := xorAt(l, x, a)
			i2, ok2 := xorAt(r2, y, a)
			if ok1 && ok2 && i1 == i2 {
				dx, dy, idx = l, r2, i1
			}
		})
		r.Check("C20.D1", core.Key("C20.D1", fn, "compares x[i]^a[i] with y[i]^a[i] at one index"), fn.Pos(), dx != nil,
			"the deciding comparison is (x[i]^a[i]) < (y[i]^a[i]) for one byte position i", "DistanceCmp does not compare the XOR distances of x and y to a at the same byte position")
		if dx != nil {
			// ascending walk from 0: the index is phi(-1, +1)+1 or phi(0, +1)
			asc := false
			step := idx
			if add, ok := idx.(*ssa.BinOp); ok && add.Op == token.ADD {
				if k, isC := core.ConstInt(add.Y); isC && k == 1 {
					step = add.X
				}
			}
			if phi, ok := step.(*ssa.Phi); ok {
				for _, e := range phi.Edges {
					if k, isC := core.ConstInt(e); isC && (k == -1 || k == 0) {
						asc = true
					}
				}
				for _, e := range phi.Edges {
					if sub, ok := e.(*ssa.BinOp); ok && sub.Op == token.SUB {
						asc = false
					}
				}
			}
			r.Check("C20.D1", core.Key("C20.D1", fn, "most significant byte first"), fn.Pos(), asc,
				"the bytes are compared from index 0 upwards (big-endian: the first differing byte decides)", "the walk does not start at byte 0 and ascend: the comparison is not the big-endian integer order")
			less, notLess := core.AtomEdges(fn, func(base ssa.Value) (bool, bool) {
				b, ok := base.(*ssa.BinOp)
				if !ok {
					return false, false
				}
				if b.Op == token.LSS && b.X == dx && b.Y == dy {
					return true, true
				}
				if b.Op == token.GTR && b.X == dy && b.Y == dx {
					return true, true
				}
				return false, false
			})
			differ := core.EdgeSet{}
			eq, ne := core.AtomEdges(fn, func(base ssa.Value) (bool, bool) {
				b, ok := base.(*ssa.BinOp)
				if ok && (b.Op == token.EQL || b.Op == token.NEQ) && ((b.X == dx && b.Y == dy) || (b.X == dy && b.Y == dx)) {
					return true, b.Op == token.EQL
				}
				return false, false
			})
			_ = eq
			for e := range ne {
				differ[e] = true
			}
			n := 0
			core.EachInstr(fn, func(_ *ssa.BasicBlock, _ int, in ssa.Instruction) {
				ret, ok := in.(*ssa.Return)
				if !ok || !core.IsNilConst(ret.Results[1]) {
					return
				}
				k, isC := core.ConstInt(ret.Results[0])
				if !isC {
					r.Check("C20.D1", core.Key("C20.D1", fn, "constant verdicts"), ret.Pos(), false, "", "DistanceCmp returns a non-constant verdict")
					return
				}
				n++
				switch k {
				case 1:
					r.Check("C20.D1", core.Key("C20.D1", fn, "1 only when x's distance byte is smaller"), ret.Pos(), len(less) > 0 && core.OnlyBehind(fn, ret, less),
						"1 (x closer) is returned only behind dx < dy", "1 is returned without dx < dy at the first differing byte")
				case -1:
					r.Check("C20.D1", core.Key("C20.D1", fn, "-1 only when x's distance byte is larger"), ret.Pos(), len(notLess) > 0 && core.OnlyBehind(fn, ret, notLess) && len(differ) > 0 && core.OnlyBehind(fn, ret, differ),
						"-1 (x farther) is returned only behind dx != dy and not dx < dy", "-1 is returned without the first differing byte having the larger distance for x")
				case 0:
					// equal: not reachable from a differing byte
					r.Check("C20.D1", core.Key("C20.D1", fn, "0 only when no byte differs"), ret.Pos(), len(differ) > 0 && !core.ReachableFromEdges(fn, differ, ret, false),
						"0 is returned only when the walk ended without a differing byte", "0 is reachable after a differing byte was seen")
				}
			})
			r.Floor("C20.D1", "verdict returns of DistanceCmp", n, 3)
		}
	}
	if fn := w.Func("pkg/boson", "DistanceRaw"); fn == nil {
		r.Fatal("unresolved anchor pkg/boson.DistanceRaw")
	} else {
		r.Saw(core.FuncName(fn))
		ok := false
		core.EachInstr(fn, func(_ *ssa.BasicBlock, _ int, in ssa.Instruction) {
			st, isSt := in.(*ssa.Store)
			if !isSt {
				return
			}
			dst, isIA := st.Addr.(*ssa.IndexAddr)
			if !isIA {
				return
			}
			// range over x yields the element directly: c[i] = addr ^ y[i]
			if b, isB := st.Val.(*ssa.BinOp); isB && b.Op == token.XOR {
				for _, pair := range [][2]ssa.Value{{b.X, b.Y}, {b.Y, b.X}} {
					ld1, ok1 := pair[0].(*ssa.UnOp)
					ld2, ok2 := pair[1].(*ssa.UnOp)
					if !ok1 || !ok2 {
						continue
					}
					i1, okA := ld1.X.(*ssa.IndexAddr)
					i2, okB := ld2.X.(*ssa.IndexAddr)
					if okA && okB && i1.X == ssa.Value(fn.Params[0]) && i2.X == ssa.Value(fn.Params[1]) && i1.Index == i2.Index && i1.Index == dst.Index {
						ok = true
					}
				}
			}
		})
		r.Check("C20.D2", core.Key("C20.D2", fn, "c[i] = x[i] ^ y[i]"), fn.Pos(), ok,
			"the raw distance is the byte-wise XOR at equal positions", "DistanceRaw does not store x[i]^y[i] at position i")
	}
	if fn := w.Func("pkg/boson", "(Address).Closer"); fn == nil {
		r.Fatal("unresolved anchor pkg/boson.(Address).Closer")
	} else {
		r.Saw(core.FuncName(fn))
		ok := false
		for _, c := range core.Calls(fn, "pkg/boson.DistanceCmp") {
			args := core.Common(c).Args
			fieldOf := func(v ssa.Value, p *ssa.Parameter) bool {
				fr, isF := core.AsField(core.Forward(v))
				if !isF || fr.Name != "b" {
					return false
				}
				return core.Forward(fr.Base) == ssa.Value(p) || fr.Base == ssa.Value(p) || core.DerivesFrom(fr.Base, func(x ssa.Value) bool { return x == ssa.Value(p) }, nil)
			}
			// Closer(a; x, y): target x first, then the receiver, then y
			if fieldOf(args[0], fn.Params[1]) && fieldOf(args[1], fn.Params[0]) && fieldOf(args[2], fn.Params[2]) {
				for _, u := range core.Uses(c.(*ssa.Call)) {
					ex, isEx := u.(*ssa.Extract)
					if !isEx || ex.Index != 0 {
						continue
					}
					for _, uu := range core.Uses(ex) {
						if b, isB := uu.(*ssa.BinOp); isB && b.Op == token.EQL {
							if k, isC := core.ConstInt(b.Y); isC && k == 1 {
								ok = true
							}
						}
					}
				}
			}
		}
		r.Check("C20.D3", core.Key("C20.D3", fn, "Closer = DistanceCmp(target, self, other) == 1"), fn.Pos(), ok,
			"a.Closer(x, y) is DistanceCmp(x, a, y) == 1: a is closer to the target x than y is", "Closer does not call DistanceCmp with the target first, the receiver second and the other address third, or does not test the verdict against 1")
	}
}
