package props

// extraNotes3: clauses added late in round 3 (merged into extraNotes before registration).
var extraNotes3 = map[string][2]string{
	"C05": {"provenance rule for the owner address", "(P2) crypto.NewEthereumAddress is keccak256(marshal(p.X, p.Y)[1:])[12:] of its own parameter, refused for keys without coordinates."},
	"C13": {"lockset rule for the reads of the batched operations", "(Lk2) in put / set / updateGC and everything they call, index reads (Get/Has/Fill…) happen with DB.batchMu held — the lock-free presence probe at the top of put excepted."},
	"C16": {"ordering rule for the delete handler", "(O2) the API delete handler asks GetChunkPyramid only inside the removal callback that DelFile runs under its lock, never before DelFile."},
	"C19": {"prefix confinement of iteration", "(P1 ext) Fill and HasMulti address the driver with encodeKeyFunc(item) in the index key space; (P3) itemFromIterator decodes only behind bytes.HasPrefix(key, totalPrefix) and every caller's totalPrefix starts with the index's schema prefix."},
	"C24": {"delete-at-index lint", "(L1) no list in kademlia/pslice is filtered by deleting at the index of an ascending loop without stepping back."},
	"C27": {"predicate-shape rules for the route-table helpers; delete-at-index lint", "(G3 ext) inPath / inPaths answer true only behind bytes.Equal on an element, existRoute only behind PathKey equality AND Neighbor.Equal, skipPeers keeps an address only behind !MemberOf(skip list); (L1) delete-at-index lint for pkg/routetab."},
	"C28": {"delete-at-index lint", "(L1) in pkg/routetab no candidate list is filtered by `append(s[:i], s[i+1:]...)` inside an ascending index loop without i--/break/return."},
	"C29": {"delete-at-index lint", "(L1) as C28.L1 for pkg/hive2."},
	"C34": {"provenance rule for the overlay address", "(P2) crypto.NewOverlayAddress is sha3(keccak256(marshal(p.X, p.Y)[1:])) of its own parameter, refused for keys without coordinates."},
	"C35": {"issuing-side rules", "(G4) Authorize is nil == bcrypt.CompareHashAndPassword(stored hash, given password); (P3) GenerateKey stores the requested role and time.Now()+duration and emits base64(encrypt(json(record))); (A2) encrypt emits nonce||Seal(nonce, data, nil) with a crypto/rand nonce, decrypt opens data[:n] / data[n:] with no additional data."},
	"C37": {"size provenance of bit vectors built over peer bytes", "(S9) bitvector.NewFromBytes over peer bytes takes its logical length from local knowledge (the file's chunk count), never from the length of the peer's bytes."},
	"C38": {"delete-at-index lint", "(L1) as C28.L1 for pkg/multicast."},
}

var _ = mergeNotes3()

func mergeNotes3() bool {
	for id, n := range extraNotes3 {
		if old, ok := extraNotes[id]; ok {
			extraNotes[id] = [2]string{old[0] + "; " + n[0], old[1] + " " + n[1]}
		} else {
			extraNotes[id] = n
		}
	}
	return true
}
