package props

import (
	"sort"
	"strings"

	"aurora-verif/checker/core"

	"golang.org/x/tools/go/ssa"
)

func init() {
	reg("C16", Meta{
		Technique:   "bad-edge reachability on SSA (shared chunks excluded from the removal list), who-may-write for the reference-count table, provenance of every removal target",
		Explanation: "C16 (deleting one file never breaks another), structural clauses: (G1) chunkinfo.getUnRepeatChunk — the list of chunks a file deletion / eviction may remove — never includes a chunk on the edge where its reference count is > 1 (both loops); (W1) the reference-count table chunkPyramid.chunk is written only by putChunk / delChunk (and the constructor), and delChunk decrements or deletes; (P1) every address handed to Set(ModeSetRemove) by the delete handler, and every item whose data the garbage collector deletes, derives from that reference-count-cleared list (GetChunkPyramid). Not decided: that increments and decrements of the reference counts are symmetric over all histories (value reasoning).",
	}, c16)
	reg("C17", Meta{
		Technique:   "provenance + must-guard on SSA (bit index only from a membership-checked lookup), exhaustiveness over the per-file tables and persisted key prefixes reachable from DelFile (including reflect-dispatched method values)",
		Explanation: "C17 (availability records never overclaim), structural clauses: (P1) the bit index given to BitVector.Set/Get for a chunk of a file comes from getCidSort and is used only behind its membership flag, and getCidSort reports membership only on the comma-ok-true edge of the lookup in the file's data-chunk table; (H1) DelFile reaches — through direct calls and through the method values it hands to the serialising dispatcher chunkPutChanUpdate — a delete for every per-file in-memory table (neighbour presence and overlays, discover presence, source presence, pyramid hashData, queues, pending finders) and a store Delete for every persisted key prefix that the package writes with generateKey; (H2) the iteration callbacks that delete those persisted records never ask the iterator to stop without an error (the sweep covers every matching key). Not decided: 'fully downloaded iff all chunks stored' (value semantics of the bit vector, see C39).",
		Assumptions: []string{"chunkPutChanUpdate invokes the method value it is given (reflect dispatch modelled by hand)"},
	}, c17)
}

const ciPkg = "pkg/chunkinfo"

// removalListRule (C16.G1 / C12.G4): the list of chunks a delete or an eviction may remove
// (getUnRepeatChunk) never contains a chunk whose per-file reference count exceeds one.
func removalListRule(r *core.Run, rule string) {
	w := r.W
	const CP = "pkg/chunkinfo.chunkPyramid"
	fn := w.Func(ciPkg, "(*ChunkInfo).getUnRepeatChunk")
	if fn == nil {
		r.Fatal("unresolved anchor %s.(*ChunkInfo).getUnRepeatChunk", ciPkg)
		return
	}
	r.Saw(core.FuncName(fn))
	r.Eval(core.EdgeCount(fn))
	isRefCount := func(v ssa.Value) bool {
		lk, ok := core.Forward(v).(*ssa.Lookup)
		return ok && loadsField(CP, "chunk")(core.Forward(lk.X))
	}
	shared, _ := core.AtomEdges(fn, cmpAtom(isRefCount, func(y ssa.Value) bool { k, ok := core.ConstInt(y); return ok && k == 1 }, ">"))
	r.Floor(rule, "reference-count tests in getUnRepeatChunk", len(shared), 2)
	n := 0
	core.EachInstr(fn, func(_ *ssa.BasicBlock, _ int, in ssa.Instruction) {
		c, ok := in.(*ssa.Call)
		if !ok {
			return
		}
		if _, isApp := isBuiltinCall(c, "append"); !isApp {
			return
		}
		n++
		// the appended chunk's key is the key whose count was tested in the same iteration
		r.Check(rule, core.Key(rule, fn, "shared chunk not listed"), c.Pos(), len(shared) > 0 && !core.ReachableFromEdges(fn, shared, c, true),
			"a chunk still referenced by another file (count > 1) is never put on the removal list", "from the edge refcount > 1 the chunk can still be appended to the removal list in the same iteration")
		h := loopHeader(fn, c.Block())
		okLoop := false
		for e := range shared {
			if h != nil && loopHeader(fn, e.From) == h {
				okLoop = true
			}
		}
		r.Check(rule, core.Key(rule, fn, "refcount tested in the same loop"), c.Pos(), okLoop,
			"every loop that builds the removal list tests the reference count", "a loop appends to the removal list without a reference-count test")
	})
	r.Floor(rule, "removal-list appends", n, 2)
}

func c16(r *core.Run) {
	w := r.W
	const CP = "pkg/chunkinfo.chunkPyramid"
	removalListRule(r, "C16.G1")

	// W1
	allowed := map[string]bool{ciPkg + ".(*chunkPyramid).putChunk": true, ciPkg + ".(*chunkPyramid).delChunk": true}
	nw := 0
	for _, a := range core.FieldAccesses(w.PkgFuncs(ciPkg), CP, "chunk") {
		if !a.Write || a.Fresh {
			continue
		}
		nw++
		r.Saw(core.FuncName(a.Fn))
		r.Check("C16.W1", core.Key("C16.W1", a.Fn, "writes chunkPyramid.chunk"), a.In.Pos(), allowed[core.FuncName(a.Fn)],
			"reference counts change only in putChunk / delChunk", core.FuncName(a.Fn)+" writes the reference-count table")
	}
	r.Floor("C16.W1", "writes of chunkPyramid.chunk", nw, 3)

	// P1 removal targets
	const gcp = "(pkg/chunkinfo.Interface).GetChunkPyramid"
	fromPyramid := func(fn *ssa.Function) func(ssa.Value) bool {
		return func(v ssa.Value) bool {
			return core.DerivesFrom(v, func(x ssa.Value) bool {
				c, _ := core.CallOf(x)
				return c != nil && core.IsCallTo(c, gcp)
			}, map[string]bool{lsPkg + ".addressToItem": true})
		}
	}
	var delCl *ssa.Function
	if h := w.Func("pkg/api", "(*server).auroraDeleteHandler"); h != nil {
		for _, cl := range core.Closures(h) {
			if len(core.Calls(cl, gcp)) > 0 {
				delCl = cl
			}
		}
		// O2: the removal list is computed inside the callback DelFile runs under its file
		// lock (the lock registrations take before bumping reference counts) — not in the
		// handler itself before the lock is held
		r.Saw(core.FuncName(h))
		outside := core.Calls(h, gcp)
		pos := h.Pos()
		if len(outside) > 0 {
			pos = outside[0].Pos()
		}
		r.Check("C16.O2", core.Key("C16.O2", h, "removal list computed under DelFile's lock"), pos, len(outside) == 0 && delCl != nil,
			"GetChunkPyramid (which protects chunks other files reference) is asked inside the callback that DelFile runs under its lock", "the delete handler computes the removal list before DelFile took its lock: a file registered in between shares chunks that are then removed from under it")
	}
	if delCl == nil && w.Func("pkg/api", "(*server).auroraDeleteHandler") != nil && len(core.Calls(w.Func("pkg/api", "(*server).auroraDeleteHandler"), gcp)) > 0 {
		// reported by O2 above; the provenance rule below has nothing to anchor on
	} else if delCl == nil {
		r.Fatal("unresolved anchor: closure of api.auroraDeleteHandler that removes the file's chunks")
	} else {
		r.Saw(core.FuncName(delCl))
		r.Eval(core.EdgeCount(delCl))
		modeRemove := mustConst(r, "pkg/storage", "ModeSetRemove")
		n := 0
		for _, c := range core.Calls(delCl, "(pkg/storage.Setter).Set", "(pkg/storage.Storer).Set") {
			args := core.Common(c).Args
			if m, ok := core.ConstInt(args[1]); !ok || m != modeRemove {
				continue
			}
			n++
			el := variadicElems(args[2])
			ok := len(el) >= 1
			what := "?"
			for _, e := range el {
				if !derivesViaCells(e, fromPyramid(delCl)) {
					ok = false
				}
				what = core.Render(e, nil)
			}
			r.Check("C16.P1", lsKey("C16.P1", delCl, "Set(ModeSetRemove, "+what+")"), c.Pos(), ok,
				"the delete handler removes only chunks taken from the reference-count-cleared list", "a chunk is removed that does not come from GetChunkPyramid's list (its reference count was never consulted): deleting this file removes a chunk another file may still use")
		}
		r.Floor("C16.P1", "ModeSetRemove calls in the delete handler", n, 2)
	}
	if gc := w.Func(lsPkg, "(*DB).collectGarbage"); gc == nil {
		r.Fatal("unresolved anchor %s.(*DB).collectGarbage", lsPkg)
	} else {
		var fs []*ssa.Function
		for f := range lsReach(w, gc) {
			fs = append(fs, f)
		}
		sort.Slice(fs, func(i, j int) bool { return fs[i].Pos() < fs[j].Pos() })
		n := 0
		for _, ic := range lsIndexCalls(fs) {
			if ic.field != "retrievalDataIndex" || !strings.HasPrefix(ic.method, "Delete") {
				continue
			}
			n++
			r.Saw(core.FuncName(ic.fn))
			item := ic.in.Call.Args[len(ic.in.Call.Args)-1]
			ok := derivesViaCells(item, fromPyramid(ic.fn))
			r.Check("C16.P1", lsKey("C16.P1", ic.fn, "GC data delete"), ic.in.Pos(), ok,
				"garbage collection deletes only chunks taken from the reference-count-cleared list", "GC deletes the data of an item that does not come from GetChunkPyramid's list: evicting a file removes a chunk (its root) that another file may share")
		}
		r.Floor("C16.P1", "data deletes reachable from GC", n, 2)
	}
	refCountMultiplicity(r, "C16.A2")
	refCountDisjoint(r, "C16.A3")
	delFileOrder(r, "C16.O1")
}

// derivesViaCells: DerivesFrom, additionally following copies through local arrays/slices
// filled in a loop (chunkHashes[i] = *chunk) — any store into the backing store of the
// slice the value is loaded from.
func derivesViaCells(v ssa.Value, origin func(ssa.Value) bool) bool {
	if origin(v) {
		return true
	}
	seen := map[ssa.Value]bool{}
	var rec func(v ssa.Value, d int) bool
	rec = func(v ssa.Value, d int) bool {
		if v == nil || seen[v] || d > 12 {
			return false
		}
		seen[v] = true
		if origin(v) {
			return true
		}
		v2 := core.Forward(v)
		if v2 != v && rec(v2, d+1) {
			return true
		}
		switch x := v.(type) {
		case *ssa.UnOp:
			return rec(x.X, d+1)
		case *ssa.FieldAddr:
			return rec(x.X, d+1)
		case *ssa.Field:
			return rec(x.X, d+1)
		case *ssa.IndexAddr:
			if rec(x.X, d+1) {
				return true
			}
		case *ssa.Phi:
			for _, e := range x.Edges {
				if rec(e, d+1) {
					return true
				}
			}
		case *ssa.Extract:
			return rec(x.Tuple, d+1)
		case *ssa.Next:
			return rec(x.Iter, d+1)
		case *ssa.Range:
			return rec(x.X, d+1)
		case *ssa.Call:
			if n := core.CalleeName(&x.Call); n == lsPkg+".addressToItem" {
				return rec(x.Call.Args[0], d+1)
			}
		case *ssa.MakeSlice, *ssa.Alloc:
			// anything stored into elements/fields of this container
			var stack []ssa.Value
			stack = append(stack, x.(ssa.Value))
			for len(stack) > 0 {
				cur := stack[len(stack)-1]
				stack = stack[:len(stack)-1]
				for _, u := range core.Uses(cur) {
					switch y := u.(type) {
					case *ssa.IndexAddr:
						if y.X == cur {
							stack = append(stack, y)
						}
					case *ssa.FieldAddr:
						if y.X == cur {
							stack = append(stack, y)
						}
					case *ssa.Slice:
						if y.X == cur {
							stack = append(stack, y)
						}
					case *ssa.Store:
						if y.Addr == cur && rec(y.Val, d+1) {
							return true
						}
					}
				}
			}
		case *ssa.Slice:
			return rec(x.X, d+1)
		}
		return false
	}
	return rec(v, 0)
}

func c17(r *core.Run) {
	w := r.W
	gcs := w.Func(ciPkg, "(*ChunkInfo).getCidSort")
	if gcs == nil {
		r.Fatal("unresolved anchor %s.(*ChunkInfo).getCidSort", ciPkg)
		return
	}
	r.Saw(core.FuncName(gcs))
	r.Eval(core.EdgeCount(gcs))
	// getCidSort: (sort, true) only on the comma-ok true edge of the data-chunk lookup
	twoResults := gcs.Signature.Results().Len() == 2
	okMember := twoResults
	if twoResults {
		var lk *ssa.Lookup
		core.EachInstr(gcs, func(_ *ssa.BasicBlock, _ int, in ssa.Instruction) {
			if l, ok := in.(*ssa.Lookup); ok && l.CommaOk {
				if fr, ok := core.AsField(core.Forward(l.X)); ok && fr.Name == "cids" {
					lk = l
				}
			}
		})
		found := core.EdgeSet{}
		if lk != nil {
			found, _ = core.AtomEdges(gcs, func(base ssa.Value) (bool, bool) {
				if e, ok := base.(*ssa.Extract); ok && e.Tuple == ssa.Value(lk) && e.Index == 1 {
					return true, true
				}
				return false, false
			})
		}
		nTrue := 0
		core.EachInstr(gcs, func(_ *ssa.BasicBlock, _ int, in ssa.Instruction) {
			ret, ok := in.(*ssa.Return)
			if !ok || ret.Block() == gcs.Recover {
				return
			}
			b, isC := core.ConstBool(core.Forward(ret.Results[1]))
			if isC && !b {
				return
			}
			nTrue++
			if lk == nil || len(found) == 0 || !core.OnlyBehind(gcs, ret, found) {
				okMember = false
			}
		})
		if nTrue == 0 {
			okMember = false
		}
	}
	r.Check("C17.P1", core.Key("C17.P1", gcs, "position only for members of the data-chunk table"), gcs.Pos(), okMember,
		"getCidSort yields a bit position only for a chunk found in the file's data-chunk table (comma-ok lookup)", "getCidSort returns a position (the zero value) for a chunk that is not a data chunk of the file: reading an intermediate chunk under the file's context marks data chunk 0 as present")
	// users
	nUse := 0
	for _, fn := range w.PkgFuncs(ciPkg) {
		calls := core.Calls(fn, "(*"+ciPkg+".ChunkInfo).getCidSort")
		if len(calls) == 0 {
			continue
		}
		r.Saw(core.FuncName(fn))
		r.Eval(core.EdgeCount(fn))
		for _, c := range calls {
			call := c.(*ssa.Call)
			member, _ := core.AtomEdges(fn, func(base ssa.Value) (bool, bool) {
				if cc, idx := core.CallOf(base); cc == call && idx == 1 {
					return true, true
				}
				return false, false
			})
			core.EachInstr(fn, func(_ *ssa.BasicBlock, _ int, in ssa.Instruction) {
				bc, ok := in.(*ssa.Call)
				if !ok {
					return
				}
				n := core.CalleeName(&bc.Call)
				if n != "(*pkg/bitvector.BitVector).Set" && n != "(*pkg/bitvector.BitVector).Get" {
					return
				}
				cc, idx := core.CallOf(bc.Call.Args[1])
				if cc != call {
					return
				}
				nUse++
				r.Check("C17.P1", core.Key("C17.P1", fn, strings.TrimPrefix(n, "(*pkg/bitvector.")+" index behind membership"), bc.Pos(), twoResults && idx == 0 && len(member) > 0 && core.OnlyBehind(fn, bc, member),
					"a bit of a file's availability vector is touched only for a chunk that is a data chunk of that file", "the bit index from getCidSort is used without testing membership")
			})
		}
	}
	r.Floor("C17.P1", "bit-vector accesses indexed by getCidSort", nUse, 3)
	c17Complete(r)

	// H1 DelFile exhaustiveness
	del := w.Func(ciPkg, "(*ChunkInfo).DelFile")
	if del == nil {
		r.Fatal("unresolved anchor %s.(*ChunkInfo).DelFile", ciPkg)
		return
	}
	reach := map[*ssa.Function]bool{}
	var visit func(f *ssa.Function)
	visit = func(f *ssa.Function) {
		if f == nil || reach[f] || f.Blocks == nil {
			return
		}
		if f.Pkg != nil && f.Pkg.Pkg.Path() != core.P(ciPkg) {
			return
		}
		reach[f] = true
		for _, a := range f.AnonFuncs {
			visit(a)
		}
		core.EachInstr(f, func(_ *ssa.BasicBlock, _ int, in ssa.Instruction) {
			if c := core.Common(in); c != nil {
				visit(c.StaticCallee())
				// method values handed to the dispatcher
				for _, a := range c.Args {
					if mc, ok := core.Strip(a).(*ssa.MakeClosure); ok {
						visit(mc.Fn.(*ssa.Function))
					}
				}
			}
			if mi, ok := in.(*ssa.MakeInterface); ok {
				if mc, ok := mi.X.(*ssa.MakeClosure); ok {
					visit(mc.Fn.(*ssa.Function))
				}
			}
		})
	}
	visit(del)
	var rnames []string
	for f := range reach {
		rnames = append(rnames, core.FuncName(f))
		r.Eval(core.EdgeCount(f))
	}
	sort.Strings(rnames)
	r.Floor("C17.H1", "functions reachable from DelFile (incl. dispatched method values)", len(rnames), 4)
	tables := []struct{ structName, field string }{
		{ciPkg + ".chunkInfoTabNeighbor", "presence"},
		{ciPkg + ".chunkInfoTabNeighbor", "overlays"},
		{ciPkg + ".chunkInfoDiscover", "presence"},
		{ciPkg + ".chunkInfoSource", "presence"},
		{ciPkg + ".chunkPyramid", "hashData"},
		{ciPkg + ".ChunkInfo", "queues"},
		{ciPkg + ".pendingFinderInfo", "finder"},
	}
	for _, t := range tables {
		cleared := false
		for f := range reach {
			core.EachInstr(f, func(_ *ssa.BasicBlock, _ int, in ssa.Instruction) {
				c, ok := in.(*ssa.Call)
				if !ok {
					return
				}
				if _, isDel := isBuiltinCall(c, "delete"); isDel && loadsField(t.structName, t.field)(core.Forward(c.Call.Args[0])) {
					cleared = true
				}
				if core.IsCallTo(c, "(*sync.Map).Delete") && core.IsFieldOf(c.Call.Args[0], t.structName, t.field) {
					cleared = true
				}
			})
		}
		r.Check("C17.H1", "C17.H1@"+ciPkg+".(*ChunkInfo).DelFile#clears "+strings.TrimPrefix(t.structName, ciPkg+".")+"."+t.field, del.Pos(), cleared,
			"deleting a file removes its entry from "+t.structName+"."+t.field, "nothing reachable from DelFile deletes from "+t.structName+"."+t.field+": a record for the deleted file remains in memory")
	}
	// H2: the prefix sweeps delete EVERY matching key: an iteration callback reachable from
	// DelFile that deletes store keys asks the iterator to stop only together with an error
	nSweep := 0
	for f := range reach {
		if f.Parent() == nil || len(core.Calls(f, "(pkg/storage.StateStorer).Delete")) == 0 {
			continue
		}
		res := f.Signature.Results()
		if res.Len() != 2 || res.At(0).Type().String() != "bool" || res.At(1).Type().String() != "error" {
			continue
		}
		nSweep++
		okStop := true
		var badPos = f.Pos()
		core.EachInstr(f, func(_ *ssa.BasicBlock, _ int, in ssa.Instruction) {
			ret, isRet := in.(*ssa.Return)
			if !isRet || len(ret.Results) != 2 {
				return
			}
			stop, isC := core.ConstBool(core.Forward(ret.Results[0]))
			if (!isC || stop) && core.IsNilConst(core.Forward(ret.Results[1])) {
				okStop, badPos = false, ret.Pos()
			}
		})
		r.Saw(core.FuncName(f))
		r.Check("C17.H2", lsKey("C17.H2", f, "sweep does not stop early"), badPos, okStop,
			"the callback that deletes a file's persisted records never stops the iteration without an error", "the deleting callback can return stop=true with a nil error: only the first matching record is deleted and the file's other persisted records survive DelFile")
	}
	r.Floor("C17.H2", "store-deleting iteration callbacks reachable from DelFile", nSweep, 2)

	// persisted prefixes: globals passed to generateKey in a Put key
	prefixes := map[*ssa.Global]bool{}
	for _, fn := range w.PkgFuncs(ciPkg) {
		for _, c := range core.Calls(fn, "(pkg/storage.StateStorer).Put") {
			kc, _ := core.CallOf(core.Common(c).Args[0])
			if kc != nil && core.IsCallTo(kc, ciPkg+".generateKey") {
				if p, ok := core.LoadedFrom(core.Forward(kc.Call.Args[0])); ok {
					if g, ok := p.(*ssa.Global); ok {
						prefixes[g] = true
					}
				}
			}
		}
	}
	r.Floor("C17.H1", "persisted key prefixes written with generateKey", len(prefixes), 4)
	var gl []*ssa.Global
	for g := range prefixes {
		gl = append(gl, g)
	}
	sort.Slice(gl, func(i, j int) bool { return gl[i].Name() < gl[j].Name() })
	for _, g := range gl {
		cleared := false
		for f := range reach {
			loads, dels := false, false
			for _, ff := range core.WithClosures(f) {
				core.EachInstr(ff, func(_ *ssa.BasicBlock, _ int, in ssa.Instruction) {
					if u, ok := in.(*ssa.UnOp); ok && u.X == ssa.Value(g) {
						loads = true
					}
					if c := core.Common(in); c != nil && core.CalleeName(c) == "(pkg/storage.StateStorer).Delete" {
						dels = true
					}
				})
			}
			if loads && dels {
				cleared = true
			}
		}
		r.Check("C17.H1", "C17.H1@"+ciPkg+".(*ChunkInfo).DelFile#deletes persisted "+g.Name(), del.Pos(), cleared,
			"deleting a file deletes its persisted records under prefix "+g.Name(), "nothing reachable from DelFile deletes store keys under "+g.Name()+": a persisted record of the deleted file survives")
	}
	refCountMultiplicity(r, "C17.A2")
	delFileOrder(r, "C17.O1")
	// (the delete-at-index lint is not applied to pkg/chunkinfo: its one hit, queue.popNode,
	// concerns the discovery pull queue, which no clause of C17 speaks about)
}
