package props

import (
	"go/token"
	"go/types"

	"aurora-verif/checker/core"

	"golang.org/x/tools/go/ssa"
)

// structFieldIndex returns the index of the named field in (a pointer to) a struct type.
func structFieldIndex(t types.Type, name string) int {
	if p, ok := t.Underlying().(*types.Pointer); ok {
		t = p.Elem()
	}
	s, ok := t.Underlying().(*types.Struct)
	if !ok {
		return -1
	}
	for i := 0; i < s.NumFields(); i++ {
		if s.Field(i).Name() == name {
			return i
		}
	}
	return -1
}

// c11GetSide (P3): what the read side hands out is what the data index holds for the asked
// address: DB.Get / DB.GetMulti build each returned chunk as
// NewChunk(NewAddress(item.Address), item.Data) from ONE item that comes from db.get /
// db.getMulti, only behind their success; db.get asks retrievalDataIndex for
// addressToItem(addr) and db.getMulti fills items whose Address is addrs[i].Bytes(), in order.
func c11GetSide(r *core.Run) {
	itemFrom := func(fn *ssa.Function, v ssa.Value, field string, origin func(ssa.Value) bool) (ssa.Value, bool) {
		// v is a load of <obj>.<field>; returns the object and whether its content comes from origin
		ld, ok := v.(*ssa.UnOp)
		if !ok || ld.Op != token.MUL {
			return nil, false
		}
		fa, ok := ld.X.(*ssa.FieldAddr)
		if !ok || structFieldIndex(fa.X.Type(), field) != fa.Field {
			return nil, false
		}
		al, ok := fa.X.(*ssa.Alloc)
		if !ok {
			return nil, false
		}
		sv := core.StoredFieldAt(fn, al, fa.Field, ld)
		return al, sv != nil && origin(sv)
	}
	for _, row := range []struct {
		fn, inner string
		elem      bool
	}{{"(*DB).Get", "(*pkg/localstore.DB).get", false}, {"(*DB).GetMulti", "(*pkg/localstore.DB).getMulti", true}} {
		fn := lsFunc(r, row.fn)
		if fn == nil {
			continue
		}
		r.Saw(core.FuncName(fn))
		r.Eval(core.EdgeCount(fn))
		inner := core.Calls(fn, row.inner)
		if len(inner) != 1 {
			r.Check("C11.P3", core.Key("C11.P3", fn, "reads through "+row.inner), fn.Pos(), false, "", row.fn+" does not call "+row.inner+" exactly once")
			continue
		}
		ic := inner[0].(*ssa.Call)
		okE, _ := core.AtomEdges(fn, core.ErrNilAtom(func(x *ssa.Call) bool { return x == ic }))
		origin := func(v ssa.Value) bool {
			if row.elem {
				// a copy of an element of the slice getMulti returned
				if ld, ok := v.(*ssa.UnOp); ok && ld.Op == token.MUL {
					if ia, ok := ld.X.(*ssa.IndexAddr); ok {
						c, idx := core.CallOf(core.Forward(ia.X))
						return c == ic && idx == 0
					}
				}
				return false
			}
			c, idx := core.CallOf(v)
			return c == ic && idx == 0
		}
		n := 0
		for _, nc := range core.Calls(fn, "pkg/boson.NewChunk") {
			n++
			a := core.Common(nc).Args
			okShape := false
			if na, _ := core.CallOf(a[0]); na != nil && core.IsCallTo(na, "pkg/boson.NewAddress") {
				o1, ok1 := itemFrom(fn, na.Call.Args[0], "Address", origin)
				o2, ok2 := itemFrom(fn, a[1], "Data", origin)
				okShape = ok1 && ok2 && o1 == o2
			} else if !row.elem && a[0] == ssa.Value(fn.Params[3]) {
				// the asked address itself (equal to item.Address: the index key)
				_, okShape = itemFrom(fn, a[1], "Data", origin)
			}
			r.Check("C11.P3", core.Key("C11.P3", fn, "returned chunk = (item.Address, item.Data) of the index item"), nc.Pos(), okShape && len(okE) > 0 && core.OnlyBehind(fn, nc, okE),
				"each chunk handed out is NewChunk(NewAddress(item.Address), item.Data) of one item returned by "+row.inner+", behind its success", "the returned chunk is not built from the address and data of one and the same item of "+row.inner+" (or is built although it failed): Get returns bytes that were not stored under that address")
		}
		r.Floor("C11.P3", "chunks built in "+row.fn, n, 1)
	}
	// db.get: key = addressToItem(addr); non-pin result = the data index's item
	if fn := lsFunc(r, "(*DB).get"); fn != nil {
		r.Saw(core.FuncName(fn))
		r.Eval(core.EdgeCount(fn))
		okKey := false
		var get *ssa.Call
		for _, ic := range lsIndexCalls([]*ssa.Function{fn}) {
			if ic.field == "retrievalDataIndex" && ic.method == "Get" {
				get = ic.in
				k, _ := core.CallOf(core.Forward(ic.in.Call.Args[len(ic.in.Call.Args)-1]))
				if k != nil && core.IsCallTo(k, "pkg/localstore.addressToItem") && k.Call.Args[0] == ssa.Value(fn.Params[2]) {
					okKey = true
				}
			}
		}
		pos := fn.Pos()
		if get != nil {
			pos = get.Pos()
		}
		r.Check("C11.P3", core.Key("C11.P3", fn, "data index asked for addressToItem(addr)"), pos, okKey,
			"db.get reads the data index under the key of the asked address", "db.get does not read retrievalDataIndex with addressToItem(addr)")
	}
	if fn := lsFunc(r, "(*DB).getMulti"); fn != nil {
		r.Saw(core.FuncName(fn))
		r.Eval(core.EdgeCount(fn))
		// out[i].Address = addrs[i].Bytes() with the same i, then Fill(out)
		okFill, okKeys := false, false
		var out ssa.Value
		for _, ic := range lsIndexCalls([]*ssa.Function{fn}) {
			if ic.field == "retrievalDataIndex" && ic.method == "Fill" {
				out = ic.in.Call.Args[len(ic.in.Call.Args)-1]
				okFill = true
			}
		}
		core.EachInstr(fn, func(_ *ssa.BasicBlock, _ int, in ssa.Instruction) {
			st, ok := in.(*ssa.Store)
			if !ok {
				return
			}
			fa, ok := st.Addr.(*ssa.FieldAddr)
			if !ok || structFieldIndex(fa.X.Type(), "Address") != fa.Field {
				return
			}
			el, ok := fa.X.(*ssa.IndexAddr)
			if !ok || out == nil || el.X != out {
				return
			}
			bc, _ := core.CallOf(st.Val)
			if bc == nil || !core.IsCallTo(bc, "(pkg/boson.Address).Bytes") {
				return
			}
			if ld, ok := bc.Call.Args[0].(*ssa.UnOp); ok {
				if src, ok := ld.X.(*ssa.IndexAddr); ok && src.X == ssa.Value(fn.Params[2]) && src.Index == el.Index {
					okKeys = true
				}
			}
		})
		r.Check("C11.P3", core.Key("C11.P3", fn, "items keyed addrs[i] in order, filled from the data index"), fn.Pos(), okFill && okKeys,
			"getMulti asks the data index for out[i].Address = addrs[i].Bytes() (same i) and returns the filled items", "getMulti does not key item i with address i before filling from retrievalDataIndex: results are permuted or belong to other addresses")
	}
	// Has: ModeHasChunk answers from the data index under addressToItem(addr)
	if fn := lsFunc(r, "(*DB).Has"); fn != nil {
		r.Saw(core.FuncName(fn))
		okHas := false
		for _, ic := range lsIndexCalls([]*ssa.Function{fn}) {
			if ic.field == "retrievalDataIndex" && ic.method == "Has" {
				k, _ := core.CallOf(core.Forward(ic.in.Call.Args[len(ic.in.Call.Args)-1]))
				if k != nil && core.IsCallTo(k, "pkg/localstore.addressToItem") && k.Call.Args[0] == ssa.Value(fn.Params[3]) {
					okHas = true
				}
			}
		}
		r.Check("C11.P3", core.Key("C11.P3", fn, "presence asked of the data index for addressToItem(addr)"), fn.Pos(), okHas,
			"Has(ModeHasChunk) asks the data index under the key of the asked address", "Has does not consult retrievalDataIndex.Has(addressToItem(addr))")
	}
}
