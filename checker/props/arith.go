package props

import (
	"go/token"

	"golang.org/x/tools/go/ssa"
)

// arithmeticOf: v is computed from origin values through integer arithmetic with constants
// only (+ - * / >> <<, conversions) and phis all of whose incoming values are themselves so
// computed — in particular no phi edge is a bare constant (a clamp or default).
func arithmeticOf(v ssa.Value, origin func(ssa.Value) bool) bool {
	state := map[ssa.Value]int{} // 1 = in progress (assume ok: cycles through phis), 2 = ok, 3 = bad
	var rec func(v ssa.Value) bool
	isConst := func(v ssa.Value) bool {
		for {
			if c, ok := v.(*ssa.Convert); ok {
				v = c.X
				continue
			}
			_, ok := v.(*ssa.Const)
			return ok
		}
	}
	rec = func(v ssa.Value) bool {
		switch state[v] {
		case 1, 2:
			return true
		case 3:
			return false
		}
		state[v] = 1
		ok := false
		switch x := v.(type) {
		case *ssa.Phi:
			ok = true
			for _, e := range x.Edges {
				if !rec(e) {
					ok = false
				}
			}
		case *ssa.Convert:
			ok = rec(x.X)
		case *ssa.ChangeType:
			ok = rec(x.X)
		case *ssa.BinOp:
			switch x.Op {
			case token.ADD, token.SUB, token.MUL, token.QUO, token.SHL, token.SHR:
				switch {
				case isConst(x.Y):
					ok = rec(x.X)
				case isConst(x.X):
					ok = rec(x.Y)
				default:
					ok = rec(x.X) && rec(x.Y)
				}
			}
		default:
			ok = origin(v)
		}
		if ok {
			state[v] = 2
		} else {
			state[v] = 3
		}
		return ok
	}
	return rec(v)
}
