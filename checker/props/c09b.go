package props

import (
	"aurora-verif/checker/core"

	"golang.org/x/tools/go/ssa"
)

// c09Pyramid (K1): GetPyramid collects a file's intermediate chunks by walking it; the walk
// may be skipped only for a file that is a single chunk (span <= ChunkSize). A larger
// threshold (e.g. ChunkSize*Branches, true only for 32-byte references) leaves out the
// intermediate chunks of mid-sized encrypted files.
func c09Pyramid(r *core.Run) {
	w := r.W
	fn := w.Func("pkg/traversal", "(*service).GetPyramid")
	if fn == nil {
		r.Fatal("unresolved anchor pkg/traversal.(*service).GetPyramid")
		return
	}
	chunk := mustConst(r, "pkg/boson", "ChunkSize")
	n := 0
	for _, cl := range core.Closures(fn) {
		var walks []ssa.Instruction
		core.EachInstr(cl, func(_ *ssa.BasicBlock, _ int, in ssa.Instruction) {
			if c := core.Common(in); c != nil && c.IsInvoke() && c.Method.Name() == "IterateChunkAddresses" {
				walks = append(walks, in)
			}
		})
		if len(walks) == 0 {
			continue
		}
		n++
		r.Saw(core.FuncName(cl))
		r.Eval(core.EdgeCount(cl))
		isSpan := func(v ssa.Value) bool {
			if cv, ok := v.(*ssa.Convert); ok {
				v = cv.X
			}
			c, idx := core.CallOf(v)
			return c != nil && idx == 1 && core.IsCallTo(c, "pkg/file/joiner.New")
		}
		multi, _ := core.AtomEdges(cl, cmpAtom(isSpan, func(y ssa.Value) bool { k, ok := foldedInt(y); return ok && k == chunk }, ">"))
		isWalk := func(in ssa.Instruction) bool {
			c := core.Common(in)
			return c != nil && c.IsInvoke() && c.Method.Name() == "IterateChunkAddresses"
		}
		ok := len(multi) > 0 && mustPassFrom(edgeTargets(multi), isWalk)
		r.Check("C09.K1", lsKey("C09.K1", cl, "every multi-chunk file is walked for its intermediate chunks"), walks[0].Pos(), ok,
			"the pyramid walk is skipped only when span <= ChunkSize (the file is one chunk)", "the walk that collects intermediate chunks is not taken for every span > boson.ChunkSize: files above one chunk but below the new threshold lose their intermediate chunks from the pyramid")
	}
	r.Floor("C09.K1", "pyramid-collecting closures in GetPyramid", n, 1)
}
