package props

// extraNotes2: clauses added in round 3 of the seeded-change triage (merged into extraNotes).
var extraNotes2 = map[string][2]string{
	"C01": {"reentrancy rule for the reader", "(W1) joiner.ReadAt only reads the receiver's fields: its byte counter and error group are locals of the call (io.ReaderAt allows overlapping calls)."},
	"C07": {"reentrancy rule for the reader", "(W1) same rule as C01.W1."},
	"C08": {"hash-trie layout rules", "(H1, H2) the hash-trie rules of C01: the clear span of a wrapped level travels upwards from args.Span of the emitted chunk (args.Data is ciphertext in the encrypted pipeline)."},
	"C11": {"key-provenance rule for setRemove's data delete", "(P4) the data-index delete in setRemove is keyed by the item built from addressToItem(addr) — never by the file-root item."},
	"C16": {"ordering rule in DelFile", "(O1) DelFile dispatches delRootCid (release of the file's chunk references) only after, and behind the success of, the caller's removal callback."},
	"C17": {"ordering rule in DelFile", "(O1) same rule as C16.O1: released first, a shared chunk looks exclusive to the removal callback and is deleted while another file's record still claims it."},
	"C18": {"wrap lint for key-bound arithmetic; range provenance", "(L2) in the driver and the state stores a key byte is incremented (and written back into a byte slice) only where it was tested against 0xFF; (P2) LevelDB.Search opens its iterator over nil or over a range built from the query's own prefix bytes."},
	"C19": {"wrap lint and shape rule for the reverse-iteration bound", "(L2) as C18.L2 for pkg/shed; (Y2) the function whose result reaches Seek on the reverse-with-prefix path of Index.Iterate returns, on every non-nil path, the re-slice b[:i+1] ending at the byte it incremented — the shortest key above the prefix."},
	"C20": {"comparison-shape rules for the XOR distance order", "(D1) DistanceCmp compares (x[i]^a[i]) with (y[i]^a[i]) at one index, walking from byte 0 upwards; 1 only behind dx<dy, -1 only behind dx!=dy and not dx<dy, 0 only when no byte differed; (D2) DistanceRaw stores x[i]^y[i] at i; (D3) a.Closer(x, y) is DistanceCmp(x, a, y) == 1."},
	"C22": {"lockset rule for the recompute itself", "(Lk2) every recalcDepth call whose result is stored into k.depth runs with depthMu write-held (compute and publish in one critical section)."},
	"C36": {"codec-pair rule for the stored private key", "(A2) encryptKey encrypts crypto.EncodeSecp256k1PrivateKey(k) and decryptKey returns crypto.DecodeSecp256k1PrivateKey of the decrypted bytes."},
}

var _ = mergeNotes2()

func mergeNotes2() bool {
	for id, n := range extraNotes2 {
		if old, ok := extraNotes[id]; ok {
			extraNotes[id] = [2]string{old[0] + "; " + n[0], old[1] + " " + n[1]}
		} else {
			extraNotes[id] = n
		}
	}
	return true
}
