package props

import (
	"aurora-verif/checker/core"

	"golang.org/x/tools/go/ssa"
)

// c32OneRecordPerPeer (Lk3): "unpaid = credits − notified payments" holds per peer only if
// there is one accounting record per peer. Every insertion into Accounting.accountingPeers
// is made in the critical section whose lookup found the peer absent: behind the ok == false
// edge of a comma-ok lookup of that map, with no Unlock of accountingPeersMu between that
// lookup and the insertion. A test-then-insert split over two critical sections lets two
// first-touch operations of one peer each build a record; the later insert orphans the
// earlier one together with the credits applied to it.
func c32OneRecordPerPeer(r *core.Run) {
	const rule = "C32.Lk3"
	const A = "pkg/accounting.Accounting"
	n := 0
	done := map[*ssa.Function]bool{}
	for _, top := range r.W.PkgFuncs("pkg/accounting") {
		for _, fn := range core.WithClosures(top) {
			if done[fn] {
				continue
			}
			done[fn] = true
			var ups []*ssa.MapUpdate
			var looks []*ssa.Lookup
			var unlocks []ssa.Instruction
			core.EachInstr(fn, func(_ *ssa.BasicBlock, _ int, in ssa.Instruction) {
				switch x := in.(type) {
				case *ssa.MapUpdate:
					if core.IsFieldOf(core.Forward(x.Map), A, "accountingPeers") {
						ups = append(ups, x)
					}
				case *ssa.Lookup:
					if x.CommaOk && core.IsFieldOf(core.Forward(x.X), A, "accountingPeers") {
						looks = append(looks, x)
					}
				case *ssa.Call:
					if core.CalleeName(&x.Call) == "(*sync.Mutex).Unlock" || core.CalleeName(&x.Call) == "(*sync.RWMutex).Unlock" {
						if core.IsFieldOf(x.Call.Args[0], A, "accountingPeersMu") || core.LockID(x.Call.Args[0]) == A+".accountingPeersMu" {
							unlocks = append(unlocks, in)
						}
					}
				}
			})
			if len(ups) == 0 {
				continue
			}
			r.Saw(core.FuncName(fn))
			r.Eval(core.EdgeCount(fn))
			follows := func(a, b ssa.Instruction) bool {
				if a.Block() == b.Block() {
					ia, ib := -1, -1
					for i, in := range a.Block().Instrs {
						if in == a {
							ia = i
						}
						if in == b {
							ib = i
						}
					}
					if ia < ib {
						return true
					}
				}
				return reachAvoiding(a.Block(), nil)[b.Block()]
			}
			for _, up := range ups {
				n++
				ok := false
				for _, l := range looks {
					_, absent := core.AtomEdges(fn, func(base ssa.Value) (bool, bool) {
						ex, isEx := base.(*ssa.Extract)
						if !isEx || ex.Index != 1 || ex.Tuple != ssa.Value(l) {
							return false, false
						}
						return true, true
					})
					if len(absent) == 0 || !core.OnlyBehind(fn, up, absent) {
						continue
					}
					split := false
					for _, u := range unlocks {
						if follows(l, u) && follows(u, up) {
							split = true
						}
					}
					if !split {
						ok = true
					}
				}
				r.Check(rule, lsKey(rule, fn, "peer record inserted in the critical section that found it absent"), up.Pos(), ok,
					"a peer's accounting record is inserted in the critical section whose lookup found the peer absent",
					"the record is inserted without an absent-test in the same critical section of accountingPeersMu (the lock is released between the lookup and the insert, or there is no lookup): two first-touch operations of one peer each build a record, the later insert orphans the earlier one and the credits applied to it — unpaid no longer equals credits minus payments and no payment is requested")
			}
		}
	}
	r.Floor(rule, "insertions into Accounting.accountingPeers", n, 1)
}
