package props

import (
	"aurora-verif/checker/core"

	"golang.org/x/tools/go/ssa"
)

// c25Choice (G2): which of {requested, stored} Add writes. With 0 meaning "forever":
//   - the stored duration is kept only where it is forever (stored == 0) or the request is
//     not forever (requested != 0) — else a zero-duration request would not block forever;
//   - the requested duration is written only where the stored one is not forever
//     (stored != 0) and the request does not undercut it (requested >= stored, or
//     requested == 0) — else an existing block would be shortened.
//
// Checked on the control-flow edges that carry each alternative into the phi feeding
// Duration.String().
func c25Choice(r *core.Run, add *ssa.Function, get string) {
	const rule = "C25.G2"
	gets := core.Calls(add, get)
	if len(gets) != 1 || len(add.Params) < 3 {
		r.Fatal("unresolved anchor: Blocklist.Add reads the stored entry once")
		return
	}
	isD := func(v ssa.Value) bool {
		cc, idx := core.CallOf(v)
		return cc != nil && cc == gets[0].(*ssa.Call) && idx == 1
	}
	isReq := func(v ssa.Value) bool { return v == ssa.Value(add.Params[2]) }
	isZero := func(v ssa.Value) bool { k, ok := core.ConstInt(v); return ok && k == 0 }
	dZero, dNonZero := core.AtomEdges(add, cmpAtom(isD, isZero, "=="))
	reqNZ, reqZ := core.AtomEdges(add, cmpAtom(isReq, isZero, "!="))
	_, reqGE := core.AtomEdges(add, cmpAtom(isReq, isD, "<"))
	union := func(sets ...core.EdgeSet) core.EdgeSet {
		u := core.EdgeSet{}
		for _, s := range sets {
			for e := range s {
				u[e] = true
			}
		}
		return u
	}
	edgeBehind := func(from, to *ssa.BasicBlock, good core.EdgeSet) bool {
		if good[core.Edge{From: from, To: to}] {
			return true
		}
		return len(good) > 0 && core.OnlyBehind(add, from.Instrs[len(from.Instrs)-1], good)
	}
	nD, nReq := 0, 0
	seen := map[*ssa.Phi]bool{}
	var walk func(v ssa.Value)
	walk = func(v ssa.Value) {
		phi, ok := v.(*ssa.Phi)
		if !ok || seen[phi] {
			return
		}
		seen[phi] = true
		for i, e := range phi.Edges {
			from, to := phi.Block().Preds[i], phi.Block()
			switch {
			case isD(e):
				nD++
				r.Check(rule, lsKey(rule, add, "stored duration kept only if it is forever or the request is not"), phi.Pos(), edgeBehind(from, to, union(dZero, reqNZ)),
					"the already stored duration is kept only where it is 0 (forever) or the requested one is not 0", "Add keeps the stored duration although the request is 0 (forever) and the stored block is finite: a zero duration no longer blocks forever")
			case isReq(e):
				nReq++
				r.Check(rule, lsKey(rule, add, "requested duration written only over a block that is not forever"), phi.Pos(), edgeBehind(from, to, dNonZero),
					"the requested duration replaces the stored one only where the stored one is not 0 (forever)", "Add can replace a forever block (stored duration 0) by the requested finite duration: the block is shortened")
				r.Check(rule, lsKey(rule, add, "requested duration written only if it does not undercut the stored one"), phi.Pos(), edgeBehind(from, to, union(reqGE, reqZ)),
					"the requested duration replaces the stored one only where it is 0 or not smaller", "Add can replace the stored duration by a smaller requested one: the block is shortened")
			default:
				walk(e)
			}
		}
	}
	for _, c := range core.Calls(add, "(time.Duration).String") {
		walk(core.Common(c).Args[0])
	}
	r.Floor(rule, "alternatives (stored / requested) reaching the written duration", nD+nReq, 2)
}
