package props

import (
	"go/token"

	"aurora-verif/checker/core"

	"golang.org/x/tools/go/ssa"
)

// gcDeltaPaired (G5): the persisted counter is the sum of the per-file counts of the gc
// index, so a helper lowers its counter delta only where it also lowered (or deleted) a
// gc-index entry. In setPin the delta is decremented only behind the edge on which the
// root's gc entry was read successfully; decrementing also when the entry is already gone
// (all counted chunks of the file were pinned before) drags the counter below the sum.
func gcDeltaPaired(r *core.Run, rule string) {
	fn := lsFunc(r, "(*DB).setPin")
	if fn == nil {
		return
	}
	r.Saw(core.FuncName(fn))
	r.Eval(core.EdgeCount(fn))
	var gets []*ssa.Call
	for _, ic := range lsIndexCalls([]*ssa.Function{fn}) {
		if ic.field == "gcIndex" && ic.method == "Get" {
			gets = append(gets, ic.in)
		}
	}
	found, _ := core.AtomEdges(fn, core.ErrNilAtom(func(c *ssa.Call) bool {
		for _, g := range gets {
			if g == c {
				return true
			}
		}
		return false
	}))
	n := 0
	core.EachInstr(fn, func(_ *ssa.BasicBlock, _ int, in ssa.Instruction) {
		b, ok := in.(*ssa.BinOp)
		if !ok || b.Op != token.SUB || b.Type().String() != "int64" {
			return
		}
		if k, isC := core.ConstInt(b.Y); !isC || k != 1 {
			return
		}
		n++
		r.Check(rule, core.Key(rule, fn, "counter delta lowered only together with a gc entry"), b.Pos(), len(gets) > 0 && len(found) > 0 && core.OnlyBehind(fn, in, found),
			"setPin lowers its counter delta only where the root's gc entry was found (and is lowered or deleted)", "setPin lowers the counter delta although the root's gc-index entry was not found (already removed by earlier pins of the file): the persisted counter drops below the sum of the per-file counts")
	})
	r.Floor(rule, "decrements of the counter delta in setPin", n, 1)
}
