package props

import (
	"aurora-verif/checker/core"

	"golang.org/x/tools/go/ssa"
)

// psliceRules: two clauses of PSlice.Add shared by the properties that sit on the peer sets
// (set semantics C21, depth C22, known/connected bookkeeping C24).
//
//	(L2) growing a bin preserves exactly its content: a fresh bin is make(len(old), …)
//	     followed by copy(fresh, old) before anything else uses it — not make(0, …) (the old
//	     peers vanish) and not append(make(len(old), …), old...) (len(old) zero addresses
//	     appear);
//	(G2) an address is appended to a bin only behind a "not present" answer of s.index for
//	     that address obtained after the previous append of the same call (inside the same
//	     loop iteration) — a batch that contains an address twice stores it once.
func psliceRules(r *core.Run, id string) {
	const T = "pkg/topology/pslice.PSlice"
	fn := r.W.Func("pkg/topology/pslice", "(*PSlice).Add")
	if fn == nil {
		r.Fatal("unresolved anchor pkg/topology/pslice.(*PSlice).Add")
		return
	}
	r.Saw(core.FuncName(fn))
	r.Eval(core.EdgeCount(fn))
	isBinLoad := func(v ssa.Value) bool {
		u, ok := v.(*ssa.UnOp)
		if !ok {
			return false
		}
		ia, ok := u.X.(*ssa.IndexAddr)
		return ok && core.IsFieldOf(ia.X, T, "peers")
	}
	nMake := 0
	core.EachInstr(fn, func(_ *ssa.BasicBlock, _ int, in ssa.Instruction) {
		m, ok := in.(*ssa.MakeSlice)
		if !ok || m.Type().String() != "[]"+core.P("pkg/boson")+".Address" {
			return
		}
		nMake++
		var old ssa.Value
		if l, ok := isBuiltinCall(m.Len, "len"); ok && isBinLoad(core.Forward(l.Call.Args[0])) {
			old = l.Call.Args[0]
		}
		why := "the fresh bin is not made with the old bin's length"
		okCopy := false
		if old != nil {
			why = "the fresh bin is not filled by copy(fresh, old) before it is used"
			var cp ssa.Instruction
			for _, u := range core.Uses(m) {
				if c, ok := u.(*ssa.Call); ok {
					if _, isCopy := isBuiltinCall(c, "copy"); isCopy && c.Call.Args[0] == ssa.Value(m) && (c.Call.Args[1] == old || core.SameExpr(c.Call.Args[1], old)) {
						cp = c
					}
				}
			}
			if cp != nil {
				okCopy = true
				for _, u := range core.Uses(m) {
					if _, isDbg := u.(*ssa.DebugRef); isDbg || u == cp {
						continue
					}
					if !core.Precedes(cp, u) {
						okCopy = false
					}
				}
			}
		}
		r.Check(id+".L2", core.Key(id+".L2", fn, "grown bin = make(len(old)) + copy(old)"), m.Pos(), old != nil && okCopy,
			"a bin is grown into a fresh slice of the old length that is filled with the old peers before it replaces the bin", why+": growing a bin drops its peers or inserts zero addresses that Length and the iterators count")
	})
	r.Floor(id+".L2", "fresh bins made in PSlice.Add", nMake, 1)
	// G2
	nApp := 0
	core.EachInstr(fn, func(_ *ssa.BasicBlock, _ int, in ssa.Instruction) {
		c, ok := in.(*ssa.Call)
		if !ok {
			return
		}
		if _, isApp := isBuiltinCall(c, "append"); !isApp || !isBinLoad(core.Forward(c.Call.Args[0])) {
			return
		}
		nApp++
		elems := variadicElems(c.Call.Args[1])
		okG := false
		if len(elems) == 1 {
			addr := elems[0]
			_, absent := core.AtomEdges(fn, func(base ssa.Value) (bool, bool) {
				ic, idx := core.CallOf(base)
				if ic == nil || idx != 0 || !core.IsCallTo(ic, "(*pkg/topology/pslice.PSlice).index") {
					return false, false
				}
				a := core.Common(ic).Args
				if !(a[1] == addr || core.SameExpr(a[1], addr)) {
					return false, false
				}
				// asked in the same loop iteration as the append (or outside any loop, like it)
				if loopHeader(fn, ic.Block()) != loopHeader(fn, c.Block()) {
					return false, false
				}
				return true, true
			})
			okG = len(absent) > 0 && core.OnlyBehind(fn, c, absent)
		}
		r.Check(id+".G2", lsKey(id+".G2", fn, "append behind a fresh not-present answer #"+string(rune('0'+nApp))), c.Pos(), okG,
			"an address is appended only after s.index reported it absent, asked after the previous append of the call", "the address is appended on the strength of a membership test made before earlier additions of the same call (or of none): an address occurring twice in one batch is stored twice, and Remove leaves a copy behind")
	})
	r.Floor(id+".G2", "appends to a bin in PSlice.Add", nApp, 2)
}
