package props

import (
	"aurora-verif/checker/core"

	"golang.org/x/tools/go/ssa"
)

// c07CountOnlyOnSuccess (E1): the byte counter of joiner.ReadAt is summed by the per-chunk
// goroutines in whatever order they finish, so it describes a contiguous prefix of the
// buffer only when every fetch succeeded. A return of ReadAt whose count derives from that
// counter lies behind the nil edge of the error group's Wait; on a fetch error the count is
// the constant 0. Otherwise buf[:n] covers a hole, and Read — which hands the count on
// without advancing its offset on an error — makes a retrying sequential reader receive the
// same range twice ("sequential reads neither skip nor repeat content").
func c07CountOnlyOnSuccess(r *core.Run) {
	const rule = "C07.E1"
	fn := r.W.Func("pkg/file/joiner", "(*joiner).ReadAt")
	if fn == nil {
		r.Fatal("unresolved anchor pkg/file/joiner.(*joiner).ReadAt")
		return
	}
	r.Saw(core.FuncName(fn))
	r.Eval(core.EdgeCount(fn))
	waits := core.Calls(fn, "(*golang.org/x/sync/errgroup.Group).Wait")
	r.Floor(rule, "errgroup Wait calls in ReadAt", len(waits), 1)
	okEdges, _ := core.AtomEdges(fn, func(base ssa.Value) (bool, bool) {
		x, eq, ok := core.NilCmp(base)
		if !ok {
			return false, false
		}
		c, _ := core.CallOf(core.Forward(x))
		if c == nil || !core.IsCallTo(c, "(*golang.org/x/sync/errgroup.Group).Wait") {
			return false, false
		}
		return true, eq
	})
	// the counter: the int64 cell whose address ReadAt hands to readAtOffset
	counters := map[ssa.Value]bool{}
	for _, c := range core.Calls(fn, "(*pkg/file/joiner.joiner).readAtOffset") {
		for _, a := range core.Common(c).Args {
			if al, ok := a.(*ssa.Alloc); ok && al.Type().String() == "*int64" {
				counters[al] = true
			}
		}
	}
	r.Floor(rule, "byte-counter cells handed to readAtOffset", len(counters), 1)
	fromCounter := func(v ssa.Value) bool {
		return core.DerivesFrom(v, func(x ssa.Value) bool { return counters[x] }, map[string]bool{"sync/atomic.LoadInt64": true})
	}
	n := 0
	core.EachInstr(fn, func(b *ssa.BasicBlock, _ int, in ssa.Instruction) {
		ret, ok := in.(*ssa.Return)
		if !ok || b == fn.Recover || len(ret.Results) != 2 || !fromCounter(ret.Results[0]) {
			return
		}
		n++
		r.Check(rule, lsKey(rule, fn, "byte count reported only when every fetch succeeded"), ret.Pos(), len(okEdges) > 0 && core.OnlyBehind(fn, ret, okEdges),
			"ReadAt reports the goroutines' byte counter only behind Wait() == nil", "ReadAt returns the parallel goroutines' byte counter also when a fetch failed: the count is a sum, not a contiguous prefix — buf[:n] covers a hole, and Read hands n on without advancing, so a retry repeats content")
	})
	r.Floor(rule, "returns of ReadAt that report the byte counter", n, 1)
}
