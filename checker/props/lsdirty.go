package props

import (
	"aurora-verif/checker/core"

	"golang.org/x/tools/go/ssa"
)

// dirtyLogRule: while a collection run is in progress (DB.gcRunning), every mutating
// operation — put, set (all modes), updateGC — records the addresses it touches in
// DB.dirtyAddresses, with no further condition: the collector re-tests its candidates
// against that list (C12.G2 / C13.G2) and anything missing from it is collected from under
// the operation.
func dirtyLogRule(r *core.Run, rule string) {
	for _, name := range []string{"(*DB).put", "(*DB).set", "(*DB).updateGC"} {
		fn := lsFunc(r, name)
		if fn == nil {
			continue
		}
		r.Saw(core.FuncName(fn))
		r.Eval(core.EdgeCount(fn))
		running, _ := core.AtomEdges(fn, func(base ssa.Value) (bool, bool) {
			if core.IsFieldOf(core.Forward(base), dbT, "gcRunning") {
				return true, true
			}
			return false, false
		})
		isLog := func(in ssa.Instruction) bool {
			st, ok := in.(*ssa.Store)
			return ok && core.IsFieldOf(st.Addr, dbT, "dirtyAddresses")
		}
		ok := len(running) > 0
		if ok {
			// every path from "gc is running" passes the logging store, except through the
			// zero-trip exit of a loop that logs per element
			start := edgeTargets(running)
			seen := map[*ssa.BasicBlock]bool{}
			work := append([]*ssa.BasicBlock{}, start...)
			for len(work) > 0 && ok {
				b := work[len(work)-1]
				work = work[:len(work)-1]
				if seen[b] {
					continue
				}
				seen[b] = true
				hit := false
				for _, in := range b.Instrs {
					if isLog(in) {
						hit = true
					}
				}
				if hit {
					continue
				}
				cut := false
				for _, s := range start {
					if innerLoopOver(s, b, isLog) || (s == b && loopBodyHas(b, isLog)) {
						cut = true
					}
				}
				if cut {
					continue
				}
				if _, isRet := b.Instrs[len(b.Instrs)-1].(*ssa.Return); isRet {
					ok = false
				}
				// leaving towards the batched section without having logged
				for _, in := range b.Instrs {
					if c, isCall := in.(*ssa.Call); isCall && c.Call.IsInvoke() && c.Call.Method.Name() == "NewBatch" {
						ok = false
					}
				}
				work = append(work, b.Succs...)
			}
		}
		r.Check(rule, core.Key(rule, fn, "touched addresses logged whenever gc is running"), fn.Pos(), ok,
			"while a collection run is in progress the operation logs every address it touches, unconditionally", "on some path with gcRunning set the operation reaches its batched section without appending to DB.dirtyAddresses (an extra condition on the mode or the address): the collector's re-test misses the change and collects the file from under it")
	}
}

// loopBodyHas: h is a loop header whose loop body (blocks dominated by h that reach h) holds
// an instruction satisfying pred.
func loopBodyHas(h *ssa.BasicBlock, pred func(ssa.Instruction) bool) bool {
	for _, b := range h.Parent().Blocks {
		if b == h || !h.Dominates(b) {
			continue
		}
		has := false
		for _, in := range b.Instrs {
			if pred(in) {
				has = true
			}
		}
		if has && core.ReachBlocks(b.Succs, nil)[h] {
			return true
		}
	}
	return false
}
