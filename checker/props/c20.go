package props

import (
	"fmt"
	"go/constant"
	"go/token"
	"go/types"

	"aurora-verif/checker/core"

	"golang.org/x/tools/go/ssa"
)

func init() {
	reg("C20", Meta{
		Technique:   "interval analysis over SSA with branch refinement (return-value range) + operand-shape rule (symmetric use of both inputs)",
		Explanation: "C20 (proximity), structural clauses: (I1) every value returned by boson.Proximity lies in [0,MaxPO] and by boson.ExtendedProximity in [0,ExtendedPO], for all inputs (interval analysis over all paths, constants read from the package); (Y1) both inputs are used only through len(), and element-wise XOR with the other input at the same index, in the same way — hence the result is symmetric. Not decided: that the value equals the number of leading equal bits, and agreement of DistanceCmp with big-integer comparison (value arithmetic).",
	}, c20)
}

func constInt(w *core.World, rel, name string) (int64, bool) {
	o, ok := w.Lookup(rel, name).(*types.Const)
	if !ok {
		return 0, false
	}
	return constant.Int64Val(constant.ToInt(o.Val()))
}

func c20(r *core.Run) {
	w := r.W
	for _, row := range []struct{ fn, cap string }{{"Proximity", "MaxPO"}, {"ExtendedProximity", "ExtendedPO"}} {
		fn := w.Func("pkg/boson", row.fn)
		capV, ok := constInt(w, "pkg/boson", row.cap)
		if fn == nil || !ok {
			r.Fatal("unresolved anchor pkg/boson.%s / %s", row.fn, row.cap)
			continue
		}
		r.Saw(core.FuncName(fn))
		r.Eval(core.EdgeCount(fn))
		ia := core.Intervals(fn)
		if ia.Incomplete {
			r.Fatal("interval analysis of %s did not converge", row.fn)
			continue
		}
		nret := 0
		core.EachInstr(fn, func(b *ssa.BasicBlock, _ int, in ssa.Instruction) {
			ret, ok := in.(*ssa.Return)
			if !ok || !ia.Reachable(b) {
				return
			}
			nret++
			v := ret.Results[0]
			itv := ia.ValueAt(v, ret)
			good := itv.Within(core.Itv{Lo: 0, Hi: capV})
			r.Check("C20.I1", core.Key("C20.I1", fn, "return "+describeRet(v)), ret.Pos(), good,
				fmt.Sprintf("returned order lies in [0,%s=%d]", row.cap, capV),
				fmt.Sprintf("returned value ranges over [%d,%d], beyond the cap %s=%d", itv.Lo, itv.Hi, row.cap, capV))
		})
		r.Floor("C20.I1", "return sites of "+row.fn, nret, 2)

		// Y1: symmetric operand shape
		one, other := fn.Params[0], fn.Params[1]
		symOK, why := symmetricUse(one, other)
		r.Check("C20.Y1", core.Key("C20.Y1", fn, "symmetric operands"), fn.Pos(), symOK,
			"both inputs are used only via len() and index-wise XOR with each other", why)
	}
	c20Distance(r)
	c20ScanWidth(r)
}

func describeRet(v ssa.Value) string {
	if c, ok := v.(*ssa.Const); ok {
		return "const " + c.Value.String()
	}
	return "computed"
}

// symmetricUse: every use of a and b is (i) len(x) feeding the same kind of clamp, or
// (ii) x[i] whose only use is XOR with the other's element at the same index value.
func symmetricUse(a, b *ssa.Parameter) (bool, string) {
	type shape struct{ lens, idx int }
	var sh [2]shape
	for k, p := range []*ssa.Parameter{a, b} {
		o := b
		if k == 1 {
			o = a
		}
		for _, u := range core.Uses(p) {
			switch x := u.(type) {
			case *ssa.Call:
				if _, ok := isBuiltinCall(x, "len"); ok {
					sh[k].lens++
					continue
				}
				return false, fmt.Sprintf("input %s is passed to a call", p.Name())
			case *ssa.IndexAddr:
				// the loaded element must be XORed with o[same index]
				for _, lu := range core.Uses(x) {
					ld, ok := lu.(*ssa.UnOp)
					if !ok || ld.Op != token.MUL {
						return false, fmt.Sprintf("element address of %s escapes", p.Name())
					}
					for _, xu := range core.Uses(ld) {
						bin, ok := xu.(*ssa.BinOp)
						if !ok || bin.Op != token.XOR {
							return false, fmt.Sprintf("an element of %s is used outside an XOR with the other input", p.Name())
						}
						otherOp := bin.X
						if otherOp == ssa.Value(ld) {
							otherOp = bin.Y
						}
						old, ok := otherOp.(*ssa.UnOp)
						if !ok || old.Op != token.MUL {
							return false, "XOR operand is not an element load"
						}
						oia, ok := old.X.(*ssa.IndexAddr)
						if !ok || oia.X != ssa.Value(o) || oia.Index != x.Index {
							return false, "XOR pairs elements of different inputs/indices"
						}
					}
				}
				sh[k].idx++
			case *ssa.DebugRef:
			default:
				return false, fmt.Sprintf("input %s has a use of kind %T", p.Name(), u)
			}
		}
	}
	if sh[0] != sh[1] {
		return false, fmt.Sprintf("inputs are used differently: %+v vs %+v", sh[0], sh[1])
	}
	if sh[0].idx == 0 {
		return false, "inputs are never compared element-wise"
	}
	return true, ""
}
