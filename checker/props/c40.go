package props

import (
	"go/token"

	"aurora-verif/checker/core"

	"golang.org/x/tools/go/ssa"
)

func init() {
	reg("C40", Meta{
		Technique:   "targeted SSA lint (element deletion inside an ascending index loop without index compensation) + must-follow wiring rule for the unsubscribe path",
		Explanation: "C40 (subscribers), structural clauses: (L1) in pkg/subscribe no loop `for j:=..; j<len(s); j++` deletes s[j] by `s = append(s[:j], s[j+1:]...)` and then advances j without compensating (j--), breaking or returning — otherwise the element that slid into position j is skipped and a duplicate subscription survives its unsubscribe; (F1) Subscribe sends the subscription on subInfoChan and starts a goroutine that waits on the notifier's Err() and then sends the same subscription on unsubInfoChan; (F2) process selects on both channels; (W1) copy-on-write: no element store, append onto a truncated re-slice, or copy() targets a subscriber slice that was loaded from keyToNotifier (publishers range over those slices without a lock); (F3) in Publish and PublishArray every element taken from the loaded subscriber list reaches its Notify call before the loop takes the next one or returns. Not decided: delivery order of messages, and the race between the subscribe and unsubscribe channels.",
	}, c40)
}

// deleteAtIndex recognises `append(s[:j], s[j+1:]...)`; returns j.
func deleteAtIndex(c *ssa.Call) (ssa.Value, bool) {
	if _, ok := isBuiltinCall(c, "append"); !ok || len(c.Call.Args) != 2 {
		return nil, false
	}
	a, ok1 := c.Call.Args[0].(*ssa.Slice)
	b, ok2 := c.Call.Args[1].(*ssa.Slice)
	if !ok1 || !ok2 || a.High == nil || b.Low == nil || a.Low != nil || b.High != nil {
		return nil, false
	}
	if !core.SameExpr(a.X, b.X) {
		return nil, false
	}
	add, ok := b.Low.(*ssa.BinOp)
	if !ok || add.Op != token.ADD {
		return nil, false
	}
	one := func(v ssa.Value) bool { c, ok := core.ConstInt(v); return ok && c == 1 }
	if (add.X == a.High && one(add.Y)) || (add.Y == a.High && one(add.X)) {
		return a.High, true
	}
	return nil, false
}

func isPlus(v ssa.Value, x ssa.Value, k int64) bool {
	b, ok := v.(*ssa.BinOp)
	if !ok {
		return false
	}
	if b.Op == token.ADD {
		if c, ok := core.ConstInt(b.Y); ok && c == k && b.X == x {
			return true
		}
		if c, ok := core.ConstInt(b.X); ok && c == k && b.Y == x {
			return true
		}
	}
	if b.Op == token.SUB {
		if c, ok := core.ConstInt(b.Y); ok && c == -k && b.X == x {
			return true
		}
	}
	return false
}

// skipAfterDelete reports the definite bug shape: j is a loop phi advanced by +1, and on a
// path from the deleting append to the increment j is not decremented first.
func skipAfterDelete(fn *ssa.Function, del *ssa.Call, j ssa.Value) (bool, string) {
	phi, ok := j.(*ssa.Phi)
	if !ok {
		return false, "index is not a loop variable"
	}
	header := phi.Block()
	// blocks reachable from the delete without re-entering the loop header
	avoid := core.EdgeSet{}
	for _, p := range header.Preds {
		avoid[core.Edge{From: p, To: header}] = true
	}
	fromDel := core.ReachBlocks([]*ssa.BasicBlock{del.Block()}, avoid)
	for i, p := range header.Preds {
		if !fromDel[p] {
			continue // entry edge, or a back edge the delete cannot reach (break/return)
		}
		inc := phi.Edges[i]
		b, ok := inc.(*ssa.BinOp)
		if !ok {
			continue
		}
		if isPlus(inc, ssa.Value(phi), 1) {
			return true, "the index is advanced by +1 directly after the deletion"
		}
		// inc = cur + 1 where cur merges paths
		var cur ssa.Value
		if b.Op == token.ADD {
			if c, ok := core.ConstInt(b.Y); ok && c == 1 {
				cur = b.X
			} else if c, ok := core.ConstInt(b.X); ok && c == 1 {
				cur = b.Y
			}
		}
		if cur == nil {
			continue // descending or unknown stride: deletion while descending is safe
		}
		cphi, ok := cur.(*ssa.Phi)
		if !ok {
			continue
		}
		for k, q := range cphi.Block().Preds {
			if !fromDel[q] && q != del.Block() {
				continue
			}
			u := cphi.Edges[k]
			if u == ssa.Value(phi) && (q == del.Block() || onlyFromDelete(q, del.Block(), header)) {
				return true, "on the path from the deletion the index reaches the increment unchanged"
			}
		}
	}
	return false, ""
}

// onlyFromDelete: every path into q (inside the loop body) passes the delete block.
func onlyFromDelete(q, del, header *ssa.BasicBlock) bool {
	return del.Dominates(q)
}

func c40(r *core.Run) {
	w := r.W
	nDel := 0
	for _, fn := range w.PkgFuncs("pkg/subscribe") {
		r.Saw(core.FuncName(fn))
		r.Eval(core.EdgeCount(fn))
		core.EachInstr(fn, func(_ *ssa.BasicBlock, _ int, in ssa.Instruction) {
			c, ok := in.(*ssa.Call)
			if !ok {
				return
			}
			j, ok := deleteAtIndex(c)
			if !ok {
				return
			}
			if _, isPhi := j.(*ssa.Phi); !isPhi {
				return
			}
			nDel++
			bad, why := skipAfterDelete(fn, c, j)
			r.Check("C40.L1", core.Key("C40.L1", fn, "delete-at-index in ascending loop"), c.Pos(), !bad,
				"deleting element j inside the index loop is followed by j--, break or return before the next j++",
				why+": the element that moved into the freed slot is never examined, so one unsubscribe event leaves every second duplicate subscription registered")
		})
	}
	r.Floor("C40.L1", "delete-at-loop-index sites in pkg/subscribe", nDel, 1)

	// F1: Subscribe wiring
	const T = "pkg/subscribe.subPub"
	sub := w.Func("pkg/subscribe", "(*subPub).Subscribe")
	proc := w.Func("pkg/subscribe", "(*subPub).process")
	if sub == nil || proc == nil {
		r.Fatal("unresolved anchor pkg/subscribe.(*subPub).Subscribe/process")
		return
	}
	var subSend *ssa.Send
	core.EachInstr(sub, func(_ *ssa.BasicBlock, _ int, in ssa.Instruction) {
		if s, ok := in.(*ssa.Send); ok && core.IsFieldOf(s.Chan, T, "subInfoChan") {
			subSend = s
		}
	})
	r.Check("C40.F1", core.Key("C40.F1", sub, "send on subInfoChan"), sub.Pos(), subSend != nil,
		"Subscribe hands the subscription to the processing goroutine", "Subscribe no longer sends on subInfoChan")
	wired := false
	var goPos token.Pos = sub.Pos()
	core.EachInstr(sub, func(_ *ssa.BasicBlock, _ int, in ssa.Instruction) {
		g, ok := in.(*ssa.Go)
		if !ok {
			return
		}
		mc, ok := g.Call.Value.(*ssa.MakeClosure)
		if !ok {
			return
		}
		cl := mc.Fn.(*ssa.Function)
		r.Eval(core.EdgeCount(cl))
		var recv ssa.Instruction
		var send *ssa.Send
		core.EachInstr(cl, func(_ *ssa.BasicBlock, _ int, in ssa.Instruction) {
			if u, ok := in.(*ssa.UnOp); ok && u.Op == token.ARROW {
				if c, _ := core.CallOf(u.X); c != nil && core.IsCallTo(c, "(pkg/subscribe.INotifier).Err") {
					recv = u
				}
			}
			if s, ok := in.(*ssa.Send); ok && core.IsFieldOf(s.Chan, T, "unsubInfoChan") {
				send = s
			}
		})
		if recv != nil && send != nil && core.Precedes(recv, send) {
			// the value sent is the captured subscription that was sent on subInfoChan
			if subSend != nil && sameCapturedCell(mc, cl, send.X, subSend.X) {
				wired = true
				goPos = g.Pos()
			}
		}
	})
	r.Check("C40.F1", core.Key("C40.F1", sub, "go: <-Err(); unsubInfoChan<-info"), goPos, wired,
		"Subscribe starts a goroutine that waits for the notifier's error channel and then unsubscribes the same subscription",
		"no goroutine forwards the notifier's Err() to unsubInfoChan with the subscription that was registered")

	// F2: process selects on both channels
	both := false
	core.EachInstr(proc, func(_ *ssa.BasicBlock, _ int, in ssa.Instruction) {
		sel, ok := in.(*ssa.Select)
		if !ok {
			return
		}
		a, b := false, false
		for _, st := range sel.States {
			if st.Dir == 2 /* types.RecvOnly */ {
				if core.IsFieldOf(st.Chan, T, "subInfoChan") {
					a = true
				}
				if core.IsFieldOf(st.Chan, T, "unsubInfoChan") {
					b = true
				}
			}
		}
		if a && b {
			both = true
		}
	})
	r.Eval(core.EdgeCount(proc))
	r.Check("C40.F2", core.Key("C40.F2", proc, "select on both channels"), proc.Pos(), both,
		"the processing loop serves subscriptions and unsubscriptions", "process no longer receives from both subInfoChan and unsubInfoChan")
	c40more(r)
	c40Order(r)
}

// sameCapturedCell: inside closure cl the value v is a load of a free variable bound (by
// mc) to the cell whose load is value outer in the enclosing function.
func sameCapturedCell(mc *ssa.MakeClosure, cl *ssa.Function, v, outer ssa.Value) bool {
	p, ok := core.LoadedFrom(v)
	if !ok {
		return false
	}
	fv, ok := p.(*ssa.FreeVar)
	if !ok {
		return false
	}
	idx := -1
	for i, f := range cl.FreeVars {
		if f == fv {
			idx = i
		}
	}
	if idx < 0 {
		return false
	}
	cell := mc.Bindings[idx]
	op, ok := core.LoadedFrom(outer)
	return ok && op == cell
}
