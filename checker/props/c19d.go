package props

import (
	"strings"

	"aurora-verif/checker/core"

	"golang.org/x/tools/go/ssa"
)

// c19MustStage (F3): "batched writes take effect … entirely on commit" — a *InBatch method
// of a shed field / vector / index stages its write on every path that does not fail.
// Each Return of such a method is either preceded on every path by a staging call (Put /
// Delete on the batch parameter, or another shed *InBatch method handed the batch
// parameter), or lies only behind an edge on which some call's error is non-nil. A method
// that decides from the *current* stored value to skip the staging (the value may change
// between staging and commit) has a Return that is neither.
func c19MustStage(r *core.Run, funcs []*ssa.Function) {
	const rule = "C19.F3"
	n := 0
	for _, fn := range funcs {
		if fn.Signature.Recv() == nil || fn.Parent() != nil || !strings.HasSuffix(fn.Name(), "InBatch") {
			continue
		}
		switch core.TypeName(fn.Signature.Recv().Type()) {
		case "pkg/shed.Index", "pkg/shed.Uint64Field", "pkg/shed.Uint64Vector", "pkg/shed.StringField", "pkg/shed.StructField":
		default:
			continue
		}
		var batch *ssa.Parameter
		for _, p := range fn.Params {
			if core.TypeName(p.Type()) == "pkg/shed/driver.Batching" {
				batch = p
			}
		}
		if batch == nil {
			continue
		}
		n++
		var stagings []ssa.Instruction
		core.EachInstr(fn, func(_ *ssa.BasicBlock, _ int, in ssa.Instruction) {
			c, ok := in.(*ssa.Call)
			if !ok {
				return
			}
			if c.Call.IsInvoke() {
				if c.Call.Value == ssa.Value(batch) && (c.Call.Method.Name() == "Put" || c.Call.Method.Name() == "Delete") {
					stagings = append(stagings, in)
				}
				return
			}
			if sc := c.Call.StaticCallee(); sc != nil && sc.Pkg == fn.Pkg && strings.HasSuffix(sc.Name(), "InBatch") {
				for _, a := range c.Call.Args {
					if a == ssa.Value(batch) {
						stagings = append(stagings, in)
					}
				}
			}
		})
		_, errNonNil := core.AtomEdges(fn, core.ErrNilAtom(func(*ssa.Call) bool { return true }))
		core.EachInstr(fn, func(b *ssa.BasicBlock, _ int, in ssa.Instruction) {
			ret, ok := in.(*ssa.Return)
			if !ok || b == fn.Recover {
				return
			}
			staged := false
			for _, s := range stagings {
				if core.Precedes(s, ret) {
					staged = true
				}
			}
			failing := len(errNonNil) > 0 && core.OnlyBehind(fn, ret, errNonNil)
			r.Check(rule, core.Key(rule, fn, "every non-failing return has staged the write"), ret.Pos(), staged || failing,
				"a batched method stages its write on every path that does not fail", core.FuncName(fn)+" can return without an error and without having staged anything on its batch: whether the write takes effect at commit depends on the state at staging time")
		})
	}
	r.Floor(rule, "*InBatch methods with a batch parameter", n, 9)
}
