package props

import (
	"fmt"

	"aurora-verif/checker/core"

	"golang.org/x/tools/go/ssa"
)

func init() {
	reg("C04", Meta{
		Technique:   "interval analysis of len(payload) at the accepting return and at the constructor hand-offs (exact window from the package constants) + provenance of the compared hash + call-order rule in the hashing closure",
		Explanation: "C04 (content-addressed validity), structural clauses: (I1) cac.Valid can return a non-constant verdict only where len(payload) is exactly within [SpanSize, ChunkSize+SpanSize] = [8, 262152] (a wider or a narrower window both fail), every other return is the constant false; (P1) that verdict is bytes.Equal(BMT hash of payload[8:] under header payload[:8], the chunk's address); (O1) the hashing closure sets the span header, writes the data and takes the hash, in that order, on one pooled hasher; (I2) cac.New hands data of length [1, ChunkSize] with a little-endian length span to the constructor, NewWithDataSpan payloads of length [SpanSize, ChunkSize+SpanSize]. Not decided: that flipping a byte changes the hash (cryptographic), the BMT value itself (C03).",
	}, c04)
}

func mustConst(r *core.Run, rel, name string) int64 {
	v, ok := constInt(r.W, rel, name)
	if !ok {
		r.Fatal("unresolved constant %s.%s", rel, name)
	}
	return v
}

func c04(r *core.Run) {
	cacRules(r, "C04.")
	poolTypestate(r, "C04.T1", "pkg/cac", 1)
}

// cacRules: the content-addressed validator, reported under the given rule prefix (C04, and
// C06 which relies on cac.Valid as the retrieval-side validator).
func cacRules(r *core.Run, pfx string) {
	w := r.W
	span := mustConst(r, "pkg/boson", "SpanSize")
	chunk := mustConst(r, "pkg/boson", "ChunkSize")
	fn := w.Func("pkg/cac", "Valid")
	if fn == nil {
		r.Fatal("unresolved anchor pkg/cac.Valid")
		return
	}
	r.Saw(core.FuncName(fn))
	r.Eval(core.EdgeCount(fn))
	ia := core.Intervals(fn)
	// the payload value: result of c.Data()
	var data ssa.Value
	for _, c := range core.Calls(fn, "(pkg/boson.Chunk).Data") {
		data = c.(*ssa.Call)
	}
	if data == nil {
		r.Fatal("pkg/cac.Valid no longer reads c.Data()")
		return
	}
	nNonConst := 0
	core.EachInstr(fn, func(_ *ssa.BasicBlock, _ int, in ssa.Instruction) {
		ret, ok := in.(*ssa.Return)
		if !ok {
			return
		}
		v := ret.Results[0]
		if b, isC := core.ConstBool(v); isC {
			r.Check(pfx+"I1", core.Key(pfx+"I1", fn, "constant return"), ret.Pos(), !b,
				"a constant verdict is false", "Valid returns the constant true")
			// "valid exactly when": the only outright refusals are the two length bounds —
			// at a constant-false return the payload length lies outside the window
			lf := ia.LenAt(data, ret)
			r.Check(pfx+"I3", lsKey(pfx+"I3", fn, "outright refusal only outside the length window"), ret.Pos(), !b && (lf.Hi < span || lf.Lo > chunk+span),
				"a payload is refused without hashing only when its length is outside [SpanSize, ChunkSize+SpanSize]", fmt.Sprintf("Valid returns false for a payload whose length may lie inside the window (at this return len(payload) ranges over [%d,%s]): a correctly addressed chunk (e.g. one whose span is smaller than its data length) is declared invalid", lf.Lo, fmtBound(lf.Hi)))
			return
		}
		nNonConst++
		li := ia.LenAt(data, ret)
		want := core.Itv{Lo: span, Hi: chunk + span}
		r.Check(pfx+"I1", core.Key(pfx+"I1", fn, "length window at accepting return"), ret.Pos(), li == want,
			fmt.Sprintf("a chunk can be accepted exactly when SpanSize <= len(payload) <= ChunkSize+SpanSize, i.e. [%d,%d]", want.Lo, want.Hi),
			fmt.Sprintf("at the accepting return len(payload) ranges over [%d,%s] instead of [%d,%d]", li.Lo, fmtBound(li.Hi), want.Lo, want.Hi))
		// P1
		c, _ := core.CallOf(v)
		ok2 := false
		why := "the verdict is not a bytes.Equal"
		if c != nil && core.IsCallTo(c, "bytes.Equal") {
			a, b := c.Call.Args[0], c.Call.Args[1]
			isAddr := func(x ssa.Value) bool {
				return core.DerivesFrom(x, func(y ssa.Value) bool {
					cc, _ := core.CallOf(y)
					return cc != nil && core.IsCallTo(cc, "(pkg/boson.Chunk).Address") && cc.Call.Value == ssa.Value(fn.Params[0])
				}, map[string]bool{"(pkg/boson.Address).Bytes": true})
			}
			isHash := func(x ssa.Value) bool {
				hc, idx := core.CallOf(x)
				if hc == nil || idx != 0 {
					return false
				}
				// hc calls the closure returned by hasher(data[span:]) with data[:span]
				mk, _ := core.CallOf(hc.Call.Value)
				if mk == nil || !core.IsCallTo(mk, "pkg/cac.hasher") {
					return false
				}
				body, okb := mk.Call.Args[0].(*ssa.Slice)
				hdr, okh := hc.Call.Args[0].(*ssa.Slice)
				if !okb || !okh || core.Strip(body.X) != data || core.Strip(hdr.X) != data {
					return false
				}
				lo, ok1 := core.ConstInt(body.Low)
				hi, ok2 := core.ConstInt(hdr.High)
				return ok1 && ok2 && lo == span && hi == span && body.High == nil && hdr.Low == nil
			}
			if (isHash(a) && isAddr(b)) || (isHash(b) && isAddr(a)) {
				ok2 = true
			} else {
				why = "bytes.Equal does not compare hasher(payload[SpanSize:])(payload[:SpanSize]) with c.Address().Bytes()"
			}
		}
		r.Check(pfx+"P1", core.Key(pfx+"P1", fn, "verdict = hash compare"), ret.Pos(), ok2,
			"the verdict is the comparison of the BMT hash of the payload with the chunk's own address", why)
	})
	r.Floor(pfx+"I1", "accepting returns of cac.Valid", nNonConst, 1)

	// O1: hashing closure order
	var hcl *ssa.Function
	if h := w.Func("pkg/cac", "hasher"); h != nil && len(h.AnonFuncs) == 1 {
		hcl = h.AnonFuncs[0]
	}
	if hcl == nil {
		r.Fatal("unresolved anchor: the closure returned by pkg/cac.hasher")
	} else {
		r.Saw(core.FuncName(hcl))
		r.Eval(core.EdgeCount(hcl))
		sh := core.Calls(hcl, "(*pkg/bmt.Hasher).SetHeader")
		wr := core.Calls(hcl, "(*pkg/bmt.Hasher).Write")
		hs := core.Calls(hcl, "(*pkg/bmt.Hasher).Hash")
		ok := len(sh) == 1 && len(wr) == 1 && len(hs) == 1
		if ok {
			ok = core.Precedes(sh[0], wr[0]) && core.Precedes(wr[0], hs[0])
			// same hasher, from the pool; header = closure param, data = captured
			g := core.Calls(hcl, "pkg/bmtpool.Get")
			ok = ok && len(g) == 1
			if ok {
				hv := ssa.Value(g[0].(*ssa.Call))
				for _, c := range []ssa.Instruction{sh[0], wr[0], hs[0]} {
					if core.Common(c).Args[0] != hv {
						ok = false
					}
				}
				if core.Common(sh[0]).Args[1] != ssa.Value(hcl.Params[0]) {
					ok = false
				}
				if p, isLoad := core.LoadedFrom(core.Common(wr[0]).Args[1]); !isLoad {
					ok = false
				} else if _, isFV := p.(*ssa.FreeVar); !isFV {
					ok = false
				}
			}
		}
		r.Check(pfx+"O1", core.Key(pfx+"O1", hcl, "SetHeader<Write<Hash"), hcl.Pos(), ok,
			"the span header is set, then the data written, then the hash taken, on one pooled hasher", "the hashing closure no longer does SetHeader(span); Write(data); Hash() in order on the pooled hasher")
	}

	// I2 constructors
	for _, row := range []struct {
		fn     string
		lo, hi int64
	}{{"New", 1, chunk}, {"NewWithDataSpan", span, chunk + span}} {
		f := w.Func("pkg/cac", row.fn)
		if f == nil {
			r.Fatal("unresolved anchor pkg/cac.%s", row.fn)
			continue
		}
		r.Saw(core.FuncName(f))
		r.Eval(core.EdgeCount(f))
		fia := core.Intervals(f)
		calls := core.Calls(f, "pkg/cac.newWithSpan")
		r.Floor(pfx+"I2", "newWithSpan calls in "+row.fn, len(calls), 1)
		for _, c := range calls {
			li := fia.LenAt(f.Params[0], c)
			want := core.Itv{Lo: row.lo, Hi: row.hi}
			r.Check(pfx+"I2", core.Key(pfx+"I2", f, "input length window"), c.Pos(), li == want,
				fmt.Sprintf("the constructor is reached exactly for input lengths [%d,%d]", want.Lo, want.Hi),
				fmt.Sprintf("input length ranges over [%d,%s] at the constructor call, expected [%d,%d]", li.Lo, fmtBound(li.Hi), want.Lo, want.Hi))
		}
		if row.fn == "New" {
			puts := core.Calls(f, "(encoding/binary.littleEndian).PutUint64")
			ok := len(puts) == 1
			if ok {
				v := core.Common(puts[0]).Args[2]
				ok = core.DerivesFrom(v, func(y ssa.Value) bool {
					c, isLen := isBuiltinCall(y, "len")
					return isLen && c.Call.Args[0] == ssa.Value(f.Params[0])
				}, nil)
			}
			r.Check(pfx+"I2", core.Key(pfx+"I2", f, "span = LE len(data)"), f.Pos(), ok,
				"the span written by New is the little-endian data length", "New does not write len(data) as a little-endian uint64 span")
		}
	}
}
