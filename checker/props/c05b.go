package props

import (
	"aurora-verif/checker/core"

	"golang.org/x/tools/go/ssa"
)

// socFreshSerialisation (W2): what pkg/soc builds (the chunk bytes id|signature|payload, the
// digest inputs) is built in storage of its own. No append in the package starts from a
// SOC field or a parameter: `append(s.id, …)` writes into the caller's backing array when
// the id slice has spare capacity (an id cut out of a larger buffer) and the returned chunk
// aliases it — a second SOC serialised over the same buffer rewrites the first one's bytes,
// which then no longer parse back to the same id / owner / wrapped chunk.
func socFreshSerialisation(r *core.Run, rule string) {
	funcs := r.W.PkgFuncs("pkg/soc")
	nf, na := 0, 0
	done := map[*ssa.Function]bool{}
	var fresh func(v ssa.Value, d int) bool
	fresh = func(v ssa.Value, d int) bool {
		if d > 8 {
			return false
		}
		switch x := core.Forward(v).(type) {
		case *ssa.Const:
			return true // nil
		case *ssa.MakeSlice:
			return true
		case *ssa.Convert:
			return true // []byte("…") copies
		case *ssa.Slice:
			if x.Max != nil && x.High != nil && core.SameExpr(x.Max, x.High) {
				return true // clipped: append must reallocate
			}
			if a, ok := x.X.(*ssa.Alloc); ok {
				_ = a
				return true // local array
			}
			return fresh(x.X, d+1)
		case *ssa.Call:
			if _, isApp := isBuiltinCall(x, "append"); isApp {
				return fresh(x.Call.Args[0], d+1)
			}
			return false
		case *ssa.Phi:
			for _, e := range x.Edges {
				if e != ssa.Value(x) && !fresh(e, d+1) {
					return false
				}
			}
			return true
		}
		return false
	}
	for _, top := range funcs {
		for _, fn := range core.WithClosures(top) {
			if done[fn] {
				continue
			}
			done[fn] = true
			nf++
			core.EachInstr(fn, func(_ *ssa.BasicBlock, _ int, in ssa.Instruction) {
				c, ok := in.(*ssa.Call)
				if !ok {
					return
				}
				if _, isApp := isBuiltinCall(c, "append"); !isApp {
					return
				}
				na++
				r.Saw(core.FuncName(fn))
				r.Check(rule, lsKey(rule, fn, "append starts from fresh storage"), c.Pos(), fresh(c.Call.Args[0], 0),
					"bytes are appended only to storage the function made itself", core.FuncName(fn)+" appends onto a slice it was given (a SOC field or a parameter): with spare capacity the caller's backing array is written and the result aliases it; a later serialisation over the same buffer changes an earlier chunk's bytes")
			})
		}
	}
	// expected count of violating appends is zero; the positive example is the control
	// mutant `toBytes: append(s.id, …)` of the thorough tier
	r.Floor(rule, "functions of pkg/soc scanned for appends onto shared storage", nf, 10)
	_ = na
}
