package props

import (
	"go/token"

	"aurora-verif/checker/core"

	"golang.org/x/tools/go/ssa"
)

// c19ReverseBound (Y2): reverse iteration under a prefix, when the index's last key does not
// carry the prefix, seeks to the SHORTEST key that sorts above every key with the prefix and
// steps back once. That key is the prefix cut after its last non-0xFF byte with that byte
// incremented; a same-length increment (carry into lower bytes, e.g. 01 FF -> 02 00) sorts
// above shorter foreign keys (02), and the step back then lands outside the prefix. The rule
// resolves the function whose result reaches Seek on that path and requires each of its
// non-nil returns to be the re-slice b[:i+1] ending at the byte it just incremented.
func c19ReverseBound(r *core.Run) {
	fn := r.W.Func("pkg/shed", "(Index).Iterate")
	if fn == nil {
		r.Fatal("unresolved anchor pkg/shed.(Index).Iterate")
		return
	}
	r.Saw(core.FuncName(fn))
	var bound *ssa.Function
	var at ssa.Instruction
	core.EachInstr(fn, func(_ *ssa.BasicBlock, _ int, in ssa.Instruction) {
		c, ok := in.(*ssa.Call)
		if !ok || !c.Call.IsInvoke() || c.Call.Method.Name() != "Seek" {
			return
		}
		// the key's Data field value
		core.DerivesFrom(c.Call.Args[0], func(v ssa.Value) bool {
			if cc, ok := v.(*ssa.Call); ok {
				if callee := cc.Call.StaticCallee(); callee != nil && callee.Pkg != nil && callee.Pkg.Pkg.Path() == core.P("pkg/shed") && len(callee.Params) == 1 && isByteSlice(callee.Params[0].Type()) {
					bound, at = callee, c
				}
			}
			return false
		}, nil)
		if bound == nil {
			// the key is a struct literal spilled to a cell: look at stores of its Data field
			if al, ok := core.Strip(c.Call.Args[0]).(*ssa.Alloc); ok {
				_ = al
			}
		}
	})
	if bound == nil {
		// fall back: any call in Iterate to a pkg/shed []byte->[]byte helper whose result is stored into a driver.Key's Data
		core.EachInstr(fn, func(_ *ssa.BasicBlock, _ int, in ssa.Instruction) {
			st, ok := in.(*ssa.Store)
			if !ok {
				return
			}
			fa, ok := st.Addr.(*ssa.FieldAddr)
			if !ok || structFieldIndex(fa.X.Type(), "Data") != fa.Field {
				return
			}
			if cc, ok := st.Val.(*ssa.Call); ok {
				if callee := cc.Call.StaticCallee(); callee != nil && callee.Pkg != nil && callee.Pkg.Pkg.Path() == core.P("pkg/shed") && len(callee.Params) == 1 && isByteSlice(callee.Params[0].Type()) {
					bound, at = callee, cc
				}
			}
		})
	}
	if bound == nil {
		r.Check("C19.Y2", core.Key("C19.Y2", fn, "reverse-prefix seek bound identified"), fn.Pos(), false, "", "the function computing the reverse-prefix seek target in Index.Iterate could not be identified: undecided")
		return
	}
	r.Saw(core.FuncName(bound))
	r.Eval(core.EdgeCount(bound))
	n := 0
	okAll := true
	why := ""
	core.EachInstr(bound, func(_ *ssa.BasicBlock, _ int, in ssa.Instruction) {
		ret, ok := in.(*ssa.Return)
		if !ok || len(ret.Results) != 1 || core.IsNilConst(core.Forward(ret.Results[0])) {
			return
		}
		n++
		sl, ok := core.Forward(ret.Results[0]).(*ssa.Slice)
		if !ok || sl.Low != nil || sl.High == nil {
			okAll, why = false, "a non-nil result is not a re-slice b[:i+1] (the bound keeps its full length)"
			return
		}
		hi, ok := sl.High.(*ssa.BinOp)
		if !ok || hi.Op != token.ADD {
			okAll, why = false, "the result is not cut right after the incremented byte"
			return
		}
		if k, isC := core.ConstInt(hi.Y); !isC || k != 1 {
			okAll, why = false, "the result is not cut right after the incremented byte"
			return
		}
		idx := hi.X
		// an increment store b[idx] = b[idx] + 1 precedes the return
		inc := false
		core.EachInstr(bound, func(_ *ssa.BasicBlock, _ int, i2 ssa.Instruction) {
			st, ok := i2.(*ssa.Store)
			if !ok {
				return
			}
			dst, ok := st.Addr.(*ssa.IndexAddr)
			if !ok || dst.Index != idx || !(dst.X == sl.X || core.SameExpr(dst.X, sl.X)) {
				return
			}
			if add, ok := st.Val.(*ssa.BinOp); ok && add.Op == token.ADD {
				if k, isC := core.ConstInt(add.Y); isC && k == 1 && core.Precedes(st, ret) {
					inc = true
				}
			}
		})
		if !inc {
			okAll, why = false, "the byte at the cut position is not the one that was incremented"
		}
	})
	pos := bound.Pos()
	if at != nil {
		pos = at.Pos()
	}
	r.Check("C19.Y2", core.Key("C19.Y2", fn, "reverse-prefix seek target = prefix cut after its incremented last non-0xFF byte"), pos, n > 0 && okAll,
		"the seek target of reverse prefix iteration is the shortest key above the prefix (increment one byte, cut after it)", core.FuncName(bound)+" computes the seek target but "+why+": a shorter foreign key can sort between the prefix's keys and the target, the step back lands on it and reverse iteration under the prefix yields nothing")
}
