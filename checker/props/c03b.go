package props

import (
	"go/token"

	"aurora-verif/checker/core"

	"golang.org/x/tools/go/ssa"
)

// c03More: shape clauses of the BMT definition "hash = keccak256(span || root)", "a node is
// keccak256(left || right)", "a section is the 2·segment bytes at its index".
func c03More(r *core.Run) {
	w := r.W
	const H = "pkg/bmt.Hasher"
	// H5 doHash: Reset, then Write every element in order, then Sum(nil)
	if fn := w.Func("pkg/bmt", "doHash"); fn == nil {
		r.Fatal("unresolved anchor pkg/bmt.doHash")
	} else {
		r.Saw(core.FuncName(fn))
		r.Eval(core.EdgeCount(fn))
		var reset, write, sum *ssa.Call
		core.EachInstr(fn, func(_ *ssa.BasicBlock, _ int, in ssa.Instruction) {
			c, ok := in.(*ssa.Call)
			if !ok || !c.Call.IsInvoke() || c.Call.Value != ssa.Value(fn.Params[0]) {
				return
			}
			switch c.Call.Method.Name() {
			case "Reset":
				reset = c
			case "Write":
				write = c
			case "Sum":
				sum = c
			}
		})
		ok := reset != nil && write != nil && sum != nil && core.Precedes(reset, write) && core.Precedes(reset, sum)
		if ok {
			// the element written is data[rangeindex] of the variadic parameter, in a loop from 0
			ok = false
			if ld, isLd := write.Call.Args[0].(*ssa.UnOp); isLd {
				if ia, isIA := ld.X.(*ssa.IndexAddr); isIA && ia.X == ssa.Value(fn.Params[1]) {
					ok = variesWithLoop(fn, ia.Index, loopHeader(fn, write.Block()))
				}
			}
			// Sum(nil) is what is returned, after the loop
			okRet := false
			core.EachInstr(fn, func(_ *ssa.BasicBlock, _ int, in ssa.Instruction) {
				if ret, isRet := in.(*ssa.Return); isRet && ret.Results[0] == ssa.Value(sum) && core.IsNilConst(sum.Call.Args[0]) {
					okRet = true
				}
			})
			ok = ok && okRet
		}
		r.Check("C03.H5", core.Key("C03.H5", fn, "Reset; Write(each part, in order); Sum(nil)"), fn.Pos(), ok,
			"a node hash is the hash function applied to the concatenation of the parts in argument order, starting from a reset state", "doHash does not reset the hasher, write every part in order and return Sum(nil)")
	}
	// H1 Hash: result = sha3hash(h.span, X), X = zerohashes[depth] only when size == 0, else the received root
	if fn := w.Func("pkg/bmt", "(*Hasher).Hash"); fn == nil {
		r.Fatal("unresolved anchor pkg/bmt.(*Hasher).Hash")
	} else {
		r.Saw(core.FuncName(fn))
		r.Eval(core.EdgeCount(fn))
		empty, _ := core.AtomEdges(fn, cmpAtom(func(v ssa.Value) bool { return core.IsFieldOf(v, H, "size") }, func(y ssa.Value) bool { k, ok := core.ConstInt(y); return ok && k == 0 }, "=="))
		n := 0
		core.EachInstr(fn, func(_ *ssa.BasicBlock, _ int, in ssa.Instruction) {
			ret, ok := in.(*ssa.Return)
			if !ok || core.IsNilConst(ret.Results[0]) {
				return
			}
			n++
			c, idx := core.CallOf(ret.Results[0])
			okShape := false
			why := "the returned hash is not sha3hash(h.span, root)"
			if c != nil && idx == 0 && core.IsCallTo(c, "pkg/bmt.sha3hash") {
				el := variadicElems(c.Call.Args[0])
				if len(el) == 2 && core.IsFieldOf(core.Forward(el[0]), H, "span") {
					root := el[1]
					if ex, isEx := root.(*ssa.Extract); isEx {
						if _, isSel := ex.Tuple.(*ssa.Select); isSel {
							okShape = true // received from the result channel
						}
					} else if ld, isLd := root.(*ssa.UnOp); isLd {
						if ia, isIA := ld.X.(*ssa.IndexAddr); isIA && core.IsFieldOf(core.Forward(ia.X), "pkg/bmt.Conf", "zerohashes") && core.IsFieldOf(core.Forward(ia.Index), "pkg/bmt.Conf", "depth") {
							okShape = len(empty) > 0 && core.OnlyBehind(fn, ret, empty)
							why = "the all-zero tree root is used although data was written"
						}
					}
				}
			}
			r.Check("C03.H1", core.Key("C03.H1", fn, "hash = keccak(span || root)"), ret.Pos(), okShape,
				"the chunk hash is sha3hash(h.span, root) with root the computed BMT root (the precomputed zero-tree root only for empty data)", why)
		})
		r.Floor("C03.H1", "hash-returning exits of Hasher.Hash", n, 2)
	}
	// H2 processSection: section i = buffer[i*secsize : i*secsize+secsize], secsize = 2*segmentSize, leaf = leaves[i]
	if fn := w.Func("pkg/bmt", "(*Hasher).processSection"); fn == nil {
		r.Fatal("unresolved anchor pkg/bmt.(*Hasher).processSection")
	} else {
		r.Saw(core.FuncName(fn))
		r.Eval(core.EdgeCount(fn))
		i := fn.Params[1]
		isSec := func(v ssa.Value) bool {
			m, ok := v.(*ssa.BinOp)
			if !ok || m.Op != token.MUL {
				return false
			}
			k, isC := core.ConstInt(m.X)
			if isC && k == 2 {
				return core.IsFieldOf(core.Forward(m.Y), "pkg/bmt.Conf", "segmentSize")
			}
			k, isC = core.ConstInt(m.Y)
			return isC && k == 2 && core.IsFieldOf(core.Forward(m.X), "pkg/bmt.Conf", "segmentSize")
		}
		isOff := func(v ssa.Value) bool {
			m, ok := v.(*ssa.BinOp)
			return ok && m.Op == token.MUL && ((m.X == ssa.Value(i) && isSec(m.Y)) || (m.Y == ssa.Value(i) && isSec(m.X)))
		}
		okSlice, okLeaf := false, false
		for _, c := range core.Calls(fn, "pkg/bmt.doHash") {
			for _, e := range variadicElems(core.Common(c).Args[1]) {
				if s, ok := e.(*ssa.Slice); ok && core.IsFieldOf(core.Forward(s.X), "pkg/bmt.tree", "buffer") && isOff(s.Low) {
					if add, ok := s.High.(*ssa.BinOp); ok && add.Op == token.ADD && ((isOff(add.X) && isSec(add.Y)) || (isOff(add.Y) && isSec(add.X))) {
						okSlice = true
					}
				}
			}
		}
		core.EachInstr(fn, func(_ *ssa.BasicBlock, _ int, in ssa.Instruction) {
			if ia, ok := in.(*ssa.IndexAddr); ok && core.IsFieldOf(core.Forward(ia.X), "pkg/bmt.tree", "leaves") && ia.Index == ssa.Value(i) {
				okLeaf = true
			}
		})
		r.Check("C03.H2", core.Key("C03.H2", fn, "section i = buffer[i*2s : i*2s+2s], leaf i"), fn.Pos(), okSlice && okLeaf,
			"section i is the 2·segmentSize bytes at offset i·2·segmentSize, hashed into leaf i's parent", "processSection does not hash buffer[i*secsize : i*secsize+secsize] (secsize = 2*segmentSize) for leaves[i]")
		// final flag routes to writeFinalNode starting at level 1, otherwise writeNode
		final := fn.Params[2]
		fin, notFin := core.AtomEdges(fn, func(base ssa.Value) (bool, bool) {
			if base == ssa.Value(final) {
				return true, true
			}
			return false, false
		})
		okRoute := true
		for _, c := range core.Calls(fn, "(*pkg/bmt.Hasher).writeFinalNode") {
			lv, isC := core.ConstInt(core.Common(c).Args[1])
			if !(len(fin) > 0 && core.OnlyBehind(fn, c, fin) && isC && lv == 1) {
				okRoute = false
			}
		}
		for _, c := range core.Calls(fn, "(*pkg/bmt.Hasher).writeNode") {
			if !(len(notFin) > 0 && core.OnlyBehind(fn, c, notFin)) {
				okRoute = false
			}
		}
		r.Check("C03.H2", core.Key("C03.H2", fn, "final section takes the zero-filling path from level 1"), fn.Pos(), okRoute && len(core.Calls(fn, "(*pkg/bmt.Hasher).writeFinalNode")) > 0,
			"only the last section is pushed with writeFinalNode (level 1), all others with writeNode", "the final / non-final routing of processSection changed (or the zero-subtree level does not start at 1)")
	}
	// H3/H4 parent hash = doHash(n.hasher, n.left, n.right) in that order, in both writers
	for _, name := range []string{"(*Hasher).writeNode", "(*Hasher).writeFinalNode"} {
		fn := w.Func("pkg/bmt", name)
		if fn == nil {
			r.Fatal("unresolved anchor pkg/bmt.%s", name)
			continue
		}
		r.Saw(core.FuncName(fn))
		calls := core.Calls(fn, "pkg/bmt.doHash")
		r.Floor("C03.H3", "node hashes in "+name, len(calls), 1)
		for _, c := range calls {
			el := variadicElems(core.Common(c).Args[1])
			ok := len(el) == 2 && core.IsFieldOf(core.Forward(el[0]), "pkg/bmt.node", "left") && core.IsFieldOf(core.Forward(el[1]), "pkg/bmt.node", "right") &&
				core.IsFieldOf(core.Forward(core.Common(c).Args[0]), "pkg/bmt.node", "hasher")
			r.Check("C03.H3", core.Key("C03.H3", fn, "node = hash(left || right)"), c.Pos(), ok,
				"an inner node is the hash of its left child followed by its right child, with the node's own hasher", "the node hash is not doHash(n.hasher, n.left, n.right)")
		}
	}
	// H4 zero fill in writeFinalNode: n.right = zerohashes[level] only on the isLeft branch, level +1 per iteration
	if fn := w.Func("pkg/bmt", "(*Hasher).writeFinalNode"); fn != nil {
		r.Eval(core.EdgeCount(fn))
		isLeftPhi := func(v ssa.Value) bool {
			if v == ssa.Value(fn.Params[3]) {
				return true
			}
			phi, ok := v.(*ssa.Phi)
			if !ok {
				return false
			}
			for _, e := range phi.Edges {
				if e == ssa.Value(fn.Params[3]) {
					return true
				}
			}
			return false
		}
		left, _ := core.AtomEdges(fn, func(base ssa.Value) (bool, bool) {
			if isLeftPhi(base) {
				return true, true
			}
			return false, false
		})
		n := 0
		for _, st := range fieldStores(fn, "pkg/bmt.node", "right") {
			ld, ok := st.Val.(*ssa.UnOp)
			if !ok {
				continue
			}
			ia, ok := ld.X.(*ssa.IndexAddr)
			if !ok || !core.IsFieldOf(core.Forward(ia.X), "pkg/bmt.Conf", "zerohashes") {
				continue
			}
			n++
			// index is the level variable: phi(level param, level+1)
			okLevel := false
			if phi, ok := ia.Index.(*ssa.Phi); ok {
				hasParam, hasInc := false, false
				for _, e := range phi.Edges {
					if e == ssa.Value(fn.Params[1]) {
						hasParam = true
					}
					if add, ok := e.(*ssa.BinOp); ok && add.Op == token.ADD && add.X == ssa.Value(phi) {
						if k, isC := core.ConstInt(add.Y); isC && k == 1 {
							hasInc = true
						}
					}
				}
				okLevel = hasParam && hasInc
			}
			r.Check("C03.H4", core.Key("C03.H4", fn, "missing right sister = zero subtree of this level"), st.Pos(), okLevel && len(left) > 0 && core.OnlyBehind(fn, st, left),
				"when the final path comes up a left branch the right sister is the precomputed all-zero subtree hash of the current level, and the level grows by one per step", "the zero-subtree fill is not zerohashes[level] on the left branch with level advancing by one per iteration")
		}
		r.Floor("C03.H4", "zero-subtree fills in writeFinalNode", n, 1)
	}
}
