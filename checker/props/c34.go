package props

import (
	"aurora-verif/checker/core"

	"golang.org/x/tools/go/ssa"
)

func init() {
	reg("C34", Meta{
		Technique:   "must-guard reachability on SSA (record only behind recovered-overlay == claimed overlay), provenance of the four signed inputs, signer/verifier digest agreement, callers store/return only verified records",
		Explanation: "C34 (authenticated peer address records), structural clauses: (G1) aurora.ParseAddress returns a non-nil record only behind successful key recovery, overlay derivation and bytes.Equal(recovered overlay, claimed overlay); (P1) the digest given to crypto.Recover is generateSignData(underlay, overlay, networkID) of exactly the three parameters with the signature parameter as first argument, the overlay is derived from the recovered key and the same networkID, and generateSignData lets all three inputs reach its result; (W1) generateSignData assembles its result in call-private memory (no append into a slice held in a package-level variable, whose shared backing array would let concurrent verifications hash each other's bytes); (A1) NewAddress signs generateSignData(underlay bytes, overlay bytes, networkID) — the same function; (G2) handshake.parseCheckAck, routetab.saveUnderlay and routetab.FindUnderlay store into the address book / return only the record ParseAddress produced, behind err==nil, with the service's network id. Not decided: ECDSA recovery and overlay hashing themselves.",
		Assumptions: []string{"crypto.Recover returns the key that signed the digest", "crypto.NewOverlayAddress is injective in (key, networkID) up to hash collisions"},
	}, c34)
}

func c34(r *core.Run) {
	recoverOnCurve(r, "C34.G3", "Recover")
	w := r.W
	parse := w.Func("pkg/aurora", "ParseAddress")
	newA := w.Func("pkg/aurora", "NewAddress")
	gsd := w.Func("pkg/aurora", "generateSignData")
	if parse == nil || newA == nil || gsd == nil {
		r.Fatal("unresolved anchor pkg/aurora ParseAddress/NewAddress/generateSignData")
		return
	}
	for _, f := range []*ssa.Function{parse, newA, gsd} {
		r.Saw(core.FuncName(f))
		r.Eval(core.EdgeCount(f))
	}
	under, over, sig, nid := parse.Params[0], parse.Params[1], parse.Params[2], parse.Params[3]
	const recover = "pkg/crypto.Recover"
	const newOverlay = "pkg/crypto.NewOverlayAddress"
	const gsdName = "pkg/aurora.generateSignData"
	recs := core.Calls(parse, recover)
	r.Floor("C34.P1", "crypto.Recover calls in ParseAddress", len(recs), 1)
	var rec *ssa.Call
	okRec := false
	for _, c := range recs {
		rec = c.(*ssa.Call)
		a := rec.Call.Args
		g, _ := core.CallOf(a[1])
		okRec = a[0] == ssa.Value(sig) && g != nil && core.IsCallTo(g, gsdName) &&
			g.Call.Args[0] == ssa.Value(under) && g.Call.Args[1] == ssa.Value(over) && g.Call.Args[2] == ssa.Value(nid)
	}
	r.Check("C34.P1", core.Key("C34.P1", parse, "Recover(signature, generateSignData(underlay, overlay, networkID))"), parse.Pos(), okRec,
		"the key is recovered from the record's signature over (underlay, overlay, networkID)", "crypto.Recover is not called with (signature, generateSignData(underlay, overlay, networkID))")
	var ov *ssa.Call
	okOv := false
	for _, c := range core.Calls(parse, newOverlay) {
		ov = c.(*ssa.Call)
		p, isLoad := core.LoadedFrom(ov.Call.Args[0])
		pc, idx := core.CallOf(p)
		okOv = isLoad && rec != nil && pc == rec && idx == 0 && ov.Call.Args[1] == ssa.Value(nid)
	}
	r.Check("C34.P1", core.Key("C34.P1", parse, "overlay derived from recovered key and networkID"), parse.Pos(), okOv,
		"the expected overlay is derived from the recovered key and the same network id", "NewOverlayAddress is not applied to (*recovered key, networkID)")
	isRecoveredOverlay := func(v ssa.Value) bool {
		x, ok := callChain(v, "(pkg/boson.Address).Bytes")
		if !ok {
			return false
		}
		c, idx := core.CallOf(x)
		return ov != nil && c == ov && idx == 0
	}
	eqAtom := core.BoolCallAtom(func(c *ssa.Call) bool {
		if !core.IsCallTo(c, "bytes.Equal") {
			return false
		}
		a, b := c.Call.Args[0], c.Call.Args[1]
		return (isRecoveredOverlay(a) && b == ssa.Value(over)) || (isRecoveredOverlay(b) && a == ssa.Value(over))
	})
	nAcc := 0
	core.EachInstr(parse, func(_ *ssa.BasicBlock, _ int, in ssa.Instruction) {
		ret, ok := in.(*ssa.Return)
		if !ok || core.IsNilConst(ret.Results[0]) {
			return
		}
		nAcc++
		behindAll(r, "C34.G1", parse, ret, "accepted record", []guardSpec{
			{"key recovery succeeded", errNilOf(recover), true},
			{"overlay derivation succeeded", errNilOf(newOverlay), true},
			{"recovered overlay equals the claimed overlay", eqAtom, true},
		})
		// the record carries the verified values
		okFields := true
		al, isAlloc := ret.Results[0].(*ssa.Alloc)
		if !isAlloc {
			okFields = false
		} else {
			want := map[string]func(ssa.Value) bool{
				"Signature": func(v ssa.Value) bool { return v == ssa.Value(sig) },
				"Overlay": func(v ssa.Value) bool {
					c, _ := core.CallOf(v)
					return c != nil && core.IsCallTo(c, "pkg/boson.NewAddress") && c.Call.Args[0] == ssa.Value(over)
				},
				"Underlay": func(v ssa.Value) bool {
					c, idx := core.CallOf(v)
					return c != nil && idx == 0 && core.IsCallTo(c, "github.com/multiformats/go-multiaddr.NewMultiaddrBytes") && c.Call.Args[0] == ssa.Value(under)
				},
			}
			seen := 0
			for _, u := range core.Uses(al) {
				fa, ok := u.(*ssa.FieldAddr)
				if !ok {
					continue
				}
				fr, _ := core.AsField(fa)
				for _, uu := range core.Uses(fa) {
					if st, ok := uu.(*ssa.Store); ok {
						if f, has := want[fr.Name]; has {
							seen++
							if !f(st.Val) {
								okFields = false
							}
						}
					}
				}
			}
			if seen != 3 {
				okFields = false
			}
		}
		r.Check("C34.P1", core.Key("C34.P1", parse, "record = verified (underlay, overlay, signature)"), ret.Pos(), okFields,
			"the returned record holds exactly the verified underlay, overlay and signature", "the returned record is built from other values than the verified parameters")
	})
	r.Floor("C34.G1", "accepting returns of ParseAddress", nAcc, 1)

	// generateSignData: all three params reach the result
	okAll := true
	core.EachInstr(gsd, func(_ *ssa.BasicBlock, _ int, in ssa.Instruction) {
		ret, ok := in.(*ssa.Return)
		if !ok {
			return
		}
		for _, p := range gsd.Params {
			p := p
			if !reaches(ret.Results[0], p) {
				okAll = false
			}
		}
	})
	r.Check("C34.P1", core.Key("C34.P1", gsd, "all inputs in digest"), gsd.Pos(), okAll,
		"underlay, overlay and network id all flow into the signed data", "one of underlay / overlay / networkID no longer reaches the signed data")

	// W1: the signed data is built in memory private to the call: no append in pkg/aurora's
	// digest construction writes into a slice loaded from a package-level variable (shared
	// backing array ⇒ concurrent verifications hash each other's bytes)
	nApp := 0
	core.EachInstr(gsd, func(_ *ssa.BasicBlock, _ int, in ssa.Instruction) {
		c, ok := in.(*ssa.Call)
		if !ok {
			return
		}
		if _, isApp := isBuiltinCall(c, "append"); !isApp {
			return
		}
		nApp++
		shared := core.DerivesFrom(c.Call.Args[0], func(x ssa.Value) bool {
			p, ok := core.LoadedFrom(x)
			if !ok {
				return false
			}
			_, isG := p.(*ssa.Global)
			return isG
		}, nil)
		r.Check("C34.W1", core.Key("C34.W1", gsd, "sign data built in call-private memory"), c.Pos(), !shared,
			"the bytes that are signed / verified are assembled in a buffer private to the call", "the sign data is appended to a slice held in a package-level variable: concurrent handshakes overwrite each other's digest input, so a signature is checked against another record's fields")
	})
	r.Floor("C34.W1", "appends building the sign data", nApp, 2)

	// A1 NewAddress signs the same function
	okSign := false
	for _, c := range core.Calls(newA, "(pkg/crypto.Signer).Sign") {
		g, _ := core.CallOf(core.Common(c).Args[0])
		if g != nil && core.IsCallTo(g, gsdName) {
			a := g.Call.Args
			ub, _ := core.CallOf(a[0])
			ob, _ := core.CallOf(a[1])
			okSign = ub != nil && core.IsCallTo(ub, "(github.com/multiformats/go-multiaddr.Multiaddr).MarshalBinary", "(encoding.BinaryMarshaler).MarshalBinary") &&
				ob != nil && core.IsCallTo(ob, "(pkg/boson.Address).Bytes") && ob.Call.Args[0] == ssa.Value(newA.Params[2]) && a[2] == ssa.Value(newA.Params[3])
		}
	}
	r.Check("C34.A1", core.Key("C34.A1", newA, "signs generateSignData(underlay, overlay, networkID)"), newA.Pos(), okSign,
		"a node signs its own record over the same data the verifier recomputes", "NewAddress does not sign generateSignData(underlay bytes, overlay bytes, networkID)")

	// G2 callers
	const pa = "pkg/aurora.ParseAddress"
	type caller struct {
		rel, name string
		nidStruct string
	}
	for _, cl := range []caller{
		{"pkg/p2p/libp2p/internal/handshake", "(*Service).parseCheckAck", "pkg/p2p/libp2p/internal/handshake.Service"},
		{"pkg/routetab", "(*Service).saveUnderlay", "pkg/routetab.Service"},
		{"pkg/routetab", "(*Service).FindUnderlay", "pkg/routetab.Service"},
	} {
		fn := w.Func(cl.rel, cl.name)
		if fn == nil {
			r.Fatal("unresolved anchor %s.%s", cl.rel, cl.name)
			continue
		}
		r.Saw(core.FuncName(fn))
		r.Eval(core.EdgeCount(fn))
		pcs := core.Calls(fn, pa)
		r.Floor("C34.G2", "ParseAddress calls in "+cl.name, len(pcs), 1)
		if len(pcs) != 1 {
			continue
		}
		pc := pcs[0].(*ssa.Call)
		r.Check("C34.G2", core.Key("C34.G2", fn, "network id = own"), pc.Pos(), loadsField(cl.nidStruct, "networkID")(core.Forward(pc.Call.Args[3])),
			"records are verified against this node's network id", "ParseAddress is called with a network id other than s.networkID")
		good, _ := core.AtomEdges(fn, core.ErrNilAtom(func(c *ssa.Call) bool { return c == pc }))
		isRecord := func(v ssa.Value) bool {
			v = core.Forward(v)
			if c, idx := core.CallOf(v); c == pc && idx == 0 {
				return true
			}
			if p, ok := core.LoadedFrom(v); ok { // *addr
				if c, idx := core.CallOf(p); c == pc && idx == 0 {
					return true
				}
			}
			return false
		}
		// address book puts
		for _, put := range core.Calls(fn, "(pkg/addressbook.Putter).Put", "(pkg/addressbook.Interface).Put") {
			args := core.Common(put).Args
			r.Check("C34.G2", core.Key("C34.G2", fn, "addressbook.Put of verified record"), put.Pos(), len(good) > 0 && core.OnlyBehind(fn, put, good) && isRecord(args[1]),
				"only a record that ParseAddress accepted is stored in the address book", "an address-book Put is reachable without a successful ParseAddress, or stores another record")
		}
		// non-nil returned records
		core.EachInstr(fn, func(_ *ssa.BasicBlock, _ int, in ssa.Instruction) {
			ret, ok := in.(*ssa.Return)
			if !ok || ret.Block() == fn.Recover || len(ret.Results) == 0 {
				return
			}
			if core.TypeName(ret.Results[0].Type()) != "pkg/aurora.Address" {
				return
			}
			v := core.Forward(ret.Results[0])
			if core.IsNilConst(v) {
				return
			}
			r.Check("C34.G2", core.Key("C34.G2", fn, "returned record is verified"), ret.Pos(), len(good) > 0 && core.OnlyBehind(fn, ret, good) && isRecord(v),
				"a non-nil record is returned only when ParseAddress accepted it", "a record can be returned that ParseAddress did not accept")
		})
	}
	keyAddressRules(r, "C34.P2", "NewOverlayAddress")
}

// reaches: value p flows into v through append/slice/convert/phi/copy-free operations and
// stores into buffers that v derives from (PutUint64(buf, x) makes x reach buf).
func reaches(v ssa.Value, p ssa.Value) bool {
	if core.DerivesFrom(v, func(x ssa.Value) bool { return x == p }, nil) {
		return true
	}
	// p written into a buffer that reaches v
	for _, u := range core.Uses(p) {
		c, ok := u.(*ssa.Call)
		if !ok {
			continue
		}
		for _, a := range core.CallArgs(&c.Call) {
			if a == p {
				continue
			}
			if _, isSlice := a.Type().Underlying().(interface{ Elem() interface{} }); isSlice {
				continue
			}
			if core.DerivesFrom(v, func(x ssa.Value) bool { return x == a }, nil) {
				return true
			}
		}
	}
	return false
}
