package props

import (
	"go/constant"
	"go/token"
	"go/types"
	"strings"

	"aurora-verif/checker/core"

	"golang.org/x/tools/go/ssa"
)

// c27RouteKeys (A4): the persisted route list of a target is written by SavePath under
// routePrefix + target.String() (bare hex of the overlay address) and found again by
// ResumeRoutes under that spelling. Every state-store Put / Delete / Get whose key starts
// with the route prefix spells the rest as (boson.Address).String() — a key built from the
// hash form of the target (common.Hash.String(), "0x…") addresses a record that does not
// exist: a Delete through it leaves the stale list in the store, to be reloaded at the next
// start. Also, removing a target's entry from Table.routes (builtin delete) is followed by
// a store Delete / Put under the route prefix, like any other change of the list (F2).
func c27RouteKeys(r *core.Run) {
	const rule = "C27.A4"
	const T = "pkg/routetab.Table"
	pfx := ""
	if o, ok := r.W.Lookup("pkg/routetab", "routePrefix").(*types.Const); ok && o.Val().Kind() == constant.String {
		pfx = constant.StringVal(o.Val())
	}
	if pfx == "" {
		r.Fatal("unresolved anchor pkg/routetab.routePrefix (string constant)")
		return
	}
	isRouteKey := func(k ssa.Value) (rest ssa.Value, ok bool) {
		b, isB := core.Forward(k).(*ssa.BinOp)
		if !isB || b.Op != token.ADD {
			return nil, false
		}
		c, isC := b.X.(*ssa.Const)
		if !isC || c.Value == nil || c.Value.Kind() != constant.String || constant.StringVal(c.Value) != pfx {
			return nil, false
		}
		return b.Y, true
	}
	n := 0
	done := map[*ssa.Function]bool{}
	for _, top := range r.W.PkgFuncs("pkg/routetab") {
		for _, fn := range core.WithClosures(top) {
			if done[fn] {
				continue
			}
			done[fn] = true
			core.EachInstr(fn, func(_ *ssa.BasicBlock, _ int, in ssa.Instruction) {
				c, ok := in.(*ssa.Call)
				if !ok {
					return
				}
				name := core.CalleeName(&c.Call)
				if strings.HasPrefix(name, "(pkg/storage.StateStorer).") {
					args := core.CallArgs(&c.Call)
					if len(args) < 2 {
						return
					}
					rest, isRK := isRouteKey(args[1])
					if !isRK {
						return
					}
					n++
					good := false
					if sc, _ := core.CallOf(rest); sc != nil && core.CalleeName(&sc.Call) == "(pkg/boson.Address).String" {
						good = true
					}
					// the reload deletes under the very key it is iterating over
					if _, isParam := core.Forward(rest).(*ssa.Parameter); isParam || isIterateCallback(fn) {
						good = true
					}
					r.Saw(core.FuncName(fn))
					r.Check(rule, lsKey(rule, fn, "route-index key = prefix + address in bare hex"), c.Pos(), good,
						"a route-index record is addressed as routePrefix + (boson.Address).String(), the spelling SavePath writes and ResumeRoutes reads", core.FuncName(fn)+" addresses a route-index record with another spelling of the target (e.g. common.Hash.String(), which is 0x-prefixed): the call misses the record SavePath wrote, a deleted target's stale list survives in the store and is reloaded")
				}
				if _, isDel := isBuiltinCall(c, "delete"); isDel && core.IsFieldOf(c.Call.Args[0], T, "routes") {
					n++
					okP, _ := core.MustPassAfter(fn, in, func(x ssa.Instruction) bool {
						cc, ok := x.(*ssa.Call)
						if !ok || !strings.HasPrefix(core.CalleeName(&cc.Call), "(pkg/storage.StateStorer).") {
							return false
						}
						a := core.CallArgs(&cc.Call)
						if len(a) < 2 {
							return false
						}
						_, isRK := isRouteKey(a[1])
						return isRK
					})
					r.Check(rule, lsKey(rule, fn, "dropped route list also dropped from the store"), c.Pos(), okP,
						"removing a target's list from Table.routes is followed by a store write under the route prefix", core.FuncName(fn)+" deletes a target's entry from Table.routes without touching its persisted record: the list comes back after a restart")
				}
			})
		}
	}
	r.Floor(rule, "state-store accesses under the route prefix", n, 2)
}
