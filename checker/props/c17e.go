package props

import (
	"aurora-verif/checker/core"

	"golang.org/x/tools/go/ssa"
)

// c17StoreBeforeMark (O2): "the availability record marks a data chunk present only if that
// chunk is stored locally" — also when the node stops between two steps. In pkg/retrieval the
// report that sets (and persists) the presence bit, chunkinfo.OnChunkRetrieved, is made only
// after the chunk store's Put has succeeded: the call lies behind the nil edge of a Put
// error. Marked first, a failing Put or a stop in between leaves a record (reloaded at the
// next start) that advertises a chunk the node never stored.
func c17StoreBeforeMark(r *core.Run) {
	const rule = "C17.O2"
	n := 0
	done := map[*ssa.Function]bool{}
	for _, top := range r.W.PkgFuncs("pkg/retrieval") {
		for _, fn := range core.WithClosures(top) {
			if done[fn] {
				continue
			}
			done[fn] = true
			var marks []ssa.Instruction
			core.EachInstr(fn, func(_ *ssa.BasicBlock, _ int, in ssa.Instruction) {
				c := core.Common(in)
				if c != nil && c.IsInvoke() && c.Method.Name() == "OnChunkRetrieved" {
					marks = append(marks, in)
				}
			})
			if len(marks) == 0 {
				continue
			}
			r.Saw(core.FuncName(fn))
			r.Eval(core.EdgeCount(fn))
			stored, _ := core.AtomEdges(fn, func(base ssa.Value) (bool, bool) {
				x, eq, ok := core.NilCmp(base)
				if !ok {
					return false, false
				}
				ex, isEx := core.Forward(x).(*ssa.Extract)
				if !isEx {
					return false, false
				}
				c, _ := core.CallOf(ex.Tuple)
				if c == nil || !c.Call.IsInvoke() || c.Call.Method.Name() != "Put" || core.TypeName(c.Call.Value.Type()) != "pkg/storage.Storer" {
					return false, false
				}
				return true, eq
			})
			for _, m := range marks {
				n++
				r.Check(rule, lsKey(rule, fn, "presence reported only after the chunk was stored"), m.Pos(), len(stored) > 0 && core.OnlyBehind(fn, m, stored),
					"OnChunkRetrieved (sets and persists the presence bit) is called only behind a successful storer.Put of the chunk",
					"OnChunkRetrieved is called before (or regardless of) storer.Put: if the Put fails or the node stops in between, the persisted record marks a chunk present that was never stored, and it is advertised again after the restart")
			}
		}
	}
	r.Floor(rule, "OnChunkRetrieved calls in pkg/retrieval", n, 1)
}
