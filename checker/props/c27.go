package props

import (
	"strings"

	"aurora-verif/checker/core"

	"golang.org/x/tools/go/ssa"
)

func init() {
	reg("C27", Meta{
		Technique:   "lockset (guarded-by) analysis of the route and pending tables + must-guard reachability for the skip-list and path-key filters",
		Explanation: "C27 (route tables), structural clauses: (Lk1) every access to Table.routes holds Table.mu (write mode for writes) and every access to pendCallResTab.respList holds its mu — closures run by IterateTarget / store.Iterate are analysed with the lock they take themselves; (W1) route lists are copy-on-write — readers iterate their snapshot after unlocking and the map keeps the stored slice header, so nothing appends into or overwrites a list obtained from t.routes, and Delete stores the filtered list back; (G1) GetNextHop offers a neighbour only behind !Neighbor.MemberOf(skips), and collects candidates in a map keyed by the neighbour (distinctness); (G2) Table.Delete keeps a route only behind `route.PathKey != deleted key` and removes the path from the path map and the store; (G3) SavePath records a path only behind verifyPath and len(items)>=2 and never duplicates an existing route (existRoute guard). Not decided: the bound len(routes)<=NeighborAlpha (needs relational numeric reasoning over slices: declared uncovered, see DESIGN §7), path content invariants.",
	}, c27)
	reg("C28", Meta{
		Technique:   "bad-edge / must-guard reachability on SSA for the TTL and self-in-path discards, loop-dominance of the per-path checks, provenance of path extension and relay skip lists",
		Explanation: "C28 (route discovery loop-freedom), structural clauses: (G1) in onRouteReq the edges `len(path) > MaxTTL` and `inPath(self, path)` lead to return without reaching SavePaths / saveUnderlay / doRouteReq / doRouteResp, and those sinks are dominated by the loop that checks every request path; in onRouteResp only paths with len<=MaxTTL are kept, the kept list replaces resp.Paths before it is saved, and the self-in-path edge returns before SavePaths / respForward; (P1) generatePaths extends every forwarded path (and the fresh one) with this node's own address; (P2) onRelay / onRelayConnChain append self to the relay path before computing the skip list handed to GetNextHopRandomOrFind, and the skip list is derived from that path; (P3) every next-hop helper that receives a skip list forwards it to every next-hop helper it calls (GetNextHopRandomOrFind → getNextHopRandom → getNextHopEffective → Table.GetNextHop); (G2) doRouteReq sends a request to a next hop only when no identical request is pending (!has). Not decided: termination over all topologies and interleavings (model checking, a different family).",
	}, c28)
}

func c27(r *core.Run) {
	w := r.W
	c27KeyAgreesWithItems(r)
	c27RoutesPersisted(r)
	c27PathRemovers(r)
	c27RouteKeys(r)
	const T = "pkg/routetab.Table"
	const P = "pkg/routetab.pendCallResTab"
	la := core.NewLockAnalysis(w, "pkg/routetab")
	la.SyncCallees["(pkg/storage.StateStorer).Iterate"] = true
	la.Run()
	n := la.CheckGuarded(r, "C27.Lk1", T, "routes", T+".mu", map[string]string{"pkg/routetab.newRouteTable": "constructor"})
	r.Floor("C27.Lk1", "accesses to Table.routes", n, 4)
	n = la.CheckGuarded(r, "C27.Lk1", P, "respList", P+".mu", map[string]string{"pkg/routetab.newPendCallResTab": "constructor"})
	r.Floor("C27.Lk1", "accesses to pendCallResTab.respList", n, 3)

	// G1 GetNextHop
	if fn := w.Func("pkg/routetab", "(*Table).GetNextHop"); fn == nil {
		r.Fatal("unresolved anchor pkg/routetab.(*Table).GetNextHop")
	} else {
		r.Saw(core.FuncName(fn))
		r.Eval(core.EdgeCount(fn))
		_, notSkipped := core.AtomEdges(fn, core.BoolCallAtom(func(c *ssa.Call) bool {
			return core.IsCallTo(c, "(pkg/boson.Address).MemberOf") && core.Forward(c.Call.Args[1]) == ssa.Value(fn.Params[2])
		}))
		n := 0
		core.EachInstr(fn, func(_ *ssa.BasicBlock, _ int, in ssa.Instruction) {
			mu, ok := in.(*ssa.MapUpdate)
			if !ok {
				return
			}
			n++
			r.Check("C27.G1", core.Key("C27.G1", fn, "candidate behind !MemberOf(skips)"), mu.Pos(), len(notSkipped) > 0 && core.OnlyBehind(fn, mu, notSkipped),
				"a neighbour becomes a next-hop candidate only when it is not in the skip list", "a candidate is recorded without the skip-list test")
			// keyed by the neighbour itself
			kc, _ := core.CallOf(mu.Key)
			okKey := kc != nil && core.IsCallTo(kc, "(pkg/boson.Address).String") && core.SameExpr(core.Forward(kc.Call.Args[0]), core.Forward(mu.Value))
			r.Check("C27.G1", core.Key("C27.G1", fn, "candidates keyed by neighbour"), mu.Pos(), okKey,
				"candidates are collected in a map keyed by the neighbour address (each offered once)", "the candidate map is not keyed by the neighbour it stores")
		})
		r.Floor("C27.G1", "candidate insertions in GetNextHop", n, 1)
	}

	// G2 Delete
	del := w.Func("pkg/routetab", "(*Table).Delete")
	if del == nil {
		r.Fatal("unresolved anchor pkg/routetab.(*Table).Delete")
	} else {
		r.Saw(core.FuncName(del))
		nd := len(core.Calls(del, "(*sync.Map).Delete"))
		ns := len(core.Calls(del, "(pkg/storage.StateStorer).Delete"))
		r.Check("C27.G2", core.Key("C27.G2", del, "path removed from map and store"), del.Pos(), nd >= 1 && ns >= 1,
			"a deleted path is removed from the in-memory path map and from the store", "Table.Delete no longer removes the path from paths / the store")
		n := 0
		for _, cl := range core.Closures(del) {
			r.Saw(core.FuncName(cl))
			r.Eval(core.EdgeCount(cl))
			other, _ := core.AtomEdges(cl, cmpAtom(func(v ssa.Value) bool {
				fr, ok := core.AsField(v)
				return ok && fr.Name == "PathKey"
			}, func(y ssa.Value) bool {
				p, ok := core.LoadedFrom(y)
				if !ok {
					return false
				}
				fv, ok := p.(*ssa.FreeVar)
				return ok && fv.Name() == "pathKey"
			}, "!="))
			core.EachInstr(cl, func(_ *ssa.BasicBlock, _ int, in ssa.Instruction) {
				c, ok := in.(*ssa.Call)
				if !ok {
					return
				}
				if _, isApp := isBuiltinCall(c, "append"); !isApp {
					return
				}
				n++
				r.Check("C27.G2", core.Key("C27.G2", del, "keep only routes of other paths"), c.Pos(), len(other) > 0 && core.OnlyBehind(cl, c, other),
					"a route survives Delete only if it belongs to a different path", "Delete keeps a route without comparing its PathKey with the deleted path")
			})
		}
		r.Floor("C27.G2", "kept-route appends in Delete", n, 1)
	}

	// W1: route lists are copy-on-write. Readers (Get, GetNextHop, updateUsedTime) take the
	// list under RLock and iterate it after unlocking, and the map keeps the old slice header;
	// so no function may append into / store elements of a list obtained from t.routes, and
	// Delete must store the filtered list back.
	fromRoutes := func(v ssa.Value) bool {
		return core.DerivesFrom(v, func(x ssa.Value) bool {
			switch y := x.(type) {
			case *ssa.Lookup:
				return loadsField(T, "routes")(core.Forward(y.X))
			}
			return false
		}, nil)
	}
	nApp := 0
	for _, fn := range w.PkgFuncs("pkg/routetab") {
		core.EachInstr(fn, func(_ *ssa.BasicBlock, _ int, in ssa.Instruction) {
			switch x := in.(type) {
			case *ssa.Call:
				if _, isApp := isBuiltinCall(x, "append"); isApp && strings.HasSuffix(x.Type().String(), "TargetRoute") {
					nApp++
					r.Check("C27.W1", lsKey("C27.W1", fn, "append target is a fresh route list"), x.Pos(), !fromRoutes(x.Call.Args[0]),
						"route lists are rebuilt in fresh slices, never appended to in place", "append writes into the backing array of a list taken from t.routes (in-place filtering): the map keeps its old, longer slice header, so removed routes stay visible to GetNextHop, and readers iterating their snapshot race with the writes")
				}
			case *ssa.Store:
				if ia, ok := x.Addr.(*ssa.IndexAddr); ok && strings.HasSuffix(x.Val.Type().String(), "TargetRoute") && fromRoutes(ia.X) {
					r.Check("C27.W1", lsKey("C27.W1", fn, "element store into a shared route list"), x.Pos(), false,
						"route lists are never modified in place", "an element of a list taken from t.routes is overwritten in place")
				}
			}
		})
	}
	r.Floor("C27.W1", "route-list appends", nApp, 3)
	if del != nil {
		stored := false
		for _, cl := range core.Closures(del) {
			core.EachInstr(cl, func(_ *ssa.BasicBlock, _ int, in ssa.Instruction) {
				if mu, ok := in.(*ssa.MapUpdate); ok && loadsField(T, "routes")(core.Forward(mu.Map)) {
					if core.DerivesFrom(mu.Value, func(x ssa.Value) bool { _, isApp := isBuiltinCall(x, "append"); return isApp }, nil) {
						stored = true
					}
				}
			})
		}
		r.Check("C27.W1", core.Key("C27.W1", del, "filtered list stored back"), del.Pos(), stored,
			"Delete writes the filtered route list back into the table", "Delete never stores the filtered list into t.routes: the table keeps the list that still contains the deleted path's route")
	}

	// G3 SavePath
	if fn := w.Func("pkg/routetab", "(*Table).SavePath"); fn == nil {
		r.Fatal("unresolved anchor pkg/routetab.(*Table).SavePath")
	} else {
		r.Saw(core.FuncName(fn))
		r.Eval(core.EdgeCount(fn))
		verified, _ := core.AtomEdges(fn, core.BoolCallAtom(func(c *ssa.Call) bool { return core.IsCallTo(c, "pkg/routetab.verifyPath") }))
		long, _ := core.AtomEdges(fn, cmpAtom(func(v ssa.Value) bool {
			c, ok := isBuiltinCall(v, "len")
			if !ok {
				return false
			}
			fr, ok := core.AsField(core.Forward(c.Call.Args[0]))
			return ok && fr.Name == "Items"
		}, func(y ssa.Value) bool { k, ok := core.ConstInt(y); return ok && k == 2 }, ">="))
		for _, c := range core.Calls(fn, "(*sync.Map).Store") {
			r.Check("C27.G3", core.Key("C27.G3", fn, "path stored behind verifyPath"), c.Pos(), len(verified) > 0 && core.OnlyBehind(fn, c, verified),
				"a received path is recorded only when its signature chain verifies", "a path is stored without verifyPath")
			r.Check("C27.G3", core.Key("C27.G3", fn, "path stored behind len>=2"), c.Pos(), len(long) > 0 && core.OnlyBehind(fn, c, long),
				"a path is recorded only when it has a target before its last hop (at least two items)", "a path with fewer than two items can be stored")
		}
		for _, cl := range core.Closures(fn) {
			r.Saw(core.FuncName(cl))
			r.Eval(core.EdgeCount(cl))
			_, fresh := core.AtomEdges(cl, core.BoolCallAtom(func(c *ssa.Call) bool { return core.IsCallTo(c, "pkg/routetab.existRoute") }))
			core.EachInstr(cl, func(_ *ssa.BasicBlock, _ int, in ssa.Instruction) {
				mu, ok := in.(*ssa.MapUpdate)
				if !ok || !loadsField(T, "routes")(core.Forward(mu.Map)) {
					return
				}
				// the update is reached either from the "no routes yet" branch or behind !existRoute
				existCalls := core.Calls(cl, "pkg/routetab.existRoute")
				ok2 := len(existCalls) > 0 && len(fresh) > 0
				if ok2 {
					// from the existRoute==true edge the update is unreachable
					dup, _ := core.AtomEdges(cl, core.BoolCallAtom(func(c *ssa.Call) bool { return core.IsCallTo(c, "pkg/routetab.existRoute") }))
					ok2 = !core.ReachableFromEdges(cl, dup, mu, false)
				}
				r.Check("C27.G3", core.Key("C27.G3", fn, "no duplicate route"), mu.Pos(), ok2,
					"an already recorded route is not recorded again", "the route list is rewritten although existRoute reported the route as present")
			})
		}
	}
	c27Helpers(r)
	deleteAtIndexLint(r, "C27.L1", "a skipped or expired entry stays in the list when it directly follows another removed entry", "pkg/routetab")
}

func c28(r *core.Run) {
	c28SignOnce(r)
	c28OriginatorSkipped(r)
	w := r.W
	const S = "pkg/routetab.Service"
	maxTTL := func(y ssa.Value) bool {
		return core.DerivesFrom(y, func(x ssa.Value) bool {
			c, _ := core.CallOf(x)
			if c == nil || !core.IsCallTo(c, "sync/atomic.LoadInt32") {
				return false
			}
			g, ok := c.Call.Args[0].(*ssa.Global)
			return ok && g.Name() == "MaxTTL"
		}, nil)
	}
	isLen := func(v ssa.Value) bool { _, ok := isBuiltinCall(v, "len"); return ok }
	selfInPath := core.BoolCallAtom(func(c *ssa.Call) bool {
		if !core.IsCallTo(c, "pkg/routetab.inPath") {
			return false
		}
		x, ok := callChain(c.Call.Args[0], "(pkg/boson.Address).Bytes")
		return ok && loadsField(S, "self")(core.Forward(x))
	})
	sinkNames := []string{"(*pkg/routetab.Table).SavePaths", "(*pkg/routetab.Service).saveUnderlay", "(*pkg/routetab.Service).doRouteReq", "(*pkg/routetab.Service).doRouteResp", "(*pkg/routetab.Service).respForward"}

	// onRouteReq
	if fn := w.Func("pkg/routetab", "(*Service).onRouteReq"); fn == nil {
		r.Fatal("unresolved anchor pkg/routetab.(*Service).onRouteReq")
	} else {
		r.Saw(core.FuncName(fn))
		r.Eval(core.EdgeCount(fn))
		tooLong, _ := core.AtomEdges(fn, cmpAtom(isLen, maxTTL, ">"))
		// keep only the TTL test on the received path (the first one, inside the loop over req.Paths)
		self, _ := core.AtomEdges(fn, selfInPath)
		r.Floor("C28.G1", "TTL discard tests in onRouteReq", len(tooLong), 1)
		r.Floor("C28.G1", "self-in-path discard tests in onRouteReq", len(self), 1)
		// the discard edges: those whose target cannot reach a sink at all
		var loopIf *ssa.BasicBlock
		for e := range self {
			loopIf = e.From
		}
		sinks := core.Calls(fn, sinkNames...)
		r.Floor("C28.G1", "record/forward sinks in onRouteReq", len(sinks), 4)
		for _, s := range sinks {
			name := strings.TrimPrefix(core.CalleeName(core.Common(s)), "(*pkg/routetab.")
			okSelf := len(self) > 0 && !core.ReachableFromEdges(fn, self, s, false)
			r.Check("C28.G1", core.Key("C28.G1", fn, name+" not after self-in-path"), s.Pos(), okSelf,
				"a request whose path already contains this node is dropped before anything is recorded or forwarded", "from the edge inPath(self, path)==true the call "+name+" is still reachable")
			// TTL: the discard edge is the one in the same loop as the self test
			var ttlDiscard = core.EdgeSet{}
			for e := range tooLong {
				if loopIf != nil && sameLoop(fn, e.From, loopIf) {
					ttlDiscard[e] = true
				}
			}
			okTTL := len(ttlDiscard) > 0 && !core.ReachableFromEdges(fn, ttlDiscard, s, false)
			r.Check("C28.G1", core.Key("C28.G1", fn, name+" not after TTL exceeded"), s.Pos(), okTTL,
				"a request whose path exceeds the hop limit is dropped before anything is recorded or forwarded", "from the edge len(path) > MaxTTL the call "+name+" is still reachable (or the test is gone)")
			if loopIf != nil {
				h := loopHeader(fn, loopIf)
				r.Check("C28.G1", core.Key("C28.G1", fn, name+" after the per-path loop"), s.Pos(), h != nil && h.Dominates(s.Block()),
					"recording/forwarding happens only after the loop that checks every received path", name+" is reachable without passing the loop that checks the received paths")
			}
		}
	}

	// onRouteResp
	if fn := w.Func("pkg/routetab", "(*Service).onRouteResp"); fn == nil {
		r.Fatal("unresolved anchor pkg/routetab.(*Service).onRouteResp")
	} else {
		r.Saw(core.FuncName(fn))
		r.Eval(core.EdgeCount(fn))
		within, _ := core.AtomEdges(fn, cmpAtom(isLen, maxTTL, "<="))
		n := 0
		var keptAppend *ssa.Call
		core.EachInstr(fn, func(_ *ssa.BasicBlock, _ int, in ssa.Instruction) {
			c, ok := in.(*ssa.Call)
			if !ok {
				return
			}
			if _, isApp := isBuiltinCall(c, "append"); !isApp || !strings.Contains(c.Type().String(), "pb.Path") {
				return
			}
			n++
			keptAppend = c
			r.Check("C28.G1", core.Key("C28.G1", fn, "keep only paths within TTL"), c.Pos(), len(within) > 0 && core.OnlyBehind(fn, c, within),
				"a response path is kept only when it is no longer than the hop limit", "a response path is kept without the len <= MaxTTL test")
		})
		r.Floor("C28.G1", "kept-path appends in onRouteResp", n, 1)
		// resp.Paths = now precedes SavePaths(resp.Paths)
		saves := core.Calls(fn, "(*pkg/routetab.Table).SavePaths")
		okRepl := false
		for _, st := range fieldStoresAny(fn, "Paths") {
			if keptAppend != nil && core.DerivesFrom(st.Val, func(x ssa.Value) bool { return x == ssa.Value(keptAppend) }, nil) {
				okRepl = true
				for _, sv := range saves {
					if !core.Precedes(st, sv) {
						okRepl = false
					}
					if fr, ok := core.AsField(core.Forward(core.Common(sv).Args[1])); !ok || fr.Name != "Paths" {
						okRepl = false
					}
				}
			}
		}
		r.Check("C28.G1", core.Key("C28.G1", fn, "filtered list replaces resp.Paths before saving"), fn.Pos(), okRepl && len(saves) > 0,
			"the TTL-filtered list replaces the received paths before they are recorded and forwarded", "SavePaths does not receive the TTL-filtered path list")
		self, _ := core.AtomEdges(fn, selfInPath)
		r.Floor("C28.G1", "self-in-path discard tests in onRouteResp", len(self), 1)
		for _, s := range core.Calls(fn, sinkNames...) {
			name := strings.TrimPrefix(core.CalleeName(core.Common(s)), "(*pkg/routetab.")
			r.Check("C28.G1", core.Key("C28.G1", fn, name+" not after self-in-path"), s.Pos(), len(self) > 0 && !core.ReachableFromEdges(fn, self, s, false),
				"a response whose path contains this node is dropped before anything is recorded or forwarded", "from the edge inPath(self, path)==true the call "+name+" is still reachable")
			var h *ssa.BasicBlock
			for e := range self {
				h = loopHeader(fn, e.From)
			}
			r.Check("C28.G1", core.Key("C28.G1", fn, name+" after the per-path loop"), s.Pos(), h != nil && h.Dominates(s.Block()),
				"recording/forwarding happens only after the loop that checks every response path", name+" is reachable without passing the self-in-path loop")
		}
	}

	// P1 generatePaths
	if fn := w.Func("pkg/routetab", "(*Table).generatePaths"); fn == nil {
		r.Fatal("unresolved anchor pkg/routetab.(*Table).generatePaths")
	} else {
		r.Saw(core.FuncName(fn))
		r.Eval(core.EdgeCount(fn))
		isSelfBytes := func(v ssa.Value) bool {
			x, ok := callChain(v, "(pkg/boson.Address).Bytes")
			return ok && loadsField("pkg/routetab.Table", "self")(core.Forward(x))
		}
		n := 0
		for _, st := range fieldStoresAny(fn, "Items") {
			n++
			ok := false
			v := st.Val
			if c, isApp := isBuiltinCall(v, "append"); isApp {
				for _, e := range variadicElems(c.Call.Args[1]) {
					if isSelfBytes(e) {
						ok = true
					}
				}
			} else {
				for _, e := range variadicElems(v) { // [][]byte{self}
					if isSelfBytes(e) {
						ok = true
					}
				}
			}
			r.Check("C28.P1", core.Key("C28.P1", fn, "path extended by self"), st.Pos(), ok,
				"every path this node emits ends with its own address", "a generated path is not extended with t.self.Bytes()")
		}
		r.Floor("C28.P1", "path constructions in generatePaths", n, 2)
	}

	// P2 relay skip lists
	for _, name := range []string{"(*Service).onRelay", "(*Service).onRelayConnChain"} {
		outer := w.Func("pkg/routetab", name)
		if outer == nil {
			r.Fatal("unresolved anchor pkg/routetab.%s", name)
			continue
		}
		n := 0
		for _, fn := range core.WithClosures(outer) {
			calls := core.Calls(fn, "(*pkg/routetab.Service).GetNextHopRandomOrFind")
			if len(calls) == 0 {
				continue
			}
			r.Saw(core.FuncName(fn))
			r.Eval(core.EdgeCount(fn))
			// store req.Paths = append(req.Paths, self)
			var ext *ssa.Store
			for _, st := range fieldStoresAny(fn, "Paths") {
				if c, isApp := isBuiltinCall(st.Val, "append"); isApp {
					for _, e := range variadicElems(c.Call.Args[1]) {
						if x, ok := callChain(e, "(pkg/boson.Address).Bytes"); ok && loadsField(S, "self")(core.Forward(x)) {
							ext = st
						}
					}
				}
			}
			for _, c := range calls {
				n++
				args := core.Common(c).Args
				skips := args[len(args)-1]
				// the skip list may be extended (append(skips, more…)): its base is what counts
				for i := 0; i < 6; i++ {
					ac, isApp := core.Forward(skips).(*ssa.Call)
					if !isApp {
						break
					}
					if _, ok := isBuiltinCall(ac, "append"); !ok {
						break
					}
					skips = ac.Call.Args[0]
				}
				gc, idx := core.CallOf(skips)
				okSkip := gc != nil && idx == 1 && core.IsCallTo(gc, "pkg/routetab.generatePathItems")
				if okSkip {
					fr, ok := core.AsField(core.Forward(gc.Call.Args[0]))
					okSkip = ok && fr.Name == "Paths"
				}
				r.Check("C28.P2", core.Key("C28.P2", outer, "skip list = relay path"), c.Pos(), okSkip,
					"the next relay hop is chosen with the nodes already on the relay path as skip list", "GetNextHopRandomOrFind is not given the items of req.Paths as skip list")
				r.Check("C28.P2", core.Key("C28.P2", outer, "self appended before choosing the next hop"), c.Pos(), ext != nil && ext.Block().Dominates(c.Block()),
					"this node adds itself to the relay path before the next hop is chosen", "the relay path is not extended with self before the next hop is chosen")
			}
		}
		r.Floor("C28.P2", "next-hop choices in "+name, n, 1)
	}

	// P3 skip-list forwarding: a next-hop helper that receives a skip list hands it on,
	// unchanged or extended, to every next-hop helper it calls (the chain
	// GetNextHopRandomOrFind → getNextHopRandom → getNextHopEffective → Table.GetNextHop);
	// dropping it on one call (a retry after discovery, say) lets a relay pick a node that
	// is already on the path.
	skipParam := func(f *ssa.Function) *ssa.Parameter {
		if f == nil || !f.Signature.Variadic() || len(f.Params) == 0 {
			return nil
		}
		p := f.Params[len(f.Params)-1]
		if strings.HasSuffix(p.Type().String(), "boson.Address") { // the variadic address list: the skip list
			return p
		}
		return nil
	}
	nFwd := 0
	for _, fn := range w.PkgFuncs("pkg/routetab") {
		sp := skipParam(fn)
		if sp == nil {
			continue
		}
		core.EachInstr(fn, func(_ *ssa.BasicBlock, _ int, in ssa.Instruction) {
			c, ok := in.(*ssa.Call)
			if !ok {
				return
			}
			callee := c.Call.StaticCallee()
			if skipParam(callee) == nil {
				return
			}
			nFwd++
			r.Saw(core.FuncName(fn))
			arg := c.Call.Args[len(c.Call.Args)-1]
			okFwd := core.DerivesFrom(arg, func(x ssa.Value) bool { return x == ssa.Value(sp) }, nil)
			r.Check("C28.P3", core.Key("C28.P3", fn, "skip list forwarded to "+callee.Name()), c.Pos(), okFwd,
				"the skip list a next-hop helper received is passed on to the helper it calls", core.FuncName(fn)+" calls "+callee.Name()+" without its skip list: nodes already on the relay path become eligible next hops again")
		})
	}
	r.Floor("C28.P3", "skip-list hand-overs between next-hop helpers", nFwd, 4)

	// G2 doRouteReq
	if fn := w.Func("pkg/routetab", "(*Service).doRouteReq"); fn == nil {
		r.Fatal("unresolved anchor pkg/routetab.(*Service).doRouteReq")
	} else {
		r.Saw(core.FuncName(fn))
		r.Eval(core.EdgeCount(fn))
		_, notPending := core.AtomEdges(fn, core.BoolCallAtom(func(c *ssa.Call) bool {
			return core.IsCallTo(c, "(*pkg/routetab.pendCallResTab).Add")
		}))
		sends := core.Calls(fn, "(*pkg/routetab.Service).sendDataToNode")
		r.Floor("C28.G2", "request sends in doRouteReq", len(sends), 1)
		for _, s := range sends {
			r.Check("C28.G2", core.Key("C28.G2", fn, "send only when not pending"), s.Pos(), len(notPending) > 0 && core.OnlyBehind(fn, s, notPending),
				"a route request is sent to a next hop only when no identical request is already pending", "a request is sent although the same request is pending")
		}
		gens := core.Calls(fn, "(*pkg/routetab.Table).generatePaths")
		r.Check("C28.G2", core.Key("C28.G2", fn, "forwarded paths are re-generated"), fn.Pos(), len(gens) >= 2,
			"both the forwarded and the fresh request carry paths extended by generatePaths", "doRouteReq no longer passes request paths through generatePaths")
	}
	deleteAtIndexLint(r, "C28.L1", "a next hop that is on the relay path (in the skip list) survives the filtering when it directly follows another skipped hop, and the relayed stream is sent back onto its own path", "pkg/routetab")
}

// loopHeader returns the header of the innermost natural loop containing b (nil if none).
func loopHeader(fn *ssa.Function, b *ssa.BasicBlock) *ssa.BasicBlock {
	var best *ssa.BasicBlock
	for e := range core.BackEdges(fn) {
		h := e.To
		if !h.Dominates(b) {
			continue
		}
		// b in loop: b reaches e.From without leaving through h
		avoid := core.EdgeSet{}
		for _, p := range h.Preds {
			avoid[core.Edge{From: p, To: h}] = true
		}
		if b != e.From && !core.ReachBlocks([]*ssa.BasicBlock{b}, avoid)[e.From] {
			continue
		}
		if best == nil || best.Dominates(h) {
			best = h
		}
	}
	return best
}

func sameLoop(fn *ssa.Function, a, b *ssa.BasicBlock) bool {
	ha, hb := loopHeader(fn, a), loopHeader(fn, b)
	return ha != nil && ha == hb
}
