package props

import (
	"aurora-verif/checker/core"

	"golang.org/x/tools/go/ssa"
)

// c36KeyCodec (A2): the private key goes into the file as the fixed-length encoding
// crypto.EncodeSecp256k1PrivateKey(k) and comes out through its inverse
// crypto.DecodeSecp256k1PrivateKey — a variable-length encoding such as k.D.Bytes() drops
// leading zero bytes and the stored key can no longer be decoded for its own password.
func c36KeyCodec(r *core.Run) {
	const fp = "pkg/keystore/file"
	enc := r.W.Func(fp, "encryptKey")
	dec := r.W.Func(fp, "decryptKey")
	if enc == nil || dec == nil {
		r.Fatal("unresolved anchor %s.encryptKey / decryptKey", fp)
		return
	}
	r.Saw(core.FuncName(enc))
	r.Saw(core.FuncName(dec))
	okEnc := false
	for _, c := range core.Calls(enc, fp+".encryptData") {
		src, _ := core.CallOf(core.Common(c).Args[0])
		if src != nil && core.IsCallTo(src, "pkg/crypto.EncodeSecp256k1PrivateKey") && src.Call.Args[0] == ssa.Value(enc.Params[0]) {
			okEnc = true
		}
	}
	okDec := false
	for _, c := range core.Calls(dec, "pkg/crypto.DecodeSecp256k1PrivateKey") {
		src, idx := core.CallOf(core.Common(c).Args[0])
		if src != nil && idx == 0 && core.IsCallTo(src, fp+".decryptData") {
			// and its result is what decryptKey returns
			core.EachInstr(dec, func(_ *ssa.BasicBlock, _ int, in ssa.Instruction) {
				if ret, ok := in.(*ssa.Return); ok {
					if rc, i := core.CallOf(ret.Results[0]); rc == c.(*ssa.Call) && i == 0 {
						okDec = true
					}
				}
			})
		}
	}
	r.Check("C36.A2", "C36.A2@"+fp+"#private key codec pair", enc.Pos(), okEnc && okDec,
		"the key is stored as EncodeSecp256k1PrivateKey(k) and read back with DecodeSecp256k1PrivateKey of the decrypted bytes", "encryptKey / decryptKey do not use the EncodeSecp256k1PrivateKey / DecodeSecp256k1PrivateKey pair on the encrypted payload: some keys (e.g. with a leading zero byte) cannot be read back with their own password")
}
