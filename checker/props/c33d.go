package props

import (
	"aurora-verif/checker/core"

	"golang.org/x/tools/go/ssa"
)

// c33PersistedTotals (P3): the persisted served / consumed totals that a restart restores
// (chequeStore.PutTransferTraffic / PutRetrieveTraffic) are written only with the running
// total they mirror — a load of Traffic.transferTraffic resp. Traffic.retrieveTraffic.
// Writing another quantity under that key (the cheque total after a cash-out, say) leaves
// the in-memory total right and the persisted one lower: the difference is forgotten at the
// next restart ("no served or consumed traffic is forgotten").
func c33PersistedTotals(r *core.Run, funcs []*ssa.Function) {
	const rule = "C33.P3"
	pairs := map[string]string{"PutTransferTraffic": "transferTraffic", "PutRetrieveTraffic": "retrieveTraffic"}
	n := 0
	done := map[*ssa.Function]bool{}
	for _, top := range funcs {
		for _, fn := range core.WithClosures(top) {
			if done[fn] {
				continue
			}
			done[fn] = true
			core.EachInstr(fn, func(_ *ssa.BasicBlock, _ int, in ssa.Instruction) {
				c := core.Common(in)
				if c == nil || !c.IsInvoke() || core.TypeName(c.Value.Type()) != "pkg/settlement/traffic/cheque.ChequeStore" {
					return
				}
				field, ok := pairs[c.Method.Name()]
				if !ok {
					return
				}
				n++
				r.Saw(core.FuncName(fn))
				v := core.Forward(c.Args[len(c.Args)-1])
				fr, isF := core.AsField(v)
				good := isF && !fr.Addr && fr.Struct == trafficT && fr.Name == field
				r.Check(rule, lsKey(rule, fn, "persisted "+field+" is the running total"), in.Pos(), good,
					"the persisted total is the running total it mirrors (Traffic."+field+")", core.FuncName(fn)+" persists under the "+field+" key a value that is not Traffic."+field+": the in-memory total stays right, the persisted one does not, and the difference is forgotten at the next restart")
			})
		}
	}
	r.Floor(rule, "writers of the persisted served / consumed totals", n, 2)
}
