package props

import (
	"aurora-verif/checker/core"

	"golang.org/x/tools/go/ssa"
)

// c05LowS (G4): an ECDSA signature (r, s, v) has a twin (r, N-s, v^1) that recovers the same
// key. "Altering the signature makes the chunk invalid" therefore needs Recover to refuse
// one of the two — the signers in this repository (btcec.SignCompact) only emit s <= N/2.
// RecoverCompact in crypto.Recover is reached only behind a comparison of the big integer
// made from signature[32:64] (…).Cmp(half order) that excludes the upper half.
func c05LowS(r *core.Run) {
	const rule = "C05.G4"
	fn := r.W.Func("pkg/crypto", "Recover")
	if fn == nil {
		return // reported by G3
	}
	sig := fn.Params[0]
	isS := func(v ssa.Value) bool {
		return core.DerivesFrom(v, func(x ssa.Value) bool {
			sl, ok := x.(*ssa.Slice)
			if !ok || sl.X != ssa.Value(sig) {
				return false
			}
			lo, okL := core.ConstInt(sl.Low)
			hi, okH := core.ConstInt(sl.High)
			return sl.Low != nil && sl.High != nil && okL && okH && lo == 32 && hi == 64
		}, map[string]bool{"(*math/big.Int).SetBytes": true, "builtin.new": true})
	}
	// sInt.Cmp(x) > 0 → refuse ;  accept edges: Cmp(...) <= 0
	low, _ := core.AtomEdges(fn, cmpAtom(func(v ssa.Value) bool {
		c, _ := core.CallOf(v)
		return c != nil && core.IsCallTo(c, "(*math/big.Int).Cmp") && isS(core.CallArgs(&c.Call)[0])
	}, func(y ssa.Value) bool { k, ok := core.ConstInt(y); return ok && k == 0 }, "<="))
	calls := core.Calls(fn, "github.com/btcsuite/btcd/btcec.RecoverCompact")
	for _, c := range calls {
		r.Check(rule, core.Key(rule, fn, "key recovered only for s in the lower half order"), c.Pos(), len(low) > 0 && core.OnlyBehind(fn, c, low),
			"the key is recovered only from a signature whose s (signature[32:64]) was compared against the half order and found not above it", "crypto.Recover accepts both (r, s, v) and its twin (r, N-s, v^1): a third party can rewrite the signature bytes of a signed single-owner chunk and it stays valid under the same address")
	}
	r.Floor(rule, "RecoverCompact calls in crypto.Recover", len(calls), 1)
}
