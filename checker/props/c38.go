package props

import (
	"fmt"
	"strings"

	"aurora-verif/checker/core"

	"golang.org/x/tools/go/ssa"
)

func init() {
	reg("C38", Meta{
		Technique:   "partition-invariant dataflow on SSA (per-list membership facts from Exists/Remove/Add, inductive over the membership functions), who-may-write enumeration of list mutations, lockset, must-guard reachability for neighbour and de-duplication guards",
		Explanation: "C38 (multicast groups), structural clauses: (Z1) inductive partition proof — assuming a peer is in at most one of {connected, kept, known} on entry, at every exit of Group.add / remove / pruneKnown any list the function may have added the peer to is accompanied by established absence (Exists false or Remove) from both other lists; functions that only remove preserve the invariant trivially; (W1) no other function calls Add/AddBatch/Remove on the three lists, and the only reassignments install fresh empty lists; all Adds concern the function's own peer argument; (Lk1) the mutations run with Group.mux held for writing; (G1) connectedPeers.Add happens only behind route.IsNeighbor(peer); (F2) the peer-state handler removes a disconnected peer from the groups returned by getGroupAll, i.e. from every group, not from a narrower per-peer index; (G2) Multicast and onMulticast deliver/forward only behind SetIfNotExist(key)==true with the key built from (origin, id). Not decided: flooding termination over all topologies, the one-minute cache expiry.",
		Assumptions: []string{"gcGroup/newGroup installing empty lists cannot create double membership"},
	}, c38)
}

const groupT = "pkg/multicast.Group"

var groupLists = []string{"connectedPeers", "keepPeers", "knownPeers"}

// membership state per list: 0 absent (established), 1 unknown (pre-state), 2 maybe-added
type zstate [3]int

func zjoin(a, b zstate) zstate {
	var o zstate
	for i := range o {
		o[i] = a[i]
		if b[i] > o[i] {
			o[i] = b[i]
		}
	}
	return o
}

func listIndex(v ssa.Value) int {
	v = core.Forward(v)
	fr, ok := core.AsField(v)
	if !ok || fr.Struct != groupT {
		return -1
	}
	for i, n := range groupLists {
		if fr.Name == n {
			return i
		}
	}
	return -1
}

const psT = "(*pkg/topology/pslice.PSlice)."

// partitionCheck runs the Z dataflow on fn for tracked value x.
func partitionCheck(fn *ssa.Function, x ssa.Value) (ok bool, why string, exits int) {
	in := map[*ssa.BasicBlock]zstate{}
	has := map[*ssa.BasicBlock]bool{}
	entry := fn.Blocks[0]
	in[entry] = zstate{1, 1, 1}
	has[entry] = true
	work := []*ssa.BasicBlock{entry}
	transfer := func(b *ssa.BasicBlock, s zstate) zstate {
		for _, i := range b.Instrs {
			c, isCall := i.(*ssa.Call)
			if !isCall {
				continue
			}
			n := core.CalleeName(&c.Call)
			if !strings.HasPrefix(n, psT) || len(c.Call.Args) == 0 {
				continue
			}
			li := listIndex(c.Call.Args[0])
			if li < 0 {
				continue
			}
			switch strings.TrimPrefix(n, psT) {
			case "Add", "AddBatch":
				s[li] = 2
			case "Remove":
				if len(c.Call.Args) > 1 && c.Call.Args[1] == x {
					s[li] = 0
				}
			}
		}
		return s
	}
	for len(work) > 0 {
		b := work[len(work)-1]
		work = work[:len(work)-1]
		out := transfer(b, in[b])
		for si, succ := range b.Succs {
			s := out
			if ifi, isIf := b.Instrs[len(b.Instrs)-1].(*ssa.If); isIf {
				base, neg := core.Normalize(ifi.Cond)
				if c, _ := core.CallOf(base); c != nil && core.CalleeName(&c.Call) == psT+"Exists" && len(c.Call.Args) > 1 && c.Call.Args[1] == x {
					if li := listIndex(c.Call.Args[0]); li >= 0 {
						existsTrueOnThisEdge := (si == 0) != neg
						if !existsTrueOnThisEdge && s[li] != 2 {
							s[li] = 0
						}
					}
				}
			}
			if !has[succ] {
				in[succ], has[succ] = s, true
				work = append(work, succ)
			} else if j := zjoin(in[succ], s); j != in[succ] {
				in[succ] = j
				work = append(work, succ)
			}
		}
	}
	ok = true
	for _, b := range fn.Blocks {
		if !has[b] || b == fn.Recover {
			continue
		}
		if _, isRet := b.Instrs[len(b.Instrs)-1].(*ssa.Return); !isRet {
			continue
		}
		exits++
		s := transfer(b, in[b])
		for i := range s {
			if s[i] != 2 {
				continue
			}
			for j := range s {
				if j != i && s[j] != 0 {
					ok = false
					why = fmt.Sprintf("at an exit the peer may have been added to %s while its absence from %s is not established (no Exists-false / Remove on every path)", groupLists[i], groupLists[j])
				}
			}
		}
	}
	return
}

func c38(r *core.Run) {
	w := r.W
	funcs := w.PkgFuncs("pkg/multicast")
	goLoopCapture(r, "C38.Y1", "pkg/multicast", 3)
	c38Dedup(r)
	c38ForwardLists(r)
	// W1 + Z1
	type mut struct {
		fn   *ssa.Function
		in   *ssa.Call
		kind string
		li   int
	}
	var muts []mut
	for _, fn := range funcs {
		core.EachInstr(fn, func(_ *ssa.BasicBlock, _ int, in ssa.Instruction) {
			c, ok := in.(*ssa.Call)
			if !ok {
				return
			}
			n := core.CalleeName(&c.Call)
			if !strings.HasPrefix(n, psT) || len(c.Call.Args) == 0 {
				return
			}
			k := strings.TrimPrefix(n, psT)
			if k != "Add" && k != "AddBatch" && k != "Remove" {
				return
			}
			if li := listIndex(c.Call.Args[0]); li >= 0 {
				muts = append(muts, mut{fn, c, k, li})
			}
		})
	}
	r.Floor("C38.W1", "Add/Remove calls on the three group lists", len(muts), 6)
	allowed := map[string]bool{"pkg/multicast.(*Group).add": true, "pkg/multicast.(*Group).remove": true, "pkg/multicast.(*Group).pruneKnown": true}
	byFn := map[*ssa.Function][]mut{}
	var order []*ssa.Function
	for _, m := range muts {
		if _, ok := byFn[m.fn]; !ok {
			order = append(order, m.fn)
		}
		byFn[m.fn] = append(byFn[m.fn], m)
	}
	la := core.NewLockAnalysis(w, "pkg/multicast")
	la.Run()
	for _, fn := range order {
		r.Saw(core.FuncName(fn))
		r.Eval(core.EdgeCount(fn))
		name := core.FuncName(fn)
		r.Check("C38.W1", core.Key("C38.W1", fn, "mutates group lists"), fn.Pos(), allowed[name],
			"group membership lists are mutated only by Group.add / remove / pruneKnown", name+" calls Add/Remove on a group list outside the functions covered by the partition proof")
		// adds concern the peer parameter
		var x ssa.Value
		if len(fn.Params) > 1 {
			x = fn.Params[1]
		}
		okArg := true
		lockOK := true
		var firstBad ssa.Instruction
		for _, m := range byFn[fn] {
			if m.kind != "Remove" {
				// Add is variadic: exactly one element, the peer parameter
				el := []ssa.Value{}
				if len(m.in.Call.Args) >= 2 {
					el = variadicElems(m.in.Call.Args[1])
				}
				if len(el) != 1 || el[0] != x {
					okArg = false
				}
			}
			if h := la.HeldAt(m.in); h == nil || !h.Holds(groupT+".mux", true) {
				lockOK = false
				if firstBad == nil {
					firstBad = m.in
				}
			}
		}
		r.Check("C38.W1", core.Key("C38.W1", fn, "adds concern the peer argument"), fn.Pos(), okArg,
			"every Add in the function adds the function's own peer argument", "a list Add uses a value other than the peer parameter: the partition proof does not cover it")
		pos := fn.Pos()
		if firstBad != nil {
			pos = firstBad.Pos()
		}
		r.Check("C38.Lk1", core.Key("C38.Lk1", fn, "mutations under mux"), pos, lockOK,
			"list mutations run with Group.mux held for writing", "a list mutation happens without Group.mux write-held")
		if x != nil {
			ok, why, exits := partitionCheck(fn, x)
			r.Check("C38.Z1", core.Key("C38.Z1", fn, "partition at exits"), fn.Pos(), ok && exits > 0,
				"at every exit a peer that may have been added to one list is established absent from the other two", why)
		} else {
			// no peer parameter: only removals are allowed
			onlyRemove := true
			for _, m := range byFn[fn] {
				if m.kind != "Remove" {
					onlyRemove = false
				}
			}
			r.Check("C38.Z1", core.Key("C38.Z1", fn, "only removals"), fn.Pos(), onlyRemove,
				"a function without a peer argument only removes from lists (which preserves the partition)", "a function without a peer argument adds to a group list")
		}
	}
	// list reassignments install fresh lists
	for _, fn := range funcs {
		for _, ln := range groupLists {
			for _, st := range fieldStores(fn, groupT, ln) {
				c, _ := core.CallOf(st.Val)
				r.Check("C38.W1", core.Key("C38.W1", fn, "reassign "+ln), st.Pos(), c != nil && core.IsCallTo(c, "pkg/topology/pslice.New"),
					"a group list is only ever replaced by a fresh empty list", "a group list is assigned something else than pslice.New(...)")
			}
		}
	}

	// G1 neighbour guard
	if add := w.Func("pkg/multicast", "(*Group).add"); add == nil {
		r.Fatal("unresolved anchor pkg/multicast.(*Group).add")
	} else {
		nb, _ := core.AtomEdges(add, core.BoolCallAtom(func(c *ssa.Call) bool {
			return strings.HasSuffix(core.CalleeName(&c.Call), ".IsNeighbor") && len(core.CallArgs(&c.Call)) > 1 && core.CallArgs(&c.Call)[1] == ssa.Value(add.Params[1])
		}))
		n := 0
		for _, m := range byFn[add] {
			if m.kind == "Add" && m.li == 0 {
				n++
				r.Check("C38.G1", core.Key("C38.G1", add, "connected only if neighbour"), m.in.Pos(), len(nb) > 0 && core.OnlyBehind(add, m.in, nb),
					"a peer is listed as connected only when the routing layer reports it as a direct neighbour", "connectedPeers.Add is reachable without route.IsNeighbor(peer) being true")
			}
		}
		r.Floor("C38.G1", "connectedPeers.Add sites", n, 1)
	}

	// F2: a disconnected peer is swept out of the connected/kept lists of EVERY group: the
	// peer-state handler must call Group.remove for the groups returned by getGroupAll —
	// any narrower index (per-peer group registrations) misses peers that joined a group
	// through another path (notify/observe), which then stay "connected" although they are
	// no longer neighbours.
	if start := w.Func("pkg/multicast", "(*Service).Start"); start == nil {
		r.Fatal("unresolved anchor pkg/multicast.(*Service).Start")
	} else {
		n := 0
		for _, fn := range core.WithClosures(start) {
			for _, c := range core.Calls(fn, "(*pkg/multicast.Group).remove") {
				args := core.Common(c).Args
				fromEvent := core.DerivesFrom(args[1], func(x ssa.Value) bool {
					return strings.HasSuffix(core.TypeName(x.Type()), "p2p.PeerInfo")
				}, nil)
				if !fromEvent {
					continue
				}
				n++
				r.Saw(core.FuncName(fn))
				r.Eval(core.EdgeCount(fn))
				all := core.DerivesFrom(args[0], func(x ssa.Value) bool {
					cc, _ := core.CallOf(x)
					return cc != nil && core.IsCallTo(cc, "(*pkg/multicast.Service).getGroupAll")
				}, nil)
				r.Check("C38.F2", lsKey("C38.F2", fn, "disconnect sweeps every group"), c.Pos(), all,
					"when a peer disconnects it is removed from the connected/kept lists of every group", "the disconnect handler removes the peer only from a subset of the groups (not the result of getGroupAll): a peer that entered a group by another path stays listed as connected after it is gone")
			}
		}
		r.Floor("C38.F2", "Group.remove calls driven by peer-state events", n, 1)
	}

	// G2 de-duplication
	for _, row := range []struct{ fn, prefix string }{{"(*Service).Multicast", "Multicast_"}, {"(*Service).onMulticast", "onMulticast_"}} {
		fn := w.Func("pkg/multicast", row.fn)
		if fn == nil {
			r.Fatal("unresolved anchor pkg/multicast.%s", row.fn)
			continue
		}
		r.Saw(core.FuncName(fn))
		r.Eval(core.EdgeCount(fn))
		var set *ssa.Call
		core.EachInstr(fn, func(_ *ssa.BasicBlock, _ int, in ssa.Instruction) {
			if c, ok := in.(*ssa.Call); ok && strings.HasSuffix(core.CalleeName(&c.Call), ".SetIfNotExist") {
				set = c
			}
		})
		if set == nil {
			r.Check("C38.G2", core.Key("C38.G2", fn, "SetIfNotExist present"), fn.Pos(), false, "messages are de-duplicated", "no SetIfNotExist call in "+row.fn)
			continue
		}
		fresh, _ := core.AtomEdges(fn, func(base ssa.Value) (bool, bool) {
			if c, idx := core.CallOf(base); c == set && idx == 0 {
				return true, true
			}
			return false, false
		})
		// key provenance: Sprintf(prefix…, origin, info.Id)
		args := core.CallArgs(&set.Call)
		var key ssa.Value
		for _, a := range args {
			if core.Strip(a).Type().String() == "string" {
				key = core.Strip(a)
			}
		}
		okKey := false
		if kc, _ := core.CallOf(key); kc != nil && core.IsCallTo(kc, "fmt.Sprintf") {
			el := variadicElems(kc.Call.Args[1])
			if len(el) == 2 {
				o := core.Strip(el[0])
				oc, _ := core.CallOf(o)
				okO := oc != nil && core.IsCallTo(oc, "pkg/boson.NewAddress")
				if okO {
					fr, ok := core.AsField(core.Forward(oc.Call.Args[0]))
					okO = ok && fr.Name == "Origin"
				}
				fr, ok := core.AsField(core.Forward(core.Strip(el[1])))
				okKey = okO && ok && fr.Name == "Id"
			}
			if f, ok := kc.Call.Args[0].(*ssa.Const); !ok || !strings.HasPrefix(strings.Trim(f.Value.ExactString(), "\""), row.prefix) {
				okKey = false
			}
		}
		r.Check("C38.G2", core.Key("C38.G2", fn, "dedupe key = (origin, id)"), set.Pos(), okKey,
			"the de-duplication key is built from the message origin and id", "the SetIfNotExist key is not Sprintf(\""+row.prefix+"%s_%d\", origin, info.Id)")
		n := 0
		core.EachInstr(fn, func(_ *ssa.BasicBlock, _ int, in ssa.Instruction) {
			c := core.Common(in)
			if c == nil {
				return
			}
			name := core.CalleeName(c)
			isSink := false
			for _, s := range []string{"(*pkg/multicast.Group).multicast", "(*pkg/multicast.Service).sendData", "(*pkg/multicast.Group).notifyMulticast", "(*pkg/multicast.Service).Multicast", "(*pkg/multicast.Service).notifyLogContent"} {
				if name == s {
					isSink = true
				}
			}
			if !isSink {
				return
			}
			n++
			r.Check("C38.G2", core.Key("C38.G2", fn, "deliver/forward behind first-seen: "+strings.TrimPrefix(name, "(*pkg/multicast.")), in.Pos(), len(fresh) > 0 && core.OnlyBehind(fn, in, fresh),
				"delivery and forwarding happen only for a message seen for the first time", "a delivery/forward call is reachable although SetIfNotExist reported the message as already seen")
		})
		r.Floor("C38.G2", "deliver/forward sinks in "+row.fn, n, 3)
	}
	deleteAtIndexLint(r, "C38.L1", "a peer that should leave a group list (or a forward target that should be dropped) stays when it directly follows another removed entry", "pkg/multicast")
}
