package props

import (
	"go/token"

	"aurora-verif/checker/core"

	"golang.org/x/tools/go/ssa"
)

// bigCmpAtom builds the atom "a REL b" for *big.Int values compared with
// a.Cmp(b) <op> 0 (or b.Cmp(a) <op'> 0), in any spelling.
func bigCmpAtom(isA, isB func(ssa.Value) bool, rel string) core.Atom {
	return func(base ssa.Value) (bool, bool) {
		bin, ok := base.(*ssa.BinOp)
		if !ok {
			return false, false
		}
		op := bin.Op
		x, y := bin.X, bin.Y
		if c, ok := core.ConstInt(x); ok && c == 0 {
			x, y = y, x
			op = flipOp(op)
		}
		if c, ok := core.ConstInt(y); !ok || c != 0 {
			return false, false
		}
		call, ok := core.Forward(x).(*ssa.Call)
		if !ok || !core.IsCallTo(call, "(*math/big.Int).Cmp") {
			return false, false
		}
		recv, arg := call.Call.Args[0], call.Call.Args[1]
		m := func(f func(ssa.Value) bool, v ssa.Value) bool { return f(v) || f(core.Forward(v)) }
		if m(isA, recv) && m(isB, arg) {
			return relHolds(op, rel)
		}
		if m(isB, recv) && m(isA, arg) {
			return relHolds(flipOp(op), rel)
		}
		return false, false
	}
}

// mustPassFrom reports whether every path from the start blocks to a Return passes an
// instruction satisfying pred.
func mustPassFrom(start []*ssa.BasicBlock, pred func(ssa.Instruction) bool) bool {
	seen := map[*ssa.BasicBlock]bool{}
	work := append([]*ssa.BasicBlock{}, start...)
	for _, s := range start {
		seen[s] = true
	}
	for len(work) > 0 {
		b := work[len(work)-1]
		work = work[:len(work)-1]
		hit := false
		for _, in := range b.Instrs {
			if pred(in) {
				hit = true
				break
			}
		}
		if hit {
			continue
		}
		if _, isRet := b.Instrs[len(b.Instrs)-1].(*ssa.Return); isRet {
			return false
		}
		for _, s := range b.Succs {
			if !seen[s] {
				seen[s] = true
				work = append(work, s)
			}
		}
	}
	return true
}

func edgeTargets(es core.EdgeSet) []*ssa.BasicBlock {
	var out []*ssa.BasicBlock
	for e := range es {
		out = append(out, e.To)
	}
	return out
}

// loadsField: v (forwarded) is a load of structName.field.
func loadsField(structName, field string) func(ssa.Value) bool {
	return func(v ssa.Value) bool {
		if _, ok := v.(*ssa.UnOp); !ok {
			return false
		}
		fr, ok := core.AsField(v)
		return ok && !fr.Addr && fr.Struct == structName && fr.Name == field
	}
}

func isParam(p *ssa.Parameter) func(ssa.Value) bool {
	return func(v ssa.Value) bool { return v == ssa.Value(p) }
}

func resultOfCall(names ...string) func(ssa.Value) bool {
	return func(v ssa.Value) bool {
		c, _ := core.CallOf(v)
		return c != nil && core.IsCallTo(c, names...)
	}
}

var _ = token.ADD
