package props

import (
	"go/token"

	"aurora-verif/checker/core"

	"golang.org/x/tools/go/ssa"
)

// bigCmpAtom builds the atom "a REL b" for *big.Int values compared with
// a.Cmp(b) <op> 0 (or b.Cmp(a) <op'> 0), in any spelling.
func bigCmpAtom(isA, isB func(ssa.Value) bool, rel string) core.Atom {
	return func(base ssa.Value) (bool, bool) {
		bin, ok := base.(*ssa.BinOp)
		if !ok {
			return false, false
		}
		op := bin.Op
		x, y := bin.X, bin.Y
		if c, ok := core.ConstInt(x); ok && c == 0 {
			x, y = y, x
			op = flipOp(op)
		}
		if c, ok := core.ConstInt(y); !ok || c != 0 {
			return false, false
		}
		call, ok := core.Forward(x).(*ssa.Call)
		if !ok || !core.IsCallTo(call, "(*math/big.Int).Cmp") {
			return false, false
		}
		recv, arg := call.Call.Args[0], call.Call.Args[1]
		m := func(f func(ssa.Value) bool, v ssa.Value) bool { return f(v) || f(core.Forward(v)) }
		if m(isA, recv) && m(isB, arg) {
			return relHolds(op, rel)
		}
		if m(isB, recv) && m(isA, arg) {
			return relHolds(flipOp(op), rel)
		}
		return false, false
	}
}

// mustPassFrom reports whether every path from the start blocks to a Return passes an
// instruction satisfying pred.
func mustPassFrom(start []*ssa.BasicBlock, pred func(ssa.Instruction) bool) bool {
	seen := map[*ssa.BasicBlock]bool{}
	work := append([]*ssa.BasicBlock{}, start...)
	for _, s := range start {
		seen[s] = true
	}
	for len(work) > 0 {
		b := work[len(work)-1]
		work = work[:len(work)-1]
		hit := false
		for _, in := range b.Instrs {
			if pred(in) {
				hit = true
				break
			}
		}
		if hit {
			continue
		}
		if _, isRet := b.Instrs[len(b.Instrs)-1].(*ssa.Return); isRet {
			return false
		}
		for _, s := range b.Succs {
			if !seen[s] {
				seen[s] = true
				work = append(work, s)
			}
		}
	}
	return true
}

func edgeTargets(es core.EdgeSet) []*ssa.BasicBlock {
	var out []*ssa.BasicBlock
	for e := range es {
		out = append(out, e.To)
	}
	return out
}

// loadsField: v (forwarded) is a load of structName.field.
func loadsField(structName, field string) func(ssa.Value) bool {
	return func(v ssa.Value) bool {
		if _, ok := v.(*ssa.UnOp); !ok {
			return false
		}
		fr, ok := core.AsField(v)
		return ok && !fr.Addr && fr.Struct == structName && fr.Name == field
	}
}

func isParam(p *ssa.Parameter) func(ssa.Value) bool {
	return func(v ssa.Value) bool { return v == ssa.Value(p) }
}

func resultOfCall(names ...string) func(ssa.Value) bool {
	return func(v ssa.Value) bool {
		c, _ := core.CallOf(v)
		return c != nil && core.IsCallTo(c, names...)
	}
}

var _ = token.ADD

// variadicElems returns the elements of a variadic argument built in place
// (`f(a, b)` for `f(xs ...T)`): go/ssa allocates an array, stores each element, slices it.
func variadicElems(v ssa.Value) []ssa.Value {
	sl, ok := v.(*ssa.Slice)
	if !ok {
		return nil
	}
	arr, ok := sl.X.(*ssa.Alloc)
	if !ok {
		return nil
	}
	elems := map[int64]ssa.Value{}
	max := int64(-1)
	for _, u := range core.Uses(arr) {
		ia, ok := u.(*ssa.IndexAddr)
		if !ok {
			continue
		}
		idx, ok := core.ConstInt(ia.Index)
		if !ok {
			return nil
		}
		for _, uu := range core.Uses(ia) {
			if st, ok := uu.(*ssa.Store); ok && st.Addr == ssa.Value(ia) {
				elems[idx] = st.Val
				if idx > max {
					max = idx
				}
			}
		}
	}
	out := make([]ssa.Value, max+1)
	for i := range out {
		out[i] = elems[int64(i)]
	}
	return out
}

// callChain: v == fN(...f1(x)) for the named single-argument (or receiver-only) callees,
// outermost first; returns x.
func callChain(v ssa.Value, names ...string) (ssa.Value, bool) {
	for _, n := range names {
		c, _ := core.CallOf(v)
		if c == nil || !core.IsCallTo(c, n) {
			return nil, false
		}
		args := core.CallArgs(&c.Call)
		if len(args) == 0 {
			return nil, false
		}
		v = args[0]
	}
	return v, true
}
