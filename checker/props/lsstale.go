package props

import (
	"fmt"

	"aurora-verif/checker/core"

	"golang.org/x/tools/go/ssa"
)

// staleDataIndexRead (B2): "putting several chunks in one call has the same effect as putting
// them one at a time". Index reads go to the committed state, never to the batch being
// built. Inside the per-chunk loop of put the data index is staged for the current chunk;
// a helper that, in the same loop, reads the data index under a key that does not change
// with the loop (the file's root) reads stale state whenever that key was staged by an
// earlier iteration of the same call: Put(ctx(root R), ModePutRequest, R, A) stages R, then
// for A looks R up in the committed data index, finds nothing and fails, where R then A one
// at a time succeeds.
func staleDataIndexRead(r *core.Run, rule string) {
	w := r.W
	funcs := w.PkgFuncs(lsPkg)
	const field = "retrievalDataIndex"
	type rd struct {
		param int
		get   *ssa.Call
		in    *ssa.Function
	}
	sum := map[*ssa.Function][]rd{}
	for _, fn := range funcs {
		for _, g := range lsIndexCalls([]*ssa.Function{fn}) {
			if g.field != field || (g.method != "Get" && g.method != "Has") || len(g.in.Call.Args) < 2 {
				continue
			}
			for pi, p := range fn.Params {
				p := p
				if core.DerivesFrom(g.in.Call.Args[1], func(x ssa.Value) bool { return x == ssa.Value(p) }, lsPure) {
					sum[fn] = append(sum[fn], rd{pi, g.in, fn})
				}
			}
		}
	}
	for iter := 0; iter < 4; iter++ {
		for _, fn := range funcs {
			core.EachInstr(fn, func(_ *ssa.BasicBlock, _ int, in ssa.Instruction) {
				c, ok := in.(*ssa.Call)
				if !ok {
					return
				}
				for _, s := range sum[c.Call.StaticCallee()] {
					if s.param >= len(c.Call.Args) {
						continue
					}
					for pi, p := range fn.Params {
						p := p
						if !core.DerivesFrom(c.Call.Args[s.param], func(x ssa.Value) bool { return x == ssa.Value(p) }, lsPure) {
							continue
						}
						dupe := false
						for _, e := range sum[fn] {
							if e.param == pi && e.get == s.get {
								dupe = true
							}
						}
						if !dupe {
							sum[fn] = append(sum[fn], rd{pi, s.get, s.in})
						}
					}
				}
			})
		}
	}
	put := lsFunc(r, "(*DB).put")
	if put == nil {
		return
	}
	// does the loop stage the data index at all?
	stages := func(f *ssa.Function) bool {
		for g := range lsReach(w, f) {
			for _, ic := range lsIndexCalls([]*ssa.Function{g}) {
				if ic.field == field && ic.method == "PutInBatch" {
					return true
				}
			}
		}
		return false
	}
	n := 0
	seen := map[string]bool{}
	core.EachInstr(put, func(_ *ssa.BasicBlock, _ int, in ssa.Instruction) {
		c, ok := in.(*ssa.Call)
		if !ok {
			return
		}
		callee := c.Call.StaticCallee()
		h := loopHeader(put, c.Block())
		if callee == nil || h == nil || len(sum[callee]) == 0 || !stages(callee) {
			return
		}
		for _, s := range sum[callee] {
			if s.param >= len(c.Call.Args) {
				continue
			}
			n++
			inv := loopInvariant(put, c.Call.Args[s.param], h, 0)
			if inv && committedElsewhere(s.in, s.get) {
				// the read happens only after another index was found to hold a committed
				// entry under the same key: the key was not first staged by this call
				inv = false
			}
			key := lsKey(rule, s.in, fmt.Sprintf("%s.%s of a per-call key read from committed state (via %s)", field, core.CalleeName(&s.get.Call)[len(core.CalleeName(&s.get.Call))-3:], callee.Name()))
			if seen[key] && !inv {
				continue
			}
			seen[key] = true
			r.Check(rule, key, s.get.Pos(), !inv,
				"inside put's per-chunk loop the data index is read only under the current chunk's key", core.FuncName(s.in)+" reads "+field+" from committed state under a key that is the same for every chunk of the call (handed down from put through "+callee.Name()+"), while the same loop stages "+field+" entries: when that key was staged by an earlier chunk of the call the read misses it")
		}
	})
	r.Floor(rule, "data-index reads reachable from put's per-chunk loop, keyed by an argument", n, 2)
}

// committedElsewhere: get is reachable only behind the success (err == nil) of an earlier
// committed-state Get on another index of the store under the same key argument.
func committedElsewhere(fn *ssa.Function, get *ssa.Call) bool {
	if len(get.Call.Args) < 2 {
		return false
	}
	var keyParam *ssa.Parameter
	for _, p := range fn.Params {
		p := p
		if core.DerivesFrom(get.Call.Args[1], func(x ssa.Value) bool { return x == ssa.Value(p) }, lsPure) {
			keyParam = p
		}
	}
	if keyParam == nil {
		return false
	}
	others := map[*ssa.Call]bool{}
	for _, ic := range lsIndexCalls([]*ssa.Function{fn}) {
		if ic.in != get && ic.method == "Get" && len(ic.in.Call.Args) >= 2 &&
			core.DerivesFrom(ic.in.Call.Args[1], func(x ssa.Value) bool { return x == ssa.Value(keyParam) }, lsPure) {
			others[ic.in] = true
		}
	}
	found, _ := core.AtomEdges(fn, core.ErrNilAtom(func(c *ssa.Call) bool { return others[c] }))
	return len(found) > 0 && core.OnlyBehind(fn, get, found)
}
