package props

import (
	"golang.org/x/tools/go/ssa"

	"aurora-verif/checker/core"
)

// freeVarBinding returns what the enclosing function binds to free variable fv of closure cl
// (the captured cell), or nil.
func freeVarBinding(cl *ssa.Function, fv *ssa.FreeVar) ssa.Value {
	parent := cl.Parent()
	if parent == nil {
		return nil
	}
	idx := -1
	for i, f := range cl.FreeVars {
		if f == fv {
			idx = i
		}
	}
	if idx < 0 {
		return nil
	}
	var out ssa.Value
	core.EachInstr(parent, func(_ *ssa.BasicBlock, _ int, in ssa.Instruction) {
		if m, ok := in.(*ssa.MakeClosure); ok && m.Fn == ssa.Value(cl) && idx < len(m.Bindings) {
			out = m.Bindings[idx]
		}
	})
	if out == nil {
		return nil
	}
	// a closure nested in a closure: the binding is itself a free variable of the parent
	if pfv, ok := out.(*ssa.FreeVar); ok {
		if b := freeVarBinding(parent, pfv); b != nil {
			return b
		}
	}
	return out
}

// resultCell returns the cell of the idx-th (named) result of fn: the Alloc whose load is
// returned at fn's Return instructions; nil if the result is not a named, spilled result.
func resultCell(fn *ssa.Function, idx int) ssa.Value {
	var cell ssa.Value
	core.EachInstr(fn, func(_ *ssa.BasicBlock, _ int, in ssa.Instruction) {
		ret, ok := in.(*ssa.Return)
		if !ok || idx >= len(ret.Results) {
			return
		}
		if p, ok := core.LoadedFrom(ret.Results[idx]); ok {
			if _, isAlloc := p.(*ssa.Alloc); isAlloc {
				cell = p
			}
		}
	})
	return cell
}

// isErrResultOf: free variable fv of closure cl is bound to the named error result (the last
// result) of the function that creates cl.
func isErrResultOf(cl *ssa.Function, fv *ssa.FreeVar) bool {
	root := cl.Parent()
	for root != nil && root.Parent() != nil {
		root = root.Parent()
	}
	if root == nil {
		return false
	}
	n := root.Signature.Results().Len()
	if n == 0 {
		return false
	}
	b := freeVarBinding(cl, fv)
	return b != nil && b == resultCell(root, n-1)
}
