package props

import (
	"strings"

	"aurora-verif/checker/core"

	"golang.org/x/tools/go/ssa"
)

// c38Dedup: the de-duplication step of Multicast / onMulticast.
//
// (Lk2) gcache's SetIfNotExist is Contains() followed by Set(): two copies of one message
// arriving on two streams at the same moment both see "not contained" and both are
// delivered and flooded. Every SetIfNotExist call of pkg/multicast is therefore made with a
// mutex of the multicast service held for writing, which makes the test-and-set atomic.
//
// (P2) the lifetime of the de-duplication entry is the package's own window constant; it
// does not derive from a field of the (peer-supplied) message — a window anchored to the
// sender's CreateTime is zero for a message that is a minute old, every copy of it is then
// delivered.
func c38Dedup(r *core.Run) {
	const pkg = "pkg/multicast"
	la := core.NewLockAnalysis(r.W, pkg)
	la.Run()
	n := 0
	done := map[*ssa.Function]bool{}
	for _, top := range r.W.PkgFuncs(pkg) {
		for _, fn := range core.WithClosures(top) {
			if done[fn] {
				continue
			}
			done[fn] = true
			core.EachInstr(fn, func(_ *ssa.BasicBlock, _ int, in ssa.Instruction) {
				c, ok := in.(*ssa.Call)
				if !ok || !strings.HasSuffix(core.CalleeName(&c.Call), ".SetIfNotExist") {
					return
				}
				n++
				held := la.HeldAt(c)
				okLock := false
				for k := range held {
					if strings.Contains(k, pkg+".") && strings.HasSuffix(k, "/W") {
						okLock = true
					}
				}
				r.Saw(core.FuncName(fn))
				r.Check("C38.Lk2", lsKey("C38.Lk2", fn, "de-duplication test-and-set under a lock of the service"), c.Pos(), okLock,
					"the first-seen test and the recording of a message are one critical section", "SetIfNotExist (Contains + Set in the cache library, not atomic) is called without a lock of the multicast service (held: "+held.String()+"): two copies of a message arriving at the same moment are both delivered to the subscribers and flooded")
				args := core.CallArgs(&c.Call)
				dur := core.Forward(args[len(args)-1])
				okDur := false
				if _, isC := dur.(*ssa.Const); isC {
					okDur = true
				} else if p, ok := core.LoadedFrom(dur); ok {
					_, okDur = p.(*ssa.Global)
				}
				r.Check("C38.P2", lsKey("C38.P2", fn, "de-duplication window is the package constant"), c.Pos(), okDur,
					"a message is remembered for the package's fixed window from its first receipt", "the lifetime of the de-duplication entry is computed (from the message's CreateTime?) instead of being the fixed window: an old or delayed message gets a zero or tiny window and every copy of it is delivered")
			})
		}
	}
	r.Floor("C38.Lk2", "SetIfNotExist calls in pkg/multicast", n, 2)
}
