package props

import (
	"aurora-verif/checker/core"

	"golang.org/x/tools/go/ssa"
)

// c36DecodeTotal (I2): "asking again returns the same key rather than creating a new one".
// ImportKey moves the stored key file to a backup before it decrypts the JSON it was given
// and restores it when that returns an error — a panic inside the decryption skips the
// restore (the HTTP server recovers the panic), the key file stays renamed away and the
// next Key() creates a new identity. The fields of a key file are the importer's input, so
// decryption must fail with an error, never panic: in pkg/keystore/file
//   - every slicing of a KDF-derived key (scrypt.Key result, length = the file's dklen) is
//     proven within its length (interval analysis + dominating len guards);
//   - every cipher.NewCTR(block, iv) call (panics unless len(iv) == BlockSize) lies behind a
//     comparison of len(iv) with the block size.
func c36DecodeTotal(r *core.Run) {
	const rule = "C36.I2"
	funcs := r.W.PkgFuncs("pkg/keystore/file")
	if len(funcs) == 0 {
		r.Fatal("unresolved anchor package pkg/keystore/file")
		return
	}
	nSl, nCtr := 0, 0
	for _, fn := range funcs {
		// values that hold a derived key: results of scrypt.Key or of package functions
		// returning one (getKDFKey)
		isKDF := func(v ssa.Value) bool {
			return core.DerivesFrom(v, func(x ssa.Value) bool {
				c, _ := core.CallOf(x)
				if c == nil {
					return false
				}
				n := core.CalleeName(&c.Call)
				return n == "golang.org/x/crypto/scrypt.Key" || n == "pkg/keystore/file.getKDFKey"
			}, nil)
		}
		var ia *core.IA
		core.EachInstr(fn, func(_ *ssa.BasicBlock, _ int, in ssa.Instruction) {
			switch x := in.(type) {
			case *ssa.Slice:
				if !isKDF(x.X) {
					return
				}
				if ia == nil {
					ia = core.Intervals(fn)
					r.Saw(core.FuncName(fn))
					r.Eval(core.EdgeCount(fn))
				}
				nSl++
				ok, why := sliceGuarded(fn, ia, x)
				if !ok {
					// scrypt.Key(…, K) with a constant K returns exactly K bytes
					if c, _ := core.CallOf(core.Forward(core.Strip(x.X))); c != nil && core.CalleeName(&c.Call) == "golang.org/x/crypto/scrypt.Key" {
						if k, isC := core.ConstInt(c.Call.Args[5]); isC {
							hi, hasHi := int64(0), false
							if x.High != nil {
								hi, hasHi = core.ConstInt(x.High)
							} else if x.Low != nil {
								hi, hasHi = core.ConstInt(x.Low)
							}
							if hasHi && hi <= k {
								ok = true
							}
						}
					}
				}
				r.Check(rule, lsKey(rule, fn, "derived key sliced within its length"), x.Pos(), ok,
					"the KDF-derived key is sliced only within its proven length", "the derived key's length is the key file's dklen (importer's input) and "+why+": a key file with dklen < 32 makes the import panic after the stored key was moved to its backup — the restore is skipped and the next Key() creates a new key")
			case *ssa.Call:
				if !core.IsCallTo(x, "crypto/cipher.NewCTR") {
					return
				}
				nCtr++
				r.Saw(core.FuncName(fn))
				iv := x.Call.Args[1]
				isBS := func(y ssa.Value) bool {
					if k, isC := core.ConstInt(y); isC && k == 16 {
						return true
					}
					c, _ := core.CallOf(y)
					return c != nil && c.Call.IsInvoke() && c.Call.Method.Name() == "BlockSize"
				}
				okLen, _ := core.AtomEdges(fn, lenOfAtom(iv, isBS, "=="))
				r.Check(rule, lsKey(rule, fn, "IV length tested before NewCTR"), x.Pos(), len(okLen) > 0 && core.OnlyBehind(fn, x, okLen),
					"cipher.NewCTR is reached only behind len(iv) == block size", "cipher.NewCTR panics unless len(iv) equals the block size, and the IV comes from the key file (not covered by the MAC): an import with cipherparams.iv of another length panics after the stored key was moved to its backup — the restore is skipped and the next Key() creates a new key")
			}
		})
	}
	r.Floor(rule, "slicings of a derived key in pkg/keystore/file", nSl, 4)
	r.Floor(rule, "cipher.NewCTR calls in pkg/keystore/file", nCtr, 1)
}
