package props

import (
	"aurora-verif/checker/core"

	"golang.org/x/tools/go/ssa"
)

func init() {
	reg("C32", Meta{
		Technique:   "lockset (guarded-by) analysis over pkg/accounting + guard/bad-edge reachability on Debit, Credit, NotifyPayment + no-in-place-mutation rule for the shared big.Int",
		Explanation: "C32 (per-peer debt), structural clauses: (Lk1) every access to accountingPeer.unPaidTraffic happens with that peer's lock held and every access to Accounting.accountingPeers with accountingPeersMu held (all goroutine interleavings at once); (M1) the *big.Int stored in unPaidTraffic is never mutated in place (no mutator method on a value loaded from the field), so a pointer read under the lock stays a consistent snapshot; (G1) Debit records served traffic only behind tolerance > unsettled traffic; (G2) in Credit, on the branch where the updated unpaid balance has reached the threshold every path sends a payment request, and the compared value is loaded after the update; (G3) NotifyPayment subtracts only when unpaid >= payment, otherwise stores zero. Not decided: the balance arithmetic itself (credits minus payments).",
	}, c32)
}

var bigMutators = map[string]bool{}

func init() {
	for _, m := range []string{"Add", "Sub", "Mul", "Quo", "Rem", "Div", "Mod", "Set", "SetInt64", "SetUint64", "SetBytes", "SetString", "Neg", "Abs", "Lsh", "Rsh", "Exp", "And", "Or", "Xor", "Not", "SetBit", "DivMod", "QuoRem", "Sqrt", "GCD", "ModInverse", "SetBits", "AndNot", "ModSqrt", "Rand", "Binomial", "MulRange", "SetFrac", "UnmarshalJSON", "UnmarshalText", "GobDecode", "Scan"} {
		bigMutators["(*math/big.Int)."+m] = true
	}
}

// inPlaceMutations lists calls of a big.Int mutator whose receiver is (a forward of) a load
// of structName.field — for any of the given fields.
func inPlaceMutations(funcs []*ssa.Function, structName string, fields map[string]bool) []ssa.Instruction {
	var out []ssa.Instruction
	for _, fn := range funcs {
		core.EachInstr(fn, func(_ *ssa.BasicBlock, _ int, in ssa.Instruction) {
			c := core.Common(in)
			if c == nil || !bigMutators[core.CalleeName(c)] || len(c.Args) == 0 {
				return
			}
			recv := core.Forward(c.Args[0])
			if fr, ok := core.AsField(recv); ok && !fr.Addr && fr.Struct == structName && fields[fr.Name] {
				out = append(out, in)
			}
		})
	}
	return out
}

func c32(r *core.Run) {
	c32OneRecordPerPeer(r)
	w := r.W
	const AP = "pkg/accounting.accountingPeer"
	const AC = "pkg/accounting.Accounting"
	la := core.NewLockAnalysis(w, "pkg/accounting")
	la.Run()
	n1 := la.CheckGuarded(r, "C32.Lk1", AP, "unPaidTraffic", AP+".lock", nil)
	r.Floor("C32.Lk1", "accesses to accountingPeer.unPaidTraffic", n1, 3)
	n2 := la.CheckGuarded(r, "C32.Lk1", AC, "accountingPeers", AC+".accountingPeersMu", nil)
	r.Floor("C32.Lk1", "accesses to Accounting.accountingPeers", n2, 2)

	muts := inPlaceMutations(la.Funcs(), AP, map[string]bool{"unPaidTraffic": true})
	pos := w.Func("pkg/accounting", "(*Accounting).Credit")
	if pos == nil {
		r.Fatal("unresolved anchor pkg/accounting.(*Accounting).Credit")
		return
	}
	mp := pos.Pos()
	if len(muts) > 0 {
		mp = muts[0].Pos()
	}
	r.Check("C32.M1", "C32.M1@pkg/accounting#unPaidTraffic mutated in place", mp, len(muts) == 0,
		"the big.Int held in unPaidTraffic is replaced, never mutated in place", "a big.Int mutator is called on the object stored in unPaidTraffic: readers holding the pointer see it change without the lock")

	// G1 Debit
	if fn := w.Func("pkg/accounting", "(*Accounting).Debit"); fn == nil {
		r.Fatal("unresolved anchor pkg/accounting.(*Accounting).Debit")
	} else {
		r.Saw(core.FuncName(fn))
		r.Eval(core.EdgeCount(fn))
		sinks := core.Calls(fn, "(pkg/settlement.Interface).PutTransferTraffic")
		r.Floor("C32.G1", "PutTransferTraffic calls in Debit", len(sinks), 1)
		good, _ := core.AtomEdges(fn, bigCmpAtom(loadsField(AC, "paymentTolerance"), resultOfCall("(pkg/settlement.Interface).TransferTraffic"), ">"))
		for _, s := range sinks {
			r.Check("C32.G1", core.Key("C32.G1", fn, "record behind tolerance > unsettled"), s.Pos(), len(good) > 0 && core.OnlyBehind(fn, s, good),
				"served traffic is recorded only when the peer's unsettled traffic is below the tolerance", "a path records served traffic without the tolerance refusal")
		}
		// Lk2: the read that decides the refusal and the record are one critical section
		// of the peer's lock — two overlapping requests must not both pass the test
		reads := core.Calls(fn, "(pkg/settlement.Interface).TransferTraffic")
		r.Floor("C32.Lk2", "TransferTraffic reads in Debit", len(reads), 1)
		for _, c := range append(append([]ssa.Instruction{}, reads...), sinks...) {
			h := la.HeldAt(c)
			r.Check("C32.Lk2", lsKey("C32.Lk2", fn, core.CalleeName(core.Common(c))+" under the peer lock"), c.Pos(), h != nil && h.Holds(AP+".lock", true),
				"Debit reads the peer's unsettled traffic and records the new traffic while holding the peer's lock", "the tolerance test and the record are not one critical section of accountingPeer.lock (held: "+la.HeldAt(c).String()+"): two overlapping requests both pass the test and both are recorded")
		}
	}

	// G2 Credit
	if fn := w.Func("pkg/accounting", "(*Accounting).Credit"); fn != nil {
		r.Saw(core.FuncName(fn))
		r.Eval(core.EdgeCount(fn))
		stores := fieldStores(fn, AP, "unPaidTraffic")
		r.Floor("C32.G2", "updates of unPaidTraffic in Credit", len(stores), 1)
		var cmpRecv ssa.Value
		reached, _ := core.AtomEdges(fn, bigCmpAtom(func(v ssa.Value) bool {
			if loadsField(AP, "unPaidTraffic")(v) {
				cmpRecv = v
				return true
			}
			return false
		}, loadsField(AP, "paymentThreshold"), ">="))
		okSend := len(reached) > 0 && mustPassFrom(edgeTargets(reached), func(in ssa.Instruction) bool {
			s, ok := in.(*ssa.Send)
			return ok && core.IsFieldOf(s.Chan, AC, "payChan")
		})
		r.Check("C32.G2", core.Key("C32.G2", fn, "threshold reached => pay request"), fn.Pos(), okSend,
			"when the unpaid balance reaches the threshold every path sends a payment request", "the branch unpaid >= threshold can return without requesting payment (or the comparison is gone)")
		okOrder := false
		if cmpRecv != nil && len(stores) > 0 {
			if ld, ok := cmpRecv.(ssa.Instruction); ok {
				okOrder = true
				for _, st := range stores {
					if !core.Precedes(st, ld) {
						okOrder = false
					}
				}
			}
		}
		r.Check("C32.G2", core.Key("C32.G2", fn, "compare after update"), fn.Pos(), okOrder,
			"the threshold comparison reads the balance after it was updated", "the threshold comparison does not read the updated balance")
	}

	// G3 NotifyPayment
	if fn := w.Func("pkg/accounting", "(*Accounting).NotifyPayment"); fn == nil {
		r.Fatal("unresolved anchor pkg/accounting.(*Accounting).NotifyPayment")
	} else {
		r.Saw(core.FuncName(fn))
		r.Eval(core.EdgeCount(fn))
		traffic := fn.Params[2]
		ge, _ := core.AtomEdges(fn, bigCmpAtom(loadsField(AP, "unPaidTraffic"), isParam(traffic), ">="))
		stores := fieldStores(fn, AP, "unPaidTraffic")
		r.Floor("C32.G3", "updates of unPaidTraffic in NotifyPayment", len(stores), 1)
		for _, st := range stores {
			v := core.Forward(st.Val)
			c, _ := core.CallOf(v)
			switch {
			case c != nil && core.IsCallTo(c, "math/big.NewInt"):
				k, isC := core.ConstInt(c.Call.Args[0])
				r.Check("C32.G3", core.Key("C32.G3", fn, "store constant"), st.Pos(), isC && k == 0,
					"the only constant stored as unpaid balance is zero", "a non-zero constant is stored as unpaid balance")
			case c != nil && core.IsCallTo(c, "(*math/big.Int).Sub"):
				okArgs := loadsField(AP, "unPaidTraffic")(core.Forward(c.Call.Args[1])) && c.Call.Args[2] == ssa.Value(traffic)
				r.Check("C32.G3", core.Key("C32.G3", fn, "subtract behind unpaid >= payment"), st.Pos(), okArgs && len(ge) > 0 && core.OnlyBehind(fn, st, ge),
					"the payment is subtracted from the unpaid balance only when it does not exceed it", "the subtraction can run with payment > unpaid (negative balance), or subtracts other operands")
			default:
				r.Check("C32.G3", core.Key("C32.G3", fn, "store other"), st.Pos(), false,
					"unpaid balance is set to zero or to unpaid-payment", "unpaid balance is assigned an unrecognised expression")
			}
		}
	}
}
