package props

import (
	"aurora-verif/checker/core"

	"golang.org/x/tools/go/ssa"
)

// c06DecryptCopies (W3): traversal.GetChunkHashes validates the chunks a peer sent, walks the
// tree through the decrypting store using the very same byte slices, and stores them only
// afterwards. The decrypting store therefore never writes into the bytes of the chunk it was
// handed: in pkg/encryption/store no copy destination and no element store aliases the
// chunkData parameter of decryptChunkData / decrypt (or a slice of it). Decrypting in place
// turns an already validated pyramid entry into plain text under the cipher text's address —
// an invalid chunk from a peer reply ends up in the store.
func c06DecryptCopies(r *core.Run) {
	const rule = "C06.W3"
	n := 0
	for _, name := range []string{"decryptChunkData", "decrypt"} {
		fn := r.W.Func("pkg/encryption/store", name)
		if fn == nil {
			r.Fatal("unresolved anchor pkg/encryption/store.%s", name)
			return
		}
		n++
		r.Saw(core.FuncName(fn))
		r.Eval(core.EdgeCount(fn))
		fromInput := func(v ssa.Value) bool {
			return core.DerivesFrom(v, func(x ssa.Value) bool { return x == ssa.Value(fn.Params[0]) }, nil)
		}
		var bad ssa.Instruction
		core.EachInstr(fn, func(_ *ssa.BasicBlock, _ int, in ssa.Instruction) {
			switch x := in.(type) {
			case *ssa.Call:
				if _, ok := isBuiltinCall(x, "copy"); ok && fromInput(x.Call.Args[0]) {
					bad = in
				}
			case *ssa.Store:
				if ia, ok := x.Addr.(*ssa.IndexAddr); ok && fromInput(ia.X) {
					bad = in
				}
			case *ssa.Return:
				// handing the input's own storage back as "the decrypted chunk" lets the
				// caller's later writes land in it too
				if len(x.Results) > 0 && name == "decryptChunkData" && fromInput(x.Results[0]) {
					bad = in
				}
			}
		})
		pos := fn.Pos()
		if bad != nil {
			pos = bad.Pos()
		}
		r.Check(rule, core.Key(rule, fn, "the fetched chunk's bytes are not written or handed back"), pos, bad == nil,
			"the decrypted form is built in fresh storage; the fetched chunk's own bytes are left as received", "the decrypted form is written into (or is a slice of) the fetched chunk's own buffer: GetChunkHashes stores that buffer after walking the tree, so an already validated pyramid entry is stored as plain text under the cipher text's address")
	}
	r.Floor(rule, "decrypting functions checked", n, 2)
}
