package props

import (
	"fmt"
	"go/token"
	"go/types"
	"sort"
	"strings"

	"aurora-verif/checker/core"

	"golang.org/x/tools/go/ssa"
)

func init() {
	reg("C37", Meta{
		Technique:   "forward taint analysis on SSA from every protobuf ReadMsg target (inter-procedural inside the protocol packages, with a hand-written summary of the reflect dispatcher) to panicking operations, each discharged by a dominating guard (nil test, length/interval guard, checked error)",
		Explanation: "C37 (malformed peer messages never crash), structural clause: in every package that reads peer messages (all ReadMsg/ReadMsgWithContext sites: handshake, hive, hive2, retrieval, chunkinfo, routetab, netrelay, pingpong, trafficprotocol, multicast, libp2p headers) no peer-controlled value reaches a panicking operation unguarded: (S1) a field is selected through a decoded sub-message pointer only behind a nil test of that pointer (generated GetX accessors are nil-safe); (S2) no Must* parser is applied to a peer-controlled string; (S3) peer-controlled bytes/strings are indexed or sliced at constant positions only within the length the interval analysis / a dominating len guard establishes, and never with a peer-controlled index without a bound check; (S4) a pointer returned by a constructor called with peer data whose error result is discarded is not dereferenced; (S5) a pointer filled by json.Unmarshal of peer bytes is not dereferenced or handed on without a nil test (JSON null); (S6) a peer-controlled integer is not used as make() size or divisor without a guard; (S7) a peer-controlled integer used as a slice bound of any slice is proven >= 0 by the interval analysis (for unexported helpers with only direct calls, the parameter's interval is the join over every call site; re-loads of a local message field are identified with the guarded load by an available-loads analysis) and <= len by a dominating guard. Not decided: panics inside third-party decoders, resource exhaustion, flows that leave the protocol packages (reported at the hand-over point only for possibly-nil pointers).",
		Assumptions: []string{"generated protobuf Get* accessors are nil-receiver safe", "protobuf/JSON decoders themselves do not panic", "message size is bounded by the stream reader"},
	}, c37)
}

func c37(r *core.Run) {
	w := r.W
	// protocol packages: every package with a ReadMsg call
	pkgSet := map[string]bool{}
	nRead := 0
	for _, f := range w.Funcs {
		core.EachInstr(f, func(_ *ssa.BasicBlock, _ int, in ssa.Instruction) {
			if c := core.Common(in); c != nil && strings.HasPrefix(core.CalleeName(c), "(pkg/p2p/protobuf.Reader).ReadMsg") {
				pkgSet[f.Pkg.Pkg.Path()] = true
				nRead++
			}
		})
	}
	delete(pkgSet, core.P("pkg/p2p/protobuf"))
	var funcs []*ssa.Function
	var pkgNames []string
	for p := range pkgSet {
		pkgNames = append(pkgNames, strings.TrimPrefix(p, core.Mod+"/"))
	}
	sort.Strings(pkgNames)
	for _, f := range w.Funcs {
		if pkgSet[f.Pkg.Pkg.Path()] {
			funcs = append(funcs, f)
		}
	}
	r.Floor("C37.X1", "ReadMsg sites ("+strings.Join(pkgNames, " ")+")", nRead, 15)
	r.Floor("C37.X1", "packages that read peer messages", len(pkgNames), 5)
	t := core.NewTaint(w, funcs)
	t.Dispatch["(*pkg/chunkinfo.ChunkInfo).chunkPutChanUpdate"] = [2]int{3, 4}
	t.Run()
	ntv := 0
	for _, f := range funcs {
		r.Eval(core.EdgeCount(f))
		core.EachInstr(f, func(_ *ssa.BasicBlock, _ int, in ssa.Instruction) {
			if v, ok := in.(ssa.Value); ok && t.Tainted(v) {
				ntv++
			}
		})
	}
	r.Floor("C37.X1", "peer-controlled SSA values found", ntv, 100)
	c37ErrNilDeref(r, t, funcs)
	c37PersistedVector(r)
	c37NilMessage(r)
	c37JoinerRefs(r)

	type finding struct {
		fn   *ssa.Function
		in   ssa.Instruction
		rule string
		what string
		why  string
	}
	var sinks []finding
	var oks []finding
	ias := map[*ssa.Function]*core.IA{}
	iaOf := func(f *ssa.Function) *core.IA {
		if ias[f] == nil {
			ias[f] = core.Intervals(f)
		}
		return ias[f]
	}
	// seededIA: interval analysis of fn with each integer parameter assumed to lie in the join
	// of the argument intervals over every call site, when fn is an unexported function whose
	// every use in its package is a direct call (so the call sites are all there are).
	callSites := map[*ssa.Function][]*ssa.Call{}
	escapes := map[*ssa.Function]bool{}
	for _, f := range funcs {
		core.EachInstr(f, func(_ *ssa.BasicBlock, _ int, in ssa.Instruction) {
			var callee *ssa.Function
			if c, ok := in.(*ssa.Call); ok {
				if callee = c.Call.StaticCallee(); callee != nil {
					callSites[callee] = append(callSites[callee], c)
				}
			}
			for _, op := range in.Operands(nil) {
				if g, ok := (*op).(*ssa.Function); ok {
					if c := core.Common(in); c != nil && c.Value == ssa.Value(g) {
						if _, plain := in.(*ssa.Call); plain {
							continue
						}
					}
					escapes[g] = true // go/defer, function value, closure binding
				}
			}
		})
	}
	seeded := map[*ssa.Function]*core.IA{}
	seededIA := func(fn *ssa.Function) *core.IA {
		if ia := seeded[fn]; ia != nil {
			return ia
		}
		var seeds map[ssa.Value]core.Itv
		if fn.Object() != nil && !fn.Object().Exported() && fn.Parent() == nil && !escapes[fn] && len(callSites[fn]) > 0 && fn.Signature.Recv() == nil {
			seeds = map[ssa.Value]core.Itv{}
			for i, p := range fn.Params {
				if !isIntegerType(p.Type()) {
					continue
				}
				var j core.Itv
				for k, c := range callSites[fn] {
					a := iaOf(c.Parent()).ValueAt(c.Call.Args[i], c)
					if k == 0 {
						j = a
					} else {
						j = core.Itv{Lo: min(j.Lo, a.Lo), Hi: max(j.Hi, a.Hi)}
					}
				}
				seeds[p] = j
			}
		}
		seeded[fn] = core.IntervalsSeeded(fn, seeds)
		return seeded[fn]
	}
	nonNilEdges := func(fn *ssa.Function, p ssa.Value) core.EdgeSet {
		_, nn := core.AtomEdges(fn, func(base ssa.Value) (bool, bool) {
			x, eq, ok := core.NilCmp(base)
			if !ok {
				return false, false
			}
			if x == p || core.SameExpr(x, p) || core.SameExpr(core.Forward(x), core.Forward(p)) {
				return true, eq
			}
			return false, false
		})
		return nn
	}
	// nilable: decoded sub-message pointers. A singular message-typed field is nil when the
	// peer omits it; elements of repeated message fields are always allocated by the
	// decoder and the root message is a local object. Nilability follows the pointer
	// through phis and into helpers (argument → parameter, any call site).
	nilable := map[ssa.Value]bool{}
	inSet := map[*ssa.Function]bool{}
	for _, f := range funcs {
		inSet[f] = true
	}
	for changed := true; changed; {
		changed = false
		set := func(v ssa.Value) {
			if !nilable[v] {
				nilable[v] = true
				changed = true
			}
		}
		for _, fn := range funcs {
			core.EachInstr(fn, func(_ *ssa.BasicBlock, _ int, in ssa.Instruction) {
				switch x := in.(type) {
				case *ssa.UnOp:
					if x.Op == token.MUL && t.Tainted(x) && core.IsPBMessagePtr(x.Type()) {
						if _, fromField := x.X.(*ssa.FieldAddr); fromField {
							set(x)
						}
						// reload of a nilable value kept in a local cell
						if al, ok := x.X.(*ssa.Alloc); ok {
							for _, u := range core.Uses(al) {
								if st, ok := u.(*ssa.Store); ok && st.Addr == ssa.Value(al) && nilable[st.Val] {
									set(x)
								}
							}
						}
					}
				case *ssa.Phi:
					for _, e := range x.Edges {
						if nilable[e] {
							set(x)
						}
					}
				case *ssa.Call:
					callee := x.Call.StaticCallee()
					if callee == nil || !inSet[callee] {
						return
					}
					for i, a := range x.Call.Args {
						if nilable[a] && i < len(callee.Params) {
							set(callee.Params[i])
						}
					}
				}
			})
		}
	}
	for _, fn := range funcs {
		fn := fn
		core.EachInstr(fn, func(_ *ssa.BasicBlock, _ int, in ssa.Instruction) {
			switch x := in.(type) {
			case *ssa.FieldAddr:
				// S1: selection through a decoded sub-message pointer
				p := x.X
				if !t.Tainted(p) || !core.IsPBMessagePtr(p.Type()) {
					return
				}
				if !nilable[p] {
					return
				}
				desc := "field " + fieldName(x) + " selected through decoded sub-message " + core.Path(p)
				nn := nonNilEdges(fn, p)
				if len(nn) > 0 && core.OnlyBehind(fn, x, nn) {
					oks = append(oks, finding{fn, in, "C37.S1", desc, ""})
				} else {
					sinks = append(sinks, finding{fn, in, "C37.S1", desc, "a peer that omits the sub-message makes the pointer nil and this selection panics"})
				}
			case *ssa.Call:
				name := core.CalleeName(&x.Call)
				short := name[strings.LastIndex(name, ".")+1:]
				args := core.CallArgs(&x.Call)
				// S8: a peer-controlled signed integer handed, as an integer, to code outside
				// the analysed protocol packages (topology, stores, …) is proven >= 0 at the
				// call: counts, limits and sizes are sliced / allocated with over there
				if callee := x.Call.StaticCallee(); (callee == nil || !inSet[callee]) && !strings.HasPrefix(name, "fmt.") && !strings.HasPrefix(name, "(time.") && !strings.HasPrefix(name, "time.") && !strings.HasPrefix(name, "math") && !strings.HasPrefix(name, "strconv.") && !strings.HasPrefix(name, "(*sync/atomic") && !strings.HasPrefix(name, "sync/atomic") {
					if _, isBuiltin := x.Call.Value.(*ssa.Builtin); !isBuiltin {
						for _, a := range x.Call.Args {
							b, ok := a.Type().Underlying().(*types.Basic)
							if !ok || b.Info()&types.IsInteger == 0 || b.Info()&types.IsUnsigned != 0 || !t.Tainted(a) {
								continue
							}
							if _, isConst := a.(*ssa.Const); isConst {
								continue
							}
							desc := "peer-controlled integer " + core.Path(a) + " handed to " + short
							lo := seededIA(fn).ValueAt(a, x).Lo
							// a value merged from a peer-controlled and a locally configured
							// source: only the peer-controlled incoming edges are the peer's
							if cv, ok := a.(*ssa.Convert); ok {
								if phi, ok := cv.X.(*ssa.Phi); ok && lo < 0 {
									plo, any := int64(1<<62), false
									for i, e := range phi.Edges {
										if !t.Tainted(e) {
											continue
										}
										any = true
										if v := seededIA(fn).ValueOnEdge(e, core.Edge{From: phi.Block().Preds[i], To: phi.Block()}).Lo; v < plo {
											plo = v
										}
									}
									if any {
										lo = plo
									}
								}
							}
							if lo >= 0 {
								oks = append(oks, finding{fn, in, "C37.S8", desc + " is proven non-negative", ""})
							} else {
								sinks = append(sinks, finding{fn, in, "C37.S8", desc, fmt.Sprintf("its lowest possible value at the call is %s: a negative count/limit sent by the peer reaches code that slices or allocates with it", fmtBound(lo))})
							}
						}
					}
				}
				// S9: a bit vector built over peer bytes takes its logical length from local
				// knowledge (the file's chunk count), never from the length of the peer's bytes:
				// later local lookups index it by chunk position
				if name == "pkg/bitvector.NewFromBytes" && len(args) == 2 && t.Tainted(args[0]) {
					fromPeerLen := t.Tainted(args[1]) || core.DerivesFrom(args[1], func(v ssa.Value) bool {
						l, ok := isBuiltinCall(v, "len")
						return ok && t.Tainted(l.Call.Args[0])
					}, nil)
					desc := "bit vector over peer bytes " + core.Path(args[0])
					if fromPeerLen {
						sinks = append(sinks, finding{fn, in, "C37.S9", desc, "its logical length is taken from the peer's own data: a too-short vector is accepted and a later local Get(chunk position) indexes past its end"})
					} else {
						oks = append(oks, finding{fn, in, "C37.S9", desc + " sized by local knowledge", ""})
					}
				}
				// S2 Must*
				if strings.HasPrefix(short, "Must") {
					for _, a := range args {
						if t.Tainted(a) {
							sinks = append(sinks, finding{fn, in, "C37.S2", short + " on a peer-controlled value " + core.Path(a), "a value that does not parse makes " + short + " panic"})
						}
					}
				}
				// S4 discarded constructor error
				if sig := x.Call.Signature(); sig != nil && sig.Results().Len() == 2 && sig.Results().At(1).Type().String() == "error" {
					if _, isPtr := sig.Results().At(0).Type().Underlying().(*types.Pointer); isPtr {
						tainted := false
						for _, a := range args {
							if t.Tainted(a) {
								tainted = true
							}
						}
						if tainted {
							var ptr, errv *ssa.Extract
							for _, u := range core.Uses(x) {
								if e, ok := u.(*ssa.Extract); ok {
									if e.Index == 0 {
										ptr = e
									} else {
										errv = e
									}
								}
							}
							errChecked := errv != nil && len(core.Uses(errv)) > 0
							if ptr != nil && !errChecked && derefdUnguarded(fn, ptr, nonNilEdges(fn, ptr)) {
								sinks = append(sinks, finding{fn, in, "C37.S4", "result of " + short + "(peer data) used with its error discarded", "when the peer's data is rejected the constructor returns nil and the following dereference panics"})
							} else if ptr != nil && errChecked {
								oks = append(oks, finding{fn, in, "C37.S4", "result of " + short + "(peer data) used after its error was checked", ""})
							}
						}
					}
				}
				// S5 json.Unmarshal into a pointer cell
				if name == "encoding/json.Unmarshal" && t.Tainted(args[0]) {
					cell := core.Strip(args[1])
					if pt, ok := cell.Type().Underlying().(*types.Pointer); ok {
						if _, inner := pt.Elem().Underlying().(*types.Pointer); inner {
							// cell holds a pointer: every later load must be nil-checked before use
							bad := false
							var badUse ssa.Instruction
							for _, u := range core.Uses(cell) {
								ld, ok := u.(*ssa.UnOp)
								if !ok || ld.Op != token.MUL {
									continue
								}
								nn := nonNilEdges(fn, ld)
								for _, uu := range core.Uses(ld) {
									switch y := uu.(type) {
									case *ssa.FieldAddr, *ssa.Call, *ssa.Return, *ssa.Store:
										ui := uu
										if bi, isBin := uu.(*ssa.BinOp); isBin {
											_ = bi
											continue
										}
										if len(nn) == 0 || !core.OnlyBehind(fn, ui, nn) {
											bad, badUse = true, ui
										}
										_ = y
									}
								}
							}
							if bad {
								sinks = append(sinks, finding{fn, badUse, "C37.S5", "pointer decoded by json.Unmarshal from peer bytes used without a nil test", "the JSON document `null` decodes successfully into a nil pointer; the next dereference (here or in the callee it is handed to) panics"})
							} else {
								oks = append(oks, finding{fn, in, "C37.S5", "pointer decoded by json.Unmarshal is nil-tested before use", ""})
							}
						}
					}
				}
			case *ssa.Slice:
				// S7: a peer-controlled integer used as a slice bound (of any slice) must be
				// known non-negative and not above the length
				for _, b := range []ssa.Value{x.Low, x.High} {
					if b == nil || !t.Tainted(b) {
						continue
					}
					if _, isConst := b.(*ssa.Const); isConst {
						continue
					}
					desc := "peer-controlled bound " + core.Path(b) + " of slicing " + core.Path(x.X)
					lo := seededIA(fn).ValueAt(b, x).Lo
					okUp, why := sliceGuarded(fn, seededIA(fn), x)
					switch {
					case lo < 0:
						sinks = append(sinks, finding{fn, in, "C37.S7", desc, fmt.Sprintf("the bound is not known to be >= 0 (lowest value over every call site and guard: %s): a negative value sent by the peer panics", fmtBound(lo))})
					case !okUp && !t.Tainted(x.X):
						sinks = append(sinks, finding{fn, in, "C37.S7", desc, why})
					default:
						oks = append(oks, finding{fn, in, "C37.S7", desc + " is within [0,len]", ""})
					}
				}
				if !t.Tainted(x.X) {
					return
				}
				if _, isArr := x.X.Type().Underlying().(*types.Pointer); isArr {
					return // slicing a local array
				}
				if x.Low == nil && x.High == nil {
					return
				}
				if ok, why := sliceGuarded(fn, iaOf(fn), x); ok {
					oks = append(oks, finding{fn, in, "C37.S3", "peer bytes " + core.Path(x.X) + " sliced within an established length", ""})
				} else {
					sinks = append(sinks, finding{fn, in, "C37.S3", "peer bytes " + core.Path(x.X) + " sliced", why + ": a shorter message panics"})
				}
			case *ssa.IndexAddr:
				if !t.Tainted(x.X) {
					return
				}
				if _, isSlice := x.X.Type().Underlying().(*types.Slice); !isSlice {
					return
				}
				k, isConst := core.ConstInt(x.Index)
				if isConst {
					li := iaOf(fn).LenAt(x.X, x)
					guarded := li.Lo > k
					if !guarded {
						// relational guard on another load of the same variable: len(x') > k
						good, _ := core.AtomEdges(fn, cmpAtom(func(v ssa.Value) bool {
							c, ok := isBuiltinCall(v, "len")
							return ok && core.SameExpr(core.Forward(c.Call.Args[0]), core.Forward(x.X))
						}, func(y ssa.Value) bool { c, ok := core.ConstInt(y); return ok && c >= k }, ">"))
						guarded = len(good) > 0 && core.OnlyBehind(fn, x, good)
					}
					if guarded {
						oks = append(oks, finding{fn, in, "C37.S3", fmt.Sprintf("peer slice %s indexed at %d within an established length", core.Path(x.X), k), ""})
					} else {
						sinks = append(sinks, finding{fn, in, "C37.S3", fmt.Sprintf("peer slice %s indexed at constant %d", core.Path(x.X), k), fmt.Sprintf("its length is only known to be >= %d", li.Lo)})
					}
				} else if t.Tainted(x.Index) {
					good, _ := core.AtomEdges(fn, lenOfAtom(x.X, func(y ssa.Value) bool { return core.SameExpr(y, x.Index) }, ">"))
					if len(good) > 0 && core.OnlyBehind(fn, x, good) {
						oks = append(oks, finding{fn, in, "C37.S3", "peer-controlled index bounded by len", ""})
					} else {
						sinks = append(sinks, finding{fn, in, "C37.S3", "peer slice " + core.Path(x.X) + " indexed with a peer-controlled index", "no dominating index < len guard"})
					}
				}
			case *ssa.MakeSlice:
				if t.Tainted(x.Len) {
					hi := iaOf(fn).ValueAt(x.Len, x).Hi
					if hi < 1<<32 {
						oks = append(oks, finding{fn, in, "C37.S6", "make() sized by a bounded peer integer", ""})
					} else {
						sinks = append(sinks, finding{fn, in, "C37.S6", "make() sized by a peer-controlled integer", "no upper bound is established (a negative or huge size panics)"})
					}
				}
			case *ssa.BinOp:
				if (x.Op == token.QUO || x.Op == token.REM) && t.Tainted(x.Y) && isIntegerType(x.Y.Type()) {
					iv := iaOf(fn).ValueAt(x.Y, x)
					if iv.Lo > 0 || iv.Hi < 0 {
						oks = append(oks, finding{fn, in, "C37.S6", "division by a peer integer known to be non-zero", ""})
					} else {
						sinks = append(sinks, finding{fn, in, "C37.S6", "division by a peer-controlled integer", "zero is not excluded"})
					}
				}
			}
		})
	}
	for _, f := range oks {
		r.Saw(core.FuncName(f.fn))
		r.Check(f.rule, lsKey(f.rule, f.fn, f.what), f.in.Pos(), true, f.what, "")
	}
	for _, f := range sinks {
		r.Saw(core.FuncName(f.fn))
		r.Check(f.rule, lsKey(f.rule, f.fn, f.what), f.in.Pos(), false, "no peer-controlled value reaches a panicking operation unguarded", f.what+": "+f.why)
	}
	r.Floor("C37.X1", "guarded + unguarded sink sites examined", len(oks)+len(sinks), 5)
}

func fieldName(fa *ssa.FieldAddr) string {
	if fr, ok := core.AsField(fa); ok {
		return fr.Name
	}
	return "?"
}

// derefdUnguarded: the pointer value is dereferenced (field selection, load, method call
// with pointer receiver) or stored for later use (C37's "later local use of state the
// message created") at a point that is not behind a non-nil test of it.
func derefdUnguarded(fn *ssa.Function, p ssa.Value, nonNil core.EdgeSet) bool {
	guarded := func(in ssa.Instruction) bool {
		return len(nonNil) > 0 && core.OnlyBehind(fn, in, nonNil)
	}
	for _, u := range core.Uses(p) {
		switch x := u.(type) {
		case *ssa.FieldAddr:
			if !guarded(x) {
				return true
			}
		case *ssa.UnOp:
			if x.Op == token.MUL && !guarded(x) {
				return true
			}
		case *ssa.Call:
			if len(x.Call.Args) > 0 && x.Call.Args[0] == p && !x.Call.IsInvoke() && x.Call.StaticCallee() != nil && x.Call.StaticCallee().Signature.Recv() != nil {
				if !guarded(x) {
					return true
				}
			}
		case *ssa.Store:
			if x.Val == p && !guarded(x) {
				return true
			}
		case *ssa.MapUpdate:
			if x.Value == p && !guarded(x) {
				return true
			}
		case *ssa.Phi:
			if derefdUnguarded(fn, x, nonNil) {
				return true
			}
		}
	}
	return false
}

func isIntegerType(t types.Type) bool {
	b, ok := t.Underlying().(*types.Basic)
	return ok && b.Info()&types.IsInteger != 0
}
