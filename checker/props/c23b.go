package props

import (
	"go/token"

	"aurora-verif/checker/core"

	"golang.org/x/tools/go/ssa"
)

// c23ZeroMeansUnset (Z1): ClosestPeer keeps its best candidate in an Address that starts
// unset and tests `closest.IsZero()` both for "no candidate yet" and for "nothing found".
// That is only right if IsZero answers true for no address that a peer can have: every
// return of boson.Address.IsZero is Equal(ZeroAddress) with ZeroAddress initialised as
// NewAddress(nil), or a test of the byte slice for emptiness (len(a.b) == 0, a.b == nil).
// An IsZero that is also true for the all-zero-bytes overlay makes that peer lose against
// any later peer, or the scan answer "not found" although it is connected.
func c23ZeroMeansUnset(r *core.Run) {
	const rule = "C23.Z1"
	fn := r.W.Func("pkg/boson", "(Address).IsZero")
	if fn == nil {
		r.Fatal("unresolved anchor pkg/boson.(Address).IsZero")
		return
	}
	r.Saw(core.FuncName(fn))
	r.Eval(core.EdgeCount(fn))
	isZeroAddr := func(v ssa.Value) bool {
		u, ok := core.Forward(v).(*ssa.UnOp)
		if !ok {
			return false
		}
		g, ok := u.X.(*ssa.Global)
		return ok && g.Name() == "ZeroAddress"
	}
	isBytes := func(v ssa.Value) bool {
		fr, ok := core.AsField(core.Forward(v))
		return ok && fr.Struct == "pkg/boson.Address" && fr.Name == "b"
	}
	okVal := func(v ssa.Value) bool {
		v = core.Forward(v)
		if c, _ := core.CallOf(v); c != nil && core.IsCallTo(c, "(pkg/boson.Address).Equal") {
			a := core.Common(c).Args
			return len(a) == 2 && (isZeroAddr(a[1]) || isZeroAddr(a[0]))
		}
		if bo, ok := v.(*ssa.BinOp); ok && bo.Op == token.EQL {
			if l, isL := isBuiltinCall(bo.X, "len"); isL && isBytes(l.Call.Args[0]) {
				k, isC := core.ConstInt(bo.Y)
				return isC && k == 0
			}
			if isBytes(bo.X) {
				k, isK := bo.Y.(*ssa.Const)
				return isK && k.IsNil()
			}
		}
		return false
	}
	n := 0
	core.EachInstr(fn, func(b *ssa.BasicBlock, _ int, in ssa.Instruction) {
		ret, ok := in.(*ssa.Return)
		if !ok || b == fn.Recover || len(ret.Results) != 1 {
			return
		}
		n++
		good := okVal(ret.Results[0])
		if k, isC := core.ConstBool(core.Forward(ret.Results[0])); isC && !k {
			good = true // answering false is always safe for the scan
		}
		r.Check(rule, lsKey(rule, fn, "IsZero true only for the unset address"), ret.Pos(), good,
			"Address.IsZero answers true only for the address without bytes (the 'no candidate yet' marker of the closest-peer scan)",
			"Address.IsZero is not Equal(ZeroAddress) / an emptiness test of the bytes: if it is also true for an overlay a peer can have (all zero bytes), ClosestPeer drops that peer as 'no candidate yet' and returns a farther one or not-found")
	})
	r.Floor(rule, "returns of Address.IsZero", n, 1)
	// ZeroAddress = NewAddress(nil)
	okInit := false
	if sp := r.W.SSA[core.P("pkg/boson")]; sp != nil && sp.Func("init") != nil {
		ini := sp.Func("init")
		core.EachInstr(ini, func(_ *ssa.BasicBlock, _ int, in ssa.Instruction) {
			st, ok := in.(*ssa.Store)
			if !ok {
				return
			}
			g, ok := st.Addr.(*ssa.Global)
			if !ok || g.Name() != "ZeroAddress" {
				return
			}
			if c, _ := core.CallOf(st.Val); c != nil && core.IsCallTo(c, "pkg/boson.NewAddress") {
				if k, isK := core.Common(c).Args[0].(*ssa.Const); isK && k.IsNil() {
					okInit = true
				}
			}
		})
	}
	r.Check(rule, "C23.Z1@pkg/boson#ZeroAddress is the address without bytes", fn.Pos(), okInit,
		"ZeroAddress is NewAddress(nil)", "ZeroAddress is not initialised as NewAddress(nil): the unset marker coincides with an address a peer can have")
}
