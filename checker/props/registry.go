// Package props holds the rule tables and rule code, one file per property.
package props

import (
	"strings"

	"aurora-verif/checker/core"
)

// Meta is the per-property description copied into MANIFEST.json and the evidence file.
type Meta struct {
	Technique   string   // the deciding method, a few words
	Explanation string   // the clause(s) decided and what is not decided
	Assumptions []string // trusted base
	DesignRef   string
}

type entry struct {
	Meta Meta
	Fn   func(r *core.Run)
}

// Registry maps a property id to its check.
var Registry = map[string]entry{}

// NotApplicable lists the properties that are not claimed, with the reason.
var NotApplicable = map[string]string{
	"C10": "lookup/add/remove/prefix semantics live in the external module github.com/gauss-project/manifest/mantaray; pkg/manifest is a pass-through wrapper and the property is value semantics over histories: no structural clause whose breakage would be visible in /repo's code shape",
}

func reg(id string, m Meta, f func(r *core.Run)) {
	if m.DesignRef == "" {
		m.DesignRef = "DESIGN.md §4 " + id
	}
	if n, ok := extraNotes[id]; ok {
		m.Technique += "; " + n[0]
		m.Explanation += " Added clauses: " + n[1]
	}
	if rows := errRows[id]; len(rows) > 0 {
		m.Technique += "; targeted error-discipline rows (no decision-input error is dropped)"
		var fns []string
		for _, row := range rows {
			fns = append(fns, row.fn)
		}
		m.Explanation += " (E0) Error discipline: in " + strings.Join(fns, ", ") + " the error result of every call the decision depends on (table in checker/props/errtable.go) is tested, returned or passed on — never assigned to blank or left unread."
	}
	Registry[id] = entry{m, f}
}

// Run executes the check of one property.
func Run(id string, r *core.Run) {
	e := Registry[id]
	r.Technique = e.Meta.Technique
	r.Explanation = e.Meta.Explanation
	r.Assumptions = append([]string{"go/types + go/ssa model Go semantics faithfully", "the frozen rule tables (anchors, guarded-by relations, validator lists) in /verif/checker/props were confirmed by reading the pinned tree"}, e.Meta.Assumptions...)
	e.Fn(r)
	applyErrRows(r, id)
}
