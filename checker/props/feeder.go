package props

import (
	"go/token"

	"aurora-verif/checker/core"

	"golang.org/x/tools/go/ssa"
)

// feederRules: structural clauses of the chunk feeder (the stage that cuts the written byte
// stream into chunks). Both "reads back identical" (C01) and "the reference depends on the
// bytes alone, not on how they were written" (C02) need every emitted chunk to carry its own
// payload length and the pending-byte index to restart at zero after each emission.
func feederRules(r *core.Run, id string) {
	const T = "pkg/file/pipeline/feeder.chunkFeeder"
	w := r.W
	for _, name := range []string{"(*chunkFeeder).Write", "(*chunkFeeder).Sum"} {
		fn := w.Func("pkg/file/pipeline/feeder", name)
		if fn == nil {
			r.Fatal("unresolved anchor pkg/file/pipeline/feeder.%s", name)
			continue
		}
		r.Saw(core.FuncName(fn))
		r.Eval(core.EdgeCount(fn))
		var emits []*ssa.Call
		core.EachInstr(fn, func(_ *ssa.BasicBlock, _ int, in ssa.Instruction) {
			if c, ok := in.(*ssa.Call); ok && c.Call.IsInvoke() && c.Call.Method.Name() == "ChainWrite" {
				emits = append(emits, c)
			}
		})
		r.Floor(id+".F1", "chunk emissions in "+name, len(emits), 1)
		for _, c := range emits {
			// F2: Data = buf[:8+n], Span = buf[:8], and the 8-byte header written into buf[:8]
			// is PutUint64(n) of the same n
			args, _ := core.Strip(c.Call.Args[0]).(*ssa.Alloc)
			var data, span ssa.Value
			if args != nil {
				for _, st := range fieldStores(fn, "pkg/file/pipeline.PipeWriteArgs", "Data") {
					if fa, ok := st.Addr.(*ssa.FieldAddr); ok && fa.X == ssa.Value(args) {
						data = st.Val
					}
				}
				for _, st := range fieldStores(fn, "pkg/file/pipeline.PipeWriteArgs", "Span") {
					if fa, ok := st.Addr.(*ssa.FieldAddr); ok && fa.X == ssa.Value(args) {
						span = st.Val
					}
				}
			}
			okShape, why := feederChunkShape(fn, c, data, span)
			r.Check(id+".F2", core.Key(id+".F2", fn, "emitted chunk = 8-byte length header + that many payload bytes"), c.Pos(), okShape,
				"the chunk handed down is buf[:8+n] with span buf[:8] holding PutUint64(n) of the same n", why)
			if name != "(*chunkFeeder).Write" {
				continue
			}
			// F1: after a successful emission the pending-byte index is overwritten before it
			// is read again
			okE, _ := core.AtomEdges(fn, core.ErrNilAtom(func(x *ssa.Call) bool { return x == c }))
			stale := staleReadAfter(edgeTargets(okE), func(in ssa.Instruction) bool {
				st, ok := in.(*ssa.Store)
				return ok && core.IsFieldOf(st.Addr, T, "bufferIdx")
			}, func(in ssa.Instruction) bool {
				u, ok := in.(*ssa.UnOp)
				return ok && u.Op == token.MUL && core.IsFieldOf(u.X, T, "bufferIdx")
			})
			pos := c.Pos()
			if stale != nil {
				pos = stale.Pos()
			}
			r.Check(id+".F1", core.Key(id+".F1", fn, "pending-byte index reset after each emitted chunk"), pos, len(okE) > 0 && stale == nil,
				"after a chunk was handed down, f.bufferIdx is overwritten before anything reads it again", "f.bufferIdx is read after a chunk was emitted and before it is reset: the next chunk of the same Write is filled at a stale offset (stale leading bytes, shifted payload) — content and reference then depend on how the writes were split")
		}
	}
}

// staleReadAfter walks forward from start; returns the first instruction satisfying read that
// is reachable without passing one satisfying write.
func staleReadAfter(start []*ssa.BasicBlock, write, read func(ssa.Instruction) bool) ssa.Instruction {
	seen := map[*ssa.BasicBlock]bool{}
	work := append([]*ssa.BasicBlock{}, start...)
	for len(work) > 0 {
		b := work[len(work)-1]
		work = work[:len(work)-1]
		if seen[b] {
			continue
		}
		seen[b] = true
		cut := false
		for _, in := range b.Instrs {
			if write(in) {
				cut = true
				break
			}
			if read(in) {
				return in
			}
		}
		if !cut {
			work = append(work, b.Succs...)
		}
	}
	return nil
}

// feederChunkShape: data == buf[:8+n] (or the whole freshly made buffer of size n+8),
// span == buf[:8], and a PutUint64(buf[:8], uint64(n)) precedes the emission.
func feederChunkShape(fn *ssa.Function, emit *ssa.Call, data, span ssa.Value) (bool, string) {
	if data == nil || span == nil {
		return false, "the Data / Span fields of the emitted PipeWriteArgs are not assigned from slices of the chunk buffer"
	}
	var buf, n ssa.Value
	switch d := data.(type) {
	case *ssa.Slice:
		if al, ok := d.X.(*ssa.Alloc); ok && al.Comment == "makeslice" && span == data {
			if k, isC := foldedInt(d.High); isC && k == 8 {
				return true, "" // the empty file: make([]byte, 8) — zero length header, no payload
			}
		}
		buf = d.X
		add, ok := d.High.(*ssa.BinOp)
		if !ok || add.Op != token.ADD {
			return false, "Data is not buf[:8+n]"
		}
		if k, isC := foldedInt(add.X); isC && k == 8 {
			n = add.Y
		} else if k, isC := foldedInt(add.Y); isC && k == 8 {
			n = add.X
		} else {
			return false, "Data is not buf[:8+n]"
		}
	case *ssa.MakeSlice:
		if k, isC := foldedInt(d.Len); isC && k == 8 && span == data {
			return true, "" // the empty file: a zeroed 8-byte header (length 0) and no payload
		}
		buf = d
		add, ok := d.Len.(*ssa.BinOp)
		if !ok || add.Op != token.ADD {
			return false, "Data is not a buffer of n+8 bytes"
		}
		if k, isC := foldedInt(add.Y); isC && k == 8 {
			n = add.X
		} else if k, isC := foldedInt(add.X); isC && k == 8 {
			n = add.Y
		} else {
			return false, "Data is not a buffer of n+8 bytes"
		}
	default:
		return false, "Data is not a slice of the chunk buffer"
	}
	sp, ok := span.(*ssa.Slice)
	if !ok || sp.X != buf || sp.Low != nil {
		return false, "Span is not buf[:8] of the same buffer as Data"
	}
	if k, isC := foldedInt(sp.High); !isC || k != 8 {
		return false, "Span is not buf[:8]"
	}
	// header write
	for _, pc := range core.Calls(fn, "(encoding/binary.littleEndian).PutUint64") {
		a := core.Common(pc).Args
		hs, ok := a[len(a)-2].(*ssa.Slice)
		if !ok || hs.X != buf {
			continue
		}
		if k, isC := foldedInt(hs.High); !isC || k != 8 || hs.Low != nil {
			continue
		}
		v := a[len(a)-1]
		if cv, ok := v.(*ssa.Convert); ok {
			v = cv.X
		}
		if (v == n || core.SameExpr(v, n)) && core.Precedes(pc, emit) {
			return true, ""
		}
	}
	return false, "no PutUint64(buf[:8], n) with the n that bounds Data precedes the emission: the chunk's length header disagrees with its payload"
}
