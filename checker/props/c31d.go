package props

import (
	"sort"
	"strings"

	"aurora-verif/checker/core"

	"golang.org/x/tools/go/ssa"
)

// c31ReportsAgree (A2): "the reported available balance always equals the on-chain balance
// plus the cashed amounts minus the total traffic owed" — at both places that report it:
// Service.AvailableBalance() and the AvailableBalance field of Service.TrafficInfo(). The two
// computations read the same set of per-peer Traffic fields (followed backwards through the
// accumulator phis and big.Int Add/Sub/Set/new): {retrieveChainTraffic, retrieveTraffic}.
// A report built from the issued cheque totals instead of the traffic owed overstates the
// balance by everything that is owed but not yet paid.
func c31ReportsAgree(r *core.Run) {
	const rule = "C31.A2"
	const pkg = "pkg/settlement/traffic"
	ab := r.W.Func(pkg, "(*Service).AvailableBalance")
	ti := r.W.Func(pkg, "(*Service).TrafficInfo")
	if ab == nil || ti == nil {
		r.Fatal("unresolved anchor %s.(*Service).AvailableBalance / TrafficInfo", pkg)
		return
	}
	feeding := func(v ssa.Value) []string {
		seen := map[ssa.Value]bool{}
		out := map[string]bool{}
		var rec func(v ssa.Value, d int)
		rec = func(v ssa.Value, d int) {
			if v == nil || seen[v] || d > 40 {
				return
			}
			seen[v] = true
			if fr, ok := core.AsField(v); ok && !fr.Addr && fr.Struct == trafficT {
				out[fr.Name] = true
				return
			}
			if fv := core.Forward(v); fv != v {
				rec(fv, d+1)
			}
			switch x := v.(type) {
			case *ssa.Phi:
				for _, e := range x.Edges {
					rec(e, d+1)
				}
			case *ssa.Call:
				n := core.CalleeName(&x.Call)
				if strings.HasPrefix(n, "(*math/big.Int).") {
					for _, a := range x.Call.Args {
						rec(a, d+1)
					}
				}
			case *ssa.UnOp:
				rec(x.X, d+1)
			case *ssa.ChangeType:
				rec(x.X, d+1)
			case *ssa.MakeInterface:
				rec(x.X, d+1)
			}
		}
		rec(v, 0)
		var names []string
		for n := range out {
			names = append(names, n)
		}
		sort.Strings(names)
		return names
	}
	var want []string
	core.EachInstr(ab, func(b *ssa.BasicBlock, _ int, in ssa.Instruction) {
		if ret, ok := in.(*ssa.Return); ok && b != ab.Recover && len(ret.Results) == 2 {
			if k, isK := ret.Results[0].(*ssa.Const); isK && k.IsNil() {
				return
			}
			want = feeding(ret.Results[0])
		}
	})
	r.Saw(core.FuncName(ab))
	r.Saw(core.FuncName(ti))
	r.Eval(core.EdgeCount(ab) + core.EdgeCount(ti))
	okWant := strings.Join(want, ",") == "retrieveChainTraffic,retrieveTraffic"
	r.Check(rule, core.Key(rule, ab, "available balance = chain balance + cashed - owed"), ab.Pos(), okWant,
		"AvailableBalance() is computed from the cashed amounts and the traffic owed", "AvailableBalance() reads the per-peer fields {"+strings.Join(want, ",")+"}, not {retrieveChainTraffic, retrieveTraffic}")
	n := 0
	for _, st := range fieldStores(ti, pkg+".TrafficInfo", "AvailableBalance") {
		if k, isK := st.Val.(*ssa.Const); isK && k.IsNil() {
			continue
		}
		n++
		got := feeding(st.Val)
		r.Check(rule, core.Key(rule, ti, "reported available balance agrees with AvailableBalance()"), st.Pos(), strings.Join(got, ",") == strings.Join(want, ","),
			"TrafficInfo().AvailableBalance is computed from the same per-peer fields as AvailableBalance()", "TrafficInfo().AvailableBalance is computed from the per-peer fields {"+strings.Join(got, ",")+"} but AvailableBalance() from {"+strings.Join(want, ",")+"}: traffic that is owed but not yet paid by a cheque is missing from the published balance")
	}
	r.Floor(rule, "stores of TrafficInfo.AvailableBalance", n, 1)
}
