package props

import (
	"go/token"

	"aurora-verif/checker/core"

	"golang.org/x/tools/go/ssa"
)

// c39Stride (V2): every counting loop of a BitVector method visits each position: its
// counter starts at 0 and its only other incoming value is counter+1. A loop that also
// jumps ahead (`i += 8; continue` on an empty mask byte, on top of the loop's own i++)
// leaves positions unvisited, so mask bits are not merged / cleared.
func c39Stride(r *core.Run) {
	const rule = "C39.V2"
	const bvT = "pkg/bitvector.BitVector"
	n := 0
	for _, fn := range r.W.PkgFuncs("pkg/bitvector") {
		if fn.Signature.Recv() == nil || core.TypeName(fn.Signature.Recv().Type()) != bvT {
			continue
		}
		for _, ifi := range cyclicIfs(fn) {
			c, ok := ifi.Cond.(*ssa.BinOp)
			if !ok {
				continue
			}
			for _, side := range []ssa.Value{c.X, c.Y} {
				phi, ok := side.(*ssa.Phi)
				if !ok || phi.Block() != ifi.Block() {
					continue
				}
				n++
				good := true
				for _, e := range phi.Edges {
					if k, isC := core.ConstInt(e); isC && k == 0 {
						continue
					}
					if b, isB := binop(e, token.ADD); isB && b.X == ssa.Value(phi) {
						if k, isC := core.ConstInt(b.Y); isC && k == 1 {
							continue
						}
					}
					good = false
				}
				r.Saw(core.FuncName(fn))
				r.Check(rule, lsKey(rule, fn, "loop counter runs 0,1,2,…"), phi.Pos(), good,
					"the loop counter starts at 0 and only ever advances by one", "the loop counter of "+core.FuncName(fn)+" takes a value other than 0 or counter+1 (it jumps ahead or starts late): bit positions are skipped")
			}
		}
	}
	r.Floor(rule, "counting loops in BitVector methods", n, 3)
}
