package props

import (
	"go/token"

	"aurora-verif/checker/core"

	"golang.org/x/tools/go/ssa"
)

// c22Adjacent (G4): the saturation pass of recalcDepth walks the peers bin by bin and keeps a
// cursor cell (the bin being counted, compared `bin == cursor` for each peer). The pass sees
// only bins that hold a reachable peer; a bin holding none (empty of reachable peers, yet
// not empty) is simply absent from the walk. So the cursor may move to the peer's bin only
// when that bin is the next one: every store `cursor = bin` lies behind `bin <= cursor+1`
// (or `bin == cursor+1`). Without it the depth moves past a bin with no reachable peer.
func c22Adjacent(r *core.Run, rd *ssa.Function) {
	const rule = "C22.G4"
	n := 0
	for _, cl := range core.Closures(rd) {
		if len(cl.Params) < 2 {
			continue
		}
		bin := cl.Params[1]
		// cursor cells: captured variables compared for equality with the bin parameter
		cursors := map[*ssa.FreeVar]bool{}
		core.EachInstr(cl, func(_ *ssa.BasicBlock, _ int, in ssa.Instruction) {
			b, ok := in.(*ssa.BinOp)
			if !ok || b.Op != token.EQL {
				return
			}
			for _, o := range [][2]ssa.Value{{b.X, b.Y}, {b.Y, b.X}} {
				if o[0] != ssa.Value(bin) {
					continue
				}
				if p, ok := core.LoadedFrom(o[1]); ok {
					if fv, ok := p.(*ssa.FreeVar); ok {
						cursors[fv] = true
					}
				}
			}
		})
		for fv := range cursors {
			isNext := func(y ssa.Value) bool {
				a, ok := binop(y, token.ADD)
				if !ok {
					return false
				}
				k, isC := core.ConstInt(a.Y)
				p, isL := core.LoadedFrom(a.X)
				return isC && k == 1 && isL && p == ssa.Value(fv)
			}
			isBin := func(x ssa.Value) bool { return x == ssa.Value(bin) }
			adjLe, _ := core.AtomEdges(cl, cmpAtom(isBin, isNext, "<="))
			adjEq, _ := core.AtomEdges(cl, cmpAtom(isBin, isNext, "=="))
			adj := core.EdgeSet{}
			for e := range adjLe {
				adj[e] = true
			}
			for e := range adjEq {
				adj[e] = true
			}
			core.EachInstr(cl, func(_ *ssa.BasicBlock, _ int, in ssa.Instruction) {
				st, ok := in.(*ssa.Store)
				if !ok || st.Addr != ssa.Value(fv) || st.Val != ssa.Value(bin) {
					return
				}
				n++
				r.Check(rule, lsKey(rule, cl, "cursor moves only to the adjacent bin"), st.Pos(), len(adj) > 0 && core.OnlyBehind(cl, st, adj),
					"the saturation pass moves on to a peer's bin only when it is the bin right after the one just counted", "the saturation pass moves its cursor to the peer's bin without testing that it is the next bin: a bin in between that holds only unreachable peers is passed over, the depth exceeds a bin with fewer than quickSaturationPeers reachable peers")
			})
		}
	}
	r.Floor(rule, "cursor advances in recalcDepth's saturation pass", n, 1)
}
