package props

import (
	"fmt"
	"go/token"

	"aurora-verif/checker/core"

	"golang.org/x/tools/go/ssa"
)

func init() {
	reg("C29", Meta{
		Technique:   "must-guard reachability on SSA for the reply filter, dominance of the limit clamp, symbolic/interval check that the two sub-limits sum to at most the requested limit, relational guard check of the truncation helper",
		Explanation: "C29 (peer-exchange replies), structural clauses: (F1) the clamp `Limit > maxPeersLimit → Limit = maxPeersLimit` dominates every other read of the requested limit; (I1) on every path the two pass limits are either `k = L/2, L - k` (sum exactly L) or constants whose sum is at most the lower bound of L on that path, and the reply is the concatenation of two randPeersLimit results; (I2) randPeersLimit(p, n) returns p[:n] or p behind len(p) <= n; (G1) a peer is appended to the reply only behind !MemberOf(skip), inArray(proximity(target, peer), req.Pos), and (AllowPrivateCIDRs ∨ ¬requester-public ∨ ¬IsPrivateAddr); (P1) the skip list starts with the requester, only ever grows (every assignment is the initial literal or append(skip, …)), and the first-pass picks are added to it before the second pass (no repeats), the proximity is computed between the requested target and the candidate. Not decided: randomness/fairness of the selection.",
	}, c29)
}

func c29(r *core.Run) {
	c29InArray(r)
	psliceCopyOnWrite(r, "C29.W3")
	w := r.W
	fn := w.Func("pkg/hive2", "(*Service).onFindNode")
	rpl := w.Func("pkg/hive2", "randPeersLimit")
	if fn == nil || rpl == nil {
		r.Fatal("unresolved anchor pkg/hive2.(*Service).onFindNode / randPeersLimit")
		return
	}
	r.Saw(core.FuncName(fn))
	r.Eval(core.EdgeCount(fn))
	maxLimit := mustConst(r, "pkg/hive2", "maxPeersLimit")
	isLimitLoad := func(v ssa.Value) bool {
		fr, ok := core.AsField(v)
		return ok && !fr.Addr && fr.Name == "Limit" && fr.Struct == "pkg/hive2/pb.FindNodeReq"
	}
	// F1 clamp
	over, _ := core.AtomEdges(fn, cmpAtom(isLimitLoad, func(y ssa.Value) bool { k, ok := core.ConstInt(y); return ok && k == maxLimit }, ">"))
	okClamp := len(over) == 1
	var clampIf *ssa.BasicBlock
	for e := range over {
		clampIf = e.From
		okStore := false
		for _, st := range fieldStores(fn, "pkg/hive2/pb.FindNodeReq", "Limit") {
			if k, ok := core.ConstInt(st.Val); ok && k <= maxLimit && st.Block() == e.To {
				okStore = true
			}
		}
		okClamp = okClamp && okStore
	}
	r.Check("C29.F1", core.Key("C29.F1", fn, "clamp to maxPeersLimit"), fn.Pos(), okClamp,
		fmt.Sprintf("a requested limit above %d is replaced by %d", maxLimit, maxLimit), "the clamp `if req.Limit > maxPeersLimit { req.Limit = maxPeersLimit }` is missing or stores another value")
	nLoads, okDom := 0, true
	var badLoad ssa.Instruction
	for _, f := range core.WithClosures(fn) {
		core.EachInstr(f, func(_ *ssa.BasicBlock, _ int, in ssa.Instruction) {
			v, ok := in.(ssa.Value)
			if !ok || !isLimitLoad(v) {
				return
			}
			nLoads++
			if f != fn || clampIf == nil {
				return // closures run after the clamp (checked by call order below)
			}
			if in.Block() == clampIf {
				return // the comparison's own read
			}
			if !clampIf.Dominates(in.Block()) {
				okDom, badLoad = false, in
			}
		})
	}
	pos := fn.Pos()
	if badLoad != nil {
		pos = badLoad.Pos()
	}
	r.Check("C29.F1", core.Key("C29.F1", fn, "clamp dominates uses of Limit"), pos, okDom && clampIf != nil,
		"every use of the requested limit comes after the clamp", "the requested limit is read on a path that bypasses the clamp")
	r.Floor("C29.F1", "reads of req.Limit", nLoads, 3)

	// I1 sub-limits: the two randPeersLimit calls
	ia := core.Intervals(fn)
	rcalls := core.Calls(fn, "pkg/hive2.randPeersLimit")
	r.Floor("C29.I1", "randPeersLimit calls", len(rcalls), 2)
	if len(rcalls) == 2 {
		a, b := core.Common(rcalls[0]).Args[1], core.Common(rcalls[1]).Args[1]
		ok, why := sumAtMostLimit(ia, a, b, isLimitLoad)
		r.Check("C29.I1", core.Key("C29.I1", fn, "limitConn+limitKnown <= Limit"), rcalls[0].Pos(), ok,
			"the two pass limits add up to at most the requested limit on every path", why)
		// reply = append(first, second...)
		okCat := false
		for _, st := range fieldStoresAny(fn, "Peers") {
			if c, isApp := isBuiltinCall(st.Val, "append"); isApp {
				x, _ := core.CallOf(c.Call.Args[0])
				y, _ := core.CallOf(c.Call.Args[1])
				if x == rcalls[0].(*ssa.Call) && y == rcalls[1].(*ssa.Call) {
					// and this store is the last one before the write
					okCat = true
					for _, wr := range core.Calls(fn, "(pkg/p2p/protobuf.Writer).WriteMsgWithContext") {
						if !core.Precedes(st, wr) {
							okCat = false
						}
					}
				}
			}
		}
		r.Check("C29.I1", core.Key("C29.I1", fn, "reply = first-pass picks ++ second-pass picks"), fn.Pos(), okCat,
			"the reply written is exactly the concatenation of the two limited selections", "the reply is not append(randPeersLimit(…), randPeersLimit(…)...)")
	}
	// I2 randPeersLimit
	r.Saw(core.FuncName(rpl))
	r.Eval(core.EdgeCount(rpl))
	peersP, limitP := rpl.Params[0], rpl.Params[1]
	fits, _ := core.AtomEdges(rpl, lenOfAtom(peersP, func(y ssa.Value) bool { return y == ssa.Value(limitP) }, "<="))
	core.EachInstr(rpl, func(_ *ssa.BasicBlock, _ int, in ssa.Instruction) {
		ret, ok := in.(*ssa.Return)
		if !ok {
			return
		}
		v := core.Forward(ret.Results[0])
		okR := false
		if sl, isSl := v.(*ssa.Slice); isSl && core.Forward(sl.X) == ssa.Value(peersP) && sl.Low == nil && sl.High == ssa.Value(limitP) {
			okR = true
		} else if v == ssa.Value(peersP) {
			okR = len(fits) > 0 && core.OnlyBehind(rpl, ret, fits)
		}
		r.Check("C29.I2", core.Key("C29.I2", rpl, "result length <= limit"), ret.Pos(), okR,
			"randPeersLimit returns at most `limit` peers", "randPeersLimit can return more than `limit` peers")
	})

	// G1 filter in the closure that appends to resp.Peers
	var cl *ssa.Function
	var app *ssa.Call
	for _, c := range core.Closures(fn) {
		core.EachInstr(c, func(_ *ssa.BasicBlock, _ int, in ssa.Instruction) {
			if st, ok := in.(*ssa.Store); ok {
				if fr, ok := core.AsField(st.Addr); ok && fr.Name == "Peers" {
					if a, isApp := isBuiltinCall(st.Val, "append"); isApp {
						cl, app = c, a
					}
				}
			}
		})
	}
	if cl == nil {
		r.Fatal("unresolved anchor: closure of onFindNode that appends to resp.Peers")
		return
	}
	r.Saw(core.FuncName(cl))
	r.Eval(core.EdgeCount(cl))
	address := cl.Params[0]
	// captured variables are identified by what their cell in onFindNode holds, not by name
	var mk *ssa.MakeClosure
	core.EachInstr(fn, func(_ *ssa.BasicBlock, _ int, in ssa.Instruction) {
		if m, ok := in.(*ssa.MakeClosure); ok && m.Fn == ssa.Value(cl) {
			mk = m
		}
	})
	cellHolds := func(cell ssa.Value, pred func(ssa.Value) bool) bool {
		for _, u := range core.Uses(cell) {
			if st, ok := u.(*ssa.Store); ok && st.Addr == cell && pred(st.Val) {
				return true
			}
		}
		return false
	}
	kinds := map[string]func(ssa.Value) bool{
		// skip: []Address{peer.Address}
		"skip": func(v ssa.Value) bool {
			el := variadicElems(v)
			if len(el) != 1 {
				return false
			}
			fr, ok := core.AsField(core.Forward(el[0]))
			return ok && fr.Name == "Address" && fr.Struct == "pkg/p2p.Peer"
		},
		// target: boson.NewAddress(req.Target)
		"target": func(v ssa.Value) bool {
			c, _ := core.CallOf(v)
			if c == nil || !core.IsCallTo(c, "pkg/boson.NewAddress") {
				return false
			}
			fr, ok := core.AsField(core.Forward(c.Call.Args[0]))
			return ok && fr.Name == "Target"
		},
		// isPeerPublic: a bool computed in the handler
		"isPeerPublic": func(v ssa.Value) bool { return v.Type().String() == "bool" },
	}
	isFree := func(name string) func(ssa.Value) bool {
		return func(v ssa.Value) bool {
			p, ok := core.LoadedFrom(v)
			if !ok {
				return false
			}
			fv, ok := p.(*ssa.FreeVar)
			if !ok || mk == nil {
				return false
			}
			for i, f := range cl.FreeVars {
				if f == fv && i < len(mk.Bindings) {
					return cellHolds(mk.Bindings[i], kinds[name])
				}
			}
			return false
		}
	}
	_, notSkipped := core.AtomEdges(cl, core.BoolCallAtom(func(c *ssa.Call) bool {
		return core.IsCallTo(c, "(pkg/boson.Address).MemberOf") && c.Call.Args[0] == ssa.Value(address) && isFree("skip")(c.Call.Args[1])
	}))
	var proxCall *ssa.Call
	inPos, _ := core.AtomEdges(cl, core.BoolCallAtom(func(c *ssa.Call) bool {
		if !core.IsCallTo(c, "pkg/hive2.inArray") {
			return false
		}
		pc, _ := core.CallOf(c.Call.Args[0])
		if pc == nil || !core.IsCallTo(pc, "pkg/boson.Proximity") {
			return false
		}
		fr, ok := core.AsField(core.Forward(c.Call.Args[1]))
		if !ok || fr.Name != "Pos" {
			return false
		}
		proxCall = pc
		return true
	}))
	priv := core.EdgeSet{}
	_, notPriv := core.AtomEdges(cl, core.BoolCallAtom(func(c *ssa.Call) bool {
		return core.CalleeName(&c.Call) == "github.com/multiformats/go-multiaddr/net.IsPrivateAddr"
	}))
	allow, _ := core.AtomEdges(cl, func(base ssa.Value) (bool, bool) {
		fr, ok := core.AsField(base)
		if ok && !fr.Addr && fr.Name == "AllowPrivateCIDRs" {
			return true, true
		}
		return false, false
	})
	_, notPublic := core.AtomEdges(cl, func(base ssa.Value) (bool, bool) {
		if isFree("isPeerPublic")(base) {
			return true, true
		}
		return false, false
	})
	for _, es := range []core.EdgeSet{notPriv, allow, notPublic} {
		for e := range es {
			priv[e] = true
		}
	}
	behind := func(name string, good core.EdgeSet, what, bad string) {
		r.Check("C29.G1", core.Key("C29.G1", fn, "reply entry behind "+name), app.Pos(), len(good) > 0 && core.OnlyBehind(cl, app, good), what, bad)
	}
	behind("!MemberOf(skip)", notSkipped, "a peer is offered only when it is not in the skip list (requester, earlier picks)", "a peer can be appended to the reply without the skip-list test")
	behind("inArray(po, req.Pos)", inPos, "a peer is offered only when its proximity to the target is among the requested orders", "a peer can be appended to the reply without the requested-orders test")
	r.Check("C29.G1", core.Key("C29.G1", fn, "private-address rule"), app.Pos(), len(notPriv) > 0 && len(allow) > 0 && len(notPublic) > 0 && core.OnlyBehind(cl, app, priv),
		"a private-network address is offered only if allowed by configuration or the requester is not public", "a private address can be offered to a public requester although AllowPrivateCIDRs is off")
	// proximity operands
	okProx := false
	if proxCall != nil {
		t, ok1 := callChain(proxCall.Call.Args[0], "(pkg/boson.Address).Bytes")
		a, ok2 := callChain(proxCall.Call.Args[1], "(pkg/boson.Address).Bytes")
		okProx = ok1 && ok2 && isFree("target")(t) && a == ssa.Value(address)
	}
	r.Check("C29.P1", core.Key("C29.P1", fn, "proximity(target, candidate)"), app.Pos(), okProx,
		"the order tested is the proximity of the candidate to the requested target", "the proximity is not computed between the requested target and the candidate")

	// P1 skip list
	var skipCell ssa.Value
	core.EachInstr(fn, func(_ *ssa.BasicBlock, _ int, u ssa.Instruction) {
		if a, ok := u.(*ssa.Alloc); ok && cellHolds(a, kinds["skip"]) {
			skipCell = a
		}
	})
	okInit, okSecond := false, false
	if skipCell != nil {
		var kad2 []ssa.Instruction
		core.EachInstr(fn, func(_ *ssa.BasicBlock, _ int, in ssa.Instruction) {
			if c := core.Common(in); c != nil {
				if f := core.CalleeFunc(c); f != nil && f.Name() == "EachKnownPeer" {
					kad2 = append(kad2, in)
				}
			}
		})
		for _, u := range core.Uses(skipCell) {
			st, ok := u.(*ssa.Store)
			if !ok || st.Addr != skipCell {
				continue
			}
			if el := variadicElems(st.Val); len(el) == 1 {
				if fr, ok := core.AsField(core.Forward(el[0])); ok && fr.Name == "Address" && fr.Struct == "pkg/p2p.Peer" {
					okInit = true
				}
			}
			if c, isApp := isBuiltinCall(st.Val, "append"); isApp && len(rcalls) == 2 {
				// appended element derives from the first selection
				for _, e := range variadicElems(c.Call.Args[1]) {
					if core.DerivesFrom(e, func(x ssa.Value) bool { cc, _ := core.CallOf(x); return cc == rcalls[0].(*ssa.Call) }, map[string]bool{"pkg/boson.NewAddress": true}) {
						for _, k2 := range kad2 {
							if loopExitDominates(fn, st.Block(), k2.Block()) {
								okSecond = true
							}
						}
					}
				}
			}
		}
	}
	// the skip list only grows: every assignment is the initial literal or append(skip, …)
	if skipCell != nil {
		check := func(f *ssa.Function, cell ssa.Value) {
			for _, u := range core.Uses(cell) {
				st, ok := u.(*ssa.Store)
				if !ok || st.Addr != cell {
					continue
				}
				okGrow := false
				if el := variadicElems(st.Val); len(el) >= 1 && st.Parent() == fn {
					okGrow = true // the initial literal (checked below to hold the requester)
				}
				if c, isApp := isBuiltinCall(st.Val, "append"); isApp {
					if p, isLoad := core.LoadedFrom(c.Call.Args[0]); isLoad && p == cell {
						okGrow = true
					}
				}
				r.Check("C29.P1", lsKey("C29.P1", f, "skip list only grows"), st.Pos(), okGrow,
					"the skip list is only ever extended (requester first, then every pick)", "the skip list is reset or re-sliced between the passes: the requester (and earlier picks) can be offered in the second pass")
			}
		}
		check(fn, skipCell)
		for i, fv := range cl.FreeVars {
			if mk != nil && i < len(mk.Bindings) && mk.Bindings[i] == skipCell {
				check(cl, fv)
			}
		}
	}
	r.Check("C29.P1", core.Key("C29.P1", fn, "skip list starts with the requester"), fn.Pos(), okInit,
		"the requester itself is in the skip list from the start", "the skip list is not initialised with peer.Address")
	r.Check("C29.P1", core.Key("C29.P1", fn, "first-pass picks skipped in second pass"), fn.Pos(), okSecond,
		"the peers picked in the first pass are added to the skip list before the second pass", "the second pass can pick a peer already chosen in the first pass")
	deleteAtIndexLint(r, "C29.L1", "a reply entry that should be filtered out (private address, wrong order, duplicate) stays when it directly follows another removed entry", "pkg/hive2")
}

// loopExitDominates: block body lies in a loop whose header dominates target, and target is
// outside that loop (the loop has completed before target runs).
func loopExitDominates(fn *ssa.Function, body, target *ssa.BasicBlock) bool {
	h := loopHeader(fn, body)
	if h == nil {
		return false
	}
	return h.Dominates(target) && loopHeader(fn, target) != h
}

// sumAtMostLimit: a + b <= L on every path, where a and b are phis/values defined per
// branch: per incoming edge either (k=L/2, L-k) or constants with sum <= lower bound of L.
func sumAtMostLimit(ia *core.IA, a, b ssa.Value, isLimit func(ssa.Value) bool) (bool, string) {
	pa, oka := a.(*ssa.Phi)
	pb, okb := b.(*ssa.Phi)
	type pair struct {
		a, b ssa.Value
		edge core.Edge
		has  bool
	}
	var pairs []pair
	if oka && okb && pa.Block() == pb.Block() {
		for i := range pa.Edges {
			pairs = append(pairs, pair{pa.Edges[i], pb.Edges[i], core.Edge{From: pa.Block().Preds[i], To: pa.Block()}, true})
		}
	} else {
		pairs = append(pairs, pair{a: a, b: b})
	}
	stripConv := func(v ssa.Value) ssa.Value {
		for {
			c, ok := v.(*ssa.Convert)
			if !ok {
				return v
			}
			v = c.X
		}
	}
	for _, p := range pairs {
		x, y := p.a, p.b
		cx, okx := core.ConstInt(x)
		cy, oky := core.ConstInt(y)
		if okx && oky {
			// constants: need L >= cx+cy on this edge
			if !p.has {
				return false, "constant limits without a path condition"
			}
			// find the Limit value compared on the path: evaluate every Limit load's interval on the edge
			lo := int64(-1 << 62)
			found := false
			for _, blk := range p.edge.From.Parent().Blocks {
				for _, in := range blk.Instrs {
					if v, ok := in.(ssa.Value); ok && isLimit(v) {
						itv := ia.ValueOnEdge(v, p.edge)
						if !itv.Empty() && blk.Dominates(p.edge.From) {
							if !found || itv.Lo > lo {
								lo = itv.Lo
							}
							found = true
						}
					}
				}
			}
			if lo < 0 {
				lo = 0 // a reply cannot hold fewer than zero peers: the bound is max(L, 0)
			}
			if !found || lo < cx+cy {
				return false, fmt.Sprintf("on the path where the pass limits are the constants %d and %d the requested limit is only known to be >= %s: a request for fewer peers gets %d", cx, cy, fmtLo(lo, found), cx+cy)
			}
			continue
		}
		// symbolic: one is L - other, with other = L / 2 (or any non-negative part of L)
		sym := func(whole, part ssa.Value) bool {
			sub, ok := stripConv(whole).(*ssa.BinOp)
			if !ok || sub.Op != token.SUB {
				return false
			}
			if !isLimit(stripConv(sub.X)) {
				return false
			}
			if stripConv(sub.Y) != stripConv(part) && sub.Y != part {
				return false
			}
			q, ok := stripConv(part).(*ssa.BinOp)
			if !ok || q.Op != token.QUO || !isLimit(stripConv(q.X)) {
				return false
			}
			k, ok := core.ConstInt(q.Y)
			return ok && k >= 1
		}
		if sym(x, y) || sym(y, x) {
			continue
		}
		return false, "the pass limits are not recognisably (L - L/k, L/k) nor constants"
	}
	return true, ""
}

func fmtLo(v int64, found bool) string {
	if !found || v <= -1<<61 {
		return "-inf"
	}
	return fmt.Sprint(v)
}
