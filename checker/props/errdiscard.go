package props

import (
	"go/types"
	"strings"

	"aurora-verif/checker/core"

	"golang.org/x/tools/go/ssa"
)

// discardedErrors lists the calls in fn (closures not included) whose error result is
// dropped: assigned to blank / never read, not tested against nil, not returned, not handed
// to another call (logging, wrapping). Deferred and `go` calls are not considered.
func discardedErrors(fn *ssa.Function) []*ssa.Call {
	var out []*ssa.Call
	core.EachInstr(fn, func(_ *ssa.BasicBlock, _ int, in ssa.Instruction) {
		c, ok := in.(*ssa.Call)
		if !ok {
			return
		}
		sig := c.Call.Signature()
		if sig == nil || sig.Results().Len() == 0 {
			return
		}
		last := sig.Results().At(sig.Results().Len() - 1)
		if !isErrorType(last.Type()) {
			return
		}
		var errVal ssa.Value
		if sig.Results().Len() == 1 {
			errVal = c
		} else {
			for _, u := range core.Uses(c) {
				if e, ok := u.(*ssa.Extract); ok && e.Index == sig.Results().Len()-1 {
					errVal = e
				}
			}
		}
		if errVal == nil || !valueIsConsumed(errVal, 0) {
			out = append(out, c)
		}
	})
	return out
}

func isErrorType(t types.Type) bool { return t.String() == "error" }

// valueIsConsumed: the value (or a cell it is stored into) is read by something that can
// act on it: a comparison, a return, a call argument, a send, a phi that is consumed.
func valueIsConsumed(v ssa.Value, depth int) bool {
	if depth > 4 {
		return true
	}
	for _, u := range core.Uses(v) {
		switch x := u.(type) {
		case *ssa.DebugRef:
		case *ssa.Store:
			if x.Val != v {
				return true
			}
			// stored into a cell: consumed if the cell is ever loaded (named result cells are
			// loaded at every return)
			for _, cu := range core.Uses(x.Addr) {
				if ld, ok := cu.(*ssa.UnOp); ok && ld.X == x.Addr {
					return true
				}
				if _, ok := cu.(*ssa.MakeClosure); ok {
					return true
				}
			}
			if _, isFV := x.Addr.(*ssa.FreeVar); isFV {
				return true
			}
			if _, isField := x.Addr.(*ssa.FieldAddr); isField {
				return true
			}
		case *ssa.Phi:
			if valueIsConsumed(x, depth+1) {
				return true
			}
		case *ssa.MakeInterface, *ssa.ChangeInterface, *ssa.ChangeType:
			if valueIsConsumed(x.(ssa.Value), depth+1) {
				return true
			}
		default:
			return true
		}
	}
	return false
}

// checkNoDiscardedErrors records one obligation per error-returning call in fn whose callee
// matches one of the prefixes (the "decision inputs" of the function).
func checkNoDiscardedErrors(r *core.Run, rule string, fn *ssa.Function, calleePrefixes []string, why string) int {
	n := 0
	disc := map[*ssa.Call]bool{}
	for _, c := range discardedErrors(fn) {
		disc[c] = true
	}
	core.EachInstr(fn, func(_ *ssa.BasicBlock, _ int, in ssa.Instruction) {
		c, ok := in.(*ssa.Call)
		if !ok {
			return
		}
		sig := c.Call.Signature()
		if sig == nil || sig.Results().Len() == 0 || !isErrorType(sig.Results().At(sig.Results().Len()-1).Type()) {
			return
		}
		name := core.CalleeName(&c.Call)
		if name == "" && !c.Call.IsInvoke() {
			// call of a function value: name it by the field it was loaded from
			if fr, ok := core.AsField(core.Forward(c.Call.Value)); ok {
				name = "field:" + fr.Name
			}
		}
		match := false
		for _, p := range calleePrefixes {
			if strings.Contains(name, p) {
				match = true
			}
		}
		if !match {
			return
		}
		n++
		short := name
		if i := strings.LastIndex(short, "/"); i >= 0 {
			short = short[i+1:]
		}
		r.Check(rule, lsKey(rule, fn, "error of "+short+" is acted on"), c.Pos(), !disc[c],
			"the error result of "+short+" is tested, returned or passed on", "the error of "+short+" is discarded: "+why)
	})
	return n
}
