package props

import (
	"fmt"
	"go/token"

	"aurora-verif/checker/core"

	"golang.org/x/tools/go/ssa"
)

func init() {
	reg("C05", Meta{
		Technique:   "sibling agreement of signer/verifier digests, provenance of address/owner, must-guard reachability in soc.Valid, interval-checked slicing in soc.FromChunk",
		Explanation: "C05 (single-owner chunks), structural clauses: (A1) SOC.Sign signs and soc.FromChunk recovers over the same digest hash(id, wrapped chunk address), and the wrapped chunk FromChunk hashes is the one it stores; (P1) the owner is the Ethereum address of the signer's key (Sign) / of the key recovered from signature and digest (FromChunk); the SOC address is NewAddress(hash(id, owner)) behind len(owner)==AddressSize; (G2) recoverAddress hands out an owner only as NewEthereumAddress(*Recover(signature, digest)) of its own two arguments, behind the recovery's error check (no cache/shortcut that skips the digest); (G1) soc.Valid returns a non-false verdict only as ch.Address().Equal(address of FromChunk(ch)) behind both error checks; (I1) every slicing of the payload in FromChunk is within the length guaranteed by the minimum-size guard. Not decided: ECDSA and keccak themselves, that altering a byte invalidates (follows from A1/P1/G1 plus cryptographic assumptions).",
		Assumptions: []string{"crypto.Recover returns the key that signed the digest", "keccak256 is collision resistant"},
	}, c05)
}

func c05(r *core.Run) {
	w := r.W
	socFreshSerialisation(r, "C05.W2")
	const S = "pkg/soc.SOC"
	sign := w.Func("pkg/soc", "(*SOC).Sign")
	from := w.Func("pkg/soc", "FromChunk")
	valid := w.Func("pkg/soc", "Valid")
	addr := w.Func("pkg/soc", "(*SOC).address")
	create := w.Func("pkg/soc", "CreateAddress")
	for n, f := range map[string]*ssa.Function{"(*SOC).Sign": sign, "FromChunk": from, "Valid": valid, "(*SOC).address": addr, "CreateAddress": create} {
		if f == nil {
			r.Fatal("unresolved anchor pkg/soc.%s", n)
			return
		}
		r.Saw(core.FuncName(f))
		r.Eval(core.EdgeCount(f))
	}
	// digest shape: hash(<load of s.id>, X.Address().Bytes()); returns X and the call
	digest := func(fn *ssa.Function) (x ssa.Value, call *ssa.Call, ok bool) {
		hs := core.Calls(fn, "pkg/soc.hash")
		if len(hs) != 1 {
			return nil, nil, false
		}
		call = hs[0].(*ssa.Call)
		el := variadicElems(call.Call.Args[0])
		if len(el) != 2 || el[0] == nil || el[1] == nil {
			return nil, call, false
		}
		if !loadsField(S, "id")(core.Forward(el[0])) {
			// ID is a named slice type: a ChangeType wraps the load
			if ct, isCT := el[0].(*ssa.ChangeType); !isCT || !loadsField(S, "id")(core.Forward(ct.X)) {
				return nil, call, false
			}
		}
		x, ok = callChain(el[1], "(pkg/boson.Address).Bytes", "(pkg/boson.Chunk).Address")
		return x, call, ok
	}
	sx, scall, sok := digest(sign)
	fx, fcall, fok := digest(from)
	okSign := sok && loadsField(S, "chunk")(core.Forward(sx))
	r.Check("C05.A1", core.Key("C05.A1", sign, "digest = hash(id, wrapped.Address())"), sign.Pos(), okSign,
		"Sign signs hash(id, address of the wrapped chunk)", "Sign's digest is not hash(s.id, s.chunk.Address().Bytes())")
	okFrom := false
	if fok {
		if c, _ := core.CallOf(fx); c != nil && core.IsCallTo(c, "pkg/cac.NewWithDataSpan") {
			// and that chunk is what is stored as s.chunk
			for _, st := range fieldStores(from, S, "chunk") {
				if cc, _ := core.CallOf(st.Val); cc == c {
					okFrom = true
				}
			}
		}
	}
	r.Check("C05.A1", core.Key("C05.A1", from, "digest = hash(id, wrapped.Address())"), from.Pos(), okFrom,
		"FromChunk verifies over hash(id, address of the wrapped chunk it stores)", "FromChunk's digest is not hash(s.id, ch.Address().Bytes()) of the chunk it stores")
	// digest consumers
	okUse := false
	if scall != nil {
		for _, c := range core.Calls(sign, "(pkg/crypto.Signer).Sign") {
			if cc, idx := core.CallOf(core.Common(c).Args[0]); cc == scall && idx == 0 {
				okUse = true
			}
		}
	}
	r.Check("C05.A1", core.Key("C05.A1", sign, "digest is what is signed"), sign.Pos(), okUse,
		"the signer signs exactly that digest", "signer.Sign is not called on the digest")
	okRec := false
	var recCall *ssa.Call
	if fcall != nil {
		for _, c := range core.Calls(from, "pkg/soc.recoverAddress") {
			a := core.Common(c).Args
			if cc, idx := core.CallOf(a[1]); cc == fcall && idx == 0 && loadsField(S, "signature")(core.Forward(a[0])) {
				okRec = true
				recCall = c.(*ssa.Call)
			}
		}
	}
	r.Check("C05.A1", core.Key("C05.A1", from, "recover(signature, digest)"), from.Pos(), okRec,
		"the owner is recovered from the stored signature over exactly that digest", "recoverAddress is not called with (s.signature, digest)")

	// G2 recoverAddress: the owner is ALWAYS recovered from (signature, digest) — no shortcut
	// (cache, memo) may return an owner without checking this digest
	if ra := w.Func("pkg/soc", "recoverAddress"); ra == nil {
		r.Fatal("unresolved anchor pkg/soc.recoverAddress")
	} else {
		r.Saw(core.FuncName(ra))
		r.Eval(core.EdgeCount(ra))
		n := 0
		core.EachInstr(ra, func(_ *ssa.BasicBlock, _ int, in ssa.Instruction) {
			ret, ok := in.(*ssa.Return)
			if !ok || core.IsNilConst(core.Forward(ret.Results[0])) {
				return
			}
			n++
			okv := false
			if ec, idx := core.CallOf(ret.Results[0]); ec != nil && idx == 0 && core.IsCallTo(ec, "pkg/crypto.NewEthereumAddress") {
				if p, isLoad := core.LoadedFrom(ec.Call.Args[0]); isLoad {
					if rc, ridx := core.CallOf(p); rc != nil && ridx == 0 && core.IsCallTo(rc, "pkg/crypto.Recover") &&
						rc.Call.Args[0] == ssa.Value(ra.Params[0]) && rc.Call.Args[1] == ssa.Value(ra.Params[1]) {
						good, _ := core.AtomEdges(ra, core.ErrNilAtom(func(c *ssa.Call) bool { return c == rc }))
						okv = len(good) > 0 && core.OnlyBehind(ra, ret, good)
					}
				}
			}
			r.Check("C05.G2", core.Key("C05.G2", ra, "owner only from Recover(signature, digest)"), ret.Pos(), okv,
				"every owner address handed out was recovered from this signature over this digest", "recoverAddress can return an owner that was not recovered from (signature, digest) — e.g. from a cache keyed by the signature alone: a chunk with a known signature but another payload is accepted")
		})
		r.Floor("C05.G2", "non-nil returns of recoverAddress", n, 1)
	}

	// P1 owner
	okOwnerF := false
	for _, st := range fieldStores(from, S, "owner") {
		if cc, idx := core.CallOf(st.Val); recCall != nil && cc == recCall && idx == 0 {
			okOwnerF = true
		} else {
			okOwnerF = false
			break
		}
	}
	r.Check("C05.P1", core.Key("C05.P1", from, "owner = recovered address"), from.Pos(), okOwnerF,
		"FromChunk sets the owner to the address recovered from the signature", "FromChunk assigns an owner that is not the recovered address")
	okOwnerS := false
	for _, st := range fieldStores(sign, S, "owner") {
		cc, idx := core.CallOf(st.Val)
		okOwnerS = cc != nil && idx == 0 && core.IsCallTo(cc, "pkg/crypto.NewEthereumAddress")
		if okOwnerS {
			// argument: *publicKey from signer.PublicKey()
			p, isLoad := core.LoadedFrom(cc.Call.Args[0])
			pk, pidx := core.CallOf(p)
			okOwnerS = isLoad && pk != nil && pidx == 0 && core.IsCallTo(pk, "(pkg/crypto.Signer).PublicKey")
		}
		if !okOwnerS {
			break
		}
	}
	r.Check("C05.P1", core.Key("C05.P1", sign, "owner = address of signer key"), sign.Pos(), okOwnerS,
		"Sign sets the owner to the Ethereum address of the signer's public key", "Sign assigns an owner that is not NewEthereumAddress(*signer.PublicKey())")
	// address() = CreateAddress(s.id, s.owner) behind len(owner)==AddressSize
	asz := mustConst(r, "pkg/crypto", "AddressSize")
	okAddr := false
	for _, c := range core.Calls(addr, "pkg/soc.CreateAddress") {
		a := core.Common(c).Args
		good, _ := core.AtomEdges(addr, lenOfAtomField(S, "owner", asz))
		okAddr = loadsField(S, "id")(core.Forward(a[0])) && loadsField(S, "owner")(core.Forward(a[1])) && len(good) > 0 && core.OnlyBehind(addr, c, good)
	}
	r.Check("C05.P1", core.Key("C05.P1", addr, "address = CreateAddress(id, owner)"), addr.Pos(), okAddr,
		"the SOC address is CreateAddress(id, owner), computed only for a 20-byte owner", "(*SOC).address is not CreateAddress(s.id, s.owner) behind the owner-length check")
	okCreate := false
	if hs := core.Calls(create, "pkg/soc.hash"); len(hs) == 1 {
		el := variadicElems(core.Common(hs[0]).Args[0])
		if len(el) == 2 {
			e0 := el[0]
			if ct, ok := e0.(*ssa.ChangeType); ok {
				e0 = ct.X
			}
			okCreate = e0 == ssa.Value(create.Params[0]) && el[1] == ssa.Value(create.Params[1])
		}
		if okCreate {
			okCreate = false
			for _, n := range core.Calls(create, "pkg/boson.NewAddress") {
				if cc, idx := core.CallOf(core.Common(n).Args[0]); cc == hs[0].(*ssa.Call) && idx == 0 {
					okCreate = true
				}
			}
		}
	}
	r.Check("C05.P1", core.Key("C05.P1", create, "NewAddress(hash(id, owner))"), create.Pos(), okCreate,
		"CreateAddress is keccak(id || owner)", "CreateAddress is not NewAddress(hash(id, owner))")

	// G1 Valid
	nAcc := 0
	core.EachInstr(valid, func(_ *ssa.BasicBlock, _ int, in ssa.Instruction) {
		ret, ok := in.(*ssa.Return)
		if !ok {
			return
		}
		v := ret.Results[0]
		if b, isC := core.ConstBool(v); isC {
			r.Check("C05.G1", core.Key("C05.G1", valid, "constant return"), ret.Pos(), !b, "a constant verdict is false", "soc.Valid returns the constant true")
			return
		}
		nAcc++
		c, _ := core.CallOf(v)
		ok2 := c != nil && core.IsCallTo(c, "(pkg/boson.Address).Equal")
		if ok2 {
			recv, arg := c.Call.Args[0], c.Call.Args[1]
			ac, _ := core.CallOf(recv)
			ok2 = ac != nil && core.IsCallTo(ac, "(pkg/boson.Chunk).Address") && ac.Call.Value == ssa.Value(valid.Params[0])
			adc, aidx := core.CallOf(arg)
			ok2 = ok2 && adc != nil && aidx == 0 && core.IsCallTo(adc, "(*pkg/soc.SOC).address")
			if ok2 {
				fc, fidx := core.CallOf(adc.Call.Args[0])
				ok2 = fc != nil && fidx == 0 && core.IsCallTo(fc, "pkg/soc.FromChunk") && fc.Call.Args[0] == ssa.Value(valid.Params[0])
			}
		}
		r.Check("C05.G1", core.Key("C05.G1", valid, "verdict = address compare"), ret.Pos(), ok2,
			"the verdict is ch.Address().Equal(address derived from the parsed chunk)", "the verdict is not ch.Address().Equal(FromChunk(ch).address())")
		behindAll(r, "C05.G1", valid, ret, "accepting return", []guardSpec{
			{"FromChunk succeeded", errNilOf("pkg/soc.FromChunk"), true},
			{"address derivation succeeded", errNilOf("(*pkg/soc.SOC).address"), true},
		})
	})
	r.Floor("C05.G1", "accepting returns of soc.Valid", nAcc, 1)

	// I1 FromChunk slicing
	ia := core.Intervals(from)
	var data ssa.Value
	for _, c := range core.Calls(from, "(pkg/boson.Chunk).Data") {
		data = c.(*ssa.Call)
	}
	n := 0
	core.EachInstr(from, func(_ *ssa.BasicBlock, _ int, in ssa.Instruction) {
		sl, ok := in.(*ssa.Slice)
		if !ok || data == nil || core.Strip(sl.X) != data {
			return
		}
		n++
		okS, why := sliceGuarded(from, ia, sl)
		r.Check("C05.I1", core.Key("C05.I1", from, "payload slicing"), sl.Pos(), okS,
			"the payload is sliced within the length guaranteed by the minimum-size guard", why)
	})
	r.Floor("C05.I1", "payload slicings in FromChunk", n, 3)
	// owner length guard before acceptance in FromChunk
	good, _ := core.AtomEdges(from, func(base ssa.Value) (bool, bool) {
		return cmpAtom(func(v ssa.Value) bool {
			c, ok := isBuiltinCall(v, "len")
			if !ok {
				return false
			}
			cc, idx := core.CallOf(c.Call.Args[0])
			return cc != nil && idx == 0 && core.IsCallTo(cc, "pkg/soc.recoverAddress")
		}, func(y ssa.Value) bool { k, ok := core.ConstInt(y); return ok && k == asz }, "==")(base)
	})
	for _, st := range fieldStores(from, S, "owner") {
		r.Check("C05.I1", core.Key("C05.I1", from, "owner length"), st.Pos(), len(good) > 0 && core.OnlyBehind(from, st, good),
			"the recovered owner is accepted only with the address length", "the owner is stored without the length check")
	}
	c05Recover(r)
	c05LowS(r)
	recoverOnCurve(r, "C05.G5", "Recover")
	keyAddressRules(r, "C05.P2", "NewEthereumAddress")
}

// c05Recover (G3): crypto.Recover hands btcec.RecoverCompact a recovery byte that is the
// signature's own last byte, unmodified, and proven to lie in 27..30 — the values Sign
// emits. btcec also accepts 31..34 (same key, compressed form) and a normalising Recover
// would accept further spellings: either gives one signature two valid serialisations, so a
// single-byte change of a signed chunk would leave it valid.
func c05Recover(r *core.Run) {
	fn := r.W.Func("pkg/crypto", "Recover")
	if fn == nil {
		r.Fatal("unresolved anchor pkg/crypto.Recover")
		return
	}
	r.Saw(core.FuncName(fn))
	r.Eval(core.EdgeCount(fn))
	sig := fn.Params[0]
	calls := core.Calls(fn, "github.com/btcsuite/btcd/btcec.RecoverCompact")
	r.Floor("C05.G3", "RecoverCompact calls in crypto.Recover", len(calls), 1)
	ia := core.Intervals(fn)
	for _, c := range calls {
		buf := core.Strip(core.Common(c).Args[1])
		// stores into element 0 of the buffer handed to RecoverCompact
		n := 0
		okAll := true
		why := "no store of the recovery byte into the buffer's first element was found"
		core.EachInstr(fn, func(_ *ssa.BasicBlock, _ int, in ssa.Instruction) {
			st, ok := in.(*ssa.Store)
			if !ok {
				return
			}
			el, ok := st.Addr.(*ssa.IndexAddr)
			if !ok || core.Strip(el.X) != buf {
				return
			}
			if k, isC := core.ConstInt(el.Index); !isC || k != 0 {
				return
			}
			n++
			// identity: the stored value is a load of signature[64]
			ld, isLd := st.Val.(*ssa.UnOp)
			var src *ssa.IndexAddr
			if isLd && ld.Op == token.MUL {
				src, _ = ld.X.(*ssa.IndexAddr)
			}
			if src == nil || src.X != ssa.Value(sig) {
				okAll, why = false, "the recovery byte handed to btcec is not the signature's own last byte (it is rewritten on some path): several spellings of the byte recover the same key"
				return
			}
			if k, isC := core.ConstInt(src.Index); !isC || k != 64 {
				okAll, why = false, "the recovery byte is not taken from signature[64]"
				return
			}
			iv := ia.ValueAt(st.Val, st)
			if ia.Incomplete || iv.Lo < 27 || iv.Hi > 30 {
				okAll, why = false, fmt.Sprintf("the recovery byte reaches btcec with range [%d,%d]: btcec reads 31..34 as the compressed form of 27..30 and recovers the same key, so changing that one byte of a signed chunk leaves it valid", iv.Lo, iv.Hi)
			}
		})
		r.Check("C05.G3", core.Key("C05.G3", fn, "recovery byte is signature[64], within 27..30"), c.Pos(), n > 0 && okAll,
			"the recovery byte given to btcec is the signature's last byte itself and is proven to be one of 27..30", why)
	}
}

// lenOfAtomField: atom "len(<load of struct.field>) == k".
func lenOfAtomField(structName, field string, k int64) core.Atom {
	return cmpAtom(func(v ssa.Value) bool {
		c, ok := isBuiltinCall(v, "len")
		return ok && loadsField(structName, field)(core.Forward(c.Call.Args[0]))
	}, func(y ssa.Value) bool { c, ok := core.ConstInt(y); return ok && c == k }, "==")
}
