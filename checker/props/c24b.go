package props

import (
	"aurora-verif/checker/core"

	"golang.org/x/tools/go/ssa"
)

// c24KnownRemovals (G3): "every connected peer is also known". A peer is taken out of the
// known set only (a) together with its removal from the connected set, earlier in the same
// function, or (b) behind a test that it is not connected (connectedPeers.Exists false).
// The dial-failure paths (Connection, connect), GetAuroraAddress and the boot-node branch
// of Outbound run while the same peer may have connected inbound: removing it from the
// known set there leaves it connected but not known.
func c24KnownRemovals(r *core.Run) {
	const rule = "C24.G3"
	const psRemove = psT + "Remove"
	n := 0
	done := map[*ssa.Function]bool{}
	for _, top := range r.W.PkgFuncs(kadPkg) {
		for _, fn := range core.WithClosures(top) {
			if done[fn] {
				continue
			}
			done[fn] = true
			var knownRm, connRm []*ssa.Call
			core.EachInstr(fn, func(_ *ssa.BasicBlock, _ int, in ssa.Instruction) {
				c, ok := in.(*ssa.Call)
				if !ok || core.CalleeName(&c.Call) != psRemove || len(c.Call.Args) < 2 {
					return
				}
				if isKadList(c.Call.Args[0], "knownPeers") {
					knownRm = append(knownRm, c)
				}
				if isKadList(c.Call.Args[0], "connectedPeers") {
					connRm = append(connRm, c)
				}
			})
			if len(knownRm) == 0 {
				continue
			}
			_, notConn := core.AtomEdges(fn, core.BoolCallAtom(func(c *ssa.Call) bool {
				return core.CalleeName(&c.Call) == psT+"Exists" && len(c.Call.Args) >= 2 && isKadList(c.Call.Args[0], "connectedPeers")
			}))
			for _, k := range knownRm {
				n++
				ok := false
				for _, c := range connRm {
					if core.Precedes(c, k) && core.SameExpr(core.Forward(c.Call.Args[1]), core.Forward(k.Call.Args[1])) {
						ok = true
					}
				}
				if !ok && len(notConn) > 0 && core.OnlyBehind(fn, k, notConn) {
					ok = true
				}
				r.Saw(core.FuncName(fn))
				r.Check(rule, lsKey(rule, fn, "peer leaves the known set only when it is not (or no longer) connected"), k.Pos(), ok,
					"a peer is removed from the known set together with its removal from the connected set, or behind a test that it is not connected", core.FuncName(fn)+" removes a peer from knownPeers while it may be connected (it connected inbound while the dial was pending, or has no address-book entry): the peer is then connected but not known")
			}
		}
	}
	r.Floor(rule, "removals from the known set", n, 3)
}
