package props

// extraNotes: clauses added after the first version of a property's check (mostly after a
// seeded change was missed); appended to the property's technique / explanation by reg.
var extraNotes = map[string][2]string{
	"C01": {"must-follow / stale-read rule and chunk-shape rule for the chunk feeder",
		"(F1) in chunkFeeder.Write, after a chunk was handed to the next stage successfully, f.bufferIdx is overwritten before anything reads it again (otherwise the next chunk of the same Write is filled at a stale offset); (F2) every chunk the feeder emits is buf[:8+n] with span buf[:8] holding PutUint64(n) of the same n (the empty file: a zeroed 8-byte header)."},
	"C02": {"must-follow / stale-read rule and chunk-shape rule for the chunk feeder",
		"(F1, F2) the chunk feeder's emission rules (see C01): the cut of the byte stream into chunks does not depend on how the writes were split only if the pending-byte index restarts at zero after each emitted chunk and each chunk's header is its own payload length."},
	"C08": {"interval analysis and arithmetic-provenance rule for the payload length recovered by the decrypting store",
		"(I1) at the strip in decryptChunkData the kept length is proven <= ChunkSize by the interval analysis — the span is reduced level by level until it fits, not once; (P2) that length is computed from the decrypted span by arithmetic only: no path substitutes a constant (a clamp keeps padding bytes of chunks above level 1)."},
	"C09": {"argument-identity rule for the per-reference section size",
		"(P2) in processChunkAddresses the data-chunk / subtree decision of each reference uses subtrieSection(data, cursor, j.refLength, subTrieSize) at that reference's own cursor (a lone trailing chunk carried up sits on a shallower level than its siblings)."},
}
