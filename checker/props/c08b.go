package props

import (
	"go/token"

	"aurora-verif/checker/core"

	"golang.org/x/tools/go/ssa"
)

// c08Transform: the cipher is an XOR with a keystream, so decryption is the same
// transformation — provided (T1) Encrypt and Decrypt both run transform(data, fresh out),
// (T2) transform feeds Transcrypt the same window [i:i+l] of in and out, the segment counter
// e.index advances exactly once per segment, and (T3) Transcrypt writes out[j] = in[j] ^ ks[j]
// at one index j, where the keystream ks is produced by hashing only the key and the counter —
// never the data (a keystream that depends on the plaintext cannot be regenerated).
func c08Transform(r *core.Run) {
	w := r.W
	const E = "pkg/encryption.Encryption"
	// T1
	for _, name := range []string{"(*Encryption).Encrypt", "(*Encryption).Decrypt"} {
		fn := w.Func("pkg/encryption", name)
		if fn == nil {
			r.Fatal("unresolved anchor pkg/encryption.%s", name)
			continue
		}
		r.Saw(core.FuncName(fn))
		ok := false
		var pos token.Pos = fn.Pos()
		for _, c := range core.Calls(fn, "(*pkg/encryption.Encryption).transform") {
			a := core.Common(c).Args
			pos = c.Pos()
			_, fresh := a[2].(*ssa.MakeSlice)
			if a[1] == ssa.Value(fn.Params[1]) && fresh {
				// and the result returned is that buffer
				core.EachInstr(fn, func(_ *ssa.BasicBlock, _ int, in ssa.Instruction) {
					if ret, isRet := in.(*ssa.Return); isRet && ret.Results[0] == a[2] {
						ok = true
					}
				})
			}
		}
		r.Check("C08.T1", core.Key("C08.T1", fn, "transform(data, fresh buffer) returned"), pos, ok,
			"both directions run the same transform over the caller's data into a fresh buffer that is returned", name+" does not return the buffer filled by e.transform(data, out)")
	}
	// T2
	if fn := w.Func("pkg/encryption", "(*Encryption).transform"); fn == nil {
		r.Fatal("unresolved anchor pkg/encryption.(*Encryption).transform")
	} else {
		r.Saw(core.FuncName(fn))
		r.Eval(core.EdgeCount(fn))
		calls := core.Calls(fn, "(*pkg/encryption.Encryption).Transcrypt")
		r.Floor("C08.T2", "Transcrypt calls in transform", len(calls), 1)
		for _, c := range calls {
			a := core.Common(c).Args
			si, ok1 := a[2].(*ssa.Slice)
			so, ok2 := a[3].(*ssa.Slice)
			okWin := ok1 && ok2 && si.X == ssa.Value(fn.Params[1]) && so.X == ssa.Value(fn.Params[2]) &&
				si.Low != nil && so.Low != nil && si.High != nil && so.High != nil &&
				(si.Low == so.Low || core.SameExpr(si.Low, so.Low)) && (si.High == so.High || core.SameExpr(si.High, so.High))
			r.Check("C08.T2", core.Key("C08.T2", fn, "same window of in and out"), c.Pos(), okWin,
				"each segment is transformed from in[i:i+l] into out[i:i+l]", "the input and output windows handed to Transcrypt differ: decrypting does not land bytes where encrypting took them from")
			okCtr := core.IsFieldOf(core.Forward(a[1]), E, "index")
			r.Check("C08.T2", core.Key("C08.T2", fn, "segment counter is e.index"), c.Pos(), okCtr,
				"the segment is keyed by the running counter e.index", "Transcrypt is not given e.index as the segment counter")
			// exactly one increment store of e.index per iteration, after the call, on the success edge
			okE, _ := core.AtomEdges(fn, core.ErrNilAtom(func(x *ssa.Call) bool { return x == c.(*ssa.Call) }))
			incs := 0
			okInc := true
			for _, st := range fieldStores(fn, E, "index") {
				incs++
				add, isAdd := st.Val.(*ssa.BinOp)
				one := false
				if isAdd && add.Op == token.ADD {
					if k, isC := core.ConstInt(add.Y); isC && k == 1 && core.IsFieldOf(add.X, E, "index") {
						one = true
					}
				}
				if !one || !(len(okE) > 0 && core.OnlyBehind(fn, st, okE)) || !sameLoop(fn, st.Block(), c.Block()) {
					okInc = false
				}
			}
			if okInc && len(okE) > 0 {
				// and unconditionally: every path from the successful call passes the increment
				okInc = mustPassFrom(edgeTargets(okE), func(in ssa.Instruction) bool {
					st, ok := in.(*ssa.Store)
					return ok && core.IsFieldOf(st.Addr, E, "index")
				})
			}
			r.Check("C08.T2", core.Key("C08.T2", fn, "counter +1 once per segment"), c.Pos(), incs == 1 && okInc,
				"e.index advances by exactly one after each transformed segment", "the segment counter is not advanced exactly once per segment: the two directions (or two chunks) use different keystream blocks")
		}
	}
	// T3
	if fn := w.Func("pkg/encryption", "(*Encryption).Transcrypt"); fn == nil {
		r.Fatal("unresolved anchor pkg/encryption.(*Encryption).Transcrypt")
	} else {
		r.Saw(core.FuncName(fn))
		r.Eval(core.EdgeCount(fn))
		in, out := fn.Params[2], fn.Params[3]
		n := 0
		core.EachInstr(fn, func(_ *ssa.BasicBlock, _ int, ins ssa.Instruction) {
			st, ok := ins.(*ssa.Store)
			if !ok {
				return
			}
			dst, ok := st.Addr.(*ssa.IndexAddr)
			if !ok || dst.X != ssa.Value(out) {
				return
			}
			n++
			x, isXor := st.Val.(*ssa.BinOp)
			okX := false
			var ks ssa.Value
			if isXor && x.Op == token.XOR {
				for _, pair := range [][2]ssa.Value{{x.X, x.Y}, {x.Y, x.X}} {
					a, okA := pair[0].(*ssa.UnOp)
					b, okB := pair[1].(*ssa.UnOp)
					if !okA || !okB {
						continue
					}
					ia, okIA := a.X.(*ssa.IndexAddr)
					ib, okIB := b.X.(*ssa.IndexAddr)
					if okIA && okIB && ia.X == ssa.Value(in) && ia.Index == dst.Index && ib.Index == dst.Index && ib.X != ssa.Value(in) && ib.X != ssa.Value(out) {
						okX, ks = true, ib.X
					}
				}
			}
			r.Check("C08.T3", core.Key("C08.T3", fn, "out[j] = in[j] ^ keystream[j]"), st.Pos(), okX,
				"every output byte is the input byte at the same position XOR a keystream byte at that position", "an output byte is not in[j] ^ keystream[j] with one index j")
			if ks == nil {
				return
			}
			// keystream independence from the data: ks = hasher.Sum(...) and nothing written
			// to that hasher derives from in / out
			sumCall, _ := core.CallOf(ks)
			okKS := sumCall != nil && sumCall.Call.IsInvoke() && sumCall.Call.Method.Name() == "Sum"
			if okKS {
				h := sumCall.Call.Value
				core.EachInstr(fn, func(_ *ssa.BasicBlock, _ int, i2 ssa.Instruction) {
					c, ok := i2.(*ssa.Call)
					if !ok || !c.Call.IsInvoke() || c.Call.Method.Name() != "Write" || c.Call.Value != h {
						return
					}
					if core.DerivesFrom(c.Call.Args[0], func(v ssa.Value) bool { return v == ssa.Value(in) || v == ssa.Value(out) }, nil) {
						okKS = false
					}
					// positive form: every Write argument is the key, the counter bytes, or an earlier Sum
					arg := c.Call.Args[0]
					fromKey := core.IsFieldOf(core.Forward(arg), E, "key") || core.DerivesFrom(arg, func(v ssa.Value) bool { return core.IsFieldOf(v, E, "key") }, nil)
					_, fromSum := func() (*ssa.Call, bool) {
						sc, _ := core.CallOf(arg)
						return sc, sc != nil && sc.Call.IsInvoke() && sc.Call.Method.Name() == "Sum" && sc.Call.Value == h
					}()
					_, fromCtr := arg.(*ssa.Slice)
					if ms, ok := arg.(*ssa.MakeSlice); ok {
						_ = ms
						fromCtr = true
					}
					if !fromKey && !fromSum && !fromCtr {
						okKS = false
					}
				})
			}
			r.Check("C08.T3", core.Key("C08.T3", fn, "keystream from key and counter only"), st.Pos(), okKS,
				"the keystream is a hash of the key and the segment counter (and of that hash), never of the data", "the keystream depends on something other than the key and the counter (or is not a hash output): the receiving side cannot regenerate it, decryption no longer inverts encryption")
		})
		r.Floor("C08.T3", "byte stores into out in Transcrypt", n, 1)
	}
}

// allowedWalkerGuard: the branch conditions a manifest-walker report may depend on.
func allowedWalkerGuard(base ssa.Value) bool {
	if _, _, ok := core.NilCmp(base); ok {
		return true // err != nil, node != nil, node.Reference() != nil, callback error
	}
	if c, ok := base.(*ssa.Call); ok {
		if f := core.CalleeFunc(&c.Call); f != nil {
			switch f.Name() {
			case "IsValueType", "Equal":
				return true
			}
		}
	}
	if b, ok := base.(*ssa.BinOp); ok {
		for _, v := range []ssa.Value{b.X, b.Y} {
			if l, ok := isBuiltinCall(v, "len"); ok {
				if ec, _ := core.CallOf(l.Call.Args[0]); ec != nil {
					if f := core.CalleeFunc(&ec.Call); f != nil && f.Name() == "Entry" {
						return true
					}
				}
			}
		}
	}
	return false
}
