package props

import (
	"go/token"

	"aurora-verif/checker/core"

	"golang.org/x/tools/go/ssa"
)

// stageRules: contracts of the pipeline stages between the feeder and the hash trie. Each
// stage receives one *PipeWriteArgs, adds its part and hands the same object on.
//   store:      stores NewChunk(NewAddress(p.Ref), p.Data), returns Put's error, forwards p
//   bmt:        header p.Data[:8], body p.Data[8:], p.Ref = the hash, forwards p
//   encryption: p.Data = encryptedSpan(8) ++ encryptedData of EncryptChunk(p.Data), p.Key = key
//   every Sum delegates to next.Sum()
func stageRules(r *core.Run, id string) {
	w := r.W
	const args = "pkg/file/pipeline.PipeWriteArgs"
	type stage struct{ rel, typ string }
	stages := []stage{{"pkg/file/pipeline/store", "storeWriter"}, {"pkg/file/pipeline/bmt", "bmtWriter"}, {"pkg/file/pipeline/encryption", "encryptionWriter"}}
	isChainWrite := func(in ssa.Instruction) bool {
		c := core.Common(in)
		return c != nil && c.IsInvoke() && c.Method.Name() == "ChainWrite"
	}
	for _, st := range stages {
		cw := w.Func(st.rel, "(*"+st.typ+").ChainWrite")
		sum := w.Func(st.rel, "(*"+st.typ+").Sum")
		if cw == nil || sum == nil {
			r.Fatal("unresolved anchor %s.(*%s).ChainWrite/Sum", st.rel, st.typ)
			continue
		}
		r.Saw(core.FuncName(cw))
		r.Saw(core.FuncName(sum))
		r.Eval(core.EdgeCount(cw))
		p := cw.Params[1]
		// forwarding: some ChainWrite call hands on the stage's own parameter and its error
		// is what the stage returns; every nil-error return is either that call's result or
		// (store only) behind next == nil
		var fwd *ssa.Call
		core.EachInstr(cw, func(_ *ssa.BasicBlock, _ int, in ssa.Instruction) {
			if c, ok := in.(*ssa.Call); ok && isChainWrite(in) && len(c.Call.Args) == 1 && c.Call.Args[0] == ssa.Value(p) {
				fwd = c
			}
		})
		okFwd := fwd != nil
		if okFwd {
			okFwd = false
			for _, u := range core.Uses(fwd) {
				if ret, ok := u.(*ssa.Return); ok && ret.Results[0] == ssa.Value(fwd) {
					okFwd = true
				}
			}
		}
		r.Check(id+".S2", core.Key(id+".S2", cw, "forwards its own args, returns the next stage's error"), cw.Pos(), okFwd,
			"the stage hands the PipeWriteArgs it received to next.ChainWrite and returns that call's error", "the stage does not forward its own argument object to the next stage (or drops the next stage's error): the reference / key / data computed here never reach the hash trie")
		nilNext, _ := core.AtomEdges(cw, func(base ssa.Value) (bool, bool) {
			x, eq, ok := core.NilCmp(base)
			if ok && core.IsFieldOf(x, st.rel+"."+st.typ, "next") {
				return true, eq
			}
			return false, false
		})
		core.EachInstr(cw, func(_ *ssa.BasicBlock, _ int, in ssa.Instruction) {
			ret, ok := in.(*ssa.Return)
			if !ok || !core.IsNilConst(ret.Results[0]) {
				return
			}
			r.Check(id+".S2", core.Key(id+".S2", cw, "constant success only when there is no next stage"), ret.Pos(), len(nilNext) > 0 && core.OnlyBehind(cw, ret, nilNext),
				"the stage reports success by itself only when it is the last stage", "a path returns nil without forwarding the chunk to the next stage")
		})
		// Sum delegates
		okSum := false
		core.EachInstr(sum, func(_ *ssa.BasicBlock, _ int, in ssa.Instruction) {
			if ret, ok := in.(*ssa.Return); ok && len(ret.Results) == 2 {
				c, idx := core.CallOf(ret.Results[0])
				if c != nil && idx == 0 && c.Call.IsInvoke() && c.Call.Method.Name() == "Sum" {
					okSum = true
				}
			}
		})
		r.Check(id+".S2", core.Key(id+".S2", sum, "Sum = next.Sum()"), sum.Pos(), okSum,
			"the stage's Sum is the next stage's Sum", "Sum does not return next.Sum(): the root reference is not what the hash trie computed")
	}
	pField := func(fn *ssa.Function, f string) func(ssa.Value) bool {
		return func(v ssa.Value) bool {
			fr, ok := core.AsField(v)
			return ok && !fr.Addr && fr.Struct == args && fr.Name == f && fr.Base == ssa.Value(fn.Params[1])
		}
	}
	// store: Put(NewChunk(NewAddress(p.Ref), p.Data))
	if fn := w.Func("pkg/file/pipeline/store", "(*storeWriter).ChainWrite"); fn != nil {
		n := 0
		core.EachInstr(fn, func(_ *ssa.BasicBlock, _ int, in ssa.Instruction) {
			c, ok := in.(*ssa.Call)
			if !ok || !c.Call.IsInvoke() || c.Call.Method.Name() != "Put" {
				return
			}
			n++
			ok2 := false
			for _, e := range variadicElems(c.Call.Args[len(c.Call.Args)-1]) {
				nc, _ := core.CallOf(e)
				if nc == nil || !core.IsCallTo(nc, "pkg/boson.NewChunk") {
					continue
				}
				na, _ := core.CallOf(nc.Call.Args[0])
				if na != nil && core.IsCallTo(na, "pkg/boson.NewAddress") && pField(fn, "Ref")(na.Call.Args[0]) && pField(fn, "Data")(nc.Call.Args[1]) {
					ok2 = true
				}
			}
			r.Check(id+".S3", core.Key(id+".S3", fn, "stored chunk = (p.Ref, p.Data)"), c.Pos(), ok2,
				"the chunk stored is NewChunk(NewAddress(p.Ref), p.Data) of the args received", "the store stage does not store the received data under the received reference")
		})
		r.Floor(id+".S3", "Put calls in the store stage", n, 1)
	}
	// bmt: header/body split and p.Ref = hash
	if fn := w.Func("pkg/file/pipeline/bmt", "(*bmtWriter).ChainWrite"); fn != nil {
		sliceOf := func(v ssa.Value, lowK, highK int64) bool {
			s, ok := v.(*ssa.Slice)
			if !ok || !pField(fn, "Data")(s.X) {
				return false
			}
			chk := func(b ssa.Value, k int64) bool {
				if k < 0 {
					return b == nil
				}
				c, isC := foldedInt(b)
				return b != nil && isC && c == k
			}
			return chk(s.Low, lowK) && chk(s.High, highK)
		}
		okHdr, okBody, okRef := false, false, false
		for _, c := range core.Calls(fn, "(*pkg/bmt.Hasher).SetHeader") {
			a := core.Common(c).Args
			okHdr = sliceOf(a[len(a)-1], -1, 8)
		}
		for _, c := range core.Calls(fn, "(*pkg/bmt.Hasher).Write") {
			a := core.Common(c).Args
			okBody = sliceOf(a[len(a)-1], 8, -1)
		}
		for _, s := range fieldStores(fn, args, "Ref") {
			c, idx := core.CallOf(s.Val)
			if c != nil && idx == 0 && core.IsCallTo(c, "(*pkg/bmt.Hasher).Hash") {
				if fa, ok := s.Addr.(*ssa.FieldAddr); ok && fa.X == ssa.Value(fn.Params[1]) {
					okRef = true
				}
			}
		}
		r.Check(id+".S3", core.Key(id+".S3", fn, "BMT over header p.Data[:8] and body p.Data[8:], p.Ref = hash"), fn.Pos(), okHdr && okBody && okRef,
			"the reference is the BMT hash of p.Data[8:] under the span header p.Data[:8], stored in p.Ref", "the bmt stage does not hash (p.Data[:8], p.Data[8:]) into p.Ref")
	}
	// encryption: p.Data = span ++ data of EncryptChunk(p.Data), p.Key = key
	if fn := w.Func("pkg/file/pipeline/encryption", "(*encryptionWriter).ChainWrite"); fn != nil {
		var enc *ssa.Call
		core.EachInstr(fn, func(_ *ssa.BasicBlock, _ int, in ssa.Instruction) {
			if c, ok := in.(*ssa.Call); ok && c.Call.IsInvoke() && c.Call.Method.Name() == "EncryptChunk" && pField(fn, "Data")(c.Call.Args[0]) {
				enc = c
			}
		})
		res := func(v ssa.Value, i int) bool {
			c, idx := core.CallOf(core.Strip(v))
			return enc != nil && c == enc && idx == i
		}
		okData, okKey := false, false
		for _, s := range fieldStores(fn, args, "Data") {
			buf := s.Val
			hdr, body := false, false
			core.EachInstr(fn, func(_ *ssa.BasicBlock, _ int, in ssa.Instruction) {
				c, ok := in.(*ssa.Call)
				if !ok {
					return
				}
				if _, isCopy := isBuiltinCall(c, "copy"); !isCopy {
					return
				}
				d, ok := c.Call.Args[0].(*ssa.Slice)
				if !ok || d.X != buf {
					return
				}
				lo, hasLo := foldedInt(d.Low)
				hi, hasHi := foldedInt(d.High)
				if d.Low == nil && hasHi && hi == 8 && res(c.Call.Args[1], 1) {
					hdr = true
				}
				if d.High == nil && hasLo && lo == 8 && res(c.Call.Args[1], 2) {
					body = true
				}
			})
			if hdr && body {
				okData = true
			}
		}
		for _, s := range fieldStores(fn, args, "Key") {
			v := s.Val
			if ct, ok := v.(*ssa.ChangeType); ok {
				v = ct.X
			}
			if res(v, 0) {
				okKey = true
			}
		}
		pos := fn.Pos()
		if enc != nil {
			pos = enc.Pos()
		}
		r.Check(id+".S3", core.Key(id+".S3", fn, "p.Data = encrypted span ++ encrypted data, p.Key = key"), pos, enc != nil && okData && okKey,
			"the chunk handed on is the encrypted span followed by the encrypted data of EncryptChunk(p.Data), with the chunk key in p.Key", "the encryption stage does not replace p.Data by encryptedSpan(8)++encryptedData and p.Key by the key EncryptChunk returned: the decrypting reader cannot invert it")
	}
	_ = token.ADD
}
