package props

import (
	"fmt"
	"go/token"

	"aurora-verif/checker/core"

	"golang.org/x/tools/go/ssa"
)

// c20ScanWidth (K1): a proximity order capped at C needs the first C bits compared, i.e. at
// least ceil(C/8) leading bytes. The byte limit of the scan loop starts from a constant K
// (then clamped to the operands' lengths); K*8 >= C must hold for each function's own cap.
func c20ScanWidth(r *core.Run) {
	w := r.W
	for _, row := range []struct{ fn, cap string }{{"Proximity", "MaxPO"}, {"ExtendedProximity", "ExtendedPO"}} {
		fn := w.Func("pkg/boson", row.fn)
		capV, ok := constInt(w, "pkg/boson", row.cap)
		if fn == nil || !ok {
			continue
		}
		// the outer loop: a comparison i < b where i is a phi starting at 0 stepping by 1
		var limit ssa.Value
		core.EachInstr(fn, func(_ *ssa.BasicBlock, _ int, in ssa.Instruction) {
			b, ok := in.(*ssa.BinOp)
			if !ok || b.Op != token.LSS {
				return
			}
			phi, ok := b.X.(*ssa.Phi)
			if !ok {
				return
			}
			zero, step := false, false
			for _, e := range phi.Edges {
				if k, isC := core.ConstInt(e); isC && k == 0 {
					zero = true
				}
				if add, isAdd := e.(*ssa.BinOp); isAdd && add.Op == token.ADD && add.X == ssa.Value(phi) {
					if k, isC := core.ConstInt(add.Y); isC && k == 1 {
						step = true
					}
				}
			}
			// the byte loop is the one whose index is used to index the inputs
			if zero && step && indexesParam(fn, phi) {
				limit = b.Y
			}
		})
		k, okK := constSeed(limit, 0)
		r.Check("C20.K1", core.Key("C20.K1", fn, "scan covers the first "+row.cap+" bits"), fn.Pos(), limit != nil && okK && k*8 >= capV,
			fmt.Sprintf("the byte limit of the scan starts from a constant K with K*8 >= %s (=%d): every bit below the cap is compared", row.cap, capV),
			fmt.Sprintf("the scan inspects at most %d bytes = %d bits but the cap is %d: addresses that first differ beyond the scanned bytes get the cap instead of their true order", k, k*8, capV))
	}
}

// indexesParam: phi is used as the index of an IndexAddr on one of fn's parameters.
func indexesParam(fn *ssa.Function, phi *ssa.Phi) bool {
	found := false
	core.EachInstr(fn, func(_ *ssa.BasicBlock, _ int, in ssa.Instruction) {
		if ia, ok := in.(*ssa.IndexAddr); ok && ia.Index == ssa.Value(phi) {
			for _, p := range fn.Params {
				if ia.X == ssa.Value(p) {
					found = true
				}
			}
		}
	})
	return found
}

// constSeed: the constant among the (transitive) phi inputs of v — the value the limit starts
// from before it is clamped.
func constSeed(v ssa.Value, depth int) (int64, bool) {
	if v == nil || depth > 4 {
		return 0, false
	}
	if k, ok := foldedInt(v); ok {
		return k, true
	}
	if phi, ok := v.(*ssa.Phi); ok {
		for _, e := range phi.Edges {
			if k, ok := constSeed(e, depth+1); ok {
				return k, true
			}
		}
	}
	return 0, false
}
