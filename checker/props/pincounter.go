package props

import (
	"fmt"
	"go/token"
	"go/types"

	"aurora-verif/checker/core"

	"golang.org/x/tools/go/ssa"
)

// pinCounterRules: the per-chunk pin counter arithmetic of localstore's setUnpin, decided
// with the interval analysis: the pin entry is deleted only when the stored counter is at
// most 1 (this unpin takes it to zero), and otherwise the entry is written back with
// exactly stored-1 (stored >= 2). With two pinned references sharing a chunk (counter 2),
// unpinning one must leave the other's pin in place.
func pinCounterRules(r *core.Run, id string) {
	fn := lsFunc(r, "(*DB).setUnpin")
	if fn == nil {
		return
	}
	r.Saw(core.FuncName(fn))
	r.Eval(core.EdgeCount(fn))
	ia := core.Intervals(fn)
	var get *ssa.Call
	var dels, puts []*ssa.Call
	for _, ic := range lsIndexCalls([]*ssa.Function{fn}) {
		if ic.field != "pinIndex" {
			continue
		}
		switch ic.method {
		case "Get":
			get = ic.in
		case "Delete", "DeleteInBatch":
			dels = append(dels, ic.in)
		case "Put", "PutInBatch":
			puts = append(puts, ic.in)
		}
	}
	if get == nil {
		r.Fatal("setUnpin no longer reads the pin index (pinIndex.Get not found)")
		return
	}
	fieldIdx := func(t types.Type, name string) int {
		if p, ok := t.Underlying().(*types.Pointer); ok {
			t = p.Elem()
		}
		s, ok := t.Underlying().(*types.Struct)
		if !ok {
			return -1
		}
		for i := 0; i < s.NumFields(); i++ {
			if s.Field(i).Name() == name {
				return i
			}
		}
		return -1
	}
	isGetResult := func(v ssa.Value) bool {
		c, idx := core.CallOf(v)
		return c == get && idx == 0
	}
	// the stored counter: PinCounter of the entry pinIndex.Get returned
	isStored := func(v ssa.Value) bool {
		switch x := ia.Canon(v).(type) {
		case *ssa.Field:
			return isGetResult(x.X) && fieldIdx(x.X.Type(), "PinCounter") == x.Field
		case *ssa.UnOp:
			if x.Op != token.MUL {
				return false
			}
			fa, ok := x.X.(*ssa.FieldAddr)
			if !ok || fieldIdx(fa.X.Type(), "PinCounter") != fa.Field {
				return false
			}
			al, ok := fa.X.(*ssa.Alloc)
			if !ok {
				return false
			}
			sv := core.StoredFieldAt(fn, al, fa.Field, x)
			return sv != nil && isGetResult(sv)
		}
		return false
	}
	var stored ssa.Value
	core.EachInstr(fn, func(_ *ssa.BasicBlock, _ int, in ssa.Instruction) {
		if v, ok := in.(ssa.Value); ok && stored == nil && isIntegerType(v.Type()) && isStored(v) {
			stored = ia.Canon(v)
		}
	})
	if stored == nil {
		r.Check(id+".I2", core.Key(id+".I2", fn, "stored pin counter identified"), fn.Pos(), false, "", "setUnpin's use of the PinCounter of the entry returned by pinIndex.Get could not be identified: the counter arithmetic is undecided")
		return
	}
	r.Floor(id+".I2", "pin-entry deletes in setUnpin", len(dels), 1)
	r.Floor(id+".I2", "pin-entry write-backs in setUnpin", len(puts), 1)
	for k, c := range dels {
		iv := ia.ValueAt(stored, c)
		r.Check(id+".I2", core.Key(id+".I2", fn, fmt.Sprintf("pin entry delete #%d only when stored counter <= 1", k+1)), c.Pos(), !ia.Incomplete && iv.Hi <= 1,
			"the pin entry is deleted only when the stored counter is at most 1", fmt.Sprintf("the pin entry is deleted while the stored counter can be as high as %s: unpinning one of several references that share the chunk removes the others' pin", fmtBound(iv.Hi)))
	}
	for k, c := range puts {
		args := core.Common(c).Args
		itemV := args[len(args)-1]
		okVal, okLo := false, false
		var iv core.Itv
		if ld, ok := itemV.(*ssa.UnOp); ok && ld.Op == token.MUL {
			if al, ok := ld.X.(*ssa.Alloc); ok {
				if w := core.StoredFieldAt(fn, al, fieldIdx(al.Type(), "PinCounter"), ld); w != nil {
					if sub, ok := ia.Canon(w).(*ssa.BinOp); ok && sub.Op == token.SUB {
						if one, isC := core.ConstInt(sub.Y); isC && one == 1 && ia.Canon(sub.X) == stored {
							okVal = true
						}
					}
				}
			}
		}
		iv = ia.ValueAt(stored, c)
		okLo = !ia.Incomplete && iv.Lo >= 2
		r.Check(id+".I2", core.Key(id+".I2", fn, fmt.Sprintf("pin entry write-back #%d = stored - 1, stored >= 2", k+1)), c.Pos(), okVal && okLo,
			"the entry is written back with exactly one less than the stored counter, and only when that leaves it positive", fmt.Sprintf("the written-back counter is not (stored counter - 1) with stored >= 2 (stored counter range at the write: [%d,%s]): pin and unpin are no longer inverse on shared chunks", iv.Lo, fmtBound(iv.Hi)))
	}
}
