package props

import (
	"strings"

	"aurora-verif/checker/core"

	"golang.org/x/tools/go/ssa"
)

// recoverOnCurve (C34.G3, C05.G5, C30.G3): btcec.RecoverCompact (btcd v0.22) computes
// Q = r⁻¹(sR − eG) and returns it without testing that it is a point of the curve: for
// R = kG, s = e/k it is the point at infinity, encoded (0, 0) — a "public key" for which
// anybody can produce a signature over any data without owning a key. "Made by a key whose
// overlay / owner / issuer is the claimed one" therefore needs the recovering function to
// refuse that result: in fn every return that hands out a key (first result not the
// constant nil) lies behind the true edge of an IsOnCurve test.
func recoverOnCurve(r *core.Run, rule, fname string) {
	fn := r.W.Func("pkg/crypto", fname)
	if fn == nil {
		r.Fatal("unresolved anchor pkg/crypto.%s", fname)
		return
	}
	r.Saw(core.FuncName(fn))
	r.Eval(core.EdgeCount(fn))
	calls := core.Calls(fn, "github.com/btcsuite/btcd/btcec.RecoverCompact")
	r.Floor(rule, "RecoverCompact calls in crypto."+fname, len(calls), 1)
	onCurve, _ := core.AtomEdges(fn, core.BoolCallAtom(func(c *ssa.Call) bool {
		if c.Call.IsInvoke() {
			return c.Call.Method.Name() == "IsOnCurve"
		}
		return strings.HasSuffix(core.CalleeName(&c.Call), ".IsOnCurve")
	}))
	n := 0
	core.EachInstr(fn, func(b *ssa.BasicBlock, _ int, in ssa.Instruction) {
		ret, ok := in.(*ssa.Return)
		if !ok || b == fn.Recover || len(ret.Results) != 2 {
			return
		}
		if k, isK := core.Forward(ret.Results[0]).(*ssa.Const); isK && k.IsNil() {
			return
		}
		n++
		r.Check(rule, lsKey(rule, fn, "recovered key is a point of the curve"), ret.Pos(), len(onCurve) > 0 && core.OnlyBehind(fn, ret, onCurve),
			"crypto."+fname+" hands out a recovered key only after testing that it is a point of the curve",
			"crypto."+fname+" returns whatever btcec.RecoverCompact computed: for R = kG, s = e/k that is the point at infinity (0, 0), so a signature nobody made is accepted as made by that 'key' — records, chunks or cheques in its name can be forged without any key")
	})
	r.Floor(rule, "key-bearing returns of crypto."+fname, n, 1)
}
