package props

import (
	"strings"

	"aurora-verif/checker/core"

	"golang.org/x/tools/go/ssa"
)

// c27RoutesPersisted (F2): the per-target route list lives twice — in Table.routes and,
// under "route_index_<target>", in the state store from which it is reloaded at start-up.
// Every assignment to Table.routes[target] outside the reload callback is followed, on
// every path to the function's exit, by a store.Put of the same list under the route
// prefix. A list that is only changed in memory (Delete, Gc, DelRoute) comes back after a
// restart: next hops of deleted paths are offered again.
func c27RoutesPersisted(r *core.Run) {
	const rule = "C27.F2"
	const T = "pkg/routetab.Table"
	n := 0
	done := map[*ssa.Function]bool{}
	for _, top := range r.W.PkgFuncs("pkg/routetab") {
		for _, fn := range core.WithClosures(top) {
			if done[fn] {
				continue
			}
			done[fn] = true
			core.EachInstr(fn, func(_ *ssa.BasicBlock, _ int, in ssa.Instruction) {
				mu, ok := in.(*ssa.MapUpdate)
				if !ok || !core.IsFieldOf(mu.Map, T, "routes") {
					return
				}
				// the reload callback stores what it has just read from the store
				if isIterateCallback(fn) {
					return
				}
				n++
				val := core.Forward(mu.Value)
				okP, _ := core.MustPassAfter(fn, in, func(x ssa.Instruction) bool {
					c, ok := x.(*ssa.Call)
					if !ok || !core.IsCallTo(c, "(pkg/storage.StateStorer).Put") {
						return false
					}
					args := core.CallArgs(&c.Call)
					if len(args) < 3 {
						return false
					}
					v := core.Forward(args[2])
					if mi, ok := v.(*ssa.MakeInterface); ok {
						v = core.Forward(mi.X)
					}
					keyOK := core.DerivesFrom(args[1], func(k ssa.Value) bool {
						cst, ok := k.(*ssa.Const)
						return ok && cst.Value != nil && strings.Contains(cst.Value.ExactString(), "route_index_")
					}, nil)
					return keyOK && (v == val || core.SameExpr(v, val))
				})
				r.Saw(core.FuncName(fn))
				r.Check(rule, lsKey(rule, fn, "route list written to the store after it is changed in memory"), mu.Pos(), okP,
					"a changed route list is also written under route_index_<target>", core.FuncName(fn)+" changes Table.routes[target] without writing the list to the state store: after a restart the old list is reloaded and next hops of deleted / expired paths are offered again")
			})
		}
	}
	r.Floor(rule, "in-memory route-list updates outside the reload", n, 2)
}

// isIterateCallback: fn is a closure handed to StateStorer.Iterate by its parent.
func isIterateCallback(fn *ssa.Function) bool {
	p := fn.Parent()
	if p == nil {
		return false
	}
	found := false
	core.EachInstr(p, func(_ *ssa.BasicBlock, _ int, in ssa.Instruction) {
		c, ok := in.(*ssa.Call)
		if !ok || !core.IsCallTo(c, "(pkg/storage.StateStorer).Iterate") {
			return
		}
		for _, a := range c.Call.Args {
			if ct, ok := a.(*ssa.ChangeType); ok {
				a = ct.X
			}
			if mc, ok := a.(*ssa.MakeClosure); ok && mc.Fn == ssa.Value(fn) {
				found = true
			}
		}
	})
	return found
}
