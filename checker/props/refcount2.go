package props

import (
	"aurora-verif/checker/core"

	"golang.org/x/tools/go/ssa"
)

// refCountDisjoint: delRootCid releases one reference for every entry of two lists — the
// file's data-chunk map (pyr.cids) and the list getPyramidHash returns. A chunk that is in
// both (a single-chunk file's root is its only data chunk) would be released twice although
// updateChunkPyramid took it once (its trie loop skips keys already seen as data chunks).
// getPyramidHash therefore appends a key only behind "not in pyramid.cids".
func refCountDisjoint(r *core.Run, id string) {
	fn := r.W.Func("pkg/chunkinfo", "(*ChunkInfo).getPyramidHash")
	if fn == nil {
		r.Fatal("unresolved anchor pkg/chunkinfo.(*ChunkInfo).getPyramidHash")
		return
	}
	r.Saw(core.FuncName(fn))
	r.Eval(core.EdgeCount(fn))
	_, absent := core.AtomEdges(fn, func(base ssa.Value) (bool, bool) {
		ex, ok := base.(*ssa.Extract)
		if !ok || ex.Index != 1 {
			return false, false
		}
		lk, ok := ex.Tuple.(*ssa.Lookup)
		if !ok || !lk.CommaOk {
			return false, false
		}
		if fr, ok := core.AsField(core.Forward(lk.X)); ok && fr.Name == "cids" {
			return true, true
		}
		return false, false
	})
	n := 0
	core.EachInstr(fn, func(_ *ssa.BasicBlock, _ int, in ssa.Instruction) {
		c, ok := in.(*ssa.Call)
		if !ok {
			return
		}
		if _, isApp := isBuiltinCall(c, "append"); !isApp || c.Type().String() != "[]string" {
			return
		}
		n++
		r.Check(id, core.Key(id, fn, "released-list entry not also a data chunk of the file"), c.Pos(), len(absent) > 0 && core.OnlyBehind(fn, c, absent),
			"a key enters the second release list only when it is not in the file's data-chunk map", "a key is added to the list delRootCid releases without the 'not in pyramid.cids' test: a chunk that is both the file's root and its data chunk is released twice, taken once — another file sharing it loses its reference")
	})
	r.Floor(id, "appends to the released list in getPyramidHash", n, 1)
}
