package props

import (
	"go/types"

	"aurora-verif/checker/core"

	"golang.org/x/tools/go/ssa"
)

// c29InArray (G4): the requested-orders test itself. inArray(bin, orders) answers true only
// behind `bin == orders[k]` where neither side was narrowed first: the orders are
// peer-supplied int32, and `uint8(v)` maps 258 (or -254) onto order 2 — the reply would
// then hold peers whose proximity is not among the requested orders.
func c29InArray(r *core.Run) {
	const rule = "C29.G4"
	fn := r.W.Func("pkg/hive2", "inArray")
	if fn == nil || len(fn.Params) != 2 {
		r.Fatal("unresolved anchor pkg/hive2.inArray(bin, orders)")
		return
	}
	r.Saw(core.FuncName(fn))
	r.Eval(core.EdgeCount(fn))
	sizes := types.SizesFor("gc", "amd64")
	// strip conversions that do not narrow; report a narrowing one
	strip := func(v ssa.Value) (ssa.Value, bool) {
		narrowed := false
		for {
			c, ok := v.(*ssa.Convert)
			if !ok {
				return v, narrowed
			}
			if sizes.Sizeof(c.Type()) < sizes.Sizeof(c.X.Type()) {
				narrowed = true
			}
			v = c.X
		}
	}
	isElem := func(v ssa.Value) bool {
		p, ok := core.LoadedFrom(v)
		if !ok {
			return false
		}
		ia, ok := p.(*ssa.IndexAddr)
		return ok && ia.X == ssa.Value(fn.Params[1])
	}
	narrowSeen := false
	eq, _ := core.AtomEdges(fn, func(base ssa.Value) (bool, bool) {
		b, ok := base.(*ssa.BinOp)
		if !ok || (b.Op.String() != "==" && b.Op.String() != "!=") {
			return false, false
		}
		x, nx := strip(b.X)
		y, ny := strip(b.Y)
		match := (x == ssa.Value(fn.Params[0]) && isElem(y)) || (y == ssa.Value(fn.Params[0]) && isElem(x))
		if !match {
			return false, false
		}
		if nx || ny {
			narrowSeen = true
			return false, false
		}
		return true, b.Op.String() == "=="
	})
	n := 0
	core.EachInstr(fn, func(_ *ssa.BasicBlock, _ int, in ssa.Instruction) {
		ret, ok := in.(*ssa.Return)
		if !ok {
			return
		}
		if c, isC := core.ConstBool(core.Forward(ret.Results[0])); isC && !c {
			return
		}
		n++
		why := "inArray can answer true without an element of the requested orders being equal to the proximity"
		if narrowSeen {
			why = "inArray compares after narrowing an operand (e.g. uint8(order)): a requested order of 258 or -254 matches proximity 2, peers outside the requested orders are offered"
		}
		r.Check(rule, core.Key(rule, fn, "true only behind an un-narrowed equality with a requested order"), ret.Pos(), len(eq) > 0 && core.OnlyBehind(fn, ret, eq),
			"the requested-orders test answers true only for a proximity equal to one of the requested orders (compared without narrowing)", why)
	})
	r.Floor(rule, "answers of inArray that may be true", n, 1)
}
