package props

import (
	"go/token"

	"aurora-verif/checker/core"

	"golang.org/x/tools/go/ssa"
)

// c40Order (O1): an unsubscription never overtakes the subscription it cancels. Subscribe
// queues the subscription before it starts the goroutine that will queue the
// unsubscription; with two channels and a select, process may still pick the
// unsubscription first (select chooses at random among ready cases), find nothing to
// remove, and then add the subscription for good. Either both are queued on one channel
// (FIFO), or the unsubscription branch of process first drains the subscriptions already
// queued: before it loads the subscriber list it evaluates len(subInfoChan) and receives
// from subInfoChan in a loop bounded by it.
func c40Order(r *core.Run) {
	const rule = "C40.O1"
	const T = "pkg/subscribe.subPub"
	sub := r.W.Func("pkg/subscribe", "(*subPub).Subscribe")
	proc := r.W.Func("pkg/subscribe", "(*subPub).process")
	if sub == nil || proc == nil {
		return // reported by F1
	}
	// the two queues Subscribe uses
	var subCh, unsubCh string
	var subSend ssa.Instruction
	var goIn ssa.Instruction
	core.EachInstr(sub, func(_ *ssa.BasicBlock, _ int, in ssa.Instruction) {
		if s, ok := in.(*ssa.Send); ok {
			if fr, ok := core.AsField(core.Forward(s.Chan)); ok && fr.Struct == T {
				subCh, subSend = fr.Name, in
			}
		}
		if g, ok := in.(*ssa.Go); ok {
			if mc, ok := g.Call.Value.(*ssa.MakeClosure); ok {
				core.EachInstr(mc.Fn.(*ssa.Function), func(_ *ssa.BasicBlock, _ int, in2 ssa.Instruction) {
					if s, ok := in2.(*ssa.Send); ok {
						if fr, ok := core.AsField(core.Forward(s.Chan)); ok && fr.Struct == T {
							unsubCh, goIn = fr.Name, in
						}
					}
				})
			}
		}
	})
	if subCh == "" || unsubCh == "" {
		r.Fatal("unresolved anchor: the queues Subscribe sends the subscription and the unsubscription on")
		return
	}
	queuedFirst := subSend != nil && goIn != nil && core.Precedes(subSend, goIn)
	r.Check(rule, core.Key(rule, sub, "subscription queued before its unsubscriber starts"), subSend.Pos(), queuedFirst,
		"Subscribe queues the subscription before starting the goroutine that queues the unsubscription", "the goroutine that unsubscribes is started before (or without) the subscription being queued: the unsubscription can be processed first")
	if subCh == unsubCh {
		r.Check(rule, core.Key(rule, proc, "queued subscriptions handled before an unsubscription"), proc.Pos(), true, "subscription and unsubscription travel on one FIFO channel", "")
		return
	}
	// process: the unsubscription branch
	var sel *ssa.Select
	unsubIdx := -1
	core.EachInstr(proc, func(_ *ssa.BasicBlock, _ int, in ssa.Instruction) {
		if s, ok := in.(*ssa.Select); ok {
			for i, st := range s.States {
				if core.IsFieldOf(st.Chan, T, unsubCh) {
					sel, unsubIdx = s, i
				}
			}
		}
	})
	ok := false
	why := "process does not select on the unsubscription queue"
	pos := proc.Pos()
	if sel != nil {
		pos = sel.Pos()
		isIdx := func(v ssa.Value) bool {
			e, ok := v.(*ssa.Extract)
			return ok && e.Tuple == ssa.Value(sel) && e.Index == 0
		}
		unsubEdges, _ := core.AtomEdges(proc, cmpAtom(isIdx, func(y ssa.Value) bool { k, ok := core.ConstInt(y); return ok && int(k) == unsubIdx }, "=="))
		// drain: len(subCh) and a receive from subCh inside a loop whose condition derives from that len
		var lenCall ssa.Instruction
		var recv ssa.Instruction
		core.EachInstr(proc, func(_ *ssa.BasicBlock, _ int, in ssa.Instruction) {
			if c, ok := in.(*ssa.Call); ok {
				if lc, isLen := isBuiltinCall(c, "len"); isLen && core.IsFieldOf(lc.Call.Args[0], T, subCh) {
					lenCall = in
				}
			}
			if u, ok := in.(*ssa.UnOp); ok && u.Op == token.ARROW && core.IsFieldOf(u.X, T, subCh) {
				recv = in
			}
		})
		bounded := false
		if lenCall != nil && recv != nil {
			for _, ifi := range cyclicIfs(proc) {
				if core.DerivesFrom(ifi.Cond, func(x ssa.Value) bool { return x == lenCall.(ssa.Value) }, nil) && ifi.Block().Dominates(recv.Block()) {
					bounded = true
				}
			}
		}
		why = "the unsubscription branch of process does not first receive the subscriptions already queued on " + subCh + " (len(" + subCh + ") receives): select may serve a notifier's unsubscription before its subscription, which is then registered for good and keeps receiving after its error channel fired"
		if bounded && len(unsubEdges) > 0 && core.OnlyBehind(proc, lenCall, unsubEdges) {
			ok = true
			n := 0
			core.EachInstr(proc, func(_ *ssa.BasicBlock, _ int, in ssa.Instruction) {
				c, isCall := in.(*ssa.Call)
				if !isCall || core.CalleeName(&c.Call) != "(*sync.Map).Load" || !core.OnlyBehind(proc, in, unsubEdges) {
					return
				}
				n++
				if !core.Precedes(lenCall, in) {
					ok = false
				}
			})
			if n == 0 {
				ok, why = false, "no subscriber-list load found in the unsubscription branch"
			}
		}
	}
	r.Check(rule, core.Key(rule, proc, "queued subscriptions handled before an unsubscription"), pos, ok,
		"the unsubscription branch first handles every subscription already queued", why)
}
