package props

import (
	"aurora-verif/checker/core"

	"golang.org/x/tools/go/ssa"
)

// c19SkipStart (G4): "skip-start" drops the start item itself, nothing else. The cursor is
// positioned on the first key >= the start key; it may be advanced before the walk begins
// only where that key was compared and found EQUAL to the start key (bytes.Equal(startKey,
// it.Key())). Advancing whenever a start item was given drops the first key after an
// absent start item (pagination from an item that has since been deleted).
func c19SkipStart(r *core.Run) {
	const rule = "C19.G4"
	fn := r.W.Func("pkg/shed", "(Index).Iterate")
	if fn == nil {
		r.Fatal("unresolved anchor pkg/shed.(Index).Iterate")
		return
	}
	isKeyOfCursor := func(v ssa.Value) bool {
		c, _ := core.CallOf(core.Forward(v))
		return c != nil && c.Call.IsInvoke() && c.Call.Method.Name() == "Key"
	}
	atStart, _ := core.AtomEdges(fn, core.BoolCallAtom(func(c *ssa.Call) bool {
		if !core.IsCallTo(c, "bytes.Equal") {
			return false
		}
		return isKeyOfCursor(c.Call.Args[0]) != isKeyOfCursor(c.Call.Args[1])
	}))
	back := core.BackEdges(fn)
	inLoop := func(b *ssa.BasicBlock) bool {
		for e := range back {
			if e.To.Dominates(b) && (b == e.From || core.ReachBlocks([]*ssa.BasicBlock{b}, nil)[e.From]) {
				return true
			}
		}
		return false
	}
	n := 0
	core.EachInstr(fn, func(b *ssa.BasicBlock, _ int, in ssa.Instruction) {
		c, ok := in.(*ssa.Call)
		if !ok || c.Call.IsInvoke() || c.Call.StaticCallee() != nil {
			return
		}
		if _, isBuiltin := c.Call.Value.(*ssa.Builtin); isBuiltin {
			return
		}
		// a call of the cursor-step function value (it.Next / it.Prev chosen at run time)
		if len(c.Call.Args) != 0 || inLoop(b) {
			return
		}
		n++
		r.Check(rule, core.Key(rule, fn, "cursor stepped before the walk only on the start key itself"), c.Pos(), len(atStart) > 0 && core.OnlyBehind(fn, c, atStart),
			"before the walk the cursor is advanced only where its key equals the start key", "the cursor is advanced before the walk without its key having been found equal to the start key: with an absent start item the first key after it is dropped")
	})
	r.Floor(rule, "cursor steps taken before the walk in Index.Iterate", n, 1)
}
