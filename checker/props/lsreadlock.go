package props

import (
	"aurora-verif/checker/core"

	"golang.org/x/tools/go/ssa"
)

// readModifyWriteAtomic (Lk2): in the batched operations the index READS that decide what is
// staged (current access timestamp, current gc entry, pin counter, presence) happen inside
// the DB.batchMu critical section, like the writes: updateGC / set / put and everything they
// call read the indexes only with batchMu held. Two overlapping operations that read outside
// the lock both act on the same old entry (e.g. both re-key a file's gc entry: the file is
// recorded twice while the persisted counter moves once). The lock-free presence probe at
// the top of put, which only leads to an early return, is the one exception.
func readModifyWriteAtomic(r *core.Run, rule string) {
	w := r.W
	la := core.NewLockAnalysis(w, lsPkg)
	la.SyncCallees["(*pkg/shed.Index).Iterate"] = true
	la.SyncCallees["(pkg/chunkinfo.Interface).DelFile"] = true
	la.Run()
	var roots []*ssa.Function
	for _, n := range []string{"(*DB).put", "(*DB).set", "(*DB).updateGC"} {
		if f := lsFunc(r, n); f != nil {
			roots = append(roots, f)
		}
	}
	reach := lsReach(w, roots...)
	var fs []*ssa.Function
	for f := range reach {
		fs = append(fs, f)
	}
	put := lsFunc(r, "(*DB).put")
	var putLock ssa.Instruction
	if put != nil {
		for _, c := range core.Calls(put, "(*sync.Mutex).Lock") {
			if cc := core.Common(c); len(cc.Args) > 0 && core.IsFieldOf(cc.Args[0], dbT, "batchMu") {
				putLock = c
			}
		}
	}
	n := 0
	type k struct {
		fn   *ssa.Function
		what string
	}
	seen := map[k]bool{}
	for _, ic := range lsIndexCalls(fs) {
		if idxWriteMethods[ic.method] || ic.field == "shed" {
			continue // writes: C11.Lk1; shed.NewBatch is not an index read
		}
		if ic.fn == put && putLock != nil && !core.Precedes(putLock, ic.in) {
			continue // the lock-free presence probe of put
		}
		n++
		kk := k{ic.fn, ic.field + "." + ic.method}
		h := la.HeldAt(ic.in)
		ok := h != nil && h.Holds(dbT+".batchMu", true)
		if seen[kk] && ok {
			continue
		}
		seen[kk] = true
		r.Saw(core.FuncName(ic.fn))
		r.Check(rule, lsKey(rule, ic.fn, "index read "+kk.what+" under batchMu"), ic.in.Pos(), ok,
			"the index read that decides what is staged happens inside the batchMu critical section", "the index read "+kk.what+" runs without DB.batchMu (held: "+la.HeldAt(ic.in).String()+"): the read-check-write of the operation is not atomic, two overlapping operations act on the same old entry")
	}
	r.Floor(rule, "index reads in put/set/updateGC and their helpers", n, 8)
}
