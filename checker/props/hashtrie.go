package props

import (
	"go/token"

	"aurora-verif/checker/core"

	"golang.org/x/tools/go/ssa"
)

const htT = "pkg/file/pipeline/hashtrie.hashTrieWriter"

// htCursor: v is a load of h.cursors[idx] where idx satisfies isIdx.
func htCursor(v ssa.Value, isIdx func(ssa.Value) bool) bool {
	u, ok := v.(*ssa.UnOp)
	if !ok || u.Op != token.MUL {
		return false
	}
	ia, ok := u.X.(*ssa.IndexAddr)
	return ok && core.IsFieldOf(ia.X, htT, "cursors") && isIdx(ia.Index)
}

func plusConst(v ssa.Value, base func(ssa.Value) bool, k int64) bool {
	b, ok := v.(*ssa.BinOp)
	if !ok || b.Op != token.ADD {
		return false
	}
	if c, isC := foldedInt(b.Y); isC && c == k && base(b.X) {
		return true
	}
	if c, isC := foldedInt(b.X); isC && c == k && base(b.Y) {
		return true
	}
	return false
}

// hashtrieRules: the level buffer of the hash-trie writer is a sequence of entries
// span(8) | reference(refSize) written by writeToLevel and read back by wrapFullLevel; both
// must agree on that layout, and a wrapped level must be emitted as one chunk whose header
// is the sum of its entries' spans.
func hashtrieRules(r *core.Run, id string) {
	w := r.W
	wl := w.Func("pkg/file/pipeline/hashtrie", "(*hashTrieWriter).writeToLevel")
	wf := w.Func("pkg/file/pipeline/hashtrie", "(*hashTrieWriter).wrapFullLevel")
	if wl == nil || wf == nil {
		r.Fatal("unresolved anchor hashtrie.(*hashTrieWriter).writeToLevel / wrapFullLevel")
		return
	}
	for _, f := range []*ssa.Function{wl, wf} {
		r.Saw(core.FuncName(f))
		r.Eval(core.EdgeCount(f))
	}

	// H1 writer layout: copies of span, ref, key in that order, each into
	// buffer[cursor : cursor+len(x)] and each followed by cursor += len(x)
	level := wl.Params[1]
	isLevel := func(v ssa.Value) bool { return v == ssa.Value(level) }
	type ev struct {
		copySrc ssa.Value // copy event
		adv     ssa.Value // advance event: the value whose len is added
		okDst   bool
		in      ssa.Instruction
	}
	var evs []ev
	core.EachInstr(wl, func(_ *ssa.BasicBlock, _ int, in ssa.Instruction) {
		switch x := in.(type) {
		case *ssa.Call:
			if _, ok := isBuiltinCall(x, "copy"); ok {
				dst, _ := x.Call.Args[0].(*ssa.Slice)
				src := x.Call.Args[1]
				okDst := false
				if dst != nil && core.IsFieldOf(dst.X, htT, "buffer") && dst.Low != nil && dst.High != nil && htCursor(dst.Low, isLevel) {
					if add, ok := dst.High.(*ssa.BinOp); ok && add.Op == token.ADD && htCursor(add.X, isLevel) {
						if l, ok := isBuiltinCall(add.Y, "len"); ok && l.Call.Args[0] == src {
							okDst = true
						}
					}
				}
				evs = append(evs, ev{copySrc: src, okDst: okDst, in: in})
			}
		case *ssa.Store:
			ia, ok := x.Addr.(*ssa.IndexAddr)
			if !ok || !core.IsFieldOf(ia.X, htT, "cursors") || !isLevel(ia.Index) {
				return
			}
			if add, ok := x.Val.(*ssa.BinOp); ok && add.Op == token.ADD && htCursor(add.X, isLevel) {
				if l, ok := isBuiltinCall(add.Y, "len"); ok {
					evs = append(evs, ev{adv: l.Call.Args[0], in: in})
					return
				}
			}
			evs = append(evs, ev{in: in}) // some other cursor store
		}
	})
	want := []ssa.Value{wl.Params[2], wl.Params[3], wl.Params[4]} // span, ref, key
	okH1 := len(evs) == 6
	why := "writeToLevel is not three copy-then-advance steps"
	if okH1 {
		for k := 0; k < 3; k++ {
			c, a := evs[2*k], evs[2*k+1]
			if c.copySrc != want[k] || !c.okDst || a.adv != want[k] {
				okH1 = false
				why = "step " + []string{"span", "ref", "key"}[k] + " does not copy that parameter into buffer[cursor:cursor+len] and advance the cursor by its length"
			}
		}
	}
	r.Check(id+".H1", core.Key(id+".H1", wl, "entry layout span|ref|key, cursor advanced by each length"), wl.Pos(), okH1,
		"a level entry is written as span, then reference, then key, each at the level cursor which advances by the bytes written", why+": wrapFullLevel reads entries as span(8)|reference(refSize), so a different order or a cursor that does not advance by what was written corrupts every intermediate chunk")

	// H2 reader side
	lvl := wf.Params[1]
	isLvl := func(v ssa.Value) bool { return v == ssa.Value(lvl) }
	isLvl1 := func(v ssa.Value) bool { return plusConst(v, isLvl, 1) }
	var data *ssa.Slice
	core.EachInstr(wf, func(_ *ssa.BasicBlock, _ int, in ssa.Instruction) {
		if s, ok := in.(*ssa.Slice); ok && core.IsFieldOf(s.X, htT, "buffer") && data == nil {
			data = s
		}
	})
	okData := data != nil && data.Low != nil && data.High != nil && htCursor(data.Low, isLvl1) && htCursor(data.High, isLvl)
	r.Check(id+".H2", core.Key(id+".H2", wf, "wrapped data = buffer[cursors[level+1]:cursors[level]]"), wf.Pos(), okData,
		"the level being wrapped is the buffer between the next level's cursor and this level's cursor", "wrapFullLevel does not take buffer[h.cursors[level+1]:h.cursors[level]] as the level's entries")
	isRefSize := func(v ssa.Value) bool { return core.IsFieldOf(v, htT, "refSize") }
	// loop index
	var idx *ssa.Phi
	okStep := false
	core.EachInstr(wf, func(_ *ssa.BasicBlock, _ int, in ssa.Instruction) {
		phi, ok := in.(*ssa.Phi)
		if !ok || !isIntegerType(phi.Type()) {
			return
		}
		// the entry cursor: the loop phi advanced by refSize+8 (identified by its stride, not
		// by its name)
		for _, e := range phi.Edges {
			if add, ok := e.(*ssa.BinOp); ok && add.Op == token.ADD && add.X == ssa.Value(phi) && plusConst(add.Y, isRefSize, 8) {
				idx = phi
				okStep = true
			}
		}
	})
	r.Check(id+".H2", core.Key(id+".H2", wf, "entry stride = refSize+8"), wf.Pos(), idx != nil && okStep,
		"the reader steps through the level in entries of refSize+8 bytes, what writeToLevel wrote per entry", "the loop over the level's entries does not advance by h.refSize+8")
	isI := func(v ssa.Value) bool { return idx != nil && v == ssa.Value(idx) }
	// span read and hash slice
	okSpan, okHash := false, false
	var spanSum ssa.Value
	core.EachInstr(wf, func(_ *ssa.BasicBlock, _ int, in ssa.Instruction) {
		if c, ok := in.(*ssa.Call); ok && core.IsCallTo(c, "(encoding/binary.littleEndian).Uint64") {
			a := core.Common(c).Args
			if s, ok := a[len(a)-1].(*ssa.Slice); ok && data != nil && s.X == ssa.Value(data) && isI(s.Low) && plusConst(s.High, isI, 8) {
				okSpan = true
				for _, u := range core.Uses(c) {
					if add, ok := u.(*ssa.BinOp); ok && add.Op == token.ADD {
						if phi, ok := add.X.(*ssa.Phi); ok {
							spanSum = phi
						}
					}
				}
			}
		}
		if c, ok := in.(*ssa.Call); ok {
			if _, isApp := isBuiltinCall(c, "append"); isApp {
				if s, ok := c.Call.Args[1].(*ssa.Slice); ok && data != nil && s.X == ssa.Value(data) && plusConst(s.Low, isI, 8) {
					// high = i + refSize + 8 in either association
					hi := s.High
					if plusConst(hi, func(v ssa.Value) bool {
						b, ok := v.(*ssa.BinOp)
						return ok && b.Op == token.ADD && ((isI(b.X) && isRefSize(b.Y)) || (isI(b.Y) && isRefSize(b.X)))
					}, 8) {
						okHash = true
					}
				}
			}
		}
	})
	r.Check(id+".H2", core.Key(id+".H2", wf, "entry span = data[i:i+8], summed"), wf.Pos(), okSpan && spanSum != nil,
		"each entry's span is read from its first 8 bytes and summed", "the span of an entry is not read from data[i:i+8] (where writeToLevel put it) and accumulated")
	// the sum starts at 0 and takes every entry: the accumulator's only incoming values are
	// the constant 0 and accumulator+span, and the addition runs on every iteration
	okAcc := false
	if phi, ok := spanSum.(*ssa.Phi); ok {
		okAcc = true
		for _, e := range phi.Edges {
			if k, isC := core.ConstInt(e); isC && k == 0 {
				continue
			}
			add, isAdd := e.(*ssa.BinOp)
			if !isAdd || add.Op != token.ADD || add.X != ssa.Value(phi) {
				okAcc = false
				continue
			}
			for be := range core.BackEdges(wf) {
				if be.To == phi.Block() && !(add.Block() == be.From || add.Block().Dominates(be.From)) {
					okAcc = false
				}
			}
		}
	}
	r.Check(id+".H2", core.Key(id+".H2", wf, "span sum starts at 0 and takes every entry"), wf.Pos(), okAcc,
		"the intermediate chunk's span is 0 plus the span of every entry of the level", "the span accumulator of wrapFullLevel has another starting value or skips entries (e.g. branching × the first child's span for a full level): a level whose last child is a short tail chunk gets a span larger than its subtree")
	r.Check(id+".H2", core.Key(id+".H2", wf, "entry reference = data[i+8:i+refSize+8]"), wf.Pos(), okHash,
		"each entry's reference is the refSize bytes after its span", "the reference of an entry is not data[i+8:i+h.refSize+8]")
	// emitted chunk: Data = append(spb, hashes...), Span = spb, PutUint64(spb, sum)
	var emit *ssa.Call
	core.EachInstr(wf, func(_ *ssa.BasicBlock, _ int, in ssa.Instruction) {
		if c, ok := in.(*ssa.Call); ok && c.Call.IsInvoke() && c.Call.Method.Name() == "ChainWrite" {
			emit = c
		}
	})
	okEmit := false
	whyE := "no ChainWrite of the wrapped level"
	var args *ssa.Alloc
	if emit != nil {
		args, _ = core.Strip(emit.Call.Args[0]).(*ssa.Alloc)
		var dataV, spanV ssa.Value
		if args != nil {
			for _, st := range fieldStores(wf, "pkg/file/pipeline.PipeWriteArgs", "Data") {
				if fa, ok := st.Addr.(*ssa.FieldAddr); ok && fa.X == ssa.Value(args) {
					dataV = st.Val
				}
			}
			for _, st := range fieldStores(wf, "pkg/file/pipeline.PipeWriteArgs", "Span") {
				if fa, ok := st.Addr.(*ssa.FieldAddr); ok && fa.X == ssa.Value(args) {
					spanV = st.Val
				}
			}
		}
		whyE = "the intermediate chunk is not Data = append(spanBytes, references...), Span = spanBytes with spanBytes = PutUint64(sum of the entries' spans)"
		if app, ok := dataV.(*ssa.Call); ok && spanV != nil {
			if _, isApp := isBuiltinCall(app, "append"); isApp && app.Call.Args[0] == spanV {
				for _, pc := range core.Calls(wf, "(encoding/binary.littleEndian).PutUint64") {
					a := core.Common(pc).Args
					if a[len(a)-2] == spanV && spanSum != nil && a[len(a)-1] == spanSum && core.Precedes(pc, emit) {
						okEmit = true
					}
				}
			}
		}
	}
	pos := wf.Pos()
	if emit != nil {
		pos = emit.Pos()
	}
	r.Check(id+".H2", core.Key(id+".H2", wf, "intermediate chunk = sum-of-spans header + references"), pos, okEmit,
		"the wrapped level is emitted as one chunk whose 8-byte header is the sum of its entries' spans, followed by their references", whyE)
	// the result goes one level up, from the same args, and only then the level is truncated
	okUp, okTrunc := false, false
	nTrunc, badTrunc := 0, false
	var up *ssa.Call
	for _, c := range core.Calls(wf, "(*pkg/file/pipeline/hashtrie.hashTrieWriter).writeToLevel") {
		a := core.Common(c).Args
		fromArgs := func(v ssa.Value, f string) bool {
			fr, ok := core.AsField(v)
			return ok && fr.Name == f && args != nil && fr.Base == ssa.Value(args)
		}
		if len(a) == 5 && isLvl1(a[1]) && fromArgs(a[2], "Span") && fromArgs(a[3], "Ref") && fromArgs(a[4], "Key") {
			okUp = true
			up = c.(*ssa.Call)
		}
	}
	if up != nil && emit != nil {
		okE, _ := core.AtomEdges(wf, core.ErrNilAtom(func(x *ssa.Call) bool { return x == emit }))
		okUp = okUp && len(okE) > 0 && core.OnlyBehind(wf, up, okE)
		okW, _ := core.AtomEdges(wf, core.ErrNilAtom(func(x *ssa.Call) bool { return x == up }))
		core.EachInstr(wf, func(_ *ssa.BasicBlock, _ int, in ssa.Instruction) {
			st, ok := in.(*ssa.Store)
			if !ok {
				return
			}
			ia, ok := st.Addr.(*ssa.IndexAddr)
			if !ok || !core.IsFieldOf(ia.X, htT, "cursors") || !isLvl(ia.Index) {
				return
			}
			nTrunc++
			if !(htCursor(st.Val, isLvl1) && len(okW) > 0 && core.OnlyBehind(wf, st, okW)) {
				badTrunc = true
			}
		})
		okTrunc = nTrunc > 0 && !badTrunc
	}
	r.Check(id+".H2", core.Key(id+".H2", wf, "result written one level up from the emitted args"), pos, okUp,
		"after the chunk was emitted successfully its span, reference and key are written as one entry of level+1", "wrapFullLevel does not call writeToLevel(level+1, args.Span, args.Ref, args.Key) with the args it emitted, behind the emission's success")
	r.Check(id+".H2", core.Key(id+".H2", wf, "level truncated after the entry went up"), pos, okTrunc,
		"the wrapped level is emptied (cursors[level] = cursors[level+1]) only after its entry was written one level up", "the level's cursor is not reset to the next level's cursor behind the successful write one level up: entries are lost or wrapped twice")
}
