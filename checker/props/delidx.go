package props

import (
	"aurora-verif/checker/core"

	"golang.org/x/tools/go/ssa"
)

// deleteAtIndexLint applies the C40.L1 lint to other packages: in an ascending index loop,
// `s = append(s[:j], s[j+1:]...)` must be followed by j--, break or return before the next
// j++, otherwise the element that slid into slot j is never examined. The rule has no floor:
// zero such loops is the expected state of most packages (the positive example that keeps the
// matcher honest is pkg/subscribe, checked under C40 on every run).
func deleteAtIndexLint(r *core.Run, rule, consequence string, rels ...string) {
	n := 0
	for _, rel := range rels {
		for _, fn := range r.W.PkgFuncs(rel) {
			fn := fn
			core.EachInstr(fn, func(_ *ssa.BasicBlock, _ int, in ssa.Instruction) {
				c, ok := in.(*ssa.Call)
				if !ok {
					return
				}
				j, ok := deleteAtIndex(c)
				if !ok {
					return
				}
				if _, isPhi := j.(*ssa.Phi); !isPhi {
					return
				}
				n++
				r.Saw(core.FuncName(fn))
				bad, why := skipAfterDelete(fn, c, j)
				r.Check(rule, lsKey(rule, fn, "delete-at-index in ascending loop"), c.Pos(), !bad,
					"deleting element j inside the index loop is followed by j--, break or return before the next j++",
					why+": the element that moved into the freed slot is never examined — "+consequence)
			})
		}
	}
	if n == 0 {
		r.Check(rule, rule+"@"+rels[0]+"#no element deletion inside an ascending index loop", 0, true,
			"no list in these packages is filtered by deleting at the loop index (nothing to skip)", "")
	}
}
