package props

import (
	"aurora-verif/checker/core"

	"golang.org/x/tools/go/ssa"
)

// c19StoredWins (P4): a lookup returns what is stored. Index.Get and Index.Fill combine the
// item decoded from the stored value with the item the caller passed (which carries the key
// fields) through Item.Merge, whose receiver's non-zero fields win: the receiver is the
// decoded value, the argument the caller's item. The other way round, value fields the
// caller's item already carried (from an earlier Fill, or from another index) mask the
// stored value and Fill disagrees with Get.
func c19StoredWins(r *core.Run) {
	const rule = "C19.P4"
	n := 0
	for _, name := range []string{"(Index).Get", "(Index).Fill"} {
		fn := r.W.Func("pkg/shed", name)
		if fn == nil {
			r.Fatal("unresolved anchor pkg/shed.%s", name)
			continue
		}
		r.Saw(core.FuncName(fn))
		r.Eval(core.EdgeCount(fn))
		isDecoded := func(v ssa.Value) bool {
			c, idx := core.CallOf(core.Forward(v))
			if c == nil || idx != 0 || c.Call.IsInvoke() || c.Call.StaticCallee() != nil {
				return false
			}
			fr, ok := core.AsField(core.Forward(c.Call.Value))
			return ok && fr.Name == "decodeValueFunc"
		}
		for _, c := range core.Calls(fn, "(pkg/shed.Item).Merge") {
			n++
			args := core.Common(c).Args
			r.Check(rule, lsKey(rule, fn, "stored value is the receiver of Merge"), c.Pos(), len(args) == 2 && isDecoded(args[0]) && !isDecoded(args[1]),
				"the item decoded from the stored value is the receiver of Merge (its fields win), the caller's item the argument", core.FuncName(fn)+" merges the other way round: value fields the caller's item already carried mask the stored value — a second Fill of the same slice, or a Fill from another index, returns stale values and disagrees with Get")
		}
	}
	r.Floor(rule, "Merge calls in Index.Get / Index.Fill", n, 2)
}
