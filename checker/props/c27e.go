package props

import (
	"go/constant"
	"go/types"
	"strings"

	"aurora-verif/checker/core"

	"golang.org/x/tools/go/ssa"
)

// c27PathRemovers (W2): a stored path serves every intermediate target on it, so it is
// removed only by Table.Delete, which also takes the path's route out of each of those
// targets' lists (and by the reload, which refuses malformed / over-long records). Any
// other function that drops a path from Table.paths or from the "path_" records — for
// instance SavePath releasing "the path of the route that fell off the end" of one
// target's list — leaves the other targets with a route whose path no longer exists:
// GetNextHop offers a hop that is the last hop of no stored path.
func c27PathRemovers(r *core.Run) {
	const rule = "C27.W2"
	const T = "pkg/routetab.Table"
	n := 0
	pfx := ""
	if o, ok := r.W.Lookup("pkg/routetab", "pathPrefix").(*types.Const); ok && o.Val().Kind() == constant.String {
		pfx = constant.StringVal(o.Val())
	}
	if pfx == "" {
		r.Fatal("unresolved anchor pkg/routetab.pathPrefix (string constant)")
		return
	}
	done := map[*ssa.Function]bool{}
	for _, top := range r.W.PkgFuncs("pkg/routetab") {
		for _, fn := range core.WithClosures(top) {
			if done[fn] {
				continue
			}
			done[fn] = true
			root := fn
			for root.Parent() != nil {
				root = root.Parent()
			}
			allowed := core.FuncName(root) == "pkg/routetab.(*Table).Delete" || core.FuncName(root) == "pkg/routetab.(*Table).ResumePaths"
			core.EachInstr(fn, func(_ *ssa.BasicBlock, _ int, in ssa.Instruction) {
				c, ok := in.(*ssa.Call)
				if !ok {
					return
				}
				what := ""
				switch core.CalleeName(&c.Call) {
				case "(*sync.Map).Delete":
					if fa, ok := c.Call.Args[0].(*ssa.FieldAddr); ok {
						if fr, _ := core.AsField(fa); fr.Struct == T && fr.Name == "paths" {
							what = "Table.paths"
						}
					}
				case "(pkg/storage.StateStorer).Delete":
					args := core.CallArgs(&c.Call)
					if len(args) >= 2 && core.DerivesFrom(args[1], func(k ssa.Value) bool {
						if cst, ok := k.(*ssa.Const); ok && cst.Value != nil && cst.Value.Kind() == constant.String {
							return pfx != "" && strings.HasPrefix(constant.StringVal(cst.Value), pfx)
						}
						return false
					}, nil) {
						what = "the persisted path records"
					}
				}
				if what == "" {
					return
				}
				n++
				r.Saw(core.FuncName(fn))
				r.Check(rule, lsKey(rule, fn, "path removed from "+what+" only by Delete / the reload"), c.Pos(), allowed,
					"a stored path is dropped only by Table.Delete (which clears its routes from every target) or by the reload", core.FuncName(fn)+" removes a path from "+what+" without clearing the routes other targets hold to it: GetNextHop then offers a next hop that is the last hop of no stored path")
			})
		}
	}
	r.Floor(rule, "removals of a stored path", n, 2)
}
