package props

import (
	"fmt"
	"go/token"
	"sort"
	"strings"

	"aurora-verif/checker/core"

	"golang.org/x/tools/go/ssa"
)

const lsPkg = "pkg/localstore"
const dbT = "pkg/localstore.DB"

func init() {
	reg("C11", Meta{
		Technique:   "lockset (guarded-by) analysis for every index/field write and the GC coordination fields, must-guard reachability for the exists flag and the pinned-chunk refusal, provenance of the reported exists flags",
		Explanation: "C11 (local store returns what was stored), structural clauses: (Lk1) every write to a localstore index or field (Put/PutInBatch/Delete/DeleteInBatch/… on retrievalDataIndex, retrievalAccessIndex, gcIndex, pinIndex, gcSize, binIDs) and every access to gcRunning / dirtyAddresses happens with DB.batchMu held (constructor and migrations excepted) — so concurrent puts/sets/GC cannot interleave their read-check-write sequences; (G1) putUpload/putRequest write the chunk data only on the branch where the data index reported it absent, and report exists=true exactly on the other branch; put's per-chunk flags are that result or the in-call duplicate test; (P2) the in-call duplicate test (containsChunk) decides by address equality alone, as the data index does; (G2) setRemove deletes chunk data only when the pin counter did not stay positive. Not decided: byte equality of what is read back, equivalence of batched and one-at-a-time puts (needs execution).",
	}, c11)
	reg("C12", Meta{
		Technique:   "who-may-write over the call graph reachable from the garbage collector (no pin-index write), must-guard reachability (GC deletes data only behind 'no pin entry'), reachability disjointness for the upload path",
		Explanation: "C12 (GC never deletes pinned or uploaded chunks), structural clauses: (W1) nothing reachable from DB.collectGarbage (its closures and same-package callees) calls a write method on DB.pinIndex — 'no run changes any pin count'; (G1) every data-index delete reachable from collectGarbage is behind the edge where the pin index has no entry for that chunk; (W2) nothing reachable from putUpload writes the gc index or calls setGC — uploaded chunks never become collectable; (G2) atomic re-check: every index mutation in collectGarbage's deleting closures is behind the not-a-member edge of a MemberOf test on the live DB.dirtyAddresses, loaded inside that closure after it took DB.batchMu and without an explicit Unlock in between (a file pinned after the candidates were gathered is skipped). Not decided: pin counter values.",
	}, c12)
	reg("C13", Meta{
		Technique:   "batch read-modify-write rule over SSA + call graph (a Get→modify→PutInBatch on one index key that is invariant across a loop of the same batched operation is a lost update), who-may-write for the persisted counter",
		Explanation: "C13 (cache accounting), structural clauses: (B1) inside one batched operation no index entry is read-modified-written through the batch more than once — reads do not see the uncommitted batch, so N updates of the same key write the same value while the cached-chunk counter is still changed N times: the rule finds helpers that Get and PutInBatch the same index keyed by a parameter and are called from a loop with a loop-invariant key; (W1) the persisted counter gcSize is written only by incGCSizeInBatch, collectGarbage and the constructor; (G2) the collector's check-then-delete of a candidate against the live dirty-address list is one critical section inside the deleting closure (same rule as C12.G2: a re-keyed gc entry is not deleted under its stale key). Not decided: the numeric identity counter = Σ per-file counts, and counter <= capacity after quiescence.",
	}, c13)
	reg("C14", Meta{
		Technique:   "batch-discipline rule over SSA + call graph: no direct (unbatched) index/field write inside a batched operation, one commit per operation, every staged write on the operation's own batch",
		Explanation: "C14 (crash consistency), assuming a driver batch commit is atomic: (B1) in everything reachable from the batched operations put, set, updateGC and collectGarbage there is no direct Index.Put/Delete or Field.Put — a crash between such a write and the commit leaves bookkeeping half-applied; (B2) each operation creates one batch, stages every *InBatch write on it (or on the batch parameter handed down) and commits it at most once. Not decided: the state seen after reopening (driver behaviour), goleveldb's atomicity itself.",
		Assumptions: []string{"driver.Batching.Commit is atomic (goleveldb WriteBatch)"},
	}, c14)
}

// lsPure: key-building helpers through which a key still derives from its argument.
var lsPure = map[string]bool{lsPkg + ".addressToItem": true, lsPkg + ".chunkToItem": true, "(pkg/boson.Address).Bytes": true}

type idxCall struct {
	fn     *ssa.Function
	in     *ssa.Call
	field  string
	method string
}

var idxWriteMethods = map[string]bool{"Put": true, "PutInBatch": true, "Delete": true, "DeleteInBatch": true, "IncInBatch": true, "DecInBatch": true, "Inc": true, "Dec": true}
var idxDirectMethods = map[string]bool{"Put": true, "Delete": true, "Inc": true, "Dec": true}

// lsIndexCalls lists calls of shed index/field methods whose receiver is a field of DB.
func lsIndexCalls(funcs []*ssa.Function) []idxCall {
	var out []idxCall
	for _, fn := range funcs {
		core.EachInstr(fn, func(_ *ssa.BasicBlock, _ int, in ssa.Instruction) {
			c, ok := in.(*ssa.Call)
			if !ok || c.Call.IsInvoke() || len(c.Call.Args) == 0 {
				return
			}
			n := core.CalleeName(&c.Call)
			if !strings.HasPrefix(n, "(*pkg/shed.") && !strings.HasPrefix(n, "(pkg/shed.") {
				return
			}
			fr, ok := core.AsField(core.Forward(c.Call.Args[0]))
			if !ok || fr.Struct != dbT {
				return
			}
			m := n[strings.LastIndex(n, ".")+1:]
			out = append(out, idxCall{fn, c, fr.Name, m})
		})
	}
	return out
}

func rootFn(fn *ssa.Function) *ssa.Function {
	for fn.Parent() != nil {
		fn = fn.Parent()
	}
	return fn
}

// lsKey builds a key that names closures by their enclosing named function, not by ordinal.
func lsKey(rule string, fn *ssa.Function, construct string) string {
	if fn.Parent() != nil {
		construct = "closure:" + construct
	}
	return core.Key(rule, rootFn(fn), construct)
}

// lsReach: functions reachable from roots through static calls inside the package and
// through closures created by reachable functions.
func lsReach(w *core.World, roots ...*ssa.Function) map[*ssa.Function]bool {
	seen := map[*ssa.Function]bool{}
	var visit func(f *ssa.Function)
	visit = func(f *ssa.Function) {
		if f == nil || seen[f] || f.Pkg == nil || f.Pkg.Pkg.Path() != core.P(lsPkg) {
			return
		}
		seen[f] = true
		for _, a := range f.AnonFuncs {
			visit(a)
		}
		core.EachInstr(f, func(_ *ssa.BasicBlock, _ int, in ssa.Instruction) {
			if c := core.Common(in); c != nil {
				visit(c.StaticCallee())
			}
		})
	}
	for _, r := range roots {
		visit(r)
	}
	return seen
}

func lsFunc(r *core.Run, name string) *ssa.Function {
	f := r.W.Func(lsPkg, name)
	if f == nil {
		r.Fatal("unresolved anchor %s.%s", lsPkg, name)
	}
	return f
}

func c11(r *core.Run) {
	w := r.W
	funcs := w.PkgFuncs(lsPkg)
	la := core.NewLockAnalysis(w, lsPkg)
	la.SyncCallees["(*pkg/shed.Index).Iterate"] = true
	la.SyncCallees["(pkg/chunkinfo.Interface).DelFile"] = true
	la.Run()
	exempt := map[string]string{
		lsPkg + ".New": "constructor: the DB is not yet published",
	}
	type k struct {
		fn    *ssa.Function
		what  string
	}
	bad := map[k]ssa.Instruction{}
	seen := map[k]ssa.Instruction{}
	var order []k
	n := 0
	for _, ic := range lsIndexCalls(funcs) {
		if !idxWriteMethods[ic.method] {
			continue
		}
		name := core.FuncName(rootFn(ic.fn))
		if _, ok := exempt[name]; ok || strings.HasPrefix(name, lsPkg+".migrate") || strings.Contains(name, ".migrate") {
			continue
		}
		n++
		kk := k{ic.fn, ic.field + "." + ic.method}
		if _, ok := seen[kk]; !ok {
			seen[kk] = ic.in
			order = append(order, kk)
		}
		if h := la.HeldAt(ic.in); h == nil || !h.Holds(dbT+".batchMu", true) {
			if _, ok := bad[kk]; !ok {
				bad[kk] = ic.in
			}
		}
	}
	for _, kk := range order {
		r.Saw(core.FuncName(kk.fn))
		in := seen[kk]
		detail := ""
		if b, ok := bad[kk]; ok {
			in = b
			detail = "index write without DB.batchMu; held: " + la.HeldAt(b).String() + ", entry lockset: " + la.Entry(kk.fn).String()
		}
		_, isBad := bad[kk]
		r.Check("C11.Lk1", lsKey("C11.Lk1", kk.fn, kk.what), in.Pos(), !isBad,
			"the index write "+kk.what+" happens with DB.batchMu held", detail)
	}
	r.Floor("C11.Lk1", "index/field writes in localstore", n, 15)
	r.Eval(n)
	for _, f := range []string{"gcRunning", "dirtyAddresses"} {
		m := la.CheckGuarded(r, "C11.Lk1", dbT, f, dbT+".batchMu", exempt)
		r.Floor("C11.Lk1", "accesses to DB."+f, m, 3)
	}

	// G1
	for _, name := range []string{"(*DB).putUpload", "(*DB).putRequest"} {
		fn := lsFunc(r, name)
		if fn == nil {
			continue
		}
		r.Saw(core.FuncName(fn))
		r.Eval(core.EdgeCount(fn))
		var has *ssa.Call
		for _, ic := range lsIndexCalls([]*ssa.Function{fn}) {
			if ic.field == "retrievalDataIndex" && ic.method == "Has" {
				has = ic.in
			}
		}
		present, absent := core.AtomEdges(fn, func(base ssa.Value) (bool, bool) {
			if c, idx := core.CallOf(base); has != nil && c == has && idx == 0 {
				return true, true
			}
			return false, false
		})
		nput := 0
		for _, ic := range lsIndexCalls([]*ssa.Function{fn}) {
			if ic.field == "retrievalDataIndex" && ic.method == "PutInBatch" {
				nput++
				r.Check("C11.G1", core.Key("C11.G1", fn, "data written only when absent"), ic.in.Pos(), len(absent) > 0 && core.OnlyBehind(fn, ic.in, absent),
					"chunk data is written only when the data index reported the chunk absent", "the chunk data write is reachable although the chunk already exists (or the existence test is gone)")
			}
		}
		r.Floor("C11.G1", "data writes in "+name, nput, 1)
		core.EachInstr(fn, func(_ *ssa.BasicBlock, _ int, in ssa.Instruction) {
			ret, ok := in.(*ssa.Return)
			if !ok || ret.Block() == fn.Recover {
				return
			}
			errv := core.Forward(ret.Results[len(ret.Results)-1])
			if !core.IsNilConst(errv) {
				return
			}
			b, isC := core.ConstBool(core.Forward(ret.Results[0]))
			if !isC {
				r.Check("C11.G1", core.Key("C11.G1", fn, "exists flag constant per branch"), ret.Pos(), false, "the exists flag is decided by the existence test", "the exists flag returned on success is not a per-branch constant")
				return
			}
			if b {
				r.Check("C11.G1", core.Key("C11.G1", fn, "exists=true only when present"), ret.Pos(), len(present) > 0 && core.OnlyBehind(fn, ret, present),
					"'already existed' is reported only on the branch where the chunk was found", "exists=true can be returned for an absent chunk")
			} else {
				r.Check("C11.G1", core.Key("C11.G1", fn, "exists=false only when absent"), ret.Pos(), len(absent) > 0 && core.OnlyBehind(fn, ret, absent),
					"'newly stored' is reported only on the branch where the chunk was absent", "exists=false can be returned for a present chunk")
			}
		})
	}
	if put := lsFunc(r, "(*DB).put"); put != nil {
		r.Saw(core.FuncName(put))
		r.Eval(core.EdgeCount(put))
		dup, _ := core.AtomEdges(put, core.BoolCallAtom(func(c *ssa.Call) bool { return core.IsCallTo(c, lsPkg+".containsChunk") }))
		nst := 0
		core.EachInstr(put, func(_ *ssa.BasicBlock, _ int, in ssa.Instruction) {
			st, ok := in.(*ssa.Store)
			if !ok {
				return
			}
			ia, ok := st.Addr.(*ssa.IndexAddr)
			if !ok || st.Val.Type().String() != "bool" {
				return
			}
			if _, isMake := core.Forward(ia.X).(*ssa.MakeSlice); !isMake {
				return
			}
			nst++
			okv := false
			if b, isC := core.ConstBool(st.Val); isC {
				okv = b && len(dup) > 0 && core.OnlyBehind(put, st, dup)
			} else if c, idx := core.CallOf(st.Val); c != nil && idx == 0 && core.IsCallTo(c, "(*"+lsPkg+".DB).putRequest", "(*"+lsPkg+".DB).putUpload") {
				okv = true
			}
			r.Check("C11.G1", core.Key("C11.G1", put, "exist[i] provenance"), st.Pos(), okv,
				"a chunk's 'already existed' flag is the data-index test or the in-call duplicate test", "an exists flag is set from something else than putRequest/putUpload's result or the containsChunk test")
		})
		r.Floor("C11.G1", "exist[i] assignments in put", nst, 4)
		// P5: the in-call duplicate test looks at ALL chunks before the current one:
		// containsChunk(chs[i].Address(), chs[:i]...) — the window is the slice of the
		// call's own chunks from 0 up to the loop position, and the store helper runs only
		// when it found none. A shorter window (the preceding chunk only) stores a
		// non-adjacent repeat a second time and reports it as new.
		_, notDup := core.AtomEdges(put, core.BoolCallAtom(func(c *ssa.Call) bool { return core.IsCallTo(c, lsPkg+".containsChunk") }))
		nwin := 0
		for _, c := range core.Calls(put, lsPkg+".containsChunk") {
			nwin++
			args := core.Common(c).Args
			okWin := false
			if sl, ok := core.Forward(args[len(args)-1]).(*ssa.Slice); ok {
				_, isParam := sl.X.(*ssa.Parameter)
				lowZero := sl.Low == nil
				if k, isC := core.ConstInt(sl.Low); sl.Low != nil && isC && k == 0 {
					lowZero = true
				}
				// the upper bound is the position of the chunk being looked up
				upper := false
				if sl.High != nil {
					if ac, _ := core.CallOf(args[0]); ac != nil {
						recv := core.Forward(core.CallArgs(&ac.Call)[0])
						if mi, ok := recv.(*ssa.MakeInterface); ok {
							recv = core.Forward(mi.X)
						}
						if p, ok := core.LoadedFrom(recv); ok {
							if ia, ok := p.(*ssa.IndexAddr); ok && ia.X == sl.X && ia.Index == sl.High {
								upper = true
							}
						}
					}
				}
				okWin = isParam && lowZero && upper
			}
			r.Check("C11.P5", lsKey("C11.P5", put, "duplicate test over chs[:i]"), c.Pos(), okWin,
				"the in-call duplicate test compares chunk i with every earlier chunk of the call (chs[:i])", "the duplicate test of put does not look at chs[:i] for the chunk chs[i]: a repeat that is not inside the window is stored again and reported as new, unlike one-at-a-time puts")
		}
		for _, c := range core.Calls(put, "(*"+lsPkg+".DB).putRequest", "(*"+lsPkg+".DB).putUpload") {
			r.Check("C11.P5", lsKey("C11.P5", put, "store helper only for a chunk not seen earlier in the call"), c.Pos(), len(notDup) > 0 && core.OnlyBehind(put, c, notDup),
				"putRequest / putUpload run only when the duplicate test found no earlier chunk with the address", "a chunk repeated inside one call reaches the store helper again")
		}
		r.Floor("C11.P5", "in-call duplicate tests in put", nwin, 2)
	}
	staleDataIndexRead(r, "C11.B2")
	// P2: the in-call duplicate test is by ADDRESS (the store is content-addressed by the
	// address alone: a second chunk with the same address is "already there" whatever its
	// bytes, exactly as the data-index test would say one call later)
	if cc := lsFunc(r, "containsChunk"); cc != nil {
		r.Saw(core.FuncName(cc))
		r.Eval(core.EdgeCount(cc))
		byAddr, _ := core.AtomEdges(cc, core.BoolCallAtom(func(c *ssa.Call) bool {
			if !core.IsCallTo(c, "(pkg/boson.Address).Equal") {
				return false
			}
			isElemAddr := func(v ssa.Value) bool {
				ac, _ := core.CallOf(v)
				return ac != nil && core.IsCallTo(ac, "(pkg/boson.Chunk).Address")
			}
			a, b := c.Call.Args[0], c.Call.Args[1]
			return isElemAddr(a) || isElemAddr(b)
		}))
		nT := 0
		core.EachInstr(cc, func(_ *ssa.BasicBlock, _ int, in ssa.Instruction) {
			ret, ok := in.(*ssa.Return)
			if !ok {
				return
			}
			b, isC := core.ConstBool(core.Forward(ret.Results[0]))
			if isC && !b {
				return
			}
			nT++
			r.Check("C11.P2", core.Key("C11.P2", cc, "duplicate decided by address equality"), ret.Pos(), isC && len(byAddr) > 0 && core.OnlyBehind(cc, ret, byAddr),
				"a chunk counts as an in-call duplicate exactly when an earlier chunk of the call has the same address", "the in-call duplicate test is not (only) address equality: two chunks with one address and different bytes are both written in a batched put, while one-at-a-time puts keep the first and report the second as existing")
		})
		r.Floor("C11.P2", "positive returns of containsChunk", nT, 1)
		// the converse: an earlier chunk with the same address always makes it a duplicate
		okConv := len(byAddr) > 0
		back := core.BackEdges(cc)
		seen := map[*ssa.BasicBlock]bool{}
		work := edgeTargets(byAddr)
		for len(work) > 0 && okConv {
			b := work[len(work)-1]
			work = work[:len(work)-1]
			if seen[b] {
				continue
			}
			seen[b] = true
			if ret, isRet := b.Instrs[len(b.Instrs)-1].(*ssa.Return); isRet {
				if v, isC := core.ConstBool(core.Forward(ret.Results[0])); !isC || !v {
					okConv = false
				}
				continue
			}
			for _, s := range b.Succs {
				if back[core.Edge{From: b, To: s}] {
					okConv = false // moved on to the next element without reporting the duplicate
				}
				work = append(work, s)
			}
		}
		r.Check("C11.P2", core.Key("C11.P2", cc, "same address always a duplicate"), cc.Pos(), okConv,
			"once an earlier chunk with the same address is found the test reports a duplicate, with no further condition", "after the address matched, containsChunk can still move on or answer false: the duplicate test looks at more than the address")
	}

	// G2 setRemove
	if fn := lsFunc(r, "(*DB).setRemove"); fn != nil {
		r.Saw(core.FuncName(fn))
		r.Eval(core.EdgeCount(fn))
		stillPinned, _ := core.AtomEdges(fn, cmpAtom(func(v ssa.Value) bool {
			fr, ok := core.AsField(v)
			return ok && fr.Name == "PinCounter"
		}, func(y ssa.Value) bool { k, ok := core.ConstInt(y); return ok && k == 0 }, ">"))
		r.Floor("C11.G2", "pin-counter tests in setRemove", len(stillPinned), 1)
		for _, ic := range lsIndexCalls([]*ssa.Function{fn}) {
			if ic.field == "retrievalDataIndex" && ic.method == "DeleteInBatch" {
				r.Check("C11.G2", core.Key("C11.G2", fn, "no data delete while pin counter > 0"), ic.in.Pos(), len(stillPinned) > 0 && !core.ReachableFromEdges(fn, stillPinned, ic.in, false),
					"a chunk whose pin counter stays positive keeps its data", "from the edge PinCounter > 0 the data delete is still reachable")
				// P4: the data deleted is that of the address being removed — never of the
				// file root the call was made in the context of
				okItem := false
				if ld, ok := ic.in.Call.Args[len(ic.in.Call.Args)-1].(*ssa.UnOp); ok {
					if al, ok := ld.X.(*ssa.Alloc); ok {
						fromAddr, fromOther := false, false
						for _, u := range core.Uses(al) {
							st, ok := u.(*ssa.Store)
							if !ok || st.Addr != ssa.Value(al) {
								continue
							}
							if kc, _ := core.CallOf(st.Val); kc != nil && core.IsCallTo(kc, lsPkg+".addressToItem") {
								if kc.Call.Args[0] == ssa.Value(fn.Params[2]) {
									fromAddr = true
								} else {
									fromOther = true
								}
							}
						}
						okItem = fromAddr && !fromOther
					}
				}
				r.Check("C11.P4", core.Key("C11.P4", fn, "data delete keyed by the removed address"), ic.in.Pos(), okItem,
					"setRemove deletes chunk data only under the key of the address it was asked to remove", "the data index delete in setRemove is keyed by an item that does not come from addressToItem(addr) (e.g. the file root): removing one chunk deletes another chunk's data, which then reads as not found although it was never removed")
			}
		}
	}
	// G3: the lock-free "already stored" shortcut of put (a success return taken before
	// batchMu is acquired) is reachable only for the put modes that have no side effect on
	// an existing chunk: the pinning modes must reach the batched section so the pin
	// reference is taken (otherwise one put-at-a-time and one batched put differ).
	if fn := lsFunc(r, "(*DB).put"); fn != nil {
		var lock ssa.Instruction
		for _, c := range core.Calls(fn, "(*sync.Mutex).Lock") {
			if cc := core.Common(c); len(cc.Args) > 0 && core.IsFieldOf(cc.Args[0], dbT, "batchMu") {
				lock = c
			}
		}
		mode := fn.Params[1]
		notMode := func(name string) core.EdgeSet {
			k, ok := constInt(w, "pkg/storage", name)
			if !ok {
				r.Fatal("unresolved constant pkg/storage.%s", name)
				return nil
			}
			pos, _ := core.AtomEdges(fn, cmpAtom(func(v ssa.Value) bool { return v == ssa.Value(mode) }, func(y ssa.Value) bool { c, ok := core.ConstInt(y); return ok && c == k }, "!="))
			return pos
		}
		nrp, nup := notMode("ModePutRequestPin"), notMode("ModePutUploadPin")
		n := 0
		core.EachInstr(fn, func(_ *ssa.BasicBlock, _ int, in ssa.Instruction) {
			ret, ok := in.(*ssa.Return)
			if !ok || len(ret.Results) != 2 || !core.IsNilConst(core.Forward(ret.Results[1])) {
				return
			}
			if lock != nil && core.Precedes(lock, ret) {
				return
			}
			n++
			r.Check("C11.G3", core.Key("C11.G3", fn, "lock-free success return only for non-pinning modes"), ret.Pos(), lock != nil && len(nrp) > 0 && len(nup) > 0 && core.OnlyBehind(fn, ret, nrp) && core.OnlyBehind(fn, ret, nup),
				"put reports success without entering the batched section only for ModePutRequest/ModePutUpload", "a success return that bypasses the batched section is reachable for a pinning put mode: re-putting an existing chunk with ModePut*Pin skips its pin reference, and a later remove deletes a chunk the batched put would have kept")
		})
		r.Floor("C11.G3", "lock-free success returns of put", n, 1)
	}
	c11GetSide(r)
}

func c12(r *core.Run) {
	w := r.W
	gc := lsFunc(r, "(*DB).collectGarbage")
	pu := lsFunc(r, "(*DB).putUpload")
	if gc == nil || pu == nil {
		return
	}
	removalListRule(r, "C12.G4")
	reach := lsReach(w, gc)
	var fs []*ssa.Function
	for f := range reach {
		fs = append(fs, f)
		r.Saw(core.FuncName(f))
		r.Eval(core.EdgeCount(f))
	}
	sort.Slice(fs, func(i, j int) bool { return fs[i].Pos() < fs[j].Pos() })
	r.Floor("C12.W1", "functions reachable from collectGarbage", len(fs), 4)
	nw := 0
	for _, ic := range lsIndexCalls(fs) {
		if ic.field == "pinIndex" {
			if idxWriteMethods[ic.method] {
				nw++
				r.Check("C12.W1", lsKey("C12.W1", ic.fn, "pinIndex."+ic.method), ic.in.Pos(), false,
					"garbage collection never writes the pin index", "a function reachable from collectGarbage calls pinIndex."+ic.method+": a collection run changes/deletes pin counts")
			}
		}
	}
	if nw == 0 {
		r.Check("C12.W1", core.Key("C12.W1", gc, "no pin-index write reachable"), gc.Pos(), true, "garbage collection never writes the pin index", "")
	}
	// G1 data deletes behind "no pin entry"
	nd := 0
	for _, ic := range lsIndexCalls(fs) {
		if ic.field != "retrievalDataIndex" || (ic.method != "DeleteInBatch" && ic.method != "Delete") {
			continue
		}
		nd++
		// guard: err of pinIndex.Get/Has non-nil (not found) / Has false, in the same function
		noPin := core.EdgeSet{}
		_, e1 := core.AtomEdges(ic.fn, core.ErrNilAtom(func(c *ssa.Call) bool {
			for _, x := range lsIndexCalls([]*ssa.Function{ic.fn}) {
				if x.in == c && x.field == "pinIndex" && x.method == "Get" {
					return true
				}
			}
			return false
		}))
		_, e2 := core.AtomEdges(ic.fn, func(base ssa.Value) (bool, bool) {
			c, idx := core.CallOf(base)
			if c == nil || idx != 0 {
				return false, false
			}
			for _, x := range lsIndexCalls([]*ssa.Function{ic.fn}) {
				if x.in == c && x.field == "pinIndex" && x.method == "Has" {
					return true, true
				}
			}
			return false, false
		})
		for e := range e1 {
			noPin[e] = true
		}
		for e := range e2 {
			noPin[e] = true
		}
		r.Check("C12.G1", lsKey("C12.G1", ic.fn, "retrievalDataIndex."+ic.method+" behind no-pin"), ic.in.Pos(), len(noPin) > 0 && core.OnlyBehind(ic.fn, ic.in, noPin),
			"garbage collection deletes chunk data only when the chunk has no pin entry", "a data delete in garbage collection is reachable for a chunk that has a pin entry (or without consulting the pin index)")
	}
	r.Floor("C12.G1", "data deletes reachable from collectGarbage", nd, 2)
	gcDirtyRecheck(r, "C12.G2", "a file pinned or re-used after the candidates were gathered is still collected — its pin entries and chunk data are deleted")
	dirtyLogRule(r, "C12.G3")
	// pinning a cached file takes it off the gc index: that bookkeeping must not be a
	// read-modify-write through the batch from the per-chunk loop (N chunks of one root would
	// each stage old-1, the entry survives and the fully pinned file stays collectable)
	rmwRule(r, "C12.B1", func(helper, field string) bool {
		return field == "gcIndex" && strings.HasSuffix(helper, ".setPin")
	})

	// W2 uploads never become collectable
	ur := lsReach(w, pu)
	var ufs []*ssa.Function
	for f := range ur {
		ufs = append(ufs, f)
		r.Saw(core.FuncName(f))
	}
	okU := true
	var badPos = pu.Pos()
	for _, ic := range lsIndexCalls(ufs) {
		if ic.field == "gcIndex" && idxWriteMethods[ic.method] {
			okU, badPos = false, ic.in.Pos()
		}
	}
	for f := range ur {
		if strings.HasSuffix(core.FuncName(f), ".setGC") {
			okU = false
		}
	}
	r.Check("C12.W2", core.Key("C12.W2", pu, "upload path never touches the gc index"), badPos, okU,
		"locally uploaded chunks are never entered into the gc index", "a function reachable from putUpload writes the gc index / calls setGC")
}

// gcDirtyRecheck: garbage collection gathers its candidates without the lock and deletes
// them later; Put/Set/Get log every address they touch in DB.dirtyAddresses meanwhile. The
// rule requires the check-then-act to be atomic: in every closure of collectGarbage that
// mutates an index, each mutation is only behind the "not a member" edge of a MemberOf test
// on the *live* list — a load of DB.dirtyAddresses made inside that closure, after the
// closure took DB.batchMu, with no explicit Unlock in the closure (deferred only).
func gcDirtyRecheck(r *core.Run, rule, consequence string) {
	gc := lsFunc(r, "(*DB).collectGarbage")
	if gc == nil {
		return
	}
	var cls []*ssa.Function
	var collect func(f *ssa.Function)
	collect = func(f *ssa.Function) {
		for _, a := range f.AnonFuncs {
			cls = append(cls, a)
			collect(a)
		}
	}
	collect(gc)
	isBatchMu := func(c *ssa.CallCommon) bool {
		return len(c.Args) > 0 && core.IsFieldOf(c.Args[0], dbT, "batchMu")
	}
	n := 0
	for _, cl := range cls {
		var writes []idxCall
		for _, ic := range lsIndexCalls([]*ssa.Function{cl}) {
			if idxWriteMethods[ic.method] {
				writes = append(writes, ic)
			}
		}
		if len(writes) == 0 {
			continue
		}
		r.Saw(core.FuncName(cl))
		r.Eval(core.EdgeCount(cl))
		var liveTests []ssa.Instruction
		_, notDirty := core.AtomEdges(cl, core.BoolCallAtom(func(c *ssa.Call) bool {
			if !core.IsCallTo(c, "(pkg/boson.Address).MemberOf") || len(c.Call.Args) < 2 {
				return false
			}
			if !core.IsFieldOf(core.Forward(c.Call.Args[1]), dbT, "dirtyAddresses") {
				return false
			}
			liveTests = append(liveTests, c)
			return true
		}))
		locked := false
		explicitUnlock := false
		core.EachInstr(cl, func(_ *ssa.BasicBlock, _ int, in ssa.Instruction) {
			c, ok := in.(*ssa.Call)
			if !ok {
				return
			}
			if core.IsCallTo(c, "(*sync.Mutex).Lock") && isBatchMu(&c.Call) {
				for _, t := range liveTests {
					if core.Precedes(c, t) {
						locked = true
					}
				}
			}
			if core.IsCallTo(c, "(*sync.Mutex).Unlock") && isBatchMu(&c.Call) {
				explicitUnlock = true
			}
		})
		for _, ic := range writes {
			n++
			ok := len(notDirty) > 0 && core.OnlyBehind(cl, ic.in, notDirty) && locked && !explicitUnlock
			why := "the index mutation is reachable without a MemberOf test of the live DB.dirtyAddresses inside the deleting closure"
			if len(notDirty) > 0 && core.OnlyBehind(cl, ic.in, notDirty) {
				why = "the dirty test and the mutation are not in one DB.batchMu critical section of the closure"
			}
			r.Check(rule, lsKey(rule, cl, ic.field+"."+ic.method+" behind live dirty-address test"), ic.in.Pos(), ok,
				"GC mutates the indexes for a candidate only after re-testing it, under the lock and in the same critical section, against the live list of addresses touched since the candidates were gathered", why+": "+consequence)
		}
	}
	r.Floor(rule, "index mutations in the deleting closures of collectGarbage", n, 2)
}

// rmwSummary: function fn reads index X with a key derived from parameter p and stages a
// write to X through the batch whose item derives from that read or key.
type rmwSummary struct {
	field string
	param int
	get   *ssa.Call
	put   *ssa.Call
}

func lsRMW(fn *ssa.Function) []rmwSummary {
	var out []rmwSummary
	calls := lsIndexCalls([]*ssa.Function{fn})
	for _, g := range calls {
		if g.method != "Get" || len(g.in.Call.Args) < 2 {
			continue
		}
		key := g.in.Call.Args[1]
		for pi, p := range fn.Params {
			p := p
			if !core.DerivesFrom(key, func(x ssa.Value) bool { return x == ssa.Value(p) }, lsPure) {
				continue
			}
			for _, pt := range calls {
				if pt.method != "PutInBatch" || pt.field != g.field || len(pt.in.Call.Args) < 3 {
					continue
				}
				item := pt.in.Call.Args[2]
				fromGet := core.DerivesFrom(item, func(x ssa.Value) bool {
					c, _ := core.CallOf(x)
					return c == g.in
				}, nil)
				fromKey := core.DerivesFrom(item, func(x ssa.Value) bool { return x == ssa.Value(p) }, lsPure)
				if (fromGet || fromKey) && core.ReachBlocks([]*ssa.BasicBlock{g.in.Block()}, nil)[pt.in.Block()] || g.in.Block() == pt.in.Block() {
					if fromGet || fromKey {
						out = append(out, rmwSummary{g.field, pi, g.in, pt.in})
					}
				}
			}
		}
	}
	return out
}

// loopInvariant: v does not change across iterations of the loop with the given header.
func loopInvariant(fn *ssa.Function, v ssa.Value, header *ssa.BasicBlock, depth int) bool {
	if depth > 6 {
		return false
	}
	inLoop := func(b *ssa.BasicBlock) bool { return b != nil && loopContains(fn, header, b) }
	switch x := v.(type) {
	case *ssa.Const, *ssa.Parameter, *ssa.Global, *ssa.FreeVar:
		return true
	case ssa.Instruction:
		if !inLoop(x.Block()) {
			return true
		}
		switch y := v.(type) {
		case *ssa.Call:
			n := core.CalleeName(&y.Call)
			if n == lsPkg+".addressToItem" || n == "(pkg/boson.Address).Bytes" {
				for _, a := range y.Call.Args {
					if !loopInvariant(fn, a, header, depth+1) {
						return false
					}
				}
				return true
			}
			return false
		case *ssa.UnOp:
			// load of a cell: invariant if every store to the cell is outside the loop
			if al, ok := y.X.(*ssa.Alloc); ok {
				for _, u := range core.Uses(al) {
					if st, ok := u.(*ssa.Store); ok && inLoop(st.Block()) {
						// field-wise updates of a spilled struct (BinID etc.) do not change the key
						if st.Addr == ssa.Value(al) {
							return false
						}
					}
				}
				return true
			}
			return false
		case *ssa.Convert:
			return loopInvariant(fn, y.X, header, depth+1)
		case *ssa.ChangeType:
			return loopInvariant(fn, y.X, header, depth+1)
		}
	}
	return false
}

func loopContains(fn *ssa.Function, header, b *ssa.BasicBlock) bool {
	if !header.Dominates(b) {
		return false
	}
	for e := range core.BackEdges(fn) {
		if e.To != header {
			continue
		}
		avoid := core.EdgeSet{}
		for _, p := range header.Preds {
			avoid[core.Edge{From: p, To: header}] = true
		}
		if b == e.From || b == header || core.ReachBlocks([]*ssa.BasicBlock{b}, avoid)[e.From] {
			return true
		}
	}
	return false
}

func c13(r *core.Run) {
	w := r.W
	funcs := w.PkgFuncs(lsPkg)
	rmwRule(r, "C13.B1", nil)
	// W1 gcSize writers
	allowed := map[string]bool{lsPkg + ".(*DB).incGCSizeInBatch": true, lsPkg + ".(*DB).collectGarbage": true, lsPkg + ".New": true}
	n := 0
	for _, ic := range lsIndexCalls(funcs) {
		if ic.field == "gcSize" && idxWriteMethods[ic.method] {
			n++
			name := core.FuncName(rootFn(ic.fn))
			r.Check("C13.W1", lsKey("C13.W1", ic.fn, "gcSize."+ic.method), ic.in.Pos(), allowed[name],
				"the persisted cached-chunk counter is written only by incGCSizeInBatch, collectGarbage and the constructor", name+" writes gcSize")
		}
	}
	r.Floor("C13.W1", "writes of gcSize", n, 3)
	gcDirtyRecheck(r, "C13.G2", "a candidate whose gc-index entry was re-keyed by a concurrent access is deleted under its stale key while its chunks are subtracted — the persisted counter drifts from the sum of the per-file counts")
	dirtyLogRule(r, "C13.G3")
	readModifyWriteAtomic(r, "C13.Lk2")
	gcCounterProvenance(r, "C13.P2")
	gcCounterFreshRead(r, "C13.Lk3")
	gcForceCleanGuard(r, "C13.G4")
	gcDeltaPaired(r, "C13.G5")
}

// rmwRule: the batch read-modify-write rule (see Meta of C13). only == nil: every helper and
// index (C13, with floors); otherwise only the summaries accepted by the filter, without
// floors and with a positive obligation when none exists.
func rmwRule(r *core.Run, rule string, only func(helper, field string) bool) {
	w := r.W
	funcs := w.PkgFuncs(lsPkg)
	// summaries, propagated to callers that pass their own parameter on
	sum := map[*ssa.Function][]rmwSummary{}
	for _, fn := range funcs {
		if s := lsRMW(fn); len(s) > 0 {
			sum[fn] = s
		}
	}
	for iter := 0; iter < 4; iter++ {
		for _, fn := range funcs {
			core.EachInstr(fn, func(_ *ssa.BasicBlock, _ int, in ssa.Instruction) {
				c, ok := in.(*ssa.Call)
				if !ok {
					return
				}
				callee := c.Call.StaticCallee()
				for _, s := range sum[callee] {
					if s.param >= len(c.Call.Args) {
						continue
					}
					arg := c.Call.Args[s.param]
					for pi, p := range fn.Params {
						p := p
						if core.DerivesFrom(arg, func(x ssa.Value) bool { return x == ssa.Value(p) }, lsPure) {
							dupe := false
							for _, e := range sum[fn] {
								if e.field == s.field && e.param == pi && e.put == s.put {
									dupe = true
								}
							}
							if !dupe {
								sum[fn] = append(sum[fn], rmwSummary{s.field, pi, s.get, s.put})
							}
						}
					}
				}
			})
		}
	}
	nsum := 0
	for _, s := range sum {
		nsum += len(s)
	}
	if only == nil {
		r.Floor(rule, "read-modify-write-through-batch summaries (index keyed by a parameter)", nsum, 3)
	}
	nsel := 0
	// call sites inside loops with loop-invariant key
	reported := map[string]bool{}
	nsites := 0
	for _, fn := range funcs {
		r.Eval(core.EdgeCount(fn))
		core.EachInstr(fn, func(_ *ssa.BasicBlock, _ int, in ssa.Instruction) {
			c, ok := in.(*ssa.Call)
			if !ok {
				return
			}
			callee := c.Call.StaticCallee()
			ss := sum[callee]
			if len(ss) == 0 {
				return
			}
			h := loopHeader(fn, c.Block())
			if h == nil {
				return
			}
			for _, s := range ss {
				helper := s.put.Parent()
				if only != nil && !only(core.FuncName(helper), s.field) {
					continue
				}
				nsel++
				nsites++
				arg := c.Call.Args[s.param]
				inv := loopInvariant(fn, arg, h, 0)
				key := core.Key(rule, helper, s.field+" RMW through batch, loop in "+strings.TrimPrefix(core.FuncName(fn), lsPkg+"."))
				if reported[key] {
					continue
				}
				reported[key] = true
				r.Saw(core.FuncName(helper))
				r.Check(rule, key, s.put.Pos(), !inv,
					"an index entry is read-modified-written through the batch at most once per batched operation",
					fmt.Sprintf("%s reads %s and stages the modified entry in the batch; %s calls it from a loop (%s) with the same key every iteration: the reads never see the staged write, so N chunks change the entry once while the cached-chunk counter changes N times",
						core.FuncName(helper), s.field, core.FuncName(fn), w.Pos(c.Pos())))
			}
		})
	}
	if only == nil {
		r.Floor(rule, "loop call sites of RMW helpers", nsites, 3)
	} else if nsel == 0 {
		r.Check(rule, rule+"@"+lsPkg+"#no selected index entry is read-modified-written through the batch in a loop", token.NoPos, true,
			"the selected bookkeeping entry is not read-modified-written through the batch from a loop", "")
	}
}

func c14(r *core.Run) {
	w := r.W
	var roots []*ssa.Function
	for _, n := range []string{"(*DB).put", "(*DB).set", "(*DB).updateGC", "(*DB).collectGarbage"} {
		if f := lsFunc(r, n); f != nil {
			roots = append(roots, f)
		}
	}
	if len(roots) != 4 {
		return
	}
	reach := lsReach(w, roots...)
	var fs []*ssa.Function
	for f := range reach {
		fs = append(fs, f)
		r.Saw(core.FuncName(f))
		r.Eval(core.EdgeCount(f))
	}
	sort.Slice(fs, func(i, j int) bool { return fs[i].Pos() < fs[j].Pos() })
	nstaged, ndirect := 0, 0
	for _, ic := range lsIndexCalls(fs) {
		if !idxWriteMethods[ic.method] {
			continue
		}
		if idxDirectMethods[ic.method] {
			ndirect++
			r.Check("C14.B1", lsKey("C14.B1", ic.fn, ic.field+"."+ic.method+" (direct)"), ic.in.Pos(), false,
				"batched operations stage every index write in their batch", "direct (unbatched) write "+ic.field+"."+ic.method+" inside a batched operation: a crash between this write and the batch commit leaves the bookkeeping half-applied")
			continue
		}
		nstaged++
		// the batch argument: the operation's NewBatch or the function's batch parameter
		b := core.Forward(ic.in.Call.Args[1])
		okB := false
		if c, _ := core.CallOf(b); c != nil && strings.HasSuffix(core.CalleeName(&c.Call), ".NewBatch") {
			okB = true
		}
		for _, p := range ic.fn.Params {
			if b == ssa.Value(p) {
				okB = true
			}
		}
		// a closure using the enclosing operation's batch: the captured cell holds NewBatch()
		holdsNewBatch := func(fv *ssa.FreeVar) bool {
			cell := freeVarBinding(ic.fn, fv)
			if cell == nil {
				return false
			}
			if c, _ := core.CallOf(cell); c != nil && strings.HasSuffix(core.CalleeName(&c.Call), ".NewBatch") {
				return true // captured by value
			}
			for _, u := range core.Uses(cell) {
				if st, ok := u.(*ssa.Store); ok && st.Addr == cell {
					if c, _ := core.CallOf(st.Val); c != nil && strings.HasSuffix(core.CalleeName(&c.Call), ".NewBatch") {
						return true
					}
				}
			}
			return false
		}
		if fv, ok := b.(*ssa.FreeVar); ok && holdsNewBatch(fv) {
			okB = true
		}
		if p, ok := core.LoadedFrom(b); ok {
			if fv, ok := p.(*ssa.FreeVar); ok && holdsNewBatch(fv) {
				okB = true
			}
		}
		if !okB {
			r.Check("C14.B2", lsKey("C14.B2", ic.fn, ic.field+"."+ic.method+" batch identity"), ic.in.Pos(), false,
				"staged writes use the operation's own batch", "a staged write uses a batch that is neither the operation's NewBatch nor the batch handed down by the caller")
		}
	}
	if ndirect == 0 {
		r.Check("C14.B1", core.Key("C14.B1", roots[0], "no direct write in batched operations"), roots[0].Pos(), true, "batched operations stage every index write in their batch", "")
	}
	r.Floor("C14.B2", "staged (*InBatch) writes in batched operations", nstaged, 12)
	// one NewBatch and at most one Commit per operation
	for _, fn := range roots {
		nb, nc := 0, 0
		for _, f := range core.WithClosures(fn) {
			core.EachInstr(f, func(_ *ssa.BasicBlock, _ int, in ssa.Instruction) {
				if c := core.Common(in); c != nil {
					n := core.CalleeName(c)
					if strings.HasSuffix(n, ".NewBatch") {
						nb++
					}
					if strings.HasSuffix(n, "Batching).Commit") || strings.HasSuffix(n, ".Commit") && strings.Contains(n, "driver") {
						nc++
					}
				}
			})
		}
		r.Check("C14.B2", core.Key("C14.B2", fn, "one batch, one commit"), fn.Pos(), nb == 1 && nc == 1,
			"the operation creates one batch and commits it once", fmt.Sprintf("%s creates %d batches and has %d commit sites", core.FuncName(fn), nb, nc))
	}
}
