package props

import (
	"strings"

	"aurora-verif/checker/core"

	"golang.org/x/tools/go/ssa"
)

// c37NilMessage (S12): every ReadMsg / ReadMsgWithContext call of the repository hands the
// reader a message that is not the constant nil. gogo's Unmarshal calls Reset() on the
// message first: with a nil interface any frame the peer sends (one zero byte suffices)
// is a nil-pointer dereference on the reading goroutine.
func c37NilMessage(r *core.Run) {
	const rule = "C37.S12"
	n := 0
	for _, f := range r.W.Funcs {
		core.EachInstr(f, func(_ *ssa.BasicBlock, _ int, in ssa.Instruction) {
			c := core.Common(in)
			if c == nil || !strings.HasPrefix(core.CalleeName(c), "(pkg/p2p/protobuf.Reader).ReadMsg") && !strings.HasSuffix(core.CalleeName(c), "protobuf/io.Reader).ReadMsg") {
				return
			}
			if f.Pkg != nil && strings.HasSuffix(f.Pkg.Pkg.Path(), "pkg/p2p/protobuf") {
				return // the wrapper itself forwards its parameter
			}
			n++
			msg := c.Args[len(c.Args)-1]
			k, isConst := core.Forward(core.Strip(msg)).(*ssa.Const)
			isNil := isConst && k.IsNil()
			if k2, ok := msg.(*ssa.Const); ok && k2.IsNil() {
				isNil = true
			}
			r.Check(rule, lsKey(rule, f, "message handed to the reader is not nil"), in.Pos(), !isNil,
				"the reader is given a message value to decode into", "ReadMsg is called with a nil message: gogo's Unmarshal calls Reset() on it, so any frame the peer sends (a single 0x00 byte) is a nil-pointer dereference on this goroutine")
		})
	}
	r.Floor(rule, "ReadMsg call sites", n, 15)
}

// c37JoinerRefs (S13): the payload of an intermediate chunk fetched from the network is cut
// into references data[cursor : cursor+refLength]. A peer chooses that payload (the chunk
// only has to hash to its address), so its length need not be a multiple of refLength:
// every such slicing in pkg/file/joiner lies behind a comparison cursor+refLength <=
// len(data) of the same operands — `cursor < len(data)` alone lets the last, partial
// reference run past the payload (slice bounds out of range on a traversal goroutine).
func c37JoinerRefs(r *core.Run) {
	const rule = "C37.S13"
	const J = "pkg/file/joiner.joiner"
	isRefLen := func(v ssa.Value) bool {
		fr, ok := core.AsField(core.Forward(v))
		return ok && !fr.Addr && fr.Struct == J && fr.Name == "refLength"
	}
	n := 0
	done := map[*ssa.Function]bool{}
	for _, top := range r.W.PkgFuncs("pkg/file/joiner") {
		for _, fn := range core.WithClosures(top) {
			if done[fn] {
				continue
			}
			done[fn] = true
			core.EachInstr(fn, func(_ *ssa.BasicBlock, _ int, in ssa.Instruction) {
				sl, ok := in.(*ssa.Slice)
				if !ok || sl.High == nil {
					return
				}
				bo, ok := sl.High.(*ssa.BinOp)
				if !ok || bo.Op.String() != "+" || !(isRefLen(bo.X) || isRefLen(bo.Y)) {
					return
				}
				n++
				r.Saw(core.FuncName(fn))
				r.Eval(core.EdgeCount(fn))
				isLen := func(y ssa.Value) bool {
					c, _ := core.CallOf(y)
					if c == nil {
						return false
					}
					b, isB := c.Call.Value.(*ssa.Builtin)
					return isB && b.Name() == "len" && (c.Call.Args[0] == sl.X || core.SameExpr(c.Call.Args[0], sl.X))
				}
				within, _ := core.AtomEdges(fn, cmpAtom(func(x ssa.Value) bool { return core.SameExpr(x, sl.High) }, isLen, "<="))
				if within == nil {
					within = core.EdgeSet{}
				}
				// equally good: the payload was tested to be a whole number of references
				aligned, _ := core.AtomEdges(fn, cmpAtom(func(x ssa.Value) bool {
					rem, isRem := x.(*ssa.BinOp)
					return isRem && rem.Op.String() == "%" && isLen(rem.X) && isRefLen(rem.Y)
				}, func(y ssa.Value) bool { k, isC := core.ConstInt(y); return isC && k == 0 }, "=="))
				for e := range aligned {
					within[e] = true
				}
				r.Check(rule, lsKey(rule, fn, "reference cut out of the payload within its length"), sl.Pos(), len(within) > 0 && core.OnlyBehind(fn, sl, within),
					"a reference is cut out of a fetched intermediate chunk only behind cursor+refLength <= len(payload)",
					"data[cursor : cursor+refLength] is guarded by cursor < len(data) only: an intermediate chunk whose payload is not a multiple of the reference length (a peer chooses it) makes the last slice run past the payload — slice bounds out of range on the traversal goroutine")
			})
		}
	}
	r.Floor(rule, "reference slicings in pkg/file/joiner", n, 2)
}
