package props

import (
	"aurora-verif/checker/core"

	"golang.org/x/tools/go/ssa"
)

func init() {
	reg("C39", Meta{
		Technique:   "operand-shape rule on SSA: loop-controlling conditions of the whole-vector predicate derive from the logical length field, never from len() of the backing slice; sibling agreement of the bit-addressing expressions (byte i/8, mask 1<<(i%8)); who-may-write and must-guard rules for the backing bytes; constant-polarity and guard rules for Set/Unset/SetBytes/UnsetBytes; raw-compare (padding) rule",
		Explanation: "C39 (bit vectors), one structural clause: (Y1) in every bool-returning BitVector method that loops (the all-bits-set test Equals), no loop-controlling branch condition depends on len(bv.b) — the backing slice may be longer than needed — and at least one depends on bv.len. Also (G1) NewFromBytes refuses l<=0 and len(b)*8<l before constructing; (A1) one bit numbering: wherever a method combines a byte with a single-bit mask, the byte is element i/8 and the mask 1<<(i%8) of the same i (Get, set, SetBytes, UnsetBytes agree); (W1) the only store into the backing bytes is set's flip `b[i/8] ^= mask`, reached only when Get(i) differs from the wanted value; (P1) Set/SetBytes write the constant true and Unset/UnsetBytes false, the mask variants only behind the test of the mask argument's bit i; (G2) the mask argument is indexed only behind len(bs) == len(bv.b); (P2) Bytes/Len return the fields; (Y2) padding independence: a backing byte is compared without a mask only at an index proven < bv.len/8. Not decided: arithmetic of New's byte count; that the composition of these clauses is the boolean-array semantics is argued in DESIGN, not computed.",
	}, c39)
}

// cyclicIfs returns the If instructions whose block lies on a CFG cycle.
func cyclicIfs(fn *ssa.Function) []*ssa.If {
	var out []*ssa.If
	for _, b := range fn.Blocks {
		if len(b.Instrs) == 0 {
			continue
		}
		ifi, ok := b.Instrs[len(b.Instrs)-1].(*ssa.If)
		if !ok {
			continue
		}
		r := core.ReachBlocks(b.Succs, nil)
		if r[b] {
			out = append(out, ifi)
		}
	}
	return out
}

func c39(r *core.Run) {
	w := r.W
	const bvT = "pkg/bitvector.BitVector"
	n := 0
	for _, fn := range w.PkgFuncs("pkg/bitvector") {
		if fn.Signature.Recv() == nil || core.TypeName(fn.Signature.Recv().Type()) != bvT {
			continue
		}
		res := fn.Signature.Results()
		if res.Len() != 1 || res.At(0).Type().String() != "bool" {
			continue
		}
		ifs := cyclicIfs(fn)
		if len(ifs) == 0 {
			continue
		}
		n++
		r.Saw(core.FuncName(fn))
		r.Eval(core.EdgeCount(fn))
		usesLenField := false
		var bad *ssa.If
		for _, ifi := range ifs {
			if core.DerivesFrom(ifi.Cond, func(x ssa.Value) bool {
				if c, ok := isBuiltinCall(x, "len"); ok {
					return core.IsFieldOf(c.Call.Args[0], bvT, "b")
				}
				return false
			}, nil) {
				bad = ifi
			}
			if core.DerivesFrom(ifi.Cond, func(x ssa.Value) bool { return core.IsFieldOf(x, bvT, "len") }, nil) {
				usesLenField = true
			}
		}
		pos := fn.Pos()
		if bad != nil {
			pos = bad.Cond.Pos()
		}
		r.Check("C39.Y1", core.Key("C39.Y1", fn, "loop bound from len(bv.b)"), pos, bad == nil,
			"no loop of the whole-vector predicate is bounded by the backing slice's length",
			"a loop condition depends on len(bv.b): a vector built on a byte slice longer than needed is judged over the spare bytes")
		r.Check("C39.Y1", core.Key("C39.Y1", fn, "loop bound from bv.len"), fn.Pos(), usesLenField,
			"a loop of the whole-vector predicate is bounded by the logical length bv.len",
			"no loop condition depends on bv.len")
	}
	r.Floor("C39.Y1", "looping bool predicates of BitVector", n, 1)

	// G1: constructor refusals
	fn := w.Func("pkg/bitvector", "NewFromBytes")
	if fn == nil {
		r.Fatal("unresolved anchor pkg/bitvector.NewFromBytes")
		return
	}
	r.Saw(core.FuncName(fn))
	r.Eval(core.EdgeCount(fn))
	l := fn.Params[1]
	b := fn.Params[0]
	var allocs []ssa.Instruction
	core.EachInstr(fn, func(_ *ssa.BasicBlock, _ int, in ssa.Instruction) {
		if a, ok := in.(*ssa.Alloc); ok && core.TypeName(a.Type()) == bvT {
			allocs = append(allocs, in)
		}
	})
	r.Floor("C39.G1", "BitVector allocations in NewFromBytes", len(allocs), 1)
	for _, a := range allocs {
		posL, _ := core.AtomEdges(fn, cmpAtom(func(x ssa.Value) bool { return x == ssa.Value(l) }, func(y ssa.Value) bool { c, ok := core.ConstInt(y); return ok && c == 0 }, ">"))
		r.Check("C39.G1", core.Key("C39.G1", fn, "construct behind l>0"), a.Pos(), core.OnlyBehind(fn, a, posL),
			"a vector is constructed only for a positive length", "a path constructs a vector without the l<=0 refusal")
		fits, _ := core.AtomEdges(fn, cmpAtom(func(x ssa.Value) bool {
			// len(b)*8
			return core.DerivesFrom(x, func(v ssa.Value) bool {
				if c, ok := isBuiltinCall(v, "len"); ok {
					return c.Call.Args[0] == ssa.Value(b)
				}
				return false
			}, nil)
		}, func(y ssa.Value) bool { return y == ssa.Value(l) }, ">="))
		r.Check("C39.G1", core.Key("C39.G1", fn, "construct behind len(b)*8>=l"), a.Pos(), core.OnlyBehind(fn, a, fits),
			"a vector is constructed only when the byte slice holds l bits", "a path constructs a vector without the len(b)*8<l refusal")
	}
	c39more(r)
	allSetCoverage(r, "C39.V1")
	c39Stride(r)
}
