package props

import (
	"fmt"

	"aurora-verif/checker/core"

	"golang.org/x/tools/go/ssa"
)

// lenOfAtom builds the guard atom "len(x) REL y".
func lenOfAtom(x ssa.Value, isY func(ssa.Value) bool, rel string) core.Atom {
	x = core.Forward(core.Strip(x))
	same := func(a ssa.Value) bool {
		a = core.Strip(a)
		return a == x || core.Forward(a) == x
	}
	return cmpAtom(func(v ssa.Value) bool {
		if c, ok := isBuiltinCall(v, "len"); ok {
			return same(c.Call.Args[0])
		}
		// int64(len(x)) etc.
		if cv, ok := v.(*ssa.Convert); ok {
			if c, ok := isBuiltinCall(cv.X, "len"); ok {
				return same(c.Call.Args[0])
			}
		}
		return false
	}, isY, rel)
}

// sliceGuarded decides whether the Slice instruction sl cannot panic because of its upper
// bounds: every bound b used on operand x satisfies b <= len(x), either by the interval
// analysis (constant or bounded values) or by a dominating relational guard
// `len(x) >= b` (in any spelling). Lower<=upper ordering for two variable bounds is not
// decided here.
func sliceGuarded(fn *ssa.Function, ia *core.IA, sl *ssa.Slice) (bool, string) {
	x := sl.X
	lenI := ia.OperandLenAt(x, sl)
	check := func(b ssa.Value, what string) (bool, string) {
		if b == nil {
			return true, ""
		}
		bi := ia.ValueAt(b, sl)
		if bi.Lo < 0 {
			// a negative bound panics too; only flag when the type allows it and nothing bounds it
			if _, isConst := b.(*ssa.Const); isConst {
				return false, fmt.Sprintf("%s bound %d is negative", what, bi.Lo)
			}
		}
		if bi.Hi <= lenI.Lo {
			return true, ""
		}
		// relational guard
		good, _ := core.AtomEdges(fn, lenOfAtom(x, func(y ssa.Value) bool { return core.SameExpr(y, b) }, ">="))
		if len(good) > 0 && core.OnlyBehind(fn, sl, good) {
			return true, ""
		}
		// the strict spelling len(x) > b implies it too
		strict, _ := core.AtomEdges(fn, lenOfAtom(x, func(y ssa.Value) bool { return core.SameExpr(y, b) }, ">"))
		for e := range strict {
			good[e] = true
		}
		if len(good) > 0 && core.OnlyBehind(fn, sl, good) {
			return true, ""
		}
		return false, fmt.Sprintf("%s bound may reach %s while len is only known to be >= %d and no guard len(x) >= bound dominates the slicing", what, fmtBound(bi.Hi), lenI.Lo)
	}
	if ok, why := check(sl.High, "upper"); !ok {
		return false, why
	}
	if sl.High == nil {
		if ok, why := check(sl.Low, "lower"); !ok {
			return false, why
		}
	}
	return true, ""
}

func fmtBound(v int64) string {
	if v == int64(^uint64(0)>>1) {
		return "+inf"
	}
	return fmt.Sprint(v)
}
