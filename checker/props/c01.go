package props

import (
	"fmt"
	"go/ast"
	"go/token"
	"go/types"
	"sort"
	"strings"

	"aurora-verif/checker/core"

	"golang.org/x/tools/go/ssa"
)

func init() {
	reg("C01", Meta{
		Technique:   "constant-relation checks on folded SSA constants (writer/reader format tables, level-buffer capacity), composition-order check of the pipeline constructors, codec agreement of every span encode/decode site",
		Explanation: "C01 (uploaded content reads back identical), structural necessary conditions only: (K1) both upload pipelines give the hash-trie writer (chunkSize, branching, refLen) with branching·refLen = chunkSize = the feeder's chunk size = boson.ChunkSize, the encrypted one with refLen = encryption.ReferenceSize; (K2) the hash-trie level buffer holds 9 full levels for both parameter sets (writes to the shared buffer stay in bounds); (K3) the reader (joiner.subtrieSection) derives branching and the initial branch size from the same boson.ChunkSize and the reference length; (O1) every pipeline constructor composes its stages in the order feeder → [encryption] → bmt → store → hash trie (short pipelines end at the store); (S1) every span encode/decode site of writer, reader, hasher, decrypting store and traversal uses little-endian. A writer and a reader that disagree on any of these cannot round-trip. Not decided: the cursor / offset arithmetic of hashTrieWriter, joiner.readAtOffset and subtrieSection — value reasoning, declared out of reach.",
	}, c01)
	reg("C02", Meta{
		Technique:   "constant-relation checks on the format constants named by the statement + codec agreement (little-endian span)",
		Explanation: "C02 (reference is the Aurora tree hash), the constants the statement names: (K1) ChunkSize = 262144, Branches = 8192, SpanSize = 8, HashSize = 32, and the BMT pool is configured with BmtBranches segments of SectionSize bytes with BmtBranches·SectionSize = ChunkSize and BmtBranches a power of two (otherwise Hasher.Write silently truncates); (K2) the plain pipeline is built from exactly those constants; (S1) little-endian span everywhere (shared with C01). Not decided: independence from write segmentation and equality with an independent tree-hash implementation (needs execution or symbolic evaluation of the feeder).",
	}, c02)
	reg("C03", Meta{
		Technique:   "typestate rule for pooled hashers (acquire / use / release on every path), access-kind rule (atomic-only toggle word), ordering / guard rules in the concurrent node writer",
		Explanation: "C03 (BMT hash), structural conditions without which pooled, concurrent use cannot be correct: (T1) at every bmtpool.Get site in the program the hasher is returned to the pool on every path to the function's exit exactly once (explicitly or by defer), and no hasher method is called after the release; (W1) the per-node toggle word node.state is touched only as the operand of sync/atomic operations; (F1) in Hasher.writeNode, per loop iteration, the child hash is stored into left/right before toggle(), the parent hash is computed from (n.left, n.right) only on the toggle()==false branch (the second arriver), and the result channel is written only when the root was passed (n == nil); (K2) Hasher.Hash zero-fills the open section from the write cursor using the whole zero section (pooled trees keep the previous chunk's bytes in their buffer). Not decided: the hash values themselves, writeFinalNode's zero-subtree protocol, buffer reuse.",
	}, c03)
}

func foldedInt(v ssa.Value) (int64, bool) {
	if k, ok := core.ConstInt(v); ok {
		return k, true
	}
	if cv, ok := v.(*ssa.Convert); ok {
		return foldedInt(cv.X)
	}
	// go/ssa does not fold arithmetic over local "constants" (x := int64(C1+C2); C3/x)
	if b, ok := v.(*ssa.BinOp); ok {
		x, o1 := foldedInt(b.X)
		y, o2 := foldedInt(b.Y)
		if o1 && o2 {
			switch b.Op {
			case token.ADD:
				return x + y, true
			case token.SUB:
				return x - y, true
			case token.MUL:
				return x * y, true
			case token.QUO:
				if y != 0 {
					return x / y, true
				}
			}
		}
	}
	return 0, false
}

// stageChain walks constructor nesting from the returned value: each stage's last argument
// is the next stage. Returns short names like "feeder", "bmt", "store", "hashtrie",
// "encryption" and "nil".
func stageChain(v ssa.Value) []string {
	var out []string
	for d := 0; d < 8; d++ {
		v = core.Forward(core.Strip(v))
		if core.IsNilConst(v) {
			out = append(out, "nil")
			return out
		}
		c, _ := core.CallOf(v)
		if c == nil {
			out = append(out, "?")
			return out
		}
		n := core.CalleeName(&c.Call)
		switch {
		case strings.HasSuffix(n, "feeder.NewChunkFeederWriter"):
			out = append(out, "feeder")
		case strings.HasSuffix(n, "pipeline/bmt.NewBmtWriter"):
			out = append(out, "bmt")
		case strings.HasSuffix(n, "pipeline/store.NewStoreWriter"):
			out = append(out, "store")
		case strings.HasSuffix(n, "pipeline/encryption.NewEncryptionWriter"):
			out = append(out, "encryption")
		case strings.HasSuffix(n, "hashtrie.NewHashTrieWriter"):
			out = append(out, "hashtrie")
			return out
		default:
			out = append(out, "?"+n)
			return out
		}
		v = c.Call.Args[len(c.Call.Args)-1]
	}
	return out
}

func stageOrderOK(chain []string, long bool) (bool, string) {
	pos := map[string]int{}
	for i, s := range chain {
		if strings.HasPrefix(s, "?") {
			return false, "unrecognised stage " + s
		}
		if _, dup := pos[s]; dup {
			return false, "stage " + s + " appears twice"
		}
		pos[s] = i
	}
	need := func(a string) bool { _, ok := pos[a]; return ok }
	if !need("bmt") || !need("store") {
		return false, "bmt or store stage missing"
	}
	if pos["bmt"] > pos["store"] {
		return false, "the chunk is stored before it is hashed"
	}
	if need("encryption") && pos["encryption"] > pos["bmt"] {
		return false, "the chunk is hashed before it is encrypted"
	}
	if long {
		if !need("feeder") || pos["feeder"] != 0 {
			return false, "the feeder is not the first stage"
		}
		if !need("hashtrie") || pos["hashtrie"] != len(chain)-1 || pos["hashtrie"] != pos["store"]+1 {
			return false, "the hash trie is not the stage after the store"
		}
	} else {
		if need("feeder") || need("hashtrie") {
			return false, "a short pipeline contains a feeder / hash trie"
		}
		if chain[len(chain)-1] != "nil" || pos["nil"] != pos["store"]+1 {
			return false, "a short pipeline does not end at the store"
		}
	}
	return true, ""
}

func c01(r *core.Run) {
	w := r.W
	const bp = "pkg/file/pipeline/builder"
	chunk := mustConst(r, "pkg/boson", "ChunkSize")
	span := mustConst(r, "pkg/boson", "SpanSize")
	refSize := mustConst(r, "pkg/encryption", "ReferenceSize")
	type params struct{ chunk, branching, ref int64 }
	var sets []params
	for _, row := range []struct {
		fn  string
		enc bool
	}{{"newPipeline", false}, {"newEncryptionPipeline", true}} {
		fn := w.Func(bp, row.fn)
		if fn == nil {
			r.Fatal("unresolved anchor %s.%s", bp, row.fn)
			continue
		}
		r.Saw(core.FuncName(fn))
		r.Eval(core.EdgeCount(fn))
		hts := core.Calls(fn, "pkg/file/pipeline/hashtrie.NewHashTrieWriter")
		fds := core.Calls(fn, "pkg/file/pipeline/feeder.NewChunkFeederWriter")
		ok := len(hts) == 1 && len(fds) == 1
		detail := "constructor calls not found"
		if ok {
			a := core.Common(hts[0]).Args
			cs, o1 := foldedInt(a[0])
			br, o2 := foldedInt(a[1])
			rl, o3 := foldedInt(a[2])
			fs, o4 := foldedInt(core.Common(fds[0]).Args[0])
			ok = o1 && o2 && o3 && o4
			if ok {
				sets = append(sets, params{cs, br, rl})
				ok = br*rl == cs && cs == chunk && fs == chunk && (!row.enc || rl == refSize)
				detail = fmt.Sprintf("chunkSize=%d branching=%d refLen=%d feeder=%d (boson.ChunkSize=%d, encryption.ReferenceSize=%d)", cs, br, rl, fs, chunk, refSize)
			} else {
				detail = "arguments are not compile-time constants"
			}
		}
		r.Check("C01.K1", core.Key("C01.K1", fn, "branching*refLen = chunkSize = feeder size"), fn.Pos(), ok,
			"the hash-trie writer's branching × reference length equals the chunk size the feeder cuts", "format parameters disagree: "+detail)
		// O1
		var ret ssa.Value
		core.EachInstr(fn, func(_ *ssa.BasicBlock, _ int, in ssa.Instruction) {
			if rt, isRet := in.(*ssa.Return); isRet {
				ret = rt.Results[0]
			}
		})
		chain := stageChain(ret)
		okO, why := stageOrderOK(chain, true)
		r.Check("C01.O1", core.Key("C01.O1", fn, "stage order"), fn.Pos(), okO,
			"stages are composed feeder → [encryption] → bmt → store → hash trie: "+strings.Join(chain, "→"), why+": "+strings.Join(chain, "→"))
	}
	for _, name := range []string{"newShortPipelineFunc", "newShortEncryptionPipelineFunc"} {
		fn := w.Func(bp, name)
		if fn == nil || len(fn.AnonFuncs) != 1 {
			r.Fatal("unresolved anchor %s.%s (one closure expected)", bp, name)
			continue
		}
		cl := fn.AnonFuncs[0]
		r.Saw(core.FuncName(cl))
		r.Eval(core.EdgeCount(cl))
		var ret ssa.Value
		core.EachInstr(cl, func(_ *ssa.BasicBlock, _ int, in ssa.Instruction) {
			if rt, isRet := in.(*ssa.Return); isRet {
				ret = rt.Results[0]
			}
		})
		chain := stageChain(ret)
		okO, why := stageOrderOK(chain, false)
		r.Check("C01.O1", core.Key("C01.O1", fn, "stage order"), fn.Pos(), okO,
			"short pipeline stages are composed [encryption] → bmt → store: "+strings.Join(chain, "→"), why+": "+strings.Join(chain, "→"))
	}
	// K2 level buffer
	if fn := w.Func("pkg/file/pipeline/hashtrie", "NewHashTrieWriter"); fn == nil {
		r.Fatal("unresolved anchor hashtrie.NewHashTrieWriter")
	} else {
		r.Saw(core.FuncName(fn))
		var bufLen, levels int64 = -1, -1
		core.EachInstr(fn, func(_ *ssa.BasicBlock, _ int, in ssa.Instruction) {
			// constant-size make() is lowered to `new [N]T (makeslice)` + slice
			if al, ok := in.(*ssa.Alloc); ok && al.Comment == "makeslice" {
				if at, ok := al.Type().(*types.Pointer).Elem().Underlying().(*types.Array); ok {
					switch at.Elem().String() {
					case "byte", "uint8":
						bufLen = at.Len()
					case "int":
						levels = at.Len()
					}
				}
			}
			if ms, ok := in.(*ssa.MakeSlice); ok {
				k, isC := foldedInt(ms.Len)
				if !isC {
					return
				}
				switch ms.Type().String() {
				case "[]byte":
					bufLen = k
				case "[]int":
					levels = k
				}
			}
		})
		ok := bufLen > 0 && levels > 0 && len(sets) == 2
		detail := fmt.Sprintf("buffer=%d levels=%d", bufLen, levels)
		for _, s := range sets {
			need := levels * (s.ref + span) * s.branching
			if bufLen < need {
				ok = false
				detail += fmt.Sprintf("; needs %d for branching=%d refLen=%d", need, s.branching, s.ref)
			}
		}
		r.Check("C01.K2", core.Key("C01.K2", fn, "level buffer capacity"), fn.Pos(), ok,
			"the shared level buffer can hold every level full, for the plain and the encrypted parameters", "the level buffer is too small: "+detail)
	}
	// K3 reader
	if fn := w.Func("pkg/file/joiner", "subtrieSection"); fn == nil {
		r.Fatal("unresolved anchor joiner.subtrieSection")
	} else {
		r.Saw(core.FuncName(fn))
		r.Eval(core.EdgeCount(fn))
		refLen := fn.Params[2]
		okBr, okInit := false, false
		core.EachInstr(fn, func(_ *ssa.BasicBlock, _ int, in ssa.Instruction) {
			b, ok := in.(*ssa.BinOp)
			if ok && b.Op == token.QUO {
				if k, isC := foldedInt(b.X); isC && k == chunk && b.Y == ssa.Value(refLen) {
					okBr = true
				}
			}
			// the branch-size variable: a loop phi that starts at ChunkSize and is multiplied by
			// something per iteration (identified by shape, not by its name)
			if phi, ok := in.(*ssa.Phi); ok {
				start, grows := false, false
				for _, e := range phi.Edges {
					if k, isC := foldedInt(e); isC && k == chunk {
						start = true
					}
					if m, isM := e.(*ssa.BinOp); isM && m.Op == token.MUL && (m.X == ssa.Value(phi) || m.Y == ssa.Value(phi)) {
						grows = true
					}
				}
				if start && grows {
					okInit = true
				}
			}
		})
		r.Check("C01.K3", core.Key("C01.K3", fn, "reader branching = ChunkSize/refLen, first branch = ChunkSize"), fn.Pos(), okBr && okInit,
			"the reader derives the trie geometry from boson.ChunkSize and the reference length, like the writer", "subtrieSection no longer computes branching as ChunkSize/refLen starting from branch size ChunkSize")
	}
	spanCodec(r, "C01.S1")
	feederRules(r, "C01")
	hashtrieRules(r, "C01")
	stageRules(r, "C01")
	readAtReentrant(r, "C01.W1")
}

// spanCodec checks every binary.<order> Uint64/PutUint64 site of the file-format packages.
func spanCodec(r *core.Run, rule string) {
	w := r.W
	pkgs := []string{"pkg/file/pipeline/feeder", "pkg/file/pipeline/hashtrie", "pkg/file/joiner", "pkg/file/splitter/internal", "pkg/cac", "pkg/bmt", "pkg/encryption/store", "pkg/traversal", "pkg/file", "pkg/encryption", "pkg/file/pipeline/encryption", "pkg/soc"}
	n := 0
	var bad []string
	for _, rel := range pkgs {
		p := w.Pkgs[core.P(rel)]
		if p == nil {
			continue
		}
		for _, f := range p.Syntax {
			ast.Inspect(f, func(nd ast.Node) bool {
				call, ok := nd.(*ast.CallExpr)
				if !ok {
					return true
				}
				sel, ok := call.Fun.(*ast.SelectorExpr)
				if !ok || (sel.Sel.Name != "Uint64" && sel.Sel.Name != "PutUint64") {
					return true
				}
				inner, ok := sel.X.(*ast.SelectorExpr)
				if !ok {
					return true
				}
				obj := p.TypesInfo.Uses[inner.Sel]
				if v, isVar := obj.(*types.Var); isVar && v.Pkg() != nil && v.Pkg().Path() == "encoding/binary" {
					n++
					if v.Name() != "LittleEndian" {
						bad = append(bad, w.Pos(call.Pos())+" uses binary."+v.Name())
					}
				}
				return true
			})
		}
	}
	sort.Strings(bad)
	r.Eval(n)
	r.Floor(rule, "span encode/decode sites", n, 6)
	r.Check(rule, rule+"@file-format packages#span byte order", token.NoPos, len(bad) == 0,
		fmt.Sprintf("all %d 64-bit span encode/decode sites use little-endian", n), "big-endian span codec at "+strings.Join(bad, ", "))
}

func c02(r *core.Run) {
	w := r.W
	want := map[string]int64{"ChunkSize": 262144, "Branches": 8192, "SpanSize": 8, "HashSize": 32}
	var names []string
	for n := range want {
		names = append(names, n)
	}
	sort.Strings(names)
	for _, n := range names {
		v, ok := constInt(w, "pkg/boson", n)
		pos := token.NoPos
		if o := w.Lookup("pkg/boson", n); o != nil {
			pos = o.Pos()
		}
		r.Check("C02.K1", "C02.K1@pkg/boson#"+n, pos, ok && v == want[n],
			fmt.Sprintf("boson.%s = %d as the format defines", n, want[n]), fmt.Sprintf("boson.%s = %d, the format defines %d", n, v, want[n]))
	}
	chunk := mustConst(r, "pkg/boson", "ChunkSize")
	// BMT pool configuration
	initFn := w.Func("pkg/bmtpool", "init")
	okPool := false
	detail := "bmtpool.init: NewConf call not found"
	if initFn != nil {
		for _, fn := range core.WithClosures(initFn) {
			for _, c := range core.Calls(fn, "pkg/bmt.NewConf") {
				segs, o1 := foldedInt(core.Common(c).Args[1])
				hc, _ := core.Common(c).Args[0].(*ssa.Function)
				okH := hc != nil && core.FuncName(hc) == "pkg/boson.NewHasher"
				sec, _ := constInt(w, "pkg/boson", "SectionSize")
				hs, _ := constInt(w, "pkg/boson", "HashSize")
				okPool = o1 && okH && segs > 0 && segs&(segs-1) == 0 && segs*hs == chunk && sec == hs
				detail = fmt.Sprintf("segments=%d hasher size=%d (SectionSize=%d): capacity %d, ChunkSize %d", segs, hs, sec, segs*hs, chunk)
			}
		}
	} else {
		// package initialiser is synthetic: look in the package init function
		if sp := w.SSA[core.P("pkg/bmtpool")]; sp != nil {
			if f := sp.Func("init"); f != nil {
				var all []*ssa.Function
				all = append(all, f)
				for _, m := range sp.Members {
					if mf, ok := m.(*ssa.Function); ok && strings.HasPrefix(mf.Name(), "init") {
						all = append(all, mf)
					}
				}
				for _, fn := range all {
					if fn.Blocks == nil {
						continue
					}
					for _, c := range core.Calls(fn, "pkg/bmt.NewConf") {
						segs, o1 := foldedInt(core.Common(c).Args[1])
						hs, _ := constInt(w, "pkg/boson", "HashSize")
						sec, _ := constInt(w, "pkg/boson", "SectionSize")
						okPool = o1 && segs > 0 && segs&(segs-1) == 0 && segs*hs == chunk && sec == hs
						detail = fmt.Sprintf("segments=%d hasher size=%d (SectionSize=%d): capacity %d, ChunkSize %d", segs, hs, sec, segs*hs, chunk)
					}
				}
			}
		}
	}
	r.Check("C02.K1", "C02.K1@pkg/bmtpool#BMT capacity = ChunkSize", token.NoPos, okPool,
		"the pooled BMT hasher has a power-of-two number of 32-byte segments covering exactly one chunk", "BMT capacity differs from the chunk size (longer data would be silently truncated, shorter capacity changes every hash): "+detail)
	// K2 plain pipeline uses the constants
	if fn := w.Func("pkg/file/pipeline/builder", "newPipeline"); fn == nil {
		r.Fatal("unresolved anchor builder.newPipeline")
	} else {
		r.Saw(core.FuncName(fn))
		r.Eval(core.EdgeCount(fn))
		ok := false
		for _, c := range core.Calls(fn, "pkg/file/pipeline/hashtrie.NewHashTrieWriter") {
			a := core.Common(c).Args
			cs, _ := foldedInt(a[0])
			br, _ := foldedInt(a[1])
			rl, _ := foldedInt(a[2])
			ok = cs == want["ChunkSize"] && br == want["Branches"] && rl == want["HashSize"]
		}
		r.Check("C02.K2", core.Key("C02.K2", fn, "plain pipeline = (262144, 8192, 32)"), fn.Pos(), ok,
			"the unencrypted pipeline is built from 256 KiB chunks, 8192 references per intermediate chunk, 32-byte references", "the plain pipeline is not NewHashTrieWriter(262144, 8192, 32, …)")
	}
	spanCodec(r, "C02.S1")
	feederRules(r, "C02")
	hashtrieRules(r, "C02")
}

func c03(r *core.Run) {
	w := r.W
	poolTypestate(r, "C03.T1", "", 2)

	// W1 node.state atomic only
	const nodeT = "pkg/bmt.node"
	nAcc, okAtomic := 0, true
	var badIn ssa.Instruction
	for _, fn := range w.PkgFuncs("pkg/bmt") {
		core.EachInstr(fn, func(_ *ssa.BasicBlock, _ int, in ssa.Instruction) {
			fa, ok := in.(*ssa.FieldAddr)
			if !ok {
				return
			}
			if fr, ok := core.AsField(fa); !ok || fr.Struct != nodeT || fr.Name != "state" {
				return
			}
			for _, u := range core.Uses(fa) {
				if _, isDbg := u.(*ssa.DebugRef); isDbg {
					continue
				}
				nAcc++
				c := core.Common(u)
				if c == nil || !strings.HasPrefix(core.CalleeName(c), "sync/atomic.") {
					if st, isStore := u.(*ssa.Store); isStore {
						if _, fresh := fa.X.(*ssa.Alloc); fresh {
							_ = st
							continue // initialisation of a node that is not shared yet
						}
					}
					okAtomic, badIn = false, u
				}
			}
		})
	}
	pos := token.NoPos
	if badIn != nil {
		pos = badIn.Pos()
	}
	r.Check("C03.W1", "C03.W1@pkg/bmt.node#state atomic-only", pos, okAtomic,
		"the concurrent toggle word is only accessed through sync/atomic", "node.state is read or written non-atomically: the two child goroutines can both see 'first' (or both 'second')")
	r.Floor("C03.W1", "accesses to node.state", nAcc, 1)

	// K2: pooled trees are reused without clearing their buffer, so Hash must zero the rest of
	// the open section whatever was written before: the padding copy starts at the write
	// cursor (h.size) and its source is the WHOLE zero section (a source shortened by some
	// other cursor leaves stale bytes of the previous chunk in the hashed section)
	if hf := w.Func("pkg/bmt", "(*Hasher).Hash"); hf == nil {
		r.Fatal("unresolved anchor pkg/bmt.(*Hasher).Hash")
	} else {
		r.Saw(core.FuncName(hf))
		r.Eval(core.EdgeCount(hf))
		isZeroSection := func(v ssa.Value) bool {
			p, ok := core.LoadedFrom(core.Forward(v))
			if !ok {
				return false
			}
			g, ok := p.(*ssa.Global)
			return ok && g.Name() == "zerosection"
		}
		n := 0
		core.EachInstr(hf, func(_ *ssa.BasicBlock, _ int, in ssa.Instruction) {
			c, ok := in.(*ssa.Call)
			if !ok {
				return
			}
			if _, isCopy := isBuiltinCall(c, "copy"); !isCopy {
				return
			}
			src := c.Call.Args[1]
			whole := isZeroSection(src)
			if sl, isSl := src.(*ssa.Slice); isSl && isZeroSection(sl.X) {
				lo, loC := int64(0), true
				if sl.Low != nil {
					lo, loC = core.ConstInt(sl.Low)
				}
				whole = loC && lo == 0 && sl.High == nil
				if !whole {
					n++ // still the padding copy, but from a shortened source
					r.Check("C03.K2", core.Key("C03.K2", hf, "final section padded from the whole zero section"), c.Pos(), false,
						"the last, partially written section is zero-filled from the write cursor to its end", "the zero padding is copied from a re-sliced (shortened) zero section: bytes of the previous chunk left in a pooled tree's buffer can remain inside the section that is hashed")
					return
				}
			}
			if !whole {
				return
			}
			n++
			dst, isSl := c.Call.Args[0].(*ssa.Slice)
			okDst := isSl && dst.High == nil && dst.Low != nil && loadsField("pkg/bmt.Hasher", "size")(core.Forward(dst.Low))
			r.Check("C03.K2", core.Key("C03.K2", hf, "final section padded from the whole zero section"), c.Pos(), okDst,
				"the last, partially written section is zero-filled from the write cursor to its end", "the zero padding does not start at the write cursor h.size")
		})
		r.Floor("C03.K2", "zero-padding copies in Hasher.Hash", n, 1)
	}

	// F1 writeNode
	fn := w.Func("pkg/bmt", "(*Hasher).writeNode")
	if fn == nil {
		r.Fatal("unresolved anchor pkg/bmt.(*Hasher).writeNode")
		return
	}
	r.Saw(core.FuncName(fn))
	r.Eval(core.EdgeCount(fn))
	toggles := core.Calls(fn, "(*pkg/bmt.node).toggle")
	r.Floor("C03.F1", "toggle() calls in writeNode", len(toggles), 1)
	var stores []*ssa.Store
	for _, f := range []string{"left", "right"} {
		stores = append(stores, fieldStores(fn, nodeT, f)...)
	}
	r.Floor("C03.F1", "child-hash stores in writeNode", len(stores), 2)
	back := core.BackEdges(fn)
	for _, tg := range toggles {
		okOrder := true
		for _, st := range stores {
			// the store reaches the toggle within the iteration, never the other way round
			fromStore := core.ReachBlocks([]*ssa.BasicBlock{st.Block()}, back)
			fromToggle := core.ReachBlocks(tg.Block().Succs, back)
			if !fromStore[tg.Block()] || fromToggle[st.Block()] {
				okOrder = false
			}
		}
		r.Check("C03.F1", core.Key("C03.F1", fn, "child hash stored before toggle"), tg.Pos(), okOrder && len(stores) >= 2,
			"the child hash is written to the node before the node is toggled", "toggle() can run before the child hash is stored: the second arriver may hash a stale sibling")
		first, _ := core.AtomEdges(fn, core.BoolCallAtom(func(c *ssa.Call) bool { return c == tg.(*ssa.Call) }))
		for _, dh := range core.Calls(fn, "pkg/bmt.doHash") {
			a := core.Common(dh).Args
			el := variadicElems(a[len(a)-1])
			okArgs := len(el) == 2 && loadsField(nodeT, "left")(core.Forward(el[0])) && loadsField(nodeT, "right")(core.Forward(el[1]))
			r.Check("C03.F1", core.Key("C03.F1", fn, "parent hash only by the second arriver"), dh.Pos(), okArgs && len(first) > 0 && !core.ReachableFromEdges(fn, first, dh, true),
				"the parent hash is computed from (left, right) only by the goroutine that toggled second", "doHash is reachable on the branch where this goroutine arrived first (its sibling may not be written yet), or hashes other operands")
		}
	}
	isNil, _ := core.AtomEdges(fn, func(base ssa.Value) (bool, bool) {
		x, eq, ok := core.NilCmp(base)
		if !ok {
			return false, false
		}
		if core.TypeName(x.Type()) == nodeT {
			return true, eq
		}
		return false, false
	})
	nSend := 0
	core.EachInstr(fn, func(_ *ssa.BasicBlock, _ int, in ssa.Instruction) {
		s, ok := in.(*ssa.Send)
		if !ok || !core.IsFieldOf(s.Chan, "pkg/bmt.Hasher", "result") {
			return
		}
		nSend++
		r.Check("C03.F1", core.Key("C03.F1", fn, "result only past the root"), s.Pos(), len(isNil) > 0 && core.OnlyBehind(fn, s, isNil),
			"the final hash is published only when the walk has passed the root", "the result channel is written although the walk has not reached the root")
	})
	r.Floor("C03.F1", "result sends in writeNode", nSend, 1)
	c03More(r)
}

// poolTypestate (C03.T1; run as C04.T1 for pkg/cac): every pooled hasher obtained from
// bmtpool.Get is released exactly once on every path and no hasher method is called after
// the release — cac.New / NewWithDataSpan / Valid compute the address with such a hasher,
// and a tree handed back before Hash() is shared with the next user's hash.
func poolTypestate(r *core.Run, rule, only string, floor int) {
	w := r.W
	// T1 pool typestate at every Get site
	nSites := 0
	for _, fn := range w.Funcs {
		gets := core.Calls(fn, "pkg/bmtpool.Get", "(*pkg/bmt.Pool).Get")
		if len(gets) == 0 || fn.Pkg.Pkg.Path() == core.P("pkg/bmtpool") || (only != "" && fn.Pkg.Pkg.Path() != core.P(only)) {
			continue
		}
		r.Saw(core.FuncName(fn))
		r.Eval(core.EdgeCount(fn))
		for _, g := range gets {
			nSites++
			h := ssa.Value(g.(*ssa.Call))
			isPut := func(in ssa.Instruction) bool {
				c := core.Common(in)
				if c == nil || !core.IsCallTo(in, "pkg/bmtpool.Put", "(*pkg/bmt.Pool).Put") {
					return false
				}
				return core.Forward(c.Args[len(c.Args)-1]) == h
			}
			var deferredPut ssa.Instruction
			var puts []ssa.Instruction
			core.EachInstr(fn, func(_ *ssa.BasicBlock, _ int, in ssa.Instruction) {
				if !isPut(in) {
					return
				}
				if _, isDefer := in.(*ssa.Defer); isDefer {
					deferredPut = in
				} else {
					puts = append(puts, in)
				}
			})
			ok, why := true, ""
			if deferredPut != nil {
				if len(puts) > 0 {
					ok, why = false, "the hasher is released both by defer and explicitly (double Put)"
				}
				if !core.Precedes(g, deferredPut) || g.Block() != deferredPut.Block() && !g.Block().Dominates(deferredPut.Block()) {
					ok, why = false, "the deferred Put is not registered right after Get on every path"
				}
				// every path from Get to exit passes the defer registration
				if ok && !mustPassToExit(g, func(in ssa.Instruction) bool { return in == deferredPut }) {
					ok, why = false, "a path from Get leaves the function before the deferred Put is registered"
				}
			} else {
				if !mustPassToExit(g, isPut) {
					ok, why = false, "a path from Get reaches the function's exit without Put: the hasher leaks from the pool"
				}
				for _, p := range puts {
					// no second Put and no use after Put
					after := false
					reachAfter := core.ReachBlocks(p.Block().Succs, nil)
					chk := func(in ssa.Instruction) {
						c := core.Common(in)
						if c == nil {
							return
						}
						uses := false
						for _, a := range core.CallArgs(c) {
							if core.Forward(a) == h {
								uses = true
							}
						}
						if uses {
							if isPut(in) {
								ok, why = false, "the hasher can be released twice on one path"
							} else {
								ok, why = false, "a hasher method is called after the hasher was returned to the pool (another goroutine may already own it)"
							}
						}
					}
					for _, in := range p.Block().Instrs {
						if after {
							chk(in)
						}
						if in == p {
							after = true
						}
					}
					for b := range reachAfter {
						if b == p.Block() {
							continue // loop back into the same block: conservative skip (no loops at the known sites)
						}
						for _, in := range b.Instrs {
							chk(in)
						}
					}
				}
			}
			r.Check(rule, lsKey(rule, fn, "Get…Put typestate"), g.Pos(), ok,
				"the pooled hasher is released exactly once on every path and never used afterwards", why)
		}
	}
	r.Floor(rule, "bmtpool.Get sites in the program", nSites, floor)
}
