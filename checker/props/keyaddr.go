package props

import (
	"aurora-verif/checker/core"

	"golang.org/x/tools/go/ssa"
)

// keyAddressRules: the two functions that turn a recovered public key into the identity a
// record or chunk is checked against.
//
//	NewEthereumAddress(p)   = keccak256(marshal(p.X, p.Y)[1:])[12:]   (the 20-byte owner of C05)
//	NewOverlayAddress(p, _) = sha3(keccak256(marshal(p.X, p.Y)[1:]))  (the overlay of C34)
//
// both refuse keys without coordinates. The rule checks provenance (the result derives from
// the parameter's X and Y through marshal → [1:] → keccak, nothing else) and the slicing
// constants.
func keyAddressRules(r *core.Run, rule string, which ...string) {
	w := r.W
	for _, name := range which {
		fn := w.Func("pkg/crypto", name)
		if fn == nil {
			r.Fatal("unresolved anchor pkg/crypto.%s", name)
			continue
		}
		r.Saw(core.FuncName(fn))
		r.Eval(core.EdgeCount(fn))
		var marshal, keccak *ssa.Call
		for _, c := range core.Calls(fn, "crypto/elliptic.Marshal") {
			marshal = c.(*ssa.Call)
		}
		for _, c := range core.Calls(fn, "pkg/crypto.LegacyKeccak256") {
			keccak = c.(*ssa.Call)
		}
		okMarshal := false
		if marshal != nil {
			isCoord := func(v ssa.Value, f string) bool {
				fr, ok := core.AsField(core.Forward(v))
				if !ok || fr.Name != f {
					return false
				}
				if fr.Base == ssa.Value(fn.Params[0]) {
					return true
				}
				// the by-value parameter spilled into a local: *cell = p
				if al, isAl := fr.Base.(*ssa.Alloc); isAl {
					for _, u := range core.Uses(al) {
						if st, isSt := u.(*ssa.Store); isSt && st.Addr == ssa.Value(al) && st.Val == ssa.Value(fn.Params[0]) {
							return true
						}
					}
				}
				return false
			}
			a := marshal.Call.Args
			okMarshal = len(a) == 3 && isCoord(a[1], "X") && isCoord(a[2], "Y")
		}
		okHash := false
		if keccak != nil && marshal != nil {
			if s, ok := keccak.Call.Args[0].(*ssa.Slice); ok && s.X == ssa.Value(marshal) && s.High == nil {
				if k, isC := core.ConstInt(s.Low); isC && k == 1 {
					okHash = true
				}
			}
		}
		// every non-error return derives from the keccak result
		okRet, n := true, 0
		core.EachInstr(fn, func(_ *ssa.BasicBlock, _ int, in ssa.Instruction) {
			ret, ok := in.(*ssa.Return)
			if !ok || len(ret.Results) != 2 {
				return
			}
			if core.IsNilConst(ret.Results[0]) {
				return // an error return
			}
			if g, _ := core.CallOf(ret.Results[0]); g == nil {
				if ld, isLd := ret.Results[0].(*ssa.UnOp); isLd {
					if gl, isG := ld.X.(*ssa.Global); isG && gl.Name() == "ZeroAddress" {
						return // an error return carrying the zero address
					}
				}
			}
			if !core.IsNilConst(ret.Results[1]) {
				if c, idx := core.CallOf(ret.Results[1]); !(c == keccak && idx == 1) {
					return // an error return
				}
			}
			n++
			from := keccak != nil && core.DerivesFrom(ret.Results[0], func(v ssa.Value) bool {
				c, idx := core.CallOf(v)
				return c == keccak && idx == 0
			}, map[string]bool{"pkg/boson.NewAddress": true, "golang.org/x/crypto/sha3.Sum256": true})
			if !from {
				okRet = false
			}
			if name == "NewEthereumAddress" {
				s, isS := ret.Results[0].(*ssa.Slice)
				k, isC := int64(0), false
				if isS {
					k, isC = core.ConstInt(s.Low)
				}
				if !isS || !isC || k != 12 || s.High != nil {
					okRet = false
				}
			}
		})
		// refusal of keys without coordinates: marshal only behind X != nil && Y != nil
		okNil := false
		if marshal != nil {
			nn := func(f string) core.EdgeSet {
				_, ne := core.AtomEdges(fn, func(base ssa.Value) (bool, bool) {
					x, eq, ok := core.NilCmp(base)
					if !ok {
						return false, false
					}
					if fr, isF := core.AsField(core.Forward(x)); isF && fr.Name == f {
						return true, eq
					}
					return false, false
				})
				return ne
			}
			x, y := nn("X"), nn("Y")
			okNil = len(x) > 0 && len(y) > 0 && core.OnlyBehind(fn, marshal, x) && core.OnlyBehind(fn, marshal, y)
		}
		r.Check(rule, core.Key(rule, fn, "identity = hash of the key's own coordinates"), fn.Pos(), okMarshal && okHash && okRet && n > 0 && okNil,
			"the address is computed from marshal(p.X, p.Y)[1:] through keccak (and sha3 / the last 20 bytes), only for keys that have coordinates", "pkg/crypto."+name+" does not derive its result from the parameter key's X and Y through marshal → [1:] → keccak with the expected slicing, or accepts a key without coordinates: the identity checked against a signature is not the signer's")
	}
}
