package props

import (
	"aurora-verif/checker/core"

	"golang.org/x/tools/go/ssa"
)

// c28OriginatorSkipped (P4): the originator of a relayed stream is on its path although it
// is not in req.Paths (the request starts with Src set and Paths empty; every relay appends
// itself). The skip list the relay handlers hand to the next-hop selection is therefore
// built from req.Paths AND req.Src: otherwise the first relay can hand the stream straight
// back to the node it came from (which is not the target).
func c28OriginatorSkipped(r *core.Run) {
	const rule = "C28.P4"
	const reqT = "pkg/routetab/pb.RouteRelayReq"
	n := 0
	done := map[*ssa.Function]bool{}
	for _, top := range r.W.PkgFuncs("pkg/routetab") {
		for _, fn := range core.WithClosures(top) {
			if done[fn] {
				continue
			}
			done[fn] = true
			for _, c := range core.Calls(fn, "(*pkg/routetab.Service).GetNextHopRandomOrFind") {
				args := core.Common(c).Args
				skips := args[len(args)-1]
				fromPaths, fromSrc := false, false
				seen := map[ssa.Value]bool{}
				var walk func(v ssa.Value, d int)
				walk = func(v ssa.Value, d int) {
					if v == nil || seen[v] || d > 14 {
						return
					}
					seen[v] = true
					switch x := v.(type) {
					case *ssa.UnOp:
						if fr, ok := core.AsField(x); ok && fr.Struct == reqT {
							if fr.Name == "Paths" {
								fromPaths = true
							}
							if fr.Name == "Src" {
								fromSrc = true
							}
							return
						}
						walk(x.X, d+1)
					case *ssa.Call:
						for _, a := range x.Call.Args {
							walk(a, d+1)
						}
					case *ssa.Extract:
						walk(x.Tuple, d+1)
					case *ssa.Slice:
						walk(x.X, d+1)
					case *ssa.Phi:
						for _, e := range x.Edges {
							walk(e, d+1)
						}
					case *ssa.Alloc:
						for _, u := range core.Uses(x) {
							if ia, ok := u.(*ssa.IndexAddr); ok {
								for _, uu := range core.Uses(ia) {
									if st, ok := uu.(*ssa.Store); ok && st.Addr == ssa.Value(ia) {
										walk(st.Val, d+1)
									}
								}
							}
							if st, ok := u.(*ssa.Store); ok && st.Addr == ssa.Value(x) {
								walk(st.Val, d+1)
							}
						}
					case *ssa.MakeInterface:
						walk(x.X, d+1)
					case *ssa.Convert:
						walk(x.X, d+1)
					case *ssa.ChangeType:
						walk(x.X, d+1)
					}
				}
				walk(skips, 0)
				if !fromPaths {
					continue // not a relay handler (no request path involved)
				}
				n++
				r.Saw(core.FuncName(fn))
				r.Check(rule, lsKey(rule, fn, "skip list covers the path and the originator"), c.Pos(), fromSrc,
					"a relay handler skips the nodes of req.Paths and the originator req.Src when it selects the next hop", core.FuncName(fn)+" builds its skip list from req.Paths alone: the originator (Src, not part of Paths) can be chosen as next hop, the stream goes back to a node already on its path")
			}
		}
	}
	r.Floor(rule, "next-hop selections of the relay handlers", n, 2)
}
