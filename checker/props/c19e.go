package props

import (
	"fmt"

	"aurora-verif/checker/core"

	"golang.org/x/tools/go/ssa"
)

// c19PrefixAlias (W2): Iterate / First / Last build the prefix they filter by with
// `append(f.prefix, given...)`. Every copy of an Index shares f.prefix's backing array, so
// that append writes into shared storage whenever the array has spare capacity (it has
// after a reopen: the schema's prefix bytes come out of the JSON decoder with cap 3) — a
// nested or concurrent walk with another short prefix then rewrites the prefix an ongoing
// walk filters by. Each such append either starts from a clipped base (x[:n:n]) or every
// store to Index.prefix stores a clipped slice.
func c19PrefixAlias(r *core.Run, funcs []*ssa.Function) {
	const rule = "C19.W2"
	const idxT = "pkg/shed.Index"
	clipped := func(v ssa.Value) bool {
		s, ok := core.Forward(v).(*ssa.Slice)
		return ok && s.Max != nil && s.High != nil && core.SameExpr(s.Max, s.High)
	}
	// stores to Index.prefix anywhere in the package
	fieldClipped, nStores := true, 0
	for _, fn := range funcs {
		core.EachInstr(fn, func(_ *ssa.BasicBlock, _ int, in ssa.Instruction) {
			st, ok := in.(*ssa.Store)
			if !ok {
				return
			}
			if fr, ok := core.AsField(st.Addr); ok && fr.Struct == idxT && fr.Name == "prefix" {
				nStores++
				if !clipped(st.Val) {
					fieldClipped = false
				}
			}
		})
	}
	n := 0
	perFn := map[*ssa.Function]int{}
	for _, fn := range funcs {
		core.EachInstr(fn, func(_ *ssa.BasicBlock, _ int, in ssa.Instruction) {
			c, ok := in.(*ssa.Call)
			if !ok {
				return
			}
			if _, isApp := isBuiltinCall(c, "append"); !isApp {
				return
			}
			base := core.Forward(c.Call.Args[0])
			shared, atSite := loadsField(idxT, "prefix")(base), false
			if s, isS := base.(*ssa.Slice); isS && !shared {
				shared = loadsField(idxT, "prefix")(core.Forward(s.X))
				atSite = clipped(base)
			}
			if !shared {
				return
			}
			n++
			perFn[fn]++
			r.Saw(core.FuncName(fn))
			r.Check(rule, lsKey(rule, fn, fmt.Sprintf("append #%d onto the index's own prefix bytes", perFn[fn])), c.Pos(), atSite || (nStores > 0 && fieldClipped),
				"a walk's filter prefix is built in storage of its own (the index's prefix bytes are stored clipped to their length)", "append(f.prefix, …) can write into the spare capacity of the prefix bytes every copy of the Index shares (cap 3 after a reopen): a nested or concurrent walk with another short prefix rewrites the prefix an ongoing walk filters by")
		})
	}
	r.Floor(rule, "appends onto Index.prefix", n, 3)
}
