package props

import (
	"fmt"

	"aurora-verif/checker/core"

	"golang.org/x/tools/go/ssa"
)

// variesWithLoop: v depends on the iteration element of the loop with the given header — the
// key/value extracted from a map-range Next executed in the header, or an element indexed by
// a phi of the header (range over a slice, counted loop using its index).
func variesWithLoop(fn *ssa.Function, v ssa.Value, header *ssa.BasicBlock) bool {
	seen := map[ssa.Value]bool{}
	var rec func(v ssa.Value, d int) bool
	rec = func(v ssa.Value, d int) bool {
		if v == nil || seen[v] || d > 12 {
			return false
		}
		seen[v] = true
		switch x := v.(type) {
		case *ssa.Phi:
			if x.Block() == header {
				return true
			}
			for _, e := range x.Edges {
				if rec(e, d+1) {
					return true
				}
			}
		case *ssa.Extract:
			if nx, ok := x.Tuple.(*ssa.Next); ok {
				// the Next of a map range sits in the loop's header block
				return nx.Block() == header
			}
			return rec(x.Tuple, d+1)
		case *ssa.Call:
			for _, a := range x.Call.Args {
				if rec(a, d+1) {
					return true
				}
			}
			if x.Call.IsInvoke() {
				return rec(x.Call.Value, d+1)
			}
		case *ssa.UnOp:
			return rec(x.X, d+1)
		case *ssa.IndexAddr:
			return rec(x.Index, d+1) || rec(x.X, d+1)
		case *ssa.Index:
			return rec(x.Index, d+1) || rec(x.X, d+1)
		case *ssa.Lookup:
			return rec(x.Index, d+1)
		case *ssa.FieldAddr:
			return rec(x.X, d+1)
		case *ssa.Field:
			return rec(x.X, d+1)
		case *ssa.Convert:
			return rec(x.X, d+1)
		case *ssa.ChangeType:
			return rec(x.X, d+1)
		case *ssa.MakeInterface:
			return rec(x.X, d+1)
		case *ssa.Slice:
			return rec(x.X, d+1) || rec(x.Low, d+1) || rec(x.High, d+1)
		case *ssa.BinOp:
			return rec(x.X, d+1) || rec(x.Y, d+1)
		}
		return false
	}
	return rec(v, 0)
}

// refCountMultiplicity: a file holds ONE reference on each distinct chunk it contains,
// however often the chunk occurs in it: updateChunkPyramid takes it once (first-occurrence
// test) and delRootCid gives it back once. Every putChunk / delChunk call in those two
// functions therefore runs at most once per element of the collection it walks: the
// innermost loop around the call is the walk itself (the call's argument varies with it).
func refCountMultiplicity(r *core.Run, id string) {
	w := r.W
	n := 0
	for _, name := range []string{"(*ChunkInfo).updateChunkPyramid", "(*ChunkInfo).delRootCid"} {
		fn := w.Func("pkg/chunkinfo", name)
		if fn == nil {
			r.Fatal("unresolved anchor pkg/chunkinfo.%s", name)
			continue
		}
		r.Saw(core.FuncName(fn))
		r.Eval(core.EdgeCount(fn))
		for _, c := range core.Calls(fn, "(*pkg/chunkinfo.chunkPyramid).putChunk", "(*pkg/chunkinfo.chunkPyramid).delChunk") {
			n++
			args := core.Common(c).Args
			h := loopHeader(fn, c.Block())
			ok := h != nil && variesWithLoop(fn, args[len(args)-1], h)
			why := "the reference-count update is not inside a loop over the file's chunks"
			if h != nil {
				why = "the innermost loop around the reference-count update does not change its argument: the same chunk's count is changed several times for one file, while the other side (take on first occurrence / give back once per distinct chunk) changes it once — references owned by other files are dropped (or never released)"
			}
			r.Check(id, lsKey(id, fn, fmt.Sprintf("reference-count update #%d once per walked chunk", n)), c.Pos(), ok,
				"each put/delChunk call runs once per element of the collection being walked", why)
		}
	}
	r.Floor(id, "reference-count updates in updateChunkPyramid/delRootCid", n, 4)
	// the taking side: only on first occurrence within the file
	if fn := w.Func("pkg/chunkinfo", "(*ChunkInfo).updateChunkPyramid"); fn != nil {
		for k, c := range core.Calls(fn, "(*pkg/chunkinfo.chunkPyramid).putChunk") {
			_, first := core.AtomEdges(fn, func(base ssa.Value) (bool, bool) {
				ex, ok := base.(*ssa.Extract)
				if !ok || ex.Index != 1 {
					return false, false
				}
				lk, ok := ex.Tuple.(*ssa.Lookup)
				return ok && lk.CommaOk, true
			})
			r.Check(id, lsKey(id, fn, fmt.Sprintf("reference #%d taken on first occurrence only", k+1)), c.Pos(), len(first) > 0 && core.OnlyBehind(fn, c, first),
				"a chunk's reference is taken only when the per-file seen-set does not contain it yet", "putChunk is reachable without the first-occurrence test: a chunk repeated inside one file takes several references, delRootCid gives back one")
		}
	}
}
