package props

import (
	"sort"
	"strings"

	"aurora-verif/checker/core"

	"golang.org/x/tools/go/ssa"
)

// c30CreditedNotShared (M1): "the total credited per issuer equals the highest accepted
// cumulative payout". The credited total is Traffic.transferChequeTraffic; on the restore
// path it is combined with the served total through helpers that return one of their
// arguments (maxBigint), so the two fields can hold the same *big.Int. No in-place big.Int
// mutator is therefore applied to an object loaded from a field of that alias class — an
// in-place Add on the served total would raise the credited total with no cheque received.
func c30CreditedNotShared(r *core.Run) {
	const rule = "C30.M1"
	funcs := r.W.PkgFuncs("pkg/settlement/traffic")
	if len(funcs) == 0 {
		r.Fatal("unresolved anchor package pkg/settlement/traffic")
		return
	}
	cls := aliasClasses(funcs)
	root, ok := cls["transferChequeTraffic"]
	if !ok {
		r.Fatal("unresolved anchor field Traffic.transferChequeTraffic (no store found)")
		return
	}
	members := map[string]bool{}
	var names []string
	for f, c := range cls {
		if c == root {
			members[f] = true
			names = append(names, f)
		}
	}
	sort.Strings(names)
	r.Floor(rule, "fields that may share the credited-total object ("+strings.Join(names, ",")+")", len(names), 2)
	byFn := map[*ssa.Function][]ssa.Instruction{}
	for _, m := range inPlaceMutations(funcs, trafficT, members) {
		byFn[m.Parent()] = append(byFn[m.Parent()], m)
	}
	n := 0
	for _, fn := range funcs {
		touch := false
		core.EachInstr(fn, func(_ *ssa.BasicBlock, _ int, in ssa.Instruction) {
			if v, ok := in.(ssa.Value); ok {
				if fr, ok := core.AsField(v); ok && fr.Struct == trafficT && members[fr.Name] {
					touch = true
				}
			}
		})
		if !touch {
			continue
		}
		n++
		r.Saw(core.FuncName(fn))
		bad := byFn[fn]
		pos, detail := fn.Pos(), ""
		if len(bad) > 0 {
			pos = bad[0].Pos()
			fr, _ := core.AsField(core.Forward(core.Common(bad[0]).Args[0]))
			detail = core.CalleeName(core.Common(bad[0])) + " mutates in place the object loaded from Traffic." + fr.Name + ", which may be the same object as Traffic.transferChequeTraffic (alias class {" + strings.Join(names, ",") + "}, shared after the restore path's maxBigint): the credited total rises with no cheque received"
		}
		r.Check(rule, core.Key(rule, fn, "in-place big.Int mutation of credited-total alias"), pos, len(bad) == 0,
			"no in-place big.Int mutator is applied to an object that may be shared with the credited cheque total", detail)
	}
	r.Floor(rule, "functions touching the credited-total alias class", n, 3)
}
