package props

import (
	"fmt"
	"sort"
	"strings"

	"aurora-verif/checker/core"

	"golang.org/x/tools/go/ssa"
)

func init() {
	reg("C06", Meta{
		Technique:   "must-guard / bad-edge reachability on SSA for every store or hand-out of peer-supplied chunk bytes, provenance of the stored chunk, interval bound on the pyramid entry length, who-may-call enumeration of chunk Put sites in protocol packages",
		Explanation: "C06 (only valid chunks from peers), structural clauses: (G1) retrieval.retrieveChunk stores the delivered chunk and returns it only behind cac.Valid(chunk) or soc.Valid(chunk) on that same chunk value, which is NewChunk(requested address, delivered bytes); (G2) traversal.GetChunkHashes registers the deferred closure that stores pyramid chunks only after a loop over every pyramid entry in which a failing BMT computation, a failing key parse or a hash≠key comparison leaves the function, and inside the closure every Put is behind err==nil and stores NewChunk(address from the key, pyramid[key]); (I1) each accepted pyramid entry is at most ChunkSize+SpanSize long (the BMT hasher silently truncates longer input, so hash equality alone does not make the entry a valid chunk); (G3) chunkinfo.onChunkPyramidResp uses the peer's pyramid only after GetChunkHashes returned nil; (W1) the protocol packages contain no other chunk Put site. Not decided: honesty of the requested address itself; BMT/cac correctness (C03/C04).",
		Assumptions: []string{"cac.Valid / soc.Valid are full validators (C04, C05)", "bmtWriter.ChainWrite computes the BMT hash of p.Data into p.Ref and refuses len<SpanSize (checked as G2c)"},
	}, c06)
}

func isChunkPut(c *ssa.CallCommon) bool {
	f := core.CalleeFunc(c)
	if f == nil || f.Name() != "Put" {
		return false
	}
	sig := f.Type().(interface{ Variadic() bool })
	if !sig.Variadic() {
		return false
	}
	return strings.Contains(f.Type().String(), "boson.Chunk")
}

func c06(r *core.Run) {
	c06DecryptCopies(r)
	// the retrieval-side validator itself: length window, hash comparison, hashing order
	// (the BMT hasher ignores input past its capacity, so the window is part of validity)
	cacRules(r, "C06.V-")
	w := r.W
	chunkSz := mustConst(r, "pkg/boson", "ChunkSize")
	spanSz := mustConst(r, "pkg/boson", "SpanSize")

	// ---- G1 retrieval ----
	if fn := w.Func("pkg/retrieval", "(*Service).retrieveChunk"); fn == nil {
		r.Fatal("unresolved anchor pkg/retrieval.(*Service).retrieveChunk")
	} else {
		r.Saw(core.FuncName(fn))
		r.Eval(core.EdgeCount(fn))
		var chunk ssa.Value
		for _, c := range core.Calls(fn, "pkg/boson.NewChunk") {
			chunk = c.(*ssa.Call)
		}
		okProv := false
		if chunk != nil {
			c := chunk.(*ssa.Call)
			chunkAddr := fn.Params[4]
			okProv = c.Call.Args[0] == ssa.Value(chunkAddr)
		}
		r.Check("C06.P1", core.Key("C06.P1", fn, "chunk = NewChunk(requested address, delivery)"), fn.Pos(), okProv,
			"the chunk under validation is built with the locally requested address", "the validated chunk is not NewChunk(chunkAddr, …)")
		validOn := func(name string) core.Atom {
			return core.BoolCallAtom(func(c *ssa.Call) bool {
				return core.IsCallTo(c, name) && chunk != nil && core.Forward(c.Call.Args[0]) == chunk
			})
		}
		good, _ := core.AtomEdges(fn, core.Or(validOn("pkg/cac.Valid"), validOn("pkg/soc.Valid")))
		nSink := 0
		core.EachInstr(fn, func(_ *ssa.BasicBlock, _ int, in ssa.Instruction) {
			if c := core.Common(in); c != nil && isChunkPut(c) {
				nSink++
				args := core.CallArgs(c)
				el := variadicElems(args[len(args)-1])
				same := len(el) == 1 && core.Forward(el[0]) == chunk
				r.Check("C06.G1", core.Key("C06.G1", fn, "Put behind cac.Valid||soc.Valid"), in.Pos(), len(good) > 0 && core.OnlyBehind(fn, in, good),
					"the delivered chunk is stored only after it validated as content-addressed or single-owner chunk", "a path stores the delivered chunk without cac.Valid/soc.Valid having returned true for it")
				r.Check("C06.P1", core.Key("C06.P1", fn, "Put stores the validated chunk"), in.Pos(), same,
					"the chunk stored is the chunk that was validated", "storer.Put is given a different chunk value than the validated one")
			}
			if ret, ok := in.(*ssa.Return); ok && ret.Block() != fn.Recover {
				v := core.Forward(ret.Results[0])
				if core.IsNilConst(v) {
					return
				}
				nSink++
				r.Check("C06.G1", core.Key("C06.G1", fn, "non-nil return behind cac.Valid||soc.Valid"), ret.Pos(), v == chunk && len(good) > 0 && core.OnlyBehind(fn, ret, good),
					"a chunk is handed to the requester only after it validated", "a non-nil chunk can be returned without validation (or is not the validated chunk)")
			}
		})
		r.Floor("C06.G1", "store / hand-out sinks in retrieveChunk", nSink, 2)
	}

	// ---- G2 traversal ----
	fn := w.Func("pkg/traversal", "(*service).GetChunkHashes")
	if fn == nil {
		r.Fatal("unresolved anchor pkg/traversal.(*service).GetChunkHashes")
		return
	}
	r.Saw(core.FuncName(fn))
	r.Eval(core.EdgeCount(fn))
	pyramid := fn.Params[3]
	// the closure with the Puts
	var putCl *ssa.Function
	var deferIn ssa.Instruction
	core.EachInstr(fn, func(_ *ssa.BasicBlock, _ int, in ssa.Instruction) {
		d, ok := in.(*ssa.Defer)
		if !ok {
			return
		}
		if mc, ok := d.Call.Value.(*ssa.MakeClosure); ok {
			cl := mc.Fn.(*ssa.Function)
			has := false
			core.EachInstr(cl, func(_ *ssa.BasicBlock, _ int, x ssa.Instruction) {
				if c := core.Common(x); c != nil && isChunkPut(c) {
					has = true
				}
			})
			if has {
				putCl, deferIn = cl, in
			}
		}
	})
	if putCl == nil {
		r.Fatal("unresolved anchor: deferred closure of GetChunkHashes that stores the pyramid chunks")
		return
	}
	r.Saw(core.FuncName(putCl))
	r.Eval(core.EdgeCount(putCl))
	// no other Put in the function body or other closures
	for _, f := range core.WithClosures(fn) {
		if f == putCl {
			continue
		}
		core.EachInstr(f, func(_ *ssa.BasicBlock, _ int, x ssa.Instruction) {
			if c := core.Common(x); c != nil && isChunkPut(c) {
				r.Check("C06.G2", core.Key("C06.G2", f, "unguarded Put"), x.Pos(), false, "pyramid chunks are stored only by the guarded deferred closure", "a chunk Put outside the validated deferred closure")
			}
		})
	}
	// the validation loop: range over the pyramid parameter
	var next *ssa.Next
	core.EachInstr(fn, func(_ *ssa.BasicBlock, _ int, in ssa.Instruction) {
		if nx, ok := in.(*ssa.Next); ok {
			if rg, ok := nx.Iter.(*ssa.Range); ok && core.Forward(rg.X) == ssa.Value(pyramid) {
				next = nx
			}
		}
	})
	r.Check("C06.G2", core.Key("C06.G2", fn, "validation loop over every pyramid entry"), deferIn.Pos(), next != nil && next.Block().Dominates(deferIn.Block()),
		"the storing closure is registered only after a loop over all entries of the peer's pyramid", "the storing closure is registered without passing the loop that ranges over the pyramid")
	if next == nil {
		return
	}
	var key, data ssa.Value
	for _, u := range core.Uses(next) {
		if e, ok := u.(*ssa.Extract); ok {
			if e.Index == 1 {
				key = e
			}
			if e.Index == 2 {
				data = e
			}
		}
	}
	const chainWrite = "(pkg/file/pipeline.ChainWriter).ChainWrite"
	const parseHex = "pkg/boson.ParseHexAddress"
	// G2a: ChainWrite is given args whose Data is this entry's data
	var cw *ssa.Call
	for _, c := range core.Calls(fn, chainWrite) {
		cw = c.(*ssa.Call)
	}
	okData := false
	var argsCell ssa.Value
	if cw != nil {
		argsCell = cw.Call.Args[0]
		for _, u := range core.Uses(argsCell) {
			if fa, ok := u.(*ssa.FieldAddr); ok {
				if fr, _ := core.AsField(fa); fr.Name == "Data" {
					for _, uu := range core.Uses(fa) {
						if st, ok := uu.(*ssa.Store); ok && st.Val == data {
							okData = true
						}
					}
				}
			}
		}
		// writer is the BMT writer
		if mk, _ := core.CallOf(cw.Call.Value); mk == nil || !core.IsCallTo(mk, "pkg/file/pipeline/bmt.NewBmtWriter") {
			okData = false
		}
	}
	r.Check("C06.G2", core.Key("C06.G2", fn, "BMT hash computed over the entry's bytes"), fn.Pos(), okData,
		"each entry's bytes are hashed by the BMT writer", "the validation loop does not feed the entry's data to bmt.NewBmtWriter(...).ChainWrite")
	// bad edges
	isRefBytes := func(v ssa.Value) bool {
		x, ok := callChain(v, "(pkg/boson.Address).Bytes")
		if !ok {
			return false
		}
		pc, idx := core.CallOf(x)
		return pc != nil && idx == 0 && core.IsCallTo(pc, parseHex) && pc.Call.Args[0] == key
	}
	isArgsRef := func(v ssa.Value) bool {
		fr, ok := core.AsField(v)
		return ok && !fr.Addr && fr.Name == "Ref" && fr.Base == argsCell
	}
	atoms := []struct {
		name string
		a    core.Atom
	}{
		{"BMT computation failed", core.ErrNilAtom(func(c *ssa.Call) bool { return c == cw })},
		{"key is not a hex address", core.ErrNilAtom(func(c *ssa.Call) bool {
			return core.IsCallTo(c, parseHex) && c.Call.Args[0] == key
		})},
		{"BMT hash differs from the key", core.BoolCallAtom(func(c *ssa.Call) bool {
			if !core.IsCallTo(c, "bytes.Equal") {
				return false
			}
			a, b := c.Call.Args[0], c.Call.Args[1]
			return (isArgsRef(a) && isRefBytes(b)) || (isArgsRef(b) && isRefBytes(a))
		})},
	}
	var okEdges core.EdgeSet
	for _, at := range atoms {
		pos, neg := core.AtomEdges(fn, at.a)
		if at.name == "BMT hash differs from the key" {
			okEdges = pos
		}
		ok := len(neg) > 0 && !core.ReachableFromEdges(fn, neg, deferIn, false)
		// also: the bad edge must not continue the loop
		if ok && core.ReachableFromEdges(fn, neg, next, false) {
			ok = false
		}
		r.Check("C06.G2", core.Key("C06.G2", fn, "bad edge: "+at.name), fn.Pos(), ok,
			"when "+at.name+" the function returns without registering the storing closure", "from the edge where "+at.name+" the storing closure can still be registered, the loop continues, or the check is missing")
	}
	// every iteration validates its entry: the loop moves on to the next entry only from
	// the edge where the BMT hash equals the key (no `continue` past the comparison, e.g.
	// for entries "already in the local store" — the entry still carries the peer's bytes)
	nBack, okBack := 0, true
	for e := range core.BackEdges(fn) {
		if e.To != next.Block() {
			continue
		}
		nBack++
		if len(okEdges) == 0 || !(okEdges[e] || core.OnlyBehind(fn, e.From.Instrs[len(e.From.Instrs)-1], okEdges)) {
			okBack = false
		}
	}
	r.Check("C06.G2", core.Key("C06.G2", fn, "next entry only after this one's hash matched"), deferIn.Pos(), nBack > 0 && okBack,
		"the validation loop advances to the next pyramid entry only after the current entry's BMT hash matched its key", "the validation loop can move on to the next entry without comparing the current entry's BMT hash with its key (a skip / continue): that entry's peer-supplied bytes are later parsed, handed on and stored unvalidated")
	// I1: upper length bound of the accepted entry
	ia := core.Intervals(fn)
	okLen := false
	detail := "no accepting edge found"
	for e := range okEdges {
		li := ia.LenOnEdge(data, e)
		okLen = li.Hi <= chunkSz+spanSz
		detail = fmt.Sprintf("on the accepting edge len(entry) ranges up to %s; the BMT hasher ignores bytes beyond %d, so a valid chunk with trailing junk passes the hash comparison and an oversized, invalid chunk is stored under the valid address", fmtBound(li.Hi), chunkSz)
		// alternative: a full validator on NewChunk(ref, data)
		if !okLen {
			full, _ := core.AtomEdges(fn, core.BoolCallAtom(func(c *ssa.Call) bool {
				if !core.IsCallTo(c, "pkg/cac.Valid") {
					return false
				}
				nc, _ := core.CallOf(c.Call.Args[0])
				return nc != nil && core.IsCallTo(nc, "pkg/boson.NewChunk") && nc.Call.Args[1] == data
			}))
			if len(full) > 0 && core.OnlyBehind(fn, deferIn, full) {
				okLen = true
			}
		}
	}
	r.Check("C06.I1", core.Key("C06.I1", fn, "accepted pyramid entry length <= ChunkSize+SpanSize"), fn.Pos(), okLen,
		"an accepted pyramid entry is at most ChunkSize+SpanSize bytes (or passed cac.Valid)", detail)

	// G2c: the BMT writer refuses short input and computes Ref from the hasher
	if bw := w.Func("pkg/file/pipeline/bmt", "(*bmtWriter).ChainWrite"); bw == nil {
		r.Fatal("unresolved anchor pipeline/bmt.(*bmtWriter).ChainWrite")
	} else {
		r.Saw(core.FuncName(bw))
		r.Eval(core.EdgeCount(bw))
		bia := core.Intervals(bw)
		n := 0
		core.EachInstr(bw, func(_ *ssa.BasicBlock, _ int, in ssa.Instruction) {
			sl, ok := in.(*ssa.Slice)
			if !ok {
				return
			}
			if fr, ok := core.AsField(core.Forward(sl.X)); !ok || fr.Name != "Data" {
				return
			}
			n++
			okS, why := sliceGuardedField(bw, bia, sl)
			r.Check("C06.G2", core.Key("C06.G2", bw, "span/data split behind len>=SpanSize"), sl.Pos(), okS,
				"the BMT writer splits span and data only for input of at least SpanSize bytes", why)
		})
		r.Floor("C06.G2", "span/data slicings in bmtWriter.ChainWrite", n, 2)
		refOK := false
		for _, st := range fieldStoresAny(bw, "Ref") {
			if c, idx := core.CallOf(st.Val); c != nil && idx == 0 && core.IsCallTo(c, "(*pkg/bmt.Hasher).Hash") {
				refOK = true
			}
		}
		r.Check("C06.G2", core.Key("C06.G2", bw, "Ref = hasher.Hash()"), bw.Pos(), refOK,
			"the reference compared with the key is the BMT hasher's result", "p.Ref is not assigned from hasher.Hash")
	}

	// closure: Puts behind err == nil, provenance of stored chunks
	var errCell *ssa.FreeVar
	for _, fv := range putCl.FreeVars {
		if isErrResultOf(putCl, fv) {
			errCell = fv
		}
	}
	nPut := 0
	core.EachInstr(putCl, func(_ *ssa.BasicBlock, _ int, in ssa.Instruction) {
		c := core.Common(in)
		if c == nil || !isChunkPut(c) {
			return
		}
		nPut++
		good := core.EdgeSet{}
		if errCell != nil {
			// edges on which the captured err was just read as nil
			for _, b := range putCl.Blocks {
				ifi, ok := b.Instrs[len(b.Instrs)-1].(*ssa.If)
				if !ok {
					continue
				}
				base, neg := core.Normalize(ifi.Cond)
				bin, ok := base.(*ssa.BinOp)
				if !ok {
					continue
				}
				var x ssa.Value
				if core.IsNilConst(bin.Y) {
					x = bin.X
				} else if core.IsNilConst(bin.X) {
					x = bin.Y
				}
				if x == nil {
					continue
				}
				p, isLoad := core.LoadedFrom(x)
				if !isLoad || p != ssa.Value(errCell) {
					continue
				}
				// raw load of the cell (no store to it earlier in this block): value at closure entry
				fwd := core.Forward(x)
				if fwd != x {
					continue
				}
				isEq := bin.Op.String() == "=="
				if isEq != neg {
					good[core.Edge{From: b, To: b.Succs[0]}] = true
				} else {
					good[core.Edge{From: b, To: b.Succs[1]}] = true
				}
			}
		}
		r.Check("C06.G2", core.Key("C06.G2", putCl, "Put behind err==nil"), in.Pos(), len(good) > 0 && core.OnlyBehind(putCl, in, good),
			"the deferred closure stores chunks only when the function is returning without error", "a Put in the deferred closure is reachable although the function failed validation (err != nil)")
		// provenance: NewChunk(A, pyramid[K]) with A/K consistent
		args := core.CallArgs(c)
		el := variadicElems(args[len(args)-1])
		okP := false
		if len(el) == 1 {
			if nc, _ := core.CallOf(el[0]); nc != nil && core.IsCallTo(nc, "pkg/boson.NewChunk") {
				a, d := core.Forward(nc.Call.Args[0]), nc.Call.Args[1]
				if lk, ok := d.(*ssa.Lookup); ok && isCaptured(lk.X, "pyramid") {
					k := lk.Index
					// (i) A = ParseHexAddress(k)   (ii) k = A.String()
					if pc, idx := core.CallOf(a); pc != nil && idx == 0 && core.IsCallTo(pc, parseHex) && pc.Call.Args[0] == k {
						okP = true
					}
					if sc, _ := core.CallOf(k); sc != nil && core.IsCallTo(sc, "(pkg/boson.Address).String") && core.SameExpr(core.Forward(sc.Call.Args[0]), a) {
						okP = true
					}
				}
			}
		}
		r.Check("C06.P1", core.Key("C06.P1", putCl, "Put stores NewChunk(addr(k), pyramid[k])"), in.Pos(), okP,
			"each stored chunk carries the bytes validated under the key its address comes from", "a stored chunk's address and bytes do not come from the same pyramid key")
	})
	r.Floor("C06.G2", "Put sites in the deferred closure", nPut, 2)

	// ---- G3 chunkinfo ----
	if ci := w.Func("pkg/chunkinfo", "(*ChunkInfo).onChunkPyramidResp"); ci == nil {
		r.Fatal("unresolved anchor pkg/chunkinfo.(*ChunkInfo).onChunkPyramidResp")
	} else {
		r.Saw(core.FuncName(ci))
		r.Eval(core.EdgeCount(ci))
		const gch = "(pkg/traversal.Traverser).GetChunkHashes"
		gc := core.Calls(ci, gch)
		r.Floor("C06.G3", "GetChunkHashes calls in onChunkPyramidResp", len(gc), 1)
		good, _ := core.AtomEdges(ci, errNilOf(gch))
		n := 0
		core.EachInstr(ci, func(_ *ssa.BasicBlock, _ int, in ssa.Instruction) {
			c := core.Common(in)
			if c == nil || core.CalleeName(c) != "(*pkg/chunkinfo.ChunkInfo).chunkPutChanUpdate" {
				return
			}
			n++
			r.Check("C06.G3", core.Key("C06.G3", ci, "state update behind GetChunkHashes ok"), in.Pos(), len(good) > 0 && core.OnlyBehind(ci, in, good),
				"the peer's pyramid updates local state only after it validated", "a chunkinfo update from the peer's pyramid is reachable although validation failed")
		})
		r.Floor("C06.G3", "state updates after the pyramid validated", n, 3)
	}

	// ---- W1: chunk Put sites in protocol packages ----
	protoPkgs := map[string]bool{core.P("pkg/traversal"): true}
	for _, f := range w.Funcs {
		core.EachInstr(f, func(_ *ssa.BasicBlock, _ int, in ssa.Instruction) {
			if c := core.Common(in); c != nil {
				n := core.CalleeName(c)
				if strings.HasPrefix(n, "(pkg/p2p/protobuf.Reader).ReadMsg") {
					protoPkgs[f.Pkg.Pkg.Path()] = true
				}
			}
		})
	}
	allowed := map[string]bool{
		"pkg/retrieval.(*Service).retrieveChunk": true,
		core.FuncName(putCl):                     true,
	}
	var names []string
	for p := range protoPkgs {
		names = append(names, strings.TrimPrefix(p, core.Mod+"/"))
	}
	sort.Strings(names)
	r.Floor("C06.W1", "packages that read peer messages: "+strings.Join(names, " "), len(names), 4)
	nSites := 0
	for _, f := range w.Funcs {
		if !protoPkgs[f.Pkg.Pkg.Path()] {
			continue
		}
		core.EachInstr(f, func(_ *ssa.BasicBlock, _ int, in ssa.Instruction) {
			if c := core.Common(in); c != nil && isChunkPut(c) {
				nSites++
				r.Check("C06.W1", core.Key("C06.W1", f, "chunk Put site"), in.Pos(), allowed[core.FuncName(f)],
					"chunk stores in packages that read peer messages are the validated sites", "a chunk Put in a protocol package outside the validated sites (retrieveChunk, GetChunkHashes' deferred closure)")
			}
		})
	}
	r.Floor("C06.W1", "chunk Put sites in protocol packages", nSites, 3)
}

func isCaptured(v ssa.Value, name string) bool {
	v = core.Forward(v)
	if p, ok := core.LoadedFrom(v); ok {
		v = p
	}
	switch x := v.(type) {
	case *ssa.FreeVar:
		return x.Name() == name
	case *ssa.Parameter:
		return x.Name() == name
	}
	return false
}

// fieldStoresAny lists stores to any struct's field with the given name.
func fieldStoresAny(fn *ssa.Function, field string) []*ssa.Store {
	var out []*ssa.Store
	core.EachInstr(fn, func(_ *ssa.BasicBlock, _ int, in ssa.Instruction) {
		if st, ok := in.(*ssa.Store); ok {
			if fr, ok := core.AsField(st.Addr); ok && fr.Addr && fr.Name == field {
				out = append(out, st)
			}
		}
	})
	return out
}

// sliceGuardedField is sliceGuarded for an operand that is a load of a struct field
// (p.Data): len refinements are attached to each load separately, so the guard is matched
// structurally (same field of the same base) instead of by value identity.
func sliceGuardedField(fn *ssa.Function, ia *core.IA, sl *ssa.Slice) (bool, string) {
	if ok, _ := sliceGuarded(fn, ia, sl); ok {
		return true, ""
	}
	bound := sl.High
	if bound == nil {
		bound = sl.Low
	}
	k, isConst := core.ConstInt(bound)
	if !isConst {
		return false, "non-constant bound on a field operand"
	}
	good, _ := core.AtomEdges(fn, cmpAtom(func(v ssa.Value) bool {
		c, ok := isBuiltinCall(v, "len")
		return ok && core.SameExpr(core.Forward(c.Call.Args[0]), core.Forward(sl.X))
	}, func(y ssa.Value) bool { c, ok := core.ConstInt(y); return ok && c >= k }, ">="))
	if len(good) > 0 && core.OnlyBehind(fn, sl, good) {
		return true, ""
	}
	return false, fmt.Sprintf("slicing at %d is not behind a len(...) >= %d guard", k, k)
}
