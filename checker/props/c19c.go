package props

import (
	"aurora-verif/checker/core"

	"golang.org/x/tools/go/ssa"
)

// c19Iteration (P3): an index only yields its own keys. itemFromIterator decodes a cursor
// position only behind bytes.HasPrefix(key, totalPrefix) and reports driver.ErrNotFound
// otherwise; every caller passes a totalPrefix that starts with the index's schema prefix
// (f.prefix, possibly extended by the caller's prefix).
func c19Iteration(r *core.Run) {
	w := r.W
	fn := w.Func("pkg/shed", "(Index).itemFromIterator")
	if fn == nil {
		r.Fatal("unresolved anchor pkg/shed.(Index).itemFromIterator")
		return
	}
	r.Saw(core.FuncName(fn))
	r.Eval(core.EdgeCount(fn))
	total := fn.Params[2]
	has, _ := core.AtomEdges(fn, core.BoolCallAtom(func(c *ssa.Call) bool {
		if !core.IsCallTo(c, "bytes.HasPrefix") || c.Call.Args[1] != ssa.Value(total) {
			return false
		}
		kc, _ := core.CallOf(c.Call.Args[0])
		return kc != nil && kc.Call.IsInvoke() && kc.Call.Method.Name() == "Key"
	}))
	n := 0
	core.EachInstr(fn, func(_ *ssa.BasicBlock, _ int, in ssa.Instruction) {
		c, ok := in.(*ssa.Call)
		if !ok || c.Call.IsInvoke() {
			return
		}
		fr, ok := core.AsField(core.Forward(c.Call.Value))
		if !ok || (fr.Name != "decodeKeyFunc" && fr.Name != "decodeValueFunc") {
			return
		}
		n++
		r.Check("C19.P3", core.Key("C19.P3", fn, fr.Name+" only for keys under the index prefix"), c.Pos(), len(has) > 0 && core.OnlyBehind(fn, c, has),
			"a cursor position is decoded only when its key starts with the index's total prefix", "a key is decoded without the bytes.HasPrefix(key, totalPrefix) test: iteration can yield another index's entries")
	})
	r.Floor("C19.P3", "decode calls in itemFromIterator", n, 2)
	// callers
	nc := 0
	for _, caller := range w.PkgFuncs("pkg/shed") {
		for _, c := range core.Calls(caller, "(pkg/shed.Index).itemFromIterator") {
			nc++
			arg := core.Common(c).Args[2]
			ok := core.DerivesFrom(arg, func(v ssa.Value) bool {
				return core.IsFieldOf(core.Forward(v), "pkg/shed.Index", "prefix")
			}, nil) || derivesFromIndexPrefix(arg, 0)
			r.Saw(core.FuncName(caller))
			r.Check("C19.P3", lsKey("C19.P3", caller, "total prefix starts with the index's schema prefix"), c.Pos(), ok,
				"the prefix that bounds the iteration is the index's schema prefix, optionally extended", "itemFromIterator is given a prefix that does not start with f.prefix: the iteration is not confined to this index")
		}
	}
	r.Floor("C19.P3", "callers of itemFromIterator", nc, 3)
}

// derivesFromIndexPrefix: v is f.prefix, or append(f.prefix, …), possibly through phis/cells.
func derivesFromIndexPrefix(v ssa.Value, depth int) bool {
	if depth > 6 || v == nil {
		return false
	}
	v = core.Forward(v)
	if core.IsFieldOf(v, "pkg/shed.Index", "prefix") {
		return true
	}
	switch x := v.(type) {
	case *ssa.Call:
		if _, ok := isBuiltinCall(x, "append"); ok {
			return derivesFromIndexPrefix(x.Call.Args[0], depth+1)
		}
	case *ssa.Phi:
		for _, e := range x.Edges {
			if !derivesFromIndexPrefix(e, depth+1) {
				return false
			}
		}
		return len(x.Edges) > 0
	case *ssa.Slice:
		return derivesFromIndexPrefix(x.X, depth+1)
	}
	return false
}
