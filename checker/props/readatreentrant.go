package props

import (
	"go/token"

	"aurora-verif/checker/core"

	"golang.org/x/tools/go/ssa"
)

// readAtReentrant: joiner.ReadAt implements io.ReaderAt — concurrent calls on one joiner are
// allowed, so everything a call counts or accumulates lives in the call: inside ReadAt the
// receiver's fields are only read (no field address is stored through, passed on as a
// pointer, or used by sync/atomic).
func readAtReentrant(r *core.Run, rule string) {
	fn := r.W.Func("pkg/file/joiner", "(*joiner).ReadAt")
	if fn == nil {
		r.Fatal("unresolved anchor pkg/file/joiner.(*joiner).ReadAt")
		return
	}
	r.Saw(core.FuncName(fn))
	r.Eval(core.EdgeCount(fn))
	recv := fn.Params[0]
	n := 0
	var bad ssa.Instruction
	badField := ""
	core.EachInstr(fn, func(_ *ssa.BasicBlock, _ int, in ssa.Instruction) {
		fa, ok := in.(*ssa.FieldAddr)
		if !ok || fa.X != ssa.Value(recv) {
			return
		}
		n++
		for _, u := range core.Uses(fa) {
			switch x := u.(type) {
			case *ssa.DebugRef:
			case *ssa.UnOp:
				if x.Op != token.MUL {
					bad = u
				}
			default:
				bad = u
			}
			if bad != nil && badField == "" {
				badField = fieldName(fa)
			}
		}
	})
	pos := fn.Pos()
	if bad != nil {
		pos = bad.Pos()
	}
	r.Check(rule, core.Key(rule, fn, "per-call state only: receiver fields are read-only in ReadAt"), pos, n > 0 && bad == nil,
		"ReadAt only reads the joiner's fields; its byte counter and error group are locals of the call", "ReadAt writes or hands out the address of the joiner field "+badField+": two overlapping ReadAt calls (io.ReaderAt allows them) share that state and report each other's byte counts")
}
