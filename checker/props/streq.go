package props

import (
	"go/token"

	"aurora-verif/checker/core"

	"golang.org/x/tools/go/ssa"
)

// secretEqAtom recognises the equality test of two byte/string values X and Y in the forms
// the standard library offers: `X == Y` / `X != Y`, `bytes.Equal(X, Y)`,
// `subtle.ConstantTimeCompare(X, Y) == 1` (or `!= 1`, `== 0`, `!= 0`) — each optionally over
// []byte(...) / string(...) conversions of the operands. Anything else (a hand-written
// comparison helper, strings.EqualFold, a prefix test) is not an equality test.
func secretEqAtom(isX, isY func(ssa.Value) bool) core.Atom {
	plain := cmpAtom(func(v ssa.Value) bool { return isX(unconvT(v)) }, func(v ssa.Value) bool { return isY(unconvT(v)) }, "==")
	pair := func(args []ssa.Value) bool {
		if len(args) != 2 {
			return false
		}
		a, b := unconvT(core.Forward(args[0])), unconvT(core.Forward(args[1]))
		return (isX(a) && isY(b)) || (isX(b) && isY(a))
	}
	return func(base ssa.Value) (bool, bool) {
		if c, ok := base.(*ssa.Call); ok {
			if core.CalleeName(&c.Call) == "bytes.Equal" && pair(c.Call.Args) {
				return true, true
			}
			return false, false
		}
		if b, ok := base.(*ssa.BinOp); ok && (b.Op == token.EQL || b.Op == token.NEQ) {
			for _, o := range [][2]ssa.Value{{b.X, b.Y}, {b.Y, b.X}} {
				c, ok := o[0].(*ssa.Call)
				if !ok || core.CalleeName(&c.Call) != "crypto/subtle.ConstantTimeCompare" || !pair(c.Call.Args) {
					continue
				}
				k, ok := core.ConstInt(o[1])
				if !ok || (k != 0 && k != 1) {
					return false, false
				}
				// (cmp == 1) true ⇒ equal; (cmp != 0) true ⇒ equal
				return true, (b.Op == token.EQL) == (k == 1)
			}
		}
		return plain(base)
	}
}

// unconv strips []byte(x) / string(x) conversions.
func unconvT(v ssa.Value) ssa.Value {
	for {
		switch x := v.(type) {
		case *ssa.Convert:
			v = x.X
		case *ssa.ChangeType:
			v = x.X
		default:
			return v
		}
	}
}
