package props

import (
	"go/types"

	"aurora-verif/checker/core"

	"golang.org/x/tools/go/ssa"
)

// c33PayAtomic (Lk3): "no cheque is issued for an amount already paid" under concurrent cheque
// sends. Pay issues a cheque for the unpaid balance (traffic owed minus cheques issued) and
// then records the new cumulative payout; both happen with the peer's Traffic mutex held.
// The balance it hands to issue must be computed from fields read inside that same critical
// section: a balance obtained from a helper that locks and unlocks on its own (before Pay
// takes the lock) is stale when two Pay calls overlap — both pay the same balance.
func c33PayAtomic(r *core.Run, la *core.LockAnalysis, mu string) {
	const rule = "C33.Lk3"
	const pkg = "pkg/settlement/traffic"
	pay := r.W.Func(pkg, "(*Service).Pay")
	if pay == nil {
		r.Fatal("unresolved anchor %s.(*Service).Pay", pkg)
		return
	}
	r.Saw(core.FuncName(pay))
	r.Eval(core.EdgeCount(pay))
	calls := core.Calls(pay, "(*"+pkg+".Service).issue")
	for _, c := range calls {
		h := la.HeldAt(c)
		okLock := h != nil && h.Holds(mu, true)
		okBal, why := true, ""
		nBig := 0
		for _, a := range core.Common(c).Args {
			pt, isPtr := a.Type().(*types.Pointer)
			if !isPtr || core.TypeName(pt.Elem()) != "math/big.Int" {
				continue
			}
			nBig++
			seen := map[ssa.Value]bool{}
			var walk func(v ssa.Value, d int)
			walk = func(v ssa.Value, d int) {
				if v == nil || seen[v] || d > 12 {
					return
				}
				seen[v] = true
				switch x := core.Forward(v).(type) {
				case *ssa.Call:
					if sc := x.Call.StaticCallee(); sc != nil && sc.Pkg == pay.Pkg {
						hh := la.HeldAt(x)
						if hh == nil || !hh.Holds(mu, false) {
							okBal, why = false, "the balance comes from "+core.CalleeName(&x.Call)+", called without the Traffic mutex (held: "+hh.String()+")"
						}
						return
					}
					for _, aa := range core.CallArgs(&x.Call) {
						walk(aa, d+1)
					}
				case *ssa.UnOp:
					if fr, ok := core.AsField(x); ok && fr.Struct == trafficT {
						hh := la.HeldAt(x)
						if hh == nil || !hh.Holds(mu, false) {
							okBal, why = false, "Traffic."+fr.Name+" is read for the balance without the Traffic mutex"
						}
					}
				case *ssa.Phi:
					for _, e := range x.Edges {
						walk(e, d+1)
					}
				}
			}
			walk(a, 0)
		}
		r.Check(rule, core.Key(rule, pay, "balance computed inside the critical section that issues"), c.Pos(), okLock && okBal && nBig > 0,
			"Pay computes the unpaid balance and issues the cheque in one critical section of the peer's Traffic mutex", why+": two overlapping Pay calls both see the same unpaid balance and both issue a cheque for it — the second pays an amount already paid")
	}
	r.Floor(rule, "issue calls in Pay", len(calls), 1)
}
