package props

import (
	"aurora-verif/checker/core"

	"golang.org/x/tools/go/ssa"
)

// c15HasPin (G3): "listed as pinned iff the last operation was a pin" — HasPin, the guard of
// DeletePin and of the API handlers, answers from the root-pin record of the reference
// alone: it can answer true only where the state-store Get under rootPinKey(ref) returned
// no error. A chunk-level pin of the root chunk does not say which reference holds it
// (another pinned reference may share the chunk), so falling back to it makes a repeated
// unpin pass the guard and decrement the other reference's chunks.
func c15HasPin(r *core.Run, get string) {
	const rule = "C15.G3"
	fn := r.W.Func("pkg/pinning", "(*Service).HasPin")
	if fn == nil {
		r.Fatal("unresolved anchor pkg/pinning.(*Service).HasPin")
		return
	}
	r.Saw(core.FuncName(fn))
	r.Eval(core.EdgeCount(fn))
	isRootGet := func(c *ssa.Call) bool {
		if !core.IsCallTo(c, get) {
			return false
		}
		kc, _ := core.CallOf(core.Common(c).Args[0])
		return kc != nil && core.IsCallTo(kc, "pkg/pinning.rootPinKey") && core.Forward(kc.Call.Args[0]) == ssa.Value(fn.Params[1])
	}
	found, _ := core.AtomEdges(fn, core.ErrNilAtom(isRootGet))
	n := 0
	core.EachInstr(fn, func(b *ssa.BasicBlock, _ int, in ssa.Instruction) {
		ret, ok := in.(*ssa.Return)
		if !ok || b == fn.Recover {
			return
		}
		if c, isC := core.ConstBool(core.Forward(ret.Results[0])); isC && !c {
			return
		}
		n++
		r.Check(rule, core.Key(rule, fn, "pinned only per the root-pin record"), ret.Pos(), len(found) > 0 && core.OnlyBehind(fn, ret, found),
			"HasPin can answer true only where the root-pin record of the reference was read successfully", "HasPin can answer true without a root-pin record for the reference (e.g. from the chunk-level pin of its root chunk, which another pinned reference may hold): the unpin guard passes for a reference that is not pinned")
	})
	r.Floor(rule, "answers of HasPin that may be true", n, 1)
}
