package props

import (
	"go/token"
	"go/types"

	"aurora-verif/checker/core"

	"golang.org/x/tools/go/ssa"
)

// byteWrapLint: in the key-range code of the storage layers every `b[i] + 1` on a byte is
// computed only where that byte was tested to differ from 0xFF. An unguarded increment wraps
// to 0x00: an upper bound built that way sorts BEFORE its prefix and the range is empty
// (prefix iteration over keys whose prefix ends in 0xFF then visits nothing).
func byteWrapLint(r *core.Run, rule string, rels ...string) {
	n := 0
	for _, rel := range rels {
		for _, fn := range r.W.PkgFuncs(rel) {
			fn := fn
			core.EachInstr(fn, func(_ *ssa.BasicBlock, _ int, in ssa.Instruction) {
				add, ok := in.(*ssa.BinOp)
				if !ok || add.Op != token.ADD {
					return
				}
				bt, ok := add.Type().Underlying().(*types.Basic)
				if !ok || bt.Kind() != types.Uint8 {
					return
				}
				one, isC := core.ConstInt(add.Y)
				if !isC || one != 1 {
					return
				}
				ld, ok := add.X.(*ssa.UnOp)
				if !ok || ld.Op != token.MUL {
					return
				}
				el, ok := ld.X.(*ssa.IndexAddr)
				if !ok {
					return
				}
				// only increments written back into a byte-slice element (a key being built),
				// not counters kept in locals
				intoKey := false
				for _, u := range core.Uses(add) {
					if st, ok := u.(*ssa.Store); ok && st.Val == ssa.Value(add) {
						if dst, ok := st.Addr.(*ssa.IndexAddr); ok && isByteSlice(dst.X.Type()) {
							intoKey = true
						}
					}
				}
				if !intoKey {
					return
				}
				n++
				r.Saw(core.FuncName(fn))
				sameElem := func(v ssa.Value) bool {
					l2, ok := v.(*ssa.UnOp)
					if !ok || l2.Op != token.MUL {
						return false
					}
					e2, ok := l2.X.(*ssa.IndexAddr)
					return ok && (e2 == el || (core.SameExpr(e2.X, el.X) && (e2.Index == el.Index || core.SameExpr(e2.Index, el.Index))))
				}
				is255 := func(v ssa.Value) bool { k, ok := core.ConstInt(v); return ok && k == 255 }
				notFF, _ := core.AtomEdges(fn, cmpAtom(sameElem, is255, "!="))
				lt, _ := core.AtomEdges(fn, cmpAtom(sameElem, is255, "<"))
				for e := range lt {
					notFF[e] = true
				}
				r.Check(rule, lsKey(rule, fn, "byte increment guarded against 0xFF"), add.Pos(), len(notFF) > 0 && core.OnlyBehind(fn, add, notFF),
					"a key byte is incremented only where it was tested to be below 0xFF", "a key byte is incremented without a test against 0xFF: for 0xFF it wraps to 0x00, the bound sorts before the prefix and a prefix iteration over such keys visits nothing")
			})
		}
	}
	r.Eval(n)
}
