package props

import (
	"go/token"
	"go/types"
	"sort"
	"strings"

	"aurora-verif/checker/core"

	"golang.org/x/tools/go/ssa"
)

func init() {
	reg("C18", Meta{
		Technique:   "error-propagation rule + targeted lints on SSA (deferred overwrite of a named error result, callback under range-over-map), bad-edge reachability for the stop flag, sibling agreement of the value codec",
		Explanation: "C18 (state stores), structural clauses checked on both implementations (statestore/leveldb, statestore/mock): (E1) no path leaves the callback invocation with a possibly non-nil error — i.e. without crossing the `err == nil` edge — except by returning that very error: neither the next iteration nor a return of anything else (so testing the stop flag before the error is a violation); (L0) no deferred closure in the store packages overwrites a named error result unless behind `err == nil`; (L1) the callback is never invoked from a loop that ranges over a Go map (the contract is ascending byte order); (G1) once the callback asked to stop, it is not invoked again; (A1) Put and Get of both stores use the same codec choice (BinaryMarshaler/Unmarshaler, else JSON). Not decided: value round-trip equality, exact key set of prefix iteration, persistence across reopen (driver behaviour).",
		Assumptions: []string{"shed driver iterators return keys in ascending byte order (goleveldb contract)"},
	}, c18)
}

// deferredClosures returns the closures registered by a defer in fn.
func deferredClosures(fn *ssa.Function) []*ssa.Function {
	var out []*ssa.Function
	core.EachInstr(fn, func(_ *ssa.BasicBlock, _ int, in ssa.Instruction) {
		d, ok := in.(*ssa.Defer)
		if !ok {
			return
		}
		if mc, ok := d.Call.Value.(*ssa.MakeClosure); ok {
			if f, ok := mc.Fn.(*ssa.Function); ok {
				out = append(out, f)
			}
		}
	})
	return out
}

// checkDeferredErrOverwrite applies lint L0 to fn: in every deferred closure, a store to a
// captured error-typed cell must be behind "that cell == nil".
func checkDeferredErrOverwrite(r *core.Run, rule string, fn *ssa.Function) int {
	n := 0
	for _, cl := range deferredClosures(fn) {
		r.Eval(core.EdgeCount(cl))
		core.EachInstr(cl, func(_ *ssa.BasicBlock, _ int, in ssa.Instruction) {
			st, ok := in.(*ssa.Store)
			if !ok {
				return
			}
			fv, ok := st.Addr.(*ssa.FreeVar)
			if !ok {
				return
			}
			pt, ok := fv.Type().(*types.Pointer)
			if !ok || pt.Elem().String() != "error" {
				return
			}
			// is the captured cell a named result of the enclosing function?
			if !isNamedResultCell(fn, cl, fv) {
				return
			}
			n++
			// accepted idiom: the store is control-dependent on a test of the cell's
			// current value (`if err == nil`, `if errors.Is(err, X)`, `if err != nil {wrap}`)
			good := core.EdgeSet{}
			for _, b := range cl.Blocks {
				ifi, ok := b.Instrs[len(b.Instrs)-1].(*ssa.If)
				if !ok {
					continue
				}
				if core.DerivesFrom(ifi.Cond, func(x ssa.Value) bool {
					p, ok := core.LoadedFrom(x)
					return ok && p == ssa.Value(fv)
				}, map[string]bool{"*": true}) {
					good[core.Edge{From: b, To: b.Succs[0]}] = true
					good[core.Edge{From: b, To: b.Succs[1]}] = true
				}
			}
			r.Check(rule, core.Key(rule, fn, "deferred store to "+fv.Name()), st.Pos(), core.OnlyBehind(cl, st, good),
				"a deferred closure assigns the named error result only under a test of its current value",
				"a deferred closure overwrites the named error result unconditionally: the error being returned (callback error, iterator error) is replaced")
		})
	}
	return n
}

func isNamedResultCell(fn, cl *ssa.Function, fv *ssa.FreeVar) bool {
	// find the MakeClosure binding for fv and test whether it is an Alloc named like a result
	res := fn.Signature.Results()
	for i := 0; i < res.Len(); i++ {
		if res.At(i).Name() != "" && res.At(i).Name() == fv.Name() {
			return true
		}
	}
	return false
}

func c18(r *core.Run) {
	c18Snapshot(r)
	w := r.W
	impls := []string{"pkg/statestore/leveldb", "pkg/statestore/mock"}

	// L0 over all functions of the store packages (+ the shed leveldb driver)
	nDefer := 0
	for _, rel := range append(append([]string{}, impls...), "pkg/shed/leveldb") {
		for _, fn := range w.PkgFuncs(rel) {
			r.Saw(core.FuncName(fn))
			nDefer += checkDeferredErrOverwrite(r, "C18.L0", fn)
		}
	}
	_ = nDefer

	type codec struct{ put, get []string }
	codecs := map[string]codec{}
	for _, rel := range impls {
		fn := w.Func(rel, "(*store).Iterate")
		if fn == nil {
			r.Fatal("unresolved anchor %s.(*store).Iterate", rel)
			continue
		}
		r.Eval(core.EdgeCount(fn))
		cb := fn.Params[2]
		var calls []*ssa.Call
		core.EachInstr(fn, func(_ *ssa.BasicBlock, _ int, in ssa.Instruction) {
			if c, ok := in.(*ssa.Call); ok && !c.Call.IsInvoke() && c.Call.Value == ssa.Value(cb) {
				calls = append(calls, c)
			}
		})
		r.Floor("C18.E1", "callback invocations in "+rel+" Iterate", len(calls), 1)
		for _, c := range calls {
			c := c
			// E1
			ok, detail := errMustSurface(fn, c)
			r.Check("C18.E1", core.Key("C18.E1", fn, "callback error returned"), c.Pos(), ok,
				"the error returned by the iteration callback is what Iterate returns", detail)

			// L1: callback under range-over-map
			underMap := false
			core.EachInstr(fn, func(b *ssa.BasicBlock, _ int, in ssa.Instruction) {
				nx, isNext := in.(*ssa.Next)
				if !isNext {
					return
				}
				rg, isRange := nx.Iter.(*ssa.Range)
				if !isRange {
					return
				}
				if _, isMap := rg.X.Type().Underlying().(*types.Map); !isMap {
					return
				}
				// same cycle?
				fromNext := core.ReachBlocks([]*ssa.BasicBlock{b}, nil)
				fromCall := core.ReachBlocks([]*ssa.BasicBlock{c.Block()}, nil)
				if fromNext[c.Block()] && fromCall[b] {
					underMap = true
				}
			})
			r.Check("C18.L1", core.Key("C18.L1", fn, "callback under range-over-map"), c.Pos(), !underMap,
				"the callback is not driven by a range over a Go map (iteration order must be ascending by key)",
				"the callback is invoked from a range over a Go map: visiting order is random, not ascending byte order")

			// G1: stop honoured
			stopEdges, _ := core.AtomEdges(fn, func(base ssa.Value) (bool, bool) {
				if cc, idx := core.CallOf(base); cc == c && idx == 0 {
					return true, true
				}
				return false, false
			})
			okStop := len(stopEdges) > 0 && !core.ReachableFromEdges(fn, stopEdges, c, false)
			r.Check("C18.G1", core.Key("C18.G1", fn, "stop leaves the loop"), c.Pos(), okStop,
				"after the callback returns stop=true it is not invoked again", "the callback can be invoked again after it asked to stop (or stop is never tested)")
		}

		// A1: codec signature
		var cd codec
		for _, m := range []string{"Put", "Get"} {
			f := w.Func(rel, "(*store)."+m)
			if f == nil {
				r.Fatal("unresolved anchor %s.(*store).%s", rel, m)
				continue
			}
			r.Saw(core.FuncName(f))
			r.Eval(core.EdgeCount(f))
			sig := codecSignature(f)
			if m == "Put" {
				cd.put = sig
			} else {
				cd.get = sig
			}
		}
		codecs[rel] = cd
	}
	if len(codecs) == 2 {
		a, b := codecs[impls[0]], codecs[impls[1]]
		lf := w.Func(impls[0], "(*store).Put")
		r.Check("C18.A1", "C18.A1@statestore#Put codec agreement", lf.Pos(), strings.Join(a.put, ",") == strings.Join(b.put, ","),
			"both stores encode values the same way: "+strings.Join(a.put, ","), "Put codecs differ: "+strings.Join(a.put, ",")+" vs "+strings.Join(b.put, ","))
		r.Check("C18.A1", "C18.A1@statestore#Get codec agreement", w.Func(impls[0], "(*store).Get").Pos(), strings.Join(a.get, ",") == strings.Join(b.get, ","),
			"both stores decode values the same way: "+strings.Join(a.get, ","), "Get codecs differ: "+strings.Join(a.get, ",")+" vs "+strings.Join(b.get, ","))
		wantPut := "assert:encoding.BinaryMarshaler,call:(encoding.BinaryMarshaler).MarshalBinary,call:encoding/json.Marshal"
		wantGet := "assert:encoding.BinaryUnmarshaler,call:(encoding.BinaryUnmarshaler).UnmarshalBinary,call:encoding/json.Unmarshal"
		r.Check("C18.A1", "C18.A1@statestore#Put/Get duality", lf.Pos(), strings.Join(a.put, ",") == wantPut && strings.Join(a.get, ",") == wantGet,
			"Get decodes with the inverse of what Put encodes with (binary marshaler else JSON)", "Put uses "+strings.Join(a.put, ",")+" but Get uses "+strings.Join(a.get, ","))
	}
	c18Presence(r)
	byteWrapLint(r, "C18.L2", "pkg/shed/leveldb", "pkg/statestore/leveldb", "pkg/statestore/mock")
	// prefix iteration of the persistent store goes through the driver's Search: a prefix
	// query is turned into a key range by the goleveldb helper (or by code passing L2)
	c18PrefixRange(r)
}

// c18PrefixRange (P2): LevelDB.Search builds the range of a prefix query from the query's own
// prefix bytes.
func c18PrefixRange(r *core.Run) {
	fn := r.W.Func("pkg/shed/leveldb", "(*LevelDB).Search")
	if fn == nil {
		r.Fatal("unresolved anchor pkg/shed/leveldb.(*LevelDB).Search")
		return
	}
	r.Saw(core.FuncName(fn))
	r.Eval(core.EdgeCount(fn))
	n := 0
	for _, c := range core.Calls(fn, "(*github.com/syndtr/goleveldb/leveldb.DB).NewIterator", "(*github.com/syndtr/goleveldb/leveldb.Snapshot).NewIterator") {
		n++
		rng := core.Common(c).Args[1]
		ok := core.DerivesFrom(rng, func(v ssa.Value) bool {
			if core.IsNilConst(v) {
				return true
			}
			bc, _ := core.CallOf(v)
			if bc == nil {
				return false
			}
			// any range constructor fed with the query's prefix data
			for _, a := range bc.Call.Args {
				if fr, ok := core.AsField(core.Forward(a)); ok && fr.Name == "Data" {
					return true
				}
			}
			return false
		}, nil)
		r.Check("C18.P2", core.Key("C18.P2", fn, "iterator range built from the query prefix"), c.Pos(), ok,
			"the iterator's key range is nil (whole store) or built from the query's prefix bytes", "the iterator range does not derive from the query prefix")
	}
	r.Floor("C18.P2", "iterators opened by Search", n, 1)
}

// c18Presence (G2): both stores report "not found" by key membership, never by looking at
// the value: the mock's Get returns storage.ErrNotFound exactly on the not-present edge of a
// comma-ok lookup of its map and decodes only on the present edge; the leveldb-backed Get
// maps exactly the driver's ErrNotFound and decodes only when the driver reported no error.
// (A key written with an empty encoding is still a key.)
func c18Presence(r *core.Run) {
	w := r.W
	isNotFoundLoad := func(in ssa.Instruction) bool {
		u, ok := in.(*ssa.UnOp)
		if !ok || u.Op != token.MUL {
			return false
		}
		g, ok := u.X.(*ssa.Global)
		return ok && g.Name() == "ErrNotFound" && g.Pkg.Pkg.Path() == core.P("pkg/storage")
	}
	isDecode := func(in ssa.Instruction) bool {
		c := core.Common(in)
		if c == nil {
			return false
		}
		if c.IsInvoke() {
			return c.Method.Name() == "UnmarshalBinary"
		}
		return core.CalleeName(c) == "encoding/json.Unmarshal"
	}
	check := func(fn *ssa.Function, absent, present core.EdgeSet, how string) {
		r.Saw(core.FuncName(fn))
		r.Eval(core.EdgeCount(fn))
		nNF, nDec := 0, 0
		core.EachInstr(fn, func(_ *ssa.BasicBlock, _ int, in ssa.Instruction) {
			if isNotFoundLoad(in) {
				nNF++
				r.Check("C18.G2", core.Key("C18.G2", fn, "ErrNotFound only for an absent key"), in.Pos(), len(absent) > 0 && core.OnlyBehind(fn, in, absent),
					"storage.ErrNotFound is reported only on the edge where "+how+" says the key is absent", "storage.ErrNotFound is reachable for a key that is present (presence is not decided by "+how+"): a key written with an empty encoding reads as missing although Iterate visits it")
			}
			if isDecode(in) {
				nDec++
				r.Check("C18.G2", core.Key("C18.G2", fn, "decode only for a present key"), in.Pos(), len(present) > 0 && core.OnlyBehind(fn, in, present),
					"the stored bytes are decoded only on the edge where the key is present", "a decode is reachable without the presence test")
			}
		})
		r.Floor("C18.G2", "ErrNotFound results in "+core.FuncName(fn), nNF, 1)
		r.Floor("C18.G2", "decodes in "+core.FuncName(fn), nDec, 2)
	}
	if fn := w.Func("pkg/statestore/mock", "(*store).Get"); fn == nil {
		r.Fatal("unresolved anchor pkg/statestore/mock.(*store).Get")
	} else {
		key := fn.Params[1]
		present, absent := core.AtomEdges(fn, func(base ssa.Value) (bool, bool) {
			ex, ok := base.(*ssa.Extract)
			if !ok || ex.Index != 1 {
				return false, false
			}
			lk, ok := ex.Tuple.(*ssa.Lookup)
			if !ok || !lk.CommaOk || lk.Index != ssa.Value(key) || !core.IsFieldOf(lk.X, "pkg/statestore/mock.store", "store") {
				return false, false
			}
			return true, true
		})
		check(fn, absent, present, "the comma-ok lookup of the map")
	}
	if fn := w.Func("pkg/statestore/leveldb", "(*store).Get"); fn == nil {
		r.Fatal("unresolved anchor pkg/statestore/leveldb.(*store).Get")
	} else {
		isDrvGet := func(c *ssa.Call) bool { return c.Call.IsInvoke() && c.Call.Method.Name() == "Get" }
		okE, _ := core.AtomEdges(fn, core.ErrNilAtom(isDrvGet))
		absent, _ := core.AtomEdges(fn, core.BoolCallAtom(func(c *ssa.Call) bool {
			if !core.IsCallTo(c, "errors.Is") {
				return false
			}
			u, ok := c.Call.Args[1].(*ssa.UnOp)
			if !ok {
				return false
			}
			g, ok := u.X.(*ssa.Global)
			return ok && g.Name() == "ErrNotFound" && strings.HasSuffix(g.Pkg.Pkg.Path(), "pkg/shed/driver")
		}))
		check(fn, absent, okE, "the driver's ErrNotFound")
	}
}

// codecSignature lists the type assertions to encoding interfaces and the calls into
// encoding / encoding/json made by fn, sorted.
func codecSignature(fn *ssa.Function) []string {
	set := map[string]bool{}
	core.EachInstr(fn, func(_ *ssa.BasicBlock, _ int, in ssa.Instruction) {
		if ta, ok := in.(*ssa.TypeAssert); ok {
			n := core.TypeName(ta.AssertedType)
			if strings.HasPrefix(n, "encoding") {
				set["assert:"+n] = true
			}
		}
		if c := core.Common(in); c != nil {
			n := core.CalleeName(c)
			if strings.HasPrefix(n, "encoding") || strings.HasPrefix(n, "(encoding") {
				set["call:"+n] = true
			}
		}
	})
	var out []string
	for k := range set {
		out = append(out, k)
	}
	sort.Strings(out)
	return out
}
