package props

import (
	"strings"

	"aurora-verif/checker/core"

	"golang.org/x/tools/go/ssa"
)

func init() {
	reg("C19", Meta{
		Technique:   "who-may-call (batch purity of the *InBatch methods, both ways) over the intra-package call graph, provenance and sibling agreement of the driver keys built by Index / field methods",
		Explanation: "C19 (indexed storage), structural clauses: (W1) every *InBatch method of shed.Index, Uint64Field, Uint64Vector, StringField, StructField writes only through Put/Delete of its own batch parameter and nothing it reaches calls a direct DB write — so batched writes take effect only on commit; direct methods never touch a batch; (P1) every key an Index method hands to the driver (directly or in a driver.Key) is the result of the index's encodeKeyFunc applied to the method's item (or the index prefix for iteration), and encodeKeyFunc prepends the schema-assigned index prefix — indexes cannot see each other's keys; (A1) read and write methods of one type agree on the key-space constant (index vs. field prefix length) and, for fields, on the key (f.key / indexKey(i)). Not decided: agreement of iteration (prefix/start/skip/reverse) with a reference sorted map — value reasoning over cursor movement.",
		Assumptions: []string{"the driver implements Put/Get/Delete/batch atomically per its interface (goleveldb)"},
	}, c19)
}

func c19(r *core.Run) {
	w := r.W
	const shedPkg = "pkg/shed"
	funcs := w.PkgFuncs(shedPkg)
	byName := map[string]*ssa.Function{}
	for _, f := range funcs {
		byName[core.FuncName(f)] = f
	}
	reach := func(root *ssa.Function) map[*ssa.Function]bool {
		seen := map[*ssa.Function]bool{}
		var visit func(f *ssa.Function)
		visit = func(f *ssa.Function) {
			if f == nil || seen[f] || f.Pkg == nil || f.Pkg.Pkg.Path() != core.P(shedPkg) {
				return
			}
			seen[f] = true
			for _, a := range f.AnonFuncs {
				visit(a)
			}
			core.EachInstr(f, func(_ *ssa.BasicBlock, _ int, in ssa.Instruction) {
				if c := core.Common(in); c != nil {
					visit(c.StaticCallee())
				}
			})
		}
		visit(root)
		return seen
	}
	isDirectWrite := func(n string) bool {
		return n == "(*pkg/shed.DB).Put" || n == "(*pkg/shed.DB).Delete" || strings.HasPrefix(n, "(pkg/shed/driver.") && (strings.HasSuffix(n, "DB).Put") || strings.HasSuffix(n, "DB).Delete") || strings.HasSuffix(n, "Putter).Put") || strings.HasSuffix(n, "Deleter).Delete"))
	}
	isBatchWrite := func(n string) bool {
		return strings.HasPrefix(n, "(pkg/shed/driver.") && (strings.HasSuffix(n, ").Put") || strings.HasSuffix(n, ").Delete")) && (strings.Contains(n, "Batch") || strings.Contains(n, "Writer"))
	}
	nBatch, nDirect := 0, 0
	for _, fn := range funcs {
		if fn.Signature.Recv() == nil || fn.Parent() != nil {
			continue
		}
		rt := core.TypeName(fn.Signature.Recv().Type())
		switch rt {
		case "pkg/shed.Index", "pkg/shed.Uint64Field", "pkg/shed.Uint64Vector", "pkg/shed.StringField", "pkg/shed.StructField":
		default:
			continue
		}
		name := fn.Name()
		isWriteName := strings.HasPrefix(name, "Put") || strings.HasPrefix(name, "Delete") || strings.HasPrefix(name, "Inc") || strings.HasPrefix(name, "Dec")
		if !isWriteName {
			continue
		}
		r.Saw(core.FuncName(fn))
		rs := reach(fn)
		var batchParam *ssa.Parameter
		for _, p := range fn.Params {
			if core.TypeName(p.Type()) == "pkg/shed/driver.Batching" {
				batchParam = p
			}
		}
		if strings.HasSuffix(name, "InBatch") {
			nBatch++
			okPure, okOwn, nw := true, true, 0
			var bad ssa.Instruction
			for f := range rs {
				r.Eval(core.EdgeCount(f))
				core.EachInstr(f, func(_ *ssa.BasicBlock, _ int, in ssa.Instruction) {
					c := core.Common(in)
					if c == nil {
						return
					}
					n := core.CalleeName(c)
					if isDirectWrite(n) {
						okPure, bad = false, in
					}
					if c.IsInvoke() && (c.Method.Name() == "Put" || c.Method.Name() == "Delete") && core.TypeName(c.Value.Type()) == "pkg/shed/driver.Batching" {
						nw++
						// receiver is a batch parameter of the function it occurs in
						isParam := false
						for _, p := range f.Params {
							if c.Value == ssa.Value(p) {
								isParam = true
							}
						}
						if !isParam {
							okOwn, bad = false, in
						}
					}
				})
			}
			pos := fn.Pos()
			if bad != nil {
				pos = bad.Pos()
			}
			r.Check("C19.W1", core.Key("C19.W1", fn, "no direct write reachable"), pos, okPure && batchParam != nil,
				"a batched method never writes to the database directly", "a direct DB write is reachable from "+core.FuncName(fn)+": the write takes effect before (or without) the batch commit")
			r.Check("C19.W1", core.Key("C19.W1", fn, "writes through its batch parameter"), pos, okOwn && nw >= 1,
				"a batched method stages its write on the batch it was given", core.FuncName(fn)+" does not stage a Put/Delete on its batch parameter")
		} else {
			nDirect++
			okNoBatch := batchParam == nil
			nd := 0
			for f := range rs {
				core.EachInstr(f, func(_ *ssa.BasicBlock, _ int, in ssa.Instruction) {
					c := core.Common(in)
					if c == nil {
						return
					}
					if isDirectWrite(core.CalleeName(c)) {
						nd++
					}
					if c.IsInvoke() && core.TypeName(c.Value.Type()) == "pkg/shed/driver.Batching" {
						okNoBatch = false
					}
				})
			}
			r.Check("C19.W1", core.Key("C19.W1", fn, "direct method uses no batch"), fn.Pos(), okNoBatch && nd >= 1,
				"a direct method writes to the database and never to a batch", core.FuncName(fn)+" takes/uses a batch or performs no database write")
		}
	}
	_ = isBatchWrite
	r.Floor("C19.W1", "*InBatch methods", nBatch, 5)
	r.Floor("C19.W1", "direct write methods", nDirect, 5)

	// P1/A1: Index keys
	// the key-space selectors are package variables set once from the backend
	isGlobalLoad := func(v ssa.Value, name string) bool {
		p, ok := core.LoadedFrom(core.Forward(v))
		if !ok {
			return false
		}
		g, ok := p.(*ssa.Global)
		return ok && g.Name() == name && g.Pkg.Pkg.Path() == core.P(shedPkg)
	}
	isEncodedKey := func(fn *ssa.Function, v ssa.Value) bool {
		c, idx := core.CallOf(v)
		if c == nil || idx != 0 || c.Call.IsInvoke() {
			return false
		}
		fr, ok := core.AsField(core.Forward(c.Call.Value))
		if !ok || fr.Name != "encodeKeyFunc" {
			return false
		}
		// applied to one of the method's item parameters (or a value derived from it)
		for _, p := range fn.Params {
			p := p
			if core.DerivesFrom(c.Call.Args[0], func(x ssa.Value) bool { return x == ssa.Value(p) }, nil) {
				return true
			}
		}
		return false
	}
	nKeys := 0
	for _, m := range []string{"Get", "Has", "Put", "PutInBatch", "Delete", "DeleteInBatch", "Fill", "HasMulti"} {
		fn := byName[shedPkg+".(Index)."+m]
		if fn == nil {
			r.Fatal("unresolved anchor pkg/shed.(Index).%s", m)
			continue
		}
		r.Saw(core.FuncName(fn))
		r.Eval(core.EdgeCount(fn))
		okKey, okLen, n := true, true, 0
		core.EachInstr(fn, func(_ *ssa.BasicBlock, _ int, in ssa.Instruction) {
			c := core.Common(in)
			if c == nil {
				return
			}
			name := core.CalleeName(c)
			switch {
			case name == "(*pkg/shed.DB).Get" || name == "(*pkg/shed.DB).Has" || name == "(*pkg/shed.DB).Put" || name == "(*pkg/shed.DB).Delete":
				n++
				if !isGlobalLoad(c.Args[1], "indexKeyPrefixLength") {
					okLen = false
				}
				if !isEncodedKey(fn, c.Args[2]) {
					okKey = false
				}
			}
		})
		// driver.Key literals
		for _, st := range fieldStoresAny(fn, "Data") {
			fr, _ := core.AsField(st.Addr)
			if fr.Struct != "pkg/shed/driver.Key" {
				continue
			}
			n++
			if !isEncodedKey(fn, st.Val) {
				okKey = false
			}
		}
		for _, st := range fieldStoresAny(fn, "Prefix") {
			fr, _ := core.AsField(st.Addr)
			if fr.Struct != "pkg/shed/driver.Key" {
				continue
			}
			if !isGlobalLoad(st.Val, "indexKeyPrefixLength") {
				okLen = false
			}
		}
		nKeys += n
		r.Check("C19.P1", core.Key("C19.P1", fn, "driver key = encodeKeyFunc(item)"), fn.Pos(), okKey && n >= 1,
			"the driver key is the index's encoded key of the item", "Index."+m+" addresses the driver with a key that is not f.encodeKeyFunc(item)")
		r.Check("C19.A1", core.Key("C19.A1", fn, "index key-space constant"), fn.Pos(), okLen && n >= 1,
			"index reads and writes use the same key-space constant (indexKeyPrefixLength)", "Index."+m+" uses a different key prefix length than the other index methods")
	}
	r.Floor("C19.P1", "driver accesses in Index methods", nKeys, 6)
	// encodeKeyFunc prepends the schema prefix
	if ni := byName[shedPkg+".(*DB).NewIndex"]; ni == nil {
		r.Fatal("unresolved anchor pkg/shed.(*DB).NewIndex")
	} else {
		ok := false
		for _, cl := range core.Closures(ni) {
			if len(cl.Params) != 1 || cl.Signature.Results().Len() != 2 || cl.Signature.Results().At(0).Type().String() != "[]byte" {
				continue
			}
			// closure that calls funcs.EncodeKey
			calls := 0
			core.EachInstr(cl, func(_ *ssa.BasicBlock, _ int, in ssa.Instruction) {
				if c, isC := in.(*ssa.Call); isC && !c.Call.IsInvoke() {
					if fr, ok := core.AsField(core.Forward(c.Call.Value)); ok && fr.Name == "EncodeKey" {
						calls++
					}
				}
			})
			if calls == 0 {
				continue
			}
			r.Saw(core.FuncName(cl))
			core.EachInstr(cl, func(_ *ssa.BasicBlock, _ int, in ssa.Instruction) {
				ret, isRet := in.(*ssa.Return)
				if !isRet || core.IsNilConst(ret.Results[0]) {
					return
				}
				// append(append(make, id...), key...)
				outer, o1 := isBuiltinCall(ret.Results[0], "append")
				if !o1 {
					return
				}
				inner, o2 := isBuiltinCall(outer.Call.Args[0], "append")
				if !o2 {
					return
				}
				// the schema prefix: the captured result of backend.CreateIndex (by what the
				// captured variable holds, not by its name)
				isSchemaPrefix := func(fv *ssa.FreeVar) bool {
					cell := freeVarBinding(cl, fv)
					if cell == nil {
						return false
					}
					fromCreate := func(v ssa.Value) bool {
						c, idx := core.CallOf(v)
						if c == nil || idx != 0 {
							return false
						}
						if c.Call.IsInvoke() {
							return c.Call.Method.Name() == "CreateIndex"
						}
						return strings.HasSuffix(core.CalleeName(&c.Call), ".schemaIndexPrefix")
					}
					if fromCreate(cell) {
						return true
					}
					for _, u := range core.Uses(cell) {
						if st, ok := u.(*ssa.Store); ok && st.Addr == cell && fromCreate(st.Val) {
							return true
						}
					}
					return false
				}
				idOK := false
				if p, isLoad := core.LoadedFrom(inner.Call.Args[1]); isLoad {
					if fv, isFV := p.(*ssa.FreeVar); isFV && isSchemaPrefix(fv) {
						idOK = true
					}
				}
				if fv, isFV := inner.Call.Args[1].(*ssa.FreeVar); isFV && isSchemaPrefix(fv) {
					idOK = true
				}
				_, fresh := inner.Call.Args[0].(*ssa.MakeSlice)
				kc, kidx := core.CallOf(outer.Call.Args[1])
				keyOK := kc != nil && kidx == 0
				if idOK && fresh && keyOK {
					ok = true
				}
			})
		}
		// id comes from schemaIndexPrefix(name)
		idFromSchema := len(core.Calls(ni, "(*pkg/shed.DB).schemaIndexPrefix")) == 1
		r.Check("C19.P1", core.Key("C19.P1", ni, "encoded key = schema prefix ++ user key"), ni.Pos(), ok && idFromSchema,
			"every index key starts with the index's schema-assigned prefix (indexes are isolated)", "NewIndex's key encoder no longer prepends the schema index prefix to the user key")
	}
	// fields: key agreement
	for _, t := range []string{"Uint64Field", "StringField", "StructField", "Uint64Vector"} {
		keys := map[string]bool{}
		okSpace := true
		n := 0
		for _, fn := range funcs {
			if fn.Signature.Recv() == nil || fn.Parent() != nil || core.TypeName(fn.Signature.Recv().Type()) != shedPkg+"."+t {
				continue
			}
			core.EachInstr(fn, func(_ *ssa.BasicBlock, _ int, in ssa.Instruction) {
				c := core.Common(in)
				if c != nil {
					name := core.CalleeName(c)
					if name == "(*pkg/shed.DB).Get" || name == "(*pkg/shed.DB).Put" || name == "(*pkg/shed.DB).Delete" || name == "(*pkg/shed.DB).Has" {
						n++
						keys[core.Render(c.Args[2], renderRecvLeaf(fn))] = true
						if !isGlobalLoad(c.Args[1], "fieldKeyPrefixLength") {
							okSpace = false
						}
					}
				}
				if st, ok := in.(*ssa.Store); ok {
					if fr, ok := core.AsField(st.Addr); ok && fr.Struct == "pkg/shed/driver.Key" {
						if fr.Name == "Data" {
							n++
							keys[core.Render(st.Val, renderRecvLeaf(fn))] = true
						}
						if fr.Name == "Prefix" {
							if !isGlobalLoad(st.Val, "fieldKeyPrefixLength") {
								okSpace = false
							}
						}
					}
				}
			})
		}
		var ks []string
		for k := range keys {
			ks = append(ks, k)
		}
		r.Check("C19.A1", "C19.A1@pkg/shed."+t+"#one key, one key space", w.Func(shedPkg, "(*DB).New"+t).Pos(), len(keys) == 1 && okSpace && n >= 2,
			"all methods of the field address the same key in the field key space", "methods of "+t+" use different keys/key spaces: "+strings.Join(ks, " | "))
	}
	batchStagingRules(r, "C19.B2")
	byteWrapLint(r, "C19.L2", "pkg/shed", "pkg/shed/leveldb")
	c19MustStage(r, funcs)
	c19SkipStart(r)
	c19StoredWins(r)
	c19PrefixAlias(r, funcs)
	c19ReverseBound(r)
	c19Iteration(r)
}

// batchStagingRules: a driver batch is "applied entirely, in order, at commit": staging an
// operation never looks at the live database and always records it. In the leveldb driver's
// Batch.Put / Batch.Delete every return is preceded by the corresponding call on the
// underlying goleveldb batch with the caller's key (and value), and the live handle b.db is
// touched by Commit only.
func batchStagingRules(r *core.Run, rule string) {
	w := r.W
	const B = "pkg/shed/leveldb.Batch"
	for _, row := range []struct{ m, under string }{{"Put", "(*github.com/syndtr/goleveldb/leveldb.Batch).Put"}, {"Delete", "(*github.com/syndtr/goleveldb/leveldb.Batch).Delete"}} {
		fn := w.Func("pkg/shed/leveldb", "(*Batch)."+row.m)
		if fn == nil {
			r.Fatal("unresolved anchor pkg/shed/leveldb.(*Batch).%s", row.m)
			continue
		}
		r.Saw(core.FuncName(fn))
		r.Eval(core.EdgeCount(fn))
		isStage := func(in ssa.Instruction) bool {
			c, ok := in.(*ssa.Call)
			if !ok || !core.IsCallTo(c, row.under) {
				return false
			}
			a := core.Common(c).Args
			// receiver is b.b, key is the parameter's Data
			if !core.IsFieldOf(a[0], B, "b") {
				return false
			}
			fr, ok := core.AsField(core.Forward(a[1]))
			return ok && fr.Name == "Data"
		}
		okAll := mustPassFrom([]*ssa.BasicBlock{fn.Blocks[0]}, isStage)
		r.Check(rule, core.Key(rule, fn, "always recorded in the underlying batch"), fn.Pos(), okAll,
			"every path through Batch."+row.m+" records the operation in the underlying write batch", "a path returns from Batch."+row.m+" without recording the operation (e.g. after looking at the live database): the batch's effect then depends on the database state while it was being built, not on the order of its operations")
		touchesDB := false
		core.EachInstr(fn, func(_ *ssa.BasicBlock, _ int, in ssa.Instruction) {
			if fa, ok := in.(*ssa.FieldAddr); ok && core.IsFieldOf(fa, B, "db") {
				touchesDB = true
			}
		})
		r.Check(rule, core.Key(rule, fn, "staging does not touch the live database"), fn.Pos(), !touchesDB,
			"Batch."+row.m+" does not use the live database handle", "Batch."+row.m+" reads the live database while the batch is being built")
	}
}

// renderRecvLeaf names the receiver (a spilled value receiver) uniformly across methods.
func renderRecvLeaf(fn *ssa.Function) func(ssa.Value) (string, bool) {
	return func(v ssa.Value) (string, bool) {
		if len(fn.Params) > 0 && v == ssa.Value(fn.Params[0]) {
			return "RECV", true
		}
		if a, ok := v.(*ssa.Alloc); ok && len(fn.Params) > 0 && a.Comment == fn.Params[0].Name() {
			return "RECV", true
		}
		for i, p := range fn.Params {
			if i > 0 && v == ssa.Value(p) && p.Type().String() == "uint64" {
				return "INDEX", true
			}
		}
		return "", false
	}
}
