package props

import (
	"encoding/json"
	"fmt"
	"os"
	"path/filepath"
	"runtime"
	"strings"

	"aurora-verif/checker/core"
)

// Control is one seeded-variant self-test of a rule: a textual edit of one repository file
// that breaks exactly the clause the named rule decides. Thorough runs apply it through
// packages.Config.Overlay (nothing under /repo is modified), re-load the program and
// require the rule to report a violation that the unmodified tree does not have.
type Control struct {
	Name string `json:"name"`
	File string `json:"file"` // repository-relative
	Old  string `json:"old"`
	New  string `json:"new"`
	Rule string `json:"rule"` // rule id (prefix) expected to fire
}

// RunControls executes the committed control table of property id.
func RunControls(id, repo, verifDir string, base *core.Run, findings []core.Finding) *core.Controls {
	res := &core.Controls{}
	b, err := os.ReadFile(filepath.Join(verifDir, "controls", id+".json"))
	if err != nil {
		return res
	}
	var ctl []Control
	if err := json.Unmarshal(b, &ctl); err != nil {
		res.Missed = append(res.Missed, "controls file unreadable: "+err.Error())
		return res
	}
	baseViol := map[string]bool{}
	for _, o := range base.Obs {
		if o.Status != "ok" {
			baseViol[o.Key] = true
		}
	}
	for _, c := range ctl {
		res.Attempted++
		path := filepath.Join(repo, c.File)
		src, err := os.ReadFile(path)
		if err != nil || !strings.Contains(string(src), c.Old) {
			res.List = append(res.List, c.Name+": stale (source pattern no longer present) — skipped")
			continue
		}
		mut := strings.Replace(string(src), c.Old, c.New, 1)
		w, err := core.Load(repo, map[string][]byte{path: []byte(mut)})
		if err != nil {
			res.List = append(res.List, c.Name+": mutant does not type-check — skipped")
			continue
		}
		res.Compiled++
		r := core.NewRun(w, id, "control")
		func() {
			defer func() {
				if e := recover(); e != nil {
					r.Fatal("analyser panic on control %s: %v", c.Name, e)
				}
			}()
			Run(id, r)
		}()
		hit := ""
		for _, o := range r.Obs {
			if o.Status == "violation" && !baseViol[o.Key] && strings.HasPrefix(o.Rule, c.Rule) {
				hit = o.Key
				break
			}
		}
		if hit == "" {
			// a floor failure or undecided anchor also counts as "noticed" only if the
			// control says so (rule "FLOOR")
			if c.Rule == "FLOOR" && r.Failed() {
				hit = "floor/undecided"
			}
		}
		if hit != "" {
			res.Detected++
			res.List = append(res.List, fmt.Sprintf("%s: detected by %s", c.Name, hit))
		} else {
			res.Missed = append(res.Missed, fmt.Sprintf("%s (%s: expected rule %s)", c.Name, c.File, c.Rule))
		}
		w = nil
		runtime.GC()
	}
	return res
}
