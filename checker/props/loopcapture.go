package props

import (
	"aurora-verif/checker/core"

	"golang.org/x/tools/go/ssa"
)

// goLoopCapture (Y1): a goroutine started inside a loop does not capture a variable that
// the loop overwrites on each iteration. Under the module's language version (go 1.17: one
// loop variable shared by all iterations) such a goroutine reads whatever the variable
// holds when it gets to run — in HandshakeAllKept the group `g` of a LATER iteration, so a
// peer whose keep-alive failed is removed from the wrong group and stays listed as
// connected where it is no longer a neighbour. go/ssa models the language version of the
// file: a per-iteration variable (go >= 1.22, or `g := g`) is a fresh cell inside the loop
// and is not reported.
func goLoopCapture(r *core.Run, rule, pkgRel string, floor int) {
	n := 0
	done := map[*ssa.Function]bool{}
	for _, top := range r.W.PkgFuncs(pkgRel) {
		for _, fn := range core.WithClosures(top) {
			if len(fn.Blocks) == 0 || done[fn] {
				continue
			}
			done[fn] = true
			reach := func(from *ssa.BasicBlock) map[*ssa.BasicBlock]bool {
				seen := map[*ssa.BasicBlock]bool{}
				work := append([]*ssa.BasicBlock{}, from.Succs...)
				for len(work) > 0 {
					b := work[len(work)-1]
					work = work[:len(work)-1]
					if seen[b] {
						continue
					}
					seen[b] = true
					work = append(work, b.Succs...)
				}
				return seen
			}
			core.EachInstr(fn, func(gb *ssa.BasicBlock, _ int, in ssa.Instruction) {
				g, ok := in.(*ssa.Go)
				if !ok {
					return
				}
				mc, ok := g.Call.Value.(*ssa.MakeClosure)
				if !ok {
					return
				}
				fwd := reach(gb)
				if !fwd[gb] {
					return // not in a loop
				}
				n++
				cl := mc.Fn.(*ssa.Function)
				var bad *ssa.Alloc
				for i, b := range mc.Bindings {
					a, ok := b.(*ssa.Alloc)
					if !ok {
						continue
					}
					// some loop around the go statement overwrites the cell without
					// re-creating it: a cycle through the go statement's block passes a
					// store to the cell and avoids the block that allocates it
					rewritten := false
					if a.Block() != gb {
						fwdA := reachAvoiding(gb, a.Block())
						for _, u := range core.Uses(a) {
							if st, ok := u.(*ssa.Store); ok && st.Addr == ssa.Value(a) && st.Block() != a.Block() {
								if (st.Block() == gb || fwdA[st.Block()]) && (st.Block() == gb || reachAvoiding(st.Block(), a.Block())[gb]) && fwdA[gb] {
									rewritten = true
								}
							}
						}
					}
					// … and the goroutine reads it
					read := false
					if i < len(cl.FreeVars) {
						for _, u := range core.Uses(cl.FreeVars[i]) {
							if ld, ok := u.(*ssa.UnOp); ok && ld.X == ssa.Value(cl.FreeVars[i]) {
								read = true
							}
						}
					}
					if rewritten && read {
						bad = a
					}
				}
				name := ""
				if bad != nil {
					name = bad.Comment
				}
				r.Saw(core.FuncName(fn))
				r.Check(rule, lsKey(rule, fn, "goroutine started in a loop captures no variable the loop overwrites"), g.Pos(), bad == nil,
					"a goroutine started inside a loop works on its own iteration's values", "the goroutine reads `"+name+"`, one variable shared by all iterations of the enclosing loop (module language version < 1.22): by the time it runs the loop may have moved on, and it acts on a later iteration's value")
			})
		}
	}
	r.Floor(rule, "goroutines started inside loops in "+pkgRel, n, floor)
}

// reachAvoiding: blocks reachable from `from` by at least one edge without entering `avoid`.
func reachAvoiding(from, avoid *ssa.BasicBlock) map[*ssa.BasicBlock]bool {
	seen := map[*ssa.BasicBlock]bool{}
	work := append([]*ssa.BasicBlock{}, from.Succs...)
	for len(work) > 0 {
		b := work[len(work)-1]
		work = work[:len(work)-1]
		if b == avoid || seen[b] {
			continue
		}
		seen[b] = true
		work = append(work, b.Succs...)
	}
	return seen
}
