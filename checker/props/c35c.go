package props

import (
	"fmt"
	"go/constant"
	"strings"

	"aurora-verif/checker/core"

	"golang.org/x/tools/go/ssa"
)

// c35Matcher (M1): "honoured only if its role's policy allows the requested path and method".
// The decision is the casbin matcher handed to model.NewModelFromString as a constant: a
// boolean formula over comparisons and function calls that mention the request's role
// (r.sub), path (r.obj) and method (r.act). The formula is parsed (|| below &&, parentheses,
// calls, ==, !=, +, !) and each comparison / call is treated as an independent proposition,
// classified by the request attribute it mentions. Necessary condition, decided by the truth
// table of the formula (at most 2^12 rows): whenever all role atoms are false the formula is
// false, likewise for the path atoms and for the method atoms — no disjunct lets a request
// through on fewer than the three tests. Conjunct order, added tests and extra aliases do not
// matter; a lost pair of parentheses does.
func c35Matcher(r *core.Run) {
	const rule = "C35.M1"
	fn := r.W.Func("pkg/auth", "New")
	if fn == nil {
		r.Fatal("unresolved anchor pkg/auth.New")
		return
	}
	r.Saw(core.FuncName(fn))
	n := 0
	for _, c := range core.Calls(fn, "github.com/casbin/casbin/v2/model.NewModelFromString") {
		k, ok := core.Forward(core.Common(c).Args[0]).(*ssa.Const)
		if !ok || k.Value == nil || k.Value.Kind() != constant.String {
			r.Check(rule, core.Key(rule, fn, "policy model is a constant"), c.Pos(), false,
				"the policy model is a compile-time constant", "the policy model handed to casbin is not a constant string: the matcher cannot be decided from the source")
			continue
		}
		n++
		src := constant.StringVal(k.Value)
		m, found := matcherLine(src)
		if !found {
			r.Check(rule, core.Key(rule, fn, "matcher present"), c.Pos(), false, "the model has a matcher", "no `m = …` line under [matchers] in the policy model")
			continue
		}
		e, err := parseMatcher(m)
		if err != nil {
			r.Check(rule, core.Key(rule, fn, "matcher parses"), c.Pos(), false, "the matcher parses", "matcher `"+m+"` not understood: "+err.Error())
			continue
		}
		var atoms []*mExpr
		e.atoms(&atoms)
		r.Eval(1 << uint(len(atoms)))
		if len(atoms) > 12 {
			r.Check(rule, core.Key(rule, fn, "matcher size"), c.Pos(), false, "the matcher has at most 12 atoms", fmt.Sprintf("matcher has %d atoms: truth table not enumerated", len(atoms)))
			continue
		}
		for _, attr := range []struct{ name, what string }{{"r.sub", "role"}, {"r.obj", "path"}, {"r.act", "method"}} {
			var mine []int
			for i, a := range atoms {
				if a.mentions(attr.name) {
					mine = append(mine, i)
				}
			}
			ok := len(mine) > 0
			witness := ""
			if ok {
				for row := 0; row < 1<<uint(len(atoms)); row++ {
					skip := false
					for _, i := range mine {
						if row&(1<<uint(i)) != 0 {
							skip = true
						}
					}
					if skip {
						continue
					}
					val := map[*mExpr]bool{}
					for i, a := range atoms {
						val[a] = row&(1<<uint(i)) != 0
					}
					if e.eval(val) {
						ok = false
						var t []string
						for i, a := range atoms {
							if row&(1<<uint(i)) != 0 {
								t = append(t, a.String())
							}
						}
						witness = strings.Join(t, " and ")
						break
					}
				}
			}
			r.Check(rule, core.Key(rule, fn, "matcher allows nothing without the "+attr.what+" test"), c.Pos(), ok,
				"the matcher is false whenever every test of the request's "+attr.what+" ("+attr.name+") is false",
				"the matcher `"+m+"` lets a request through although every test of its "+attr.what+" ("+attr.name+") fails — it suffices that "+witness+" holds (operator precedence: && binds tighter than ||)")
		}
	}
	r.Floor(rule, "constant policy models in auth.New", n, 1)
}

func matcherLine(model string) (string, bool) {
	in := false
	for _, ln := range strings.Split(model, "\n") {
		ln = strings.TrimSpace(ln)
		if strings.HasPrefix(ln, "[") {
			in = ln == "[matchers]"
			continue
		}
		if in && strings.HasPrefix(ln, "m") {
			rest := strings.TrimSpace(ln[1:])
			if strings.HasPrefix(rest, "=") {
				return strings.TrimSpace(rest[1:]), true
			}
		}
	}
	return "", false
}

// mExpr: op is "||", "&&", "!", or "" for an atom (comparison, call, identifier).
type mExpr struct {
	op   string
	kids []*mExpr
	text string // atoms: source text
}

func (e *mExpr) String() string { return e.text }

func (e *mExpr) atoms(out *[]*mExpr) {
	if e.op == "" {
		*out = append(*out, e)
		return
	}
	for _, k := range e.kids {
		k.atoms(out)
	}
}

func (e *mExpr) mentions(name string) bool {
	for i := 0; i+len(name) <= len(e.text); i++ {
		if e.text[i:i+len(name)] == name {
			before := i == 0 || !isIdentByte(e.text[i-1])
			after := i+len(name) == len(e.text) || !isIdentByte(e.text[i+len(name)])
			if before && after {
				return true
			}
		}
	}
	return false
}

func (e *mExpr) eval(val map[*mExpr]bool) bool {
	switch e.op {
	case "":
		return val[e]
	case "!":
		return !e.kids[0].eval(val)
	case "&&":
		for _, k := range e.kids {
			if !k.eval(val) {
				return false
			}
		}
		return true
	default:
		for _, k := range e.kids {
			if k.eval(val) {
				return true
			}
		}
		return false
	}
}

func isIdentByte(b byte) bool {
	return b == '_' || b == '.' || (b >= '0' && b <= '9') || (b >= 'a' && b <= 'z') || (b >= 'A' && b <= 'Z')
}

type mParser struct {
	toks []string
	pos  int
}

func mLex(s string) ([]string, error) {
	var out []string
	for i := 0; i < len(s); {
		c := s[i]
		switch {
		case c == ' ' || c == '\t':
			i++
		case isIdentByte(c):
			j := i
			for j < len(s) && isIdentByte(s[j]) {
				j++
			}
			out = append(out, s[i:j])
			i = j
		case c == '\'' || c == '"':
			j := i + 1
			for j < len(s) && s[j] != c {
				j++
			}
			if j >= len(s) {
				return nil, fmt.Errorf("unterminated string")
			}
			out = append(out, s[i:j+1])
			i = j + 1
		case strings.HasPrefix(s[i:], "&&") || strings.HasPrefix(s[i:], "||") || strings.HasPrefix(s[i:], "==") || strings.HasPrefix(s[i:], "!=") || strings.HasPrefix(s[i:], ">=") || strings.HasPrefix(s[i:], "<="):
			out = append(out, s[i:i+2])
			i += 2
		case strings.ContainsRune("()!,+<>", rune(c)):
			out = append(out, string(c))
			i++
		default:
			return nil, fmt.Errorf("unexpected %q", c)
		}
	}
	return out, nil
}

func parseMatcher(s string) (*mExpr, error) {
	toks, err := mLex(s)
	if err != nil {
		return nil, err
	}
	p := &mParser{toks: toks}
	e, err := p.or()
	if err != nil {
		return nil, err
	}
	if p.pos != len(p.toks) {
		return nil, fmt.Errorf("trailing %q", p.toks[p.pos])
	}
	return e, nil
}

func (p *mParser) peek() string {
	if p.pos < len(p.toks) {
		return p.toks[p.pos]
	}
	return ""
}

func (p *mParser) or() (*mExpr, error) {
	l, err := p.and()
	if err != nil {
		return nil, err
	}
	for p.peek() == "||" {
		p.pos++
		rr, err := p.and()
		if err != nil {
			return nil, err
		}
		l = &mExpr{op: "||", kids: []*mExpr{l, rr}}
	}
	return l, nil
}

func (p *mParser) and() (*mExpr, error) {
	l, err := p.unary()
	if err != nil {
		return nil, err
	}
	for p.peek() == "&&" {
		p.pos++
		rr, err := p.unary()
		if err != nil {
			return nil, err
		}
		l = &mExpr{op: "&&", kids: []*mExpr{l, rr}}
	}
	return l, nil
}

func (p *mParser) unary() (*mExpr, error) {
	if p.peek() == "!" {
		p.pos++
		k, err := p.unary()
		if err != nil {
			return nil, err
		}
		return &mExpr{op: "!", kids: []*mExpr{k}}, nil
	}
	// a parenthesised boolean sub-formula, unless it turns out to be an operand of a
	// comparison / concatenation (then the whole comparison is one atom)
	if p.peek() == "(" {
		save := p.pos
		p.pos++
		e, err := p.or()
		if err == nil && p.peek() == ")" {
			p.pos++
			switch p.peek() {
			case "==", "!=", "+", "<", ">", "<=", ">=":
			default:
				return e, nil
			}
		}
		p.pos = save
	}
	return p.comparison()
}

// comparison: operand { (==|!=|<|>|<=|>=|+) operand } — one atom, kept as text.
func (p *mParser) comparison() (*mExpr, error) {
	start := p.pos
	if err := p.operand(); err != nil {
		return nil, err
	}
	for {
		switch p.peek() {
		case "==", "!=", "+", "<", ">", "<=", ">=":
			p.pos++
			if err := p.operand(); err != nil {
				return nil, err
			}
			continue
		}
		break
	}
	return &mExpr{text: strings.Join(p.toks[start:p.pos], " ")}, nil
}

func (p *mParser) operand() error {
	t := p.peek()
	switch {
	case t == "":
		return fmt.Errorf("unexpected end")
	case t == "(":
		depth := 0
		for p.pos < len(p.toks) {
			if p.toks[p.pos] == "(" {
				depth++
			}
			if p.toks[p.pos] == ")" {
				depth--
				if depth == 0 {
					p.pos++
					return nil
				}
			}
			p.pos++
		}
		return fmt.Errorf("unbalanced parentheses")
	case t[0] == '\'' || t[0] == '"' || isIdentByte(t[0]):
		p.pos++
		if isIdentByte(t[0]) && p.peek() == "(" { // call: skip the balanced argument list
			return p.operand()
		}
		return nil
	}
	return fmt.Errorf("unexpected %q", t)
}

// c35MethodAnchored (M2): "its role's policy allows the requested … method". casbin's
// regexMatch(r.act, p.act) is regexp.MatchString — unanchored: a policy "GET" also lets
// "FORGET" or "GETX" through. Either the matcher anchors the pattern it builds
// (regexMatch(r.act, '^(' + p.act + ')$')), or every method pattern of the policy table
// (third column of the rows added in applyPolicies) is itself anchored: ^(…)$, or ^…$
// without alternation.
func c35MethodAnchored(r *core.Run) {
	const rule = "C35.M2"
	fn := r.W.Func("pkg/auth", "New")
	pol := r.W.Func("pkg/auth", "applyPolicies")
	if fn == nil || pol == nil {
		r.Fatal("unresolved anchor pkg/auth.New / applyPolicies")
		return
	}
	r.Saw(core.FuncName(pol))
	// method patterns of the policy rows
	var pats []string
	core.EachInstr(pol, func(_ *ssa.BasicBlock, _ int, in ssa.Instruction) {
		st, ok := in.(*ssa.Store)
		if !ok {
			return
		}
		ia, ok := st.Addr.(*ssa.IndexAddr)
		if !ok {
			return
		}
		if i, isC := core.ConstInt(ia.Index); !isC || i != 2 {
			return
		}
		if k, isK := st.Val.(*ssa.Const); isK && k.Value != nil && k.Value.Kind() == constant.String {
			pats = append(pats, constant.StringVal(k.Value))
		}
	})
	r.Floor(rule, "method patterns in the policy table", len(pats), 10)
	anchoredPat := func(p string) bool {
		if strings.HasPrefix(p, "^(") && strings.HasSuffix(p, ")$") {
			return true
		}
		return strings.HasPrefix(p, "^") && strings.HasSuffix(p, "$") && !strings.Contains(p, "|")
	}
	allPats, badPat := true, ""
	for _, p := range pats {
		if !anchoredPat(p) {
			allPats = false
			badPat = p
			break
		}
	}
	n := 0
	for _, c := range core.Calls(fn, "github.com/casbin/casbin/v2/model.NewModelFromString") {
		k, ok := core.Forward(core.Common(c).Args[0]).(*ssa.Const)
		if !ok || k.Value == nil || k.Value.Kind() != constant.String {
			continue // reported by M1
		}
		m, found := matcherLine(constant.StringVal(k.Value))
		if !found {
			continue
		}
		toks, err := mLex(m)
		if err != nil {
			continue
		}
		for i := 0; i+3 < len(toks); i++ {
			if toks[i] != "regexMatch" || toks[i+1] != "(" || toks[i+2] != "r.act" || toks[i+3] != "," {
				continue
			}
			n++
			// the pattern argument: tokens up to the matching ")"
			depth, j := 1, i+4
			var arg []string
			for ; j < len(toks) && depth > 0; j++ {
				if toks[j] == "(" {
					depth++
				}
				if toks[j] == ")" {
					depth--
					if depth == 0 {
						break
					}
				}
				arg = append(arg, toks[j])
			}
			lit := func(t string) (string, bool) {
				if len(t) >= 2 && (t[0] == '\'' || t[0] == '"') {
					return t[1 : len(t)-1], true
				}
				return "", false
			}
			anch := false
			if len(arg) >= 3 {
				a, okA := lit(arg[0])
				z, okZ := lit(arg[len(arg)-1])
				anch = okA && okZ && strings.HasPrefix(a, "^(") && strings.HasSuffix(z, ")$")
			}
			r.Check(rule, core.Key(rule, fn, "method pattern matched as a whole"), c.Pos(), anch || allPats,
				"the request's method is matched against the whole policy pattern (anchored)",
				"regexMatch("+strings.Join(toks[i+2:j], " ")+") is regexp.MatchString, unanchored, and the policy pattern \""+badPat+"\" is not anchored either: a token whose policy allows GET is also honoured for methods such as FORGET or GETX")
		}
	}
	r.Floor(rule, "method tests in the matcher", n, 1)
}
