package props

import (
	"aurora-verif/checker/core"

	"golang.org/x/tools/go/ssa"
)

func init() {
	reg("C15", Meta{
		Technique:   "must-guard reachability on SSA: the counter-changing traversal is behind the root-pin lookup, in the service and in the HTTP handlers",
		Explanation: "C15 (pin / unpin idempotent inverses), structural clauses: (G1) pinning.Service.CreatePin reaches the chunk traversal (which increments every chunk's pin counter) and the root-pin write only on the branch where the root pin was looked up and found absent; DeletePin reaches the unpin traversal and the root-pin delete only on the branch where the root pin exists; (G2) the HTTP handlers call CreatePin only behind HasPin()==false and DeletePin only behind HasPin()==true, both behind err==nil; (P1) the traversal callbacks use ModeSetPin / ModeSetUnpin on the visited leaf with the root as context; (A1) both callbacks apply their Set on every path, i.e. to every leaf occurrence they are called for (no one-sided skipping or de-duplication, which would make pin and unpin change a repeated chunk's counter by different amounts). Not decided: the counter values themselves (C13/C14 findings in the local store limit what the counters mean).",
	}, c15)
}

func c15(r *core.Run) {
	c15UploadPinEveryChunk(r)
	w := r.W
	const S = "pkg/pinning.Service"
	cp := w.Func("pkg/pinning", "(*Service).CreatePin")
	dp := w.Func("pkg/pinning", "(*Service).DeletePin")
	if cp == nil || dp == nil {
		r.Fatal("unresolved anchor pkg/pinning.(*Service).CreatePin/DeletePin")
		return
	}
	const trav = "(pkg/traversal.Traverser).Traverse"
	const get = "(pkg/storage.StateStorer).Get"
	notFoundIs := func(fn *ssa.Function) core.Atom {
		return core.BoolCallAtom(func(c *ssa.Call) bool {
			if !core.IsCallTo(c, "errors.Is") {
				return false
			}
			ec, _ := core.CallOf(c.Call.Args[0])
			if ec == nil || !core.IsCallTo(ec, get) {
				return false
			}
			g, ok := core.LoadedFrom(core.Forward(c.Call.Args[1]))
			if !ok {
				return false
			}
			gl, ok := g.(*ssa.Global)
			return ok && gl.Name() == "ErrNotFound"
		})
	}
	c15HasPin(r, get)
	// CreatePin
	r.Saw(core.FuncName(cp))
	r.Eval(core.EdgeCount(cp))
	absent, _ := core.AtomEdges(cp, notFoundIs(cp))
	gets := core.Calls(cp, get)
	okKey := len(gets) == 1
	if okKey {
		kc, _ := core.CallOf(core.Common(gets[0]).Args[0])
		okKey = kc != nil && core.IsCallTo(kc, "pkg/pinning.rootPinKey") && core.Forward(kc.Call.Args[0]) == ssa.Value(cp.Params[2])
	}
	r.Check("C15.G1", core.Key("C15.G1", cp, "root pin looked up under the reference's key"), cp.Pos(), okKey,
		"CreatePin looks the root pin up under rootPinKey(ref)", "the root-pin lookup does not use rootPinKey(ref)")
	sinks := append(core.Calls(cp, trav), core.Calls(cp, "(pkg/storage.StateStorer).Put")...)
	r.Floor("C15.G1", "traversal / root-pin write in CreatePin", len(sinks), 2)
	for _, s := range sinks {
		r.Check("C15.G1", core.Key("C15.G1", cp, core.CalleeName(core.Common(s))+" behind root pin absent"), s.Pos(), len(absent) > 0 && core.OnlyBehind(cp, s, absent),
			"the pin traversal and the root-pin write happen only when the reference is not pinned yet", "pinning an already pinned reference still runs "+core.CalleeName(core.Common(s))+": every chunk's pin counter is incremented again")
	}
	// DeletePin
	r.Saw(core.FuncName(dp))
	r.Eval(core.EdgeCount(dp))
	present := core.EdgeSet{}
	hp, _ := core.AtomEdges(dp, func(base ssa.Value) (bool, bool) {
		if c, idx := core.CallOf(base); c != nil && idx == 0 && core.IsCallTo(c, "(*pkg/pinning.Service).HasPin") && core.Forward(c.Call.Args[1]) == ssa.Value(dp.Params[2]) {
			return true, true
		}
		return false, false
	})
	gp, _ := core.AtomEdges(dp, core.ErrNilAtom(func(c *ssa.Call) bool { return core.IsCallTo(c, get) }))
	for e := range hp {
		present[e] = true
	}
	for e := range gp {
		present[e] = true
	}
	dsinks := append(core.Calls(dp, trav), core.Calls(dp, "(pkg/storage.StateStorer).Delete")...)
	r.Floor("C15.G1", "traversal / root-pin delete in DeletePin", len(dsinks), 2)
	for _, s := range dsinks {
		r.Check("C15.G1", core.Key("C15.G1", dp, core.CalleeName(core.Common(s))+" behind root pin present"), s.Pos(), len(present) > 0 && core.OnlyBehind(dp, s, present),
			"the unpin traversal and the root-pin delete happen only when the reference is pinned", "unpinning a reference that is not pinned still runs "+core.CalleeName(core.Common(s))+": chunk pin counters held for other pins are decremented")
	}
	// P1 callbacks
	modePin := mustConst(r, "pkg/storage", "ModeSetPin")
	modeUnpin := mustConst(r, "pkg/storage", "ModeSetUnpin")
	for _, row := range []struct {
		fn   *ssa.Function
		mode int64
		name string
	}{{cp, modePin, "ModeSetPin"}, {dp, modeUnpin, "ModeSetUnpin"}} {
		ok := false
		for _, cl := range core.Closures(row.fn) {
			for _, c := range core.Calls(cl, "(pkg/storage.Storer).Set", "(pkg/storage.Setter).Set") {
				args := core.Common(c).Args
				m, isC := core.ConstInt(args[1])
				el := variadicElems(args[2])
				if isC && m == row.mode && len(el) == 1 && el[0] == ssa.Value(cl.Params[0]) {
					ok = true
				}
			}
		}
		r.Check("C15.P1", core.Key("C15.P1", row.fn, "leaf callback uses "+row.name), row.fn.Pos(), ok,
			"the traversal callback applies "+row.name+" to the visited chunk", "the traversal callback does not Set("+row.name+", leaf)")
		// A1: pin and unpin visit symmetric: each applies its Set to EVERY visited leaf (no
		// early return, no de-duplication on one side only) — otherwise a chunk occurring k
		// times in a tree is pinned once and unpinned k times (or vice versa)
		for _, cl := range core.Closures(row.fn) {
			sets := core.Calls(cl, "(pkg/storage.Storer).Set", "(pkg/storage.Setter).Set")
			if len(sets) == 0 {
				continue
			}
			uncond := mustPassFrom([]*ssa.BasicBlock{cl.Blocks[0]}, func(in ssa.Instruction) bool {
				for _, s := range sets {
					if in == s {
						return true
					}
				}
				return false
			})
			r.Check("C15.A1", core.Key("C15.A1", row.fn, "every visited leaf gets "+row.name), cl.Pos(), uncond,
				"the traversal callback changes the pin counter of every leaf occurrence it is called for", "the callback can return without Set("+row.name+", leaf) (skipping / de-duplicating visits on one side only): pin and unpin no longer change a repeated chunk's counter by the same amount")
		}
	}
	_ = S

	// G2 handlers
	for _, row := range []struct {
		h, call string
		wantHas bool
	}{{"(*server).pinRootHash", "(pkg/pinning.Interface).CreatePin", false}, {"(*server).unpinRootHash", "(pkg/pinning.Interface).DeletePin", true}} {
		fn := w.Func("pkg/api", row.h)
		if fn == nil {
			r.Fatal("unresolved anchor pkg/api.%s", row.h)
			continue
		}
		r.Saw(core.FuncName(fn))
		r.Eval(core.EdgeCount(fn))
		const hasPin = "(pkg/pinning.Interface).HasPin"
		pos, neg := core.AtomEdges(fn, func(base ssa.Value) (bool, bool) {
			if c, idx := core.CallOf(base); c != nil && idx == 0 && core.IsCallTo(c, hasPin) {
				return true, true
			}
			return false, false
		})
		good := neg
		if row.wantHas {
			good = pos
		}
		okErr, _ := core.AtomEdges(fn, errNilOf(hasPin))
		calls := core.Calls(fn, row.call)
		r.Floor("C15.G2", row.call+" in "+row.h, len(calls), 1)
		for _, c := range calls {
			r.Check("C15.G2", core.Key("C15.G2", fn, "behind HasPin state"), c.Pos(), len(good) > 0 && core.OnlyBehind(fn, c, good) && len(okErr) > 0 && core.OnlyBehind(fn, c, okErr),
				"the handler changes pin state only when the reference is in the opposite state (and the lookup succeeded)", "the handler calls "+row.call+" without the HasPin pre-check")
		}
	}
	pinCounterRules(r, "C15")
}
