package props

import (
	"sort"
	"strings"

	"aurora-verif/checker/core"

	"golang.org/x/tools/go/ssa"
)

func init() {
	reg("C31", Meta{
		Technique:   "field-based alias classes over the *big.Int fields of traffic.Traffic + in-place-mutation rule on SSA + who-may-write check for the cashed-amount field",
		Explanation: "C31 (issuing never inflates the cashed record), structural clauses: (M1) the *big.Int objects that can be shared with Traffic.retrieveChainTraffic (flow-insensitive alias classes over the struct's big.Int fields: field-to-field assignment and helpers that return one of their arguments, e.g. maxBigint) are never the receiver of an in-place big.Int mutator (Add, Sub, Set, …) anywhere in pkg/settlement/traffic; (W1) retrieveChainTraffic is assigned only by the constructor and the chain-refresh routine. Not decided: the balance identity itself and monotonicity of payouts (value arithmetic).",
	}, c31)
	reg("C33", Meta{
		Technique:   "lockset analysis over pkg/settlement/traffic (writes of the per-peer totals and the persist call inside the critical section) + must-precede/provenance rules for persist-after-update and restore-by-maximum",
		Explanation: "C33 (totals survive restarts), structural clauses: (Lk1) every write of Traffic.{retrieveTraffic,transferTraffic,retrieveChequeTraffic,transferChequeTraffic} happens with that Traffic's mutex held; (Lk2) in PutRetrieveTraffic/PutTransferTraffic the total handed to the cheque store is read, and the persist call made, inside the critical section that updated it — otherwise an older total can be persisted last and traffic is forgotten after a restart; (F1) putSendCheque updates the in-memory payout before persisting the cheque; (P1) on restore every total is the maximum of its sources (maxBigint over chain value, last cheque and persisted total). Not decided: the numeric values, store durability.",
		Assumptions: []string{"StateStorer.Put is durable and atomic per key"},
	}, c33)
}

const trafficT = "pkg/settlement/traffic.Traffic"

// returnsAnArg: fn's every return value is one of its parameters; returns those indices.
func returnsAnArg(fn *ssa.Function) []int {
	if fn == nil || fn.Blocks == nil {
		return nil
	}
	set := map[int]bool{}
	ok := true
	core.EachInstr(fn, func(_ *ssa.BasicBlock, _ int, in ssa.Instruction) {
		ret, isRet := in.(*ssa.Return)
		if !isRet || len(ret.Results) != 1 {
			return
		}
		var walk func(v ssa.Value, d int)
		walk = func(v ssa.Value, d int) {
			if d > 4 {
				ok = false
				return
			}
			if phi, isPhi := v.(*ssa.Phi); isPhi {
				for _, e := range phi.Edges {
					walk(e, d+1)
				}
				return
			}
			for i, p := range fn.Params {
				if v == ssa.Value(p) {
					set[i] = true
					return
				}
			}
			ok = false
		}
		walk(ret.Results[0], 0)
	})
	if !ok {
		return nil
	}
	var out []int
	for i := range set {
		out = append(out, i)
	}
	sort.Ints(out)
	return out
}

// aliasClasses computes, flow-insensitively, which big.Int fields of Traffic can hold the
// same object: union-find over `t.f = <value derived from t.g>`.
func aliasClasses(funcs []*ssa.Function) map[string]string {
	parent := map[string]string{}
	var find func(x string) string
	find = func(x string) string {
		if parent[x] == "" || parent[x] == x {
			parent[x] = x
			return x
		}
		r := find(parent[x])
		parent[x] = r
		return r
	}
	union := func(a, b string) { parent[find(a)] = find(b) }
	var sources func(v ssa.Value, depth int, out map[string]bool)
	sources = func(v ssa.Value, depth int, out map[string]bool) {
		if depth > 6 {
			return
		}
		v = core.Forward(v)
		if fr, ok := core.AsField(v); ok && !fr.Addr && fr.Struct == trafficT {
			out[fr.Name] = true
			return
		}
		switch x := v.(type) {
		case *ssa.Phi:
			for _, e := range x.Edges {
				sources(e, depth+1, out)
			}
		case *ssa.Call:
			if callee := x.Call.StaticCallee(); callee != nil {
				for _, i := range returnsAnArg(callee) {
					if i < len(x.Call.Args) {
						sources(x.Call.Args[i], depth+1, out)
					}
				}
			}
		}
	}
	for _, fn := range funcs {
		core.EachInstr(fn, func(_ *ssa.BasicBlock, _ int, in ssa.Instruction) {
			st, ok := in.(*ssa.Store)
			if !ok {
				return
			}
			fr, ok := core.AsField(st.Addr)
			if !ok || !fr.Addr || fr.Struct != trafficT {
				return
			}
			find(fr.Name)
			src := map[string]bool{}
			sources(st.Val, 0, src)
			for s := range src {
				union(fr.Name, s)
			}
		})
	}
	out := map[string]string{}
	for k := range parent {
		out[k] = find(k)
	}
	return out
}

func c31(r *core.Run) {
	w := r.W
	funcs := w.PkgFuncs("pkg/settlement/traffic")
	if len(funcs) == 0 {
		r.Fatal("unresolved anchor package pkg/settlement/traffic")
		return
	}
	for _, fn := range funcs {
		r.Eval(core.EdgeCount(fn))
	}
	cls := aliasClasses(funcs)
	root, ok := cls["retrieveChainTraffic"]
	if !ok {
		r.Fatal("unresolved anchor field Traffic.retrieveChainTraffic (no store found)")
		return
	}
	members := map[string]bool{"retrieveChainTraffic": true}
	var names []string
	for f, c := range cls {
		if c == root {
			members[f] = true
		}
	}
	for f := range members {
		names = append(names, f)
	}
	sort.Strings(names)
	r.Floor("C31.M1", "fields that may share the cashed-amount object ("+strings.Join(names, ",")+")", len(names), 2)
	muts := inPlaceMutations(funcs, trafficT, members)
	byFn := map[*ssa.Function][]ssa.Instruction{}
	for _, m := range muts {
		byFn[m.Parent()] = append(byFn[m.Parent()], m)
	}
	// one obligation per function of the package that touches a class member
	touch := map[*ssa.Function]bool{}
	for _, fn := range funcs {
		core.EachInstr(fn, func(_ *ssa.BasicBlock, _ int, in ssa.Instruction) {
			if v, ok := in.(ssa.Value); ok {
				if fr, ok := core.AsField(v); ok && fr.Struct == trafficT && members[fr.Name] {
					touch[fn] = true
				}
			}
		})
	}
	for _, fn := range funcs {
		if !touch[fn] {
			continue
		}
		r.Saw(core.FuncName(fn))
		bad := byFn[fn]
		pos := fn.Pos()
		detail := ""
		if len(bad) > 0 {
			pos = bad[0].Pos()
			recv := core.Forward(core.Common(bad[0]).Args[0])
			fr, _ := core.AsField(recv)
			detail = core.CalleeName(core.Common(bad[0])) + " mutates in place the object loaded from Traffic." + fr.Name + ", which may be the same object as Traffic.retrieveChainTraffic (alias class {" + strings.Join(names, ",") + "}): issuing a cheque raises the recorded cashed amount"
		}
		r.Check("C31.M1", core.Key("C31.M1", fn, "in-place big.Int mutation of cashed-amount alias"), pos, len(bad) == 0,
			"no in-place big.Int mutator is applied to an object that may be shared with the cashed-amount field", detail)
	}

	// W1 writers of retrieveChainTraffic
	allowed := map[string]bool{"pkg/settlement/traffic.newTraffic": true, "pkg/settlement/traffic.(*Service).trafficPeerChainUpdate": true}
	nw := 0
	for _, fn := range funcs {
		for _, st := range fieldStores(fn, trafficT, "retrieveChainTraffic") {
			nw++
			name := core.FuncName(fn)
			r.Check("C31.W1", core.Key("C31.W1", fn, "store retrieveChainTraffic"), st.Pos(), allowed[name],
				"the cashed amount is assigned only by the constructor and the chain refresh", name+" assigns Traffic.retrieveChainTraffic")
		}
	}
	r.Floor("C31.W1", "stores to retrieveChainTraffic", nw, 2)
	c31Resets(r, funcs)
	c31ReportsAgree(r)
	c31CashedPersisted(r, funcs)
}

func c33(r *core.Run) {
	c33RestoreSet(r)
	c33RestoreAlways(r)
	w := r.W
	funcs := w.PkgFuncs("pkg/settlement/traffic")
	c33PersistedTotals(r, funcs)
	la := core.NewLockAnalysis(w, "pkg/settlement/traffic")
	la.Run()
	const mu = trafficT + ".Mutex"
	// Lk1: writes only
	total := 0
	for _, f := range []string{"retrieveTraffic", "transferTraffic", "retrieveChequeTraffic", "transferChequeTraffic"} {
		type k struct{ fn *ssa.Function }
		bad := map[*ssa.Function]ssa.Instruction{}
		seen := map[*ssa.Function]ssa.Instruction{}
		var order []*ssa.Function
		for _, a := range core.FieldAccesses(funcs, trafficT, f) {
			if !a.Write || a.Fresh {
				continue
			}
			total++
			if _, ok := seen[a.Fn]; !ok {
				seen[a.Fn] = a.In
				order = append(order, a.Fn)
			}
			h := la.HeldAt(a.In)
			if h == nil || !h.Holds(mu, true) {
				if _, ok := bad[a.Fn]; !ok {
					bad[a.Fn] = a.In
				}
			}
		}
		for _, fn := range order {
			r.Saw(core.FuncName(fn))
			pos := seen[fn].Pos()
			detail := ""
			if b, ok := bad[fn]; ok {
				pos = b.Pos()
				detail = "write without the Traffic mutex; held: " + la.HeldAt(b).String() + ", entry lockset of the function (∩ over its call sites): " + la.Entry(fn).String()
			}
			_, isBad := bad[fn]
			r.Check("C33.Lk1", core.Key("C33.Lk1", fn, f+":write"), pos, !isBad,
				"the per-peer total "+f+" is written with that peer's Traffic mutex held", detail)
		}
	}
	r.Floor("C33.Lk1", "writes of the four per-peer totals", total, 5)
	c33PayAtomic(r, la, mu)
	c33HandshakeAtomic(r, la, mu)
	r.Eval(total)

	// Lk2: persist inside the critical section
	for _, row := range []struct{ fn, field, persist string }{
		{"(*Service).PutRetrieveTraffic", "retrieveTraffic", "(pkg/settlement/traffic/cheque.ChequeStore).PutRetrieveTraffic"},
		{"(*Service).PutTransferTraffic", "transferTraffic", "(pkg/settlement/traffic/cheque.ChequeStore).PutTransferTraffic"},
	} {
		fn := w.Func("pkg/settlement/traffic", row.fn)
		if fn == nil {
			r.Fatal("unresolved anchor traffic.%s", row.fn)
			continue
		}
		r.Saw(core.FuncName(fn))
		r.Eval(core.EdgeCount(fn))
		calls := core.Calls(fn, row.persist)
		r.Floor("C33.Lk2", "persist calls in "+row.fn, len(calls), 1)
		for _, c := range calls {
			h := la.HeldAt(c)
			r.Check("C33.Lk2", core.Key("C33.Lk2", fn, "persist under lock"), c.Pos(), h != nil && h.Holds(mu, true),
				"the total is persisted inside the critical section that updated it", "the persist call runs after the Traffic mutex was released: a concurrent update can persist a newer total first and this older one last; held: "+h.String())
			arg := core.Common(c).Args[1]
			okArg := false
			argPos := c.Pos()
			if ld, ok := core.Forward(arg).(*ssa.UnOp); ok && loadsField(trafficT, row.field)(ld) {
				lh := la.HeldAt(ld)
				okArg = lh != nil && lh.Holds(mu, false)
			} else if _, isCall := core.Forward(arg).(*ssa.Call); isCall {
				// value computed under the lock and kept in a local: the value stored to the field
				for _, st := range fieldStores(fn, trafficT, row.field) {
					if core.Forward(arg) == core.Forward(st.Val) {
						okArg = true
					}
				}
			}
			r.Check("C33.Lk2", core.Key("C33.Lk2", fn, "persisted value read under lock"), argPos, okArg,
				"the persisted value is the total as read while the mutex was held", "the persisted value is re-read from the field after the mutex was released (racy, may be a different total)")
		}
	}

	// F1: putSendCheque updates memory before persisting
	if fn := w.Func("pkg/settlement/traffic", "(*Service).putSendCheque"); fn == nil {
		r.Fatal("unresolved anchor traffic.(*Service).putSendCheque")
	} else {
		r.Saw(core.FuncName(fn))
		r.Eval(core.EdgeCount(fn))
		calls := core.Calls(fn, "(pkg/settlement/traffic/cheque.ChequeStore).PutSendCheque")
		stores := fieldStores(fn, trafficT, "retrieveChequeTraffic")
		r.Floor("C33.F1", "PutSendCheque calls", len(calls), 1)
		ok := len(stores) > 0
		for _, c := range calls {
			for _, st := range stores {
				if !core.Precedes(st, c) {
					ok = false
				}
			}
		}
		r.Check("C33.F1", core.Key("C33.F1", fn, "update before persist"), fn.Pos(), ok,
			"the in-memory cumulative payout is updated before the cheque is persisted", "putSendCheque no longer updates retrieveChequeTraffic before persisting")
	}

	// P1: restore by maximum
	if fn := w.Func("pkg/settlement/traffic", "(*Service).trafficPeerChequeUpdate"); fn == nil {
		r.Fatal("unresolved anchor traffic.(*Service).trafficPeerChequeUpdate")
	} else {
		r.Saw(core.FuncName(fn))
		r.Eval(core.EdgeCount(fn))
		n := 0
		for _, f := range []string{"retrieveTraffic", "transferTraffic", "retrieveChequeTraffic", "transferChequeTraffic"} {
			for _, st := range fieldStores(fn, trafficT, f) {
				v := core.Forward(st.Val)
				okv := false
				if c, _ := core.CallOf(v); c != nil && core.IsCallTo(c, "(*pkg/settlement/traffic.Service).maxBigint") {
					// one operand is the field's current value
					for _, a := range c.Call.Args[1:] {
						if loadsField(trafficT, f)(core.Forward(a)) {
							okv = true
						}
					}
					n++
				} else if fr, ok := core.AsField(v); ok && fr.Struct == trafficT && strings.HasSuffix(fr.Name, "ChainTraffic") {
					okv = true // initialisation from the on-chain value
				}
				r.Check("C33.P1", core.Key("C33.P1", fn, "restore "+f), st.Pos(), okv,
					"on restore the total is the on-chain value or max(current, source)", "a restored total is assigned without taking the maximum with its current value: a smaller source can lower it")
			}
		}
		r.Floor("C33.P1", "maxBigint restores", n, 3)
		mb := w.Func("pkg/settlement/traffic", "(*Service).maxBigint")
		okMax := false
		if mb != nil {
			// returns b on a<b edge else a
			idx := returnsAnArg(mb)
			okMax = len(idx) == 2
			lt, _ := core.AtomEdges(mb, bigCmpAtom(isParam(mb.Params[1]), isParam(mb.Params[2]), "<"))
			okMax = okMax && len(lt) > 0
			core.EachInstr(mb, func(b *ssa.BasicBlock, _ int, in ssa.Instruction) {
				ret, ok := in.(*ssa.Return)
				if !ok {
					return
				}
				behindLt := core.OnlyBehind(mb, ret, lt)
				if ret.Results[0] == ssa.Value(mb.Params[2]) && !behindLt {
					okMax = false
				}
				if ret.Results[0] == ssa.Value(mb.Params[1]) && behindLt {
					okMax = false
				}
			})
		}
		r.Check("C33.P1", "C33.P1@pkg/settlement/traffic.(*Service).maxBigint#returns the larger", fn.Pos(), okMax,
			"maxBigint returns b exactly on the a<b branch and a otherwise", "maxBigint does not return the larger operand")
	}
}
