package props

import (
	"fmt"
	"strings"

	"aurora-verif/checker/core"

	"golang.org/x/tools/go/ssa"
)

func init() {
	reg("C22", Meta{
		Technique:   "must-follow rule on SSA (every change of a depth input is followed by a recompute on all paths), lockset analysis for depth/radius, operand-shape rule for the recompute function",
		Explanation: "C22 (neighbourhood depth), structural clauses: (F1) in pkg/topology/kademlia every connectedPeers.Add/Remove, every assignment of the storage radius and every recorded peer-reachability change is followed on all paths to the function's exit by `k.depth = recalcDepth(k.connectedPeers, k.radius, k.peerFilter)` — otherwise the published depth is not a function of the current peer set; (Lk1) depth and radius are accessed only with depthMu held; (Y1) recalcDepth reads nothing but its arguments and package-level thresholds (no receiver state, so it cannot depend on connection order); (G1) inside recalcDepth's iteration callbacks every counter / candidate is written only on paths where the reachability filter let the peer pass; (G2) every returned depth is the radius itself, zero, or a value tested to be at most the radius; (G3) the constant zero is returned exactly on the `Length() <= nnLowWatermark` branch. Not decided: the remaining depth arithmetic (saturation thresholds, shallowest-empty-bin logic).",
	}, c22)
	reg("C23", Meta{
		Technique:   "bad-edge / must-guard reachability on SSA for candidate selection and result classification, must-follow rule for skip accumulation",
		Explanation: "C23 (closest peer), structural clauses: (G1) in the iteration callback of Kad.ClosestPeer the current candidate is replaced only on paths that did not match the skip list, and only when no candidate exists yet or Closer(target, candidate) reported true; the skip list examined is the function's own skipPeers; (G2) ErrWantSelf is returned only behind closest.Equal(base) and ErrNotFound only behind closest.IsZero() or an empty peer set; self is a candidate only when requested and publicly reachable; (F1) ClosestPeers appends every result to the skip list passed to the next round (distinct results); (G3) exhaustive scan: the callback never returns stop/jumpToNext = true and returns only after the peer matched the skip list or went through the candidate comparison — every connected, unfiltered peer is compared (an early-stop optimisation, whose correctness would rest on XOR-metric reasoning, is reported for review). Not decided: XOR-distance minimality (value reasoning about Closer).",
	}, c23)
	reg("C24", Meta{
		Technique:   "must-guard reachability and must-precede on SSA, who-may-call enumeration of connected-set mutations",
		Explanation: "C24 (topology tracks live connections), structural clauses: (W1) connectedPeers is mutated only by Outbound, onConnected (Add) and Disconnected, DisconnectForce (Remove); (G1) Outbound adds a peer only behind !IsBootNode(); (F1) every connectedPeers.Add(x) is preceded by knownPeers.Add(x) of the same peer (connected ⊆ known); (F2) Disconnected and DisconnectForce remove the peer from the connected set on every path that reports success; (G2) Connected admits (onConnected) only behind not-oversaturated ∨ protected peer ∨ boot-node mode ∨ forceConnection; (P1) the saturation function computes the exempting depth from its known-peers operand and the bin size from its connected-peers operand, and is called with (k.knownPeers, k.connectedPeers). Not decided: the exact connected set over histories (needs execution), the saturation arithmetic.",
	}, c24)
}

const kadT = "pkg/topology/kademlia.Kad"
const kadPkg = "pkg/topology/kademlia"

func isKadList(v ssa.Value, field string) bool { return loadsField(kadT, field)(core.Forward(v)) }

func isRecalc(in ssa.Instruction) bool {
	st, ok := in.(*ssa.Store)
	if !ok {
		return false
	}
	fr, ok := core.AsField(st.Addr)
	if !ok || fr.Struct != kadT || fr.Name != "depth" {
		return false
	}
	c, _ := core.CallOf(st.Val)
	if c == nil || !core.IsCallTo(c, kadPkg+".recalcDepth") {
		return false
	}
	a := c.Call.Args
	return isKadList(a[0], "connectedPeers") && loadsField(kadT, "radius")(core.Forward(a[1])) && loadsField(kadT, "peerFilter")(core.Forward(a[2]))
}

func c22(r *core.Run) {
	w := r.W
	funcs := w.PkgFuncs(kadPkg)
	if len(funcs) == 0 {
		r.Fatal("unresolved anchor package %s", kadPkg)
		return
	}
	n := 0
	for _, fn := range funcs {
		var events []ssa.Instruction
		var names []string
		core.EachInstr(fn, func(_ *ssa.BasicBlock, _ int, in ssa.Instruction) {
			if c, ok := in.(*ssa.Call); ok {
				name := core.CalleeName(&c.Call)
				if (name == psT+"Add" || name == psT+"Remove") && len(c.Call.Args) > 0 && isKadList(c.Call.Args[0], "connectedPeers") {
					events = append(events, in)
					names = append(names, "connectedPeers."+strings.TrimPrefix(name, psT))
				}
				if strings.HasSuffix(name, ".Record") && len(core.CallArgs(&c.Call)) >= 3 {
					// collector.Record(addr, im.PeerReachability(status))
					for _, e := range variadicElems(core.CallArgs(&c.Call)[2]) {
						if rc, _ := core.CallOf(e); rc != nil && strings.HasSuffix(core.CalleeName(&rc.Call), ".PeerReachability") {
							events = append(events, in)
							names = append(names, "collector.Record(PeerReachability)")
						}
					}
				}
			}
			if st, ok := in.(*ssa.Store); ok {
				if fr, ok := core.AsField(st.Addr); ok && fr.Struct == kadT && fr.Name == "radius" {
					if _, fresh := fr.Base.(*ssa.Alloc); !fresh {
						events = append(events, in)
						names = append(names, "radius=")
					}
				}
			}
		})
		if len(events) == 0 {
			continue
		}
		r.Saw(core.FuncName(fn))
		r.Eval(core.EdgeCount(fn))
		for i, ev := range events {
			n++
			ok := mustPassToExit(ev, isRecalc)
			r.Check("C22.F1", core.Key("C22.F1", fn, "recompute after "+names[i]), ev.Pos(), ok,
				"the depth is recomputed from the current peer set after "+names[i]+" on every path to the exit",
				"a path from "+names[i]+" reaches the function's exit without k.depth = recalcDepth(k.connectedPeers, k.radius, k.peerFilter): the published depth no longer reflects the current peers/radius/reachability")
		}
	}
	r.Floor("C22.F1", "depth-input change sites in kademlia", n, 3)

	la := core.NewLockAnalysis(w, kadPkg)
	la.Run()
	ex := map[string]string{kadPkg + ".New": "constructor, object not yet published"}
	a := la.CheckGuarded(r, "C22.Lk1", kadT, "depth", kadT+".depthMu", ex)
	b := la.CheckGuarded(r, "C22.Lk1", kadT, "radius", kadT+".depthMu", ex)
	r.Floor("C22.Lk1", "accesses to Kad.depth / Kad.radius", a+b, 5)
	// Lk2: the recompute itself runs inside the critical section that publishes its result:
	// recalcDepth walks the peer set; computed outside depthMu, a concurrent mutator (which
	// recomputes under the lock) can publish first and this stale result overwrites it
	nrc := 0
	for _, fn := range funcs {
		for _, c := range core.Calls(fn, kadPkg+".recalcDepth") {
			if core.FuncName(rootFn(fn)) == kadPkg+".New" {
				continue
			}
			// only recomputations whose result is published as k.depth
			published := false
			for _, u := range core.Uses(c.(*ssa.Call)) {
				if st, ok := u.(*ssa.Store); ok {
					if fr, ok := core.AsField(st.Addr); ok && fr.Struct == kadT && fr.Name == "depth" {
						published = true
					}
				}
			}
			if !published {
				continue
			}
			nrc++
			h := la.HeldAt(c)
			r.Check("C22.Lk2", lsKey("C22.Lk2", fn, "recalcDepth runs with depthMu write-held"), c.Pos(), h != nil && h.Holds(kadT+".depthMu", true),
				"the depth is recomputed while holding depthMu for writing, in the critical section that stores it", "recalcDepth is evaluated without depthMu held for writing (held: "+la.HeldAt(c).String()+"): the walk over the peer set and the publication of its result are not atomic, a slower Reachable can overwrite a newer depth with a stale one")
		}
	}
	r.Floor("C22.Lk2", "recalcDepth call sites", nrc, 3)

	// Y1 recalcDepth purity
	rd := w.Func(kadPkg, "recalcDepth")
	if rd == nil {
		r.Fatal("unresolved anchor %s.recalcDepth", kadPkg)
		return
	}
	pure := rd.Signature.Recv() == nil
	var bad ssa.Instruction
	for _, f := range core.WithClosures(rd) {
		r.Eval(core.EdgeCount(f))
		core.EachInstr(f, func(_ *ssa.BasicBlock, _ int, in ssa.Instruction) {
			switch x := in.(type) {
			case *ssa.Store:
				if _, isGlobal := x.Addr.(*ssa.Global); isGlobal {
					pure, bad = false, in
				}
			case *ssa.UnOp:
				if g, ok := x.X.(*ssa.Global); ok {
					// package-level thresholds of the kademlia package only
					if g.Pkg.Pkg.Path() != core.P(kadPkg) {
						pure, bad = false, in
					}
				}
			}
		})
	}
	pos := rd.Pos()
	if bad != nil {
		pos = bad.Pos()
	}
	// G1: unreachable peers influence nothing — in every iteration callback of recalcDepth a
	// captured counter/candidate is written only on paths where filter(addr) returned false
	nW := 0
	for _, cl := range core.Closures(rd) {
		if len(cl.Params) == 0 {
			continue
		}
		addr := cl.Params[0]
		_, passed := core.AtomEdges(cl, core.BoolCallAtom(func(c *ssa.Call) bool {
			if c.Call.IsInvoke() || len(c.Call.Args) != 1 || c.Call.Args[0] != ssa.Value(addr) {
				return false
			}
			p, ok := core.LoadedFrom(c.Call.Value)
			if ok {
				_, isFV := p.(*ssa.FreeVar)
				return isFV
			}
			_, isFV := c.Call.Value.(*ssa.FreeVar)
			return isFV
		}))
		core.EachInstr(cl, func(_ *ssa.BasicBlock, _ int, in ssa.Instruction) {
			st, ok := in.(*ssa.Store)
			if !ok {
				return
			}
			fv, ok := st.Addr.(*ssa.FreeVar)
			if !ok {
				return
			}
			nW++
			r.Check("C22.G1", lsKey("C22.G1", cl, "write of "+fv.Name()+" behind the reachability filter"), st.Pos(), len(passed) > 0 && core.OnlyBehind(cl, st, passed),
				"a peer rejected by the reachability filter changes no counter or candidate of the depth computation", "the depth computation updates "+fv.Name()+" for a peer before (or without) consulting the reachability filter: unreachable peers count towards saturation / the nearest-neighbour low watermark")
		})
	}
	r.Floor("C22.G1", "counter/candidate updates in recalcDepth's callbacks", nW, 3)
	c22Adjacent(r, rd)
	// G2: the result never exceeds the radius; G3: zero for at most nnLowWatermark peers
	radius := rd.Params[1]
	nRet := 0
	core.EachInstr(rd, func(_ *ssa.BasicBlock, _ int, in ssa.Instruction) {
		ret, ok := in.(*ssa.Return)
		if !ok {
			return
		}
		nRet++
		v := ret.Results[0]
		okCap := v == ssa.Value(radius)
		if k, isC := core.ConstInt(v); isC && k == 0 {
			okCap = true
			few, _ := core.AtomEdges(rd, cmpAtom(func(x ssa.Value) bool {
				c, _ := core.CallOf(x)
				return c != nil && core.IsCallTo(c, psT+"Length")
			}, func(y ssa.Value) bool {
				if k, ok := core.ConstInt(y); ok {
					return k >= 3
				}
				return core.DerivesFrom(y, func(x ssa.Value) bool {
					p, ok := core.LoadedFrom(x)
					if !ok {
						return false
					}
					g, ok := p.(*ssa.Global)
					return ok && g.Name() == "nnLowWatermark"
				}, nil)
			}, "<="))
			r.Check("C22.G3", core.Key("C22.G3", rd, "zero depth for few peers"), ret.Pos(), len(few) > 0 && core.OnlyBehind(rd, ret, few),
				"the constant depth 0 is returned exactly on the few-peers branch", "return 0 is not guarded by the peers.Length() <= nnLowWatermark test")
		}
		if !okCap {
			fits, _ := core.AtomEdges(rd, cmpAtom(func(x ssa.Value) bool { return x == ssa.Value(radius) }, func(y ssa.Value) bool { return core.SameExpr(core.Forward(y), core.Forward(v)) }, ">="))
			okCap = len(fits) > 0 && core.OnlyBehind(rd, ret, fits)
		}
		r.Check("C22.G2", core.Key("C22.G2", rd, "result <= radius"), ret.Pos(), okCap,
			"every returned depth is the radius itself, zero, or a value tested to be at most the radius", "a depth can be returned without the radius cap")
	})
	r.Floor("C22.G2", "returns of recalcDepth", nRet, 3)

	r.Saw(core.FuncName(rd))
	r.Check("C22.Y1", core.Key("C22.Y1", rd, "depends only on arguments and thresholds"), pos, pure,
		"recalcDepth is a function of (peer set, radius, filter) and the package thresholds only", "recalcDepth reads or writes state other than its arguments and the package thresholds")
	// the depth is computed from the peer set's bins: they must hold exactly the peers
	psliceRules(r, "C22")
}

// mustPassToExit: every path from ev to a Return passes an instruction satisfying pred.
func mustPassToExit(ev ssa.Instruction, pred func(ssa.Instruction) bool) bool {
	b := ev.Block()
	after := false
	for _, in := range b.Instrs {
		if after && pred(in) {
			return true
		}
		if in == ev {
			after = true
		}
	}
	if _, isRet := b.Instrs[len(b.Instrs)-1].(*ssa.Return); isRet {
		return false
	}
	return mustPassFrom(b.Succs, pred)
}

func c23(r *core.Run) {
	c23ZeroMeansUnset(r)
	w := r.W
	fn := w.Func(kadPkg, "(*Kad).ClosestPeer")
	cps := w.Func(kadPkg, "(*Kad).ClosestPeers")
	if fn == nil || cps == nil {
		r.Fatal("unresolved anchor %s.(*Kad).ClosestPeer(s)", kadPkg)
		return
	}
	r.Saw(core.FuncName(fn))
	r.Eval(core.EdgeCount(fn))
	// the iteration callback: closure that stores to captured `closest`
	// identified structurally (not by variable names): the callback is the closure with a
	// (peer, po) signature that stores its first parameter into a captured address cell —
	// that cell is the candidate; the captured variable of the function's variadic skip
	// parameter is the skip list
	var cl *ssa.Function
	var closestFV, skipFV *ssa.FreeVar
	var mkCl *ssa.MakeClosure
	core.EachInstr(fn, func(_ *ssa.BasicBlock, _ int, in ssa.Instruction) {
		mc, ok := in.(*ssa.MakeClosure)
		if !ok {
			return
		}
		c := mc.Fn.(*ssa.Function)
		if len(c.Params) != 2 {
			return
		}
		for i, fv := range c.FreeVars {
			for _, u := range core.Uses(fv) {
				if st, ok := u.(*ssa.Store); ok && st.Addr == ssa.Value(fv) && st.Val == ssa.Value(c.Params[0]) {
					cl, closestFV, mkCl = c, fv, mc
				}
			}
			_ = i
		}
	})
	if cl == nil {
		r.Fatal("unresolved anchor: iteration callback of ClosestPeer (closure storing its peer parameter into a captured candidate)")
		return
	}
	r.Saw(core.FuncName(cl))
	r.Eval(core.EdgeCount(cl))
	skipParam := fn.Params[len(fn.Params)-1]
	for i, b := range mkCl.Bindings {
		// the binding is the cell the variadic parameter was spilled into
		if al, ok := b.(*ssa.Alloc); ok {
			for _, u := range core.Uses(al) {
				if st, ok := u.(*ssa.Store); ok && st.Addr == ssa.Value(al) && st.Val == ssa.Value(skipParam) {
					skipFV = cl.FreeVars[i]
				}
			}
		}
	}
	peer := cl.Params[0]
	skipHit, _ := core.AtomEdges(cl, core.BoolCallAtom(func(c *ssa.Call) bool {
		if !core.IsCallTo(c, "(pkg/boson.Address).Equal") {
			return false
		}
		a, b := c.Call.Args[0], c.Call.Args[1]
		fromSkip := func(v ssa.Value) bool {
			return core.DerivesFrom(v, func(x ssa.Value) bool {
				p, ok := core.LoadedFrom(x)
				return ok && skipFV != nil && p == ssa.Value(skipFV)
			}, nil)
		}
		return (fromSkip(a) && b == ssa.Value(peer)) || (fromSkip(b) && a == ssa.Value(peer))
	}))
	r.Floor("C23.G1", "skip-list comparisons in the callback", len(skipHit), 1)
	isZero, _ := core.AtomEdges(cl, core.BoolCallAtom(func(c *ssa.Call) bool {
		return core.IsCallTo(c, "(pkg/boson.Address).IsZero") && isLoadOf(c.Call.Args[0], closestFV)
	}))
	closer, _ := core.AtomEdges(cl, func(base ssa.Value) (bool, bool) {
		c, idx := core.CallOf(base)
		if c != nil && idx == 0 && core.IsCallTo(c, "(pkg/boson.Address).Closer") && c.Call.Args[0] == ssa.Value(peer) {
			return true, true
		}
		return false, false
	})
	better := core.EdgeSet{}
	for e := range isZero {
		better[e] = true
	}
	for e := range closer {
		better[e] = true
	}
	n := 0
	core.EachInstr(cl, func(_ *ssa.BasicBlock, _ int, in ssa.Instruction) {
		st, ok := in.(*ssa.Store)
		if !ok || st.Addr != ssa.Value(closestFV) {
			return
		}
		n++
		r.Check("C23.G1", core.Key("C23.G1", fn, "candidate not a skipped peer"), st.Pos(), len(skipHit) > 0 && !core.ReachableFromEdges(cl, skipHit, st, false),
			"a peer that matches the skip list never becomes the candidate", "from the edge where the peer matched the skip list the candidate can still be replaced by it")
		r.Check("C23.G1", core.Key("C23.G1", fn, "candidate replaced only by a closer peer"), st.Pos(), st.Val == ssa.Value(peer) && len(isZero) > 0 && len(closer) > 0 && core.OnlyBehind(cl, st, better),
			"the candidate is replaced only when there is none yet or the peer is closer to the target", "the candidate is replaced without the IsZero / Closer test")
	})
	r.Floor("C23.G1", "candidate updates in the callback", n, 2)
	// G3 exhaustive scan: the callback never asks the iterator to stop or to skip the rest of
	// a bin, and every peer that is not on the skip list reaches the candidate comparison.
	// (Whether an early stop is harmless depends on XOR-metric reasoning that is out of
	// reach: any early stop is reported.)
	var isZeroCalls []ssa.Instruction
	for _, c := range core.Calls(cl, "(pkg/boson.Address).IsZero") {
		if isLoadOf(core.Common(c).Args[0], closestFV) {
			isZeroCalls = append(isZeroCalls, c)
		}
	}
	nret := 0
	core.EachInstr(cl, func(_ *ssa.BasicBlock, _ int, in ssa.Instruction) {
		ret, ok := in.(*ssa.Return)
		if !ok || len(ret.Results) != 3 {
			return
		}
		nret++
		stop, okS := core.ConstBool(ret.Results[0])
		jump, okJ := core.ConstBool(ret.Results[1])
		r.Check("C23.G3", lsKey("C23.G3", cl, fmt.Sprintf("return #%d keeps iterating", nret)), ret.Pos(), okS && okJ && !stop && !jump,
			"the callback returns stop=false, jumpToNext=false: every connected peer is examined", "the callback can end the iteration (or skip the rest of a bin) before every peer was compared: a closer peer later in the order is never seen")
		compared := false
		for _, z := range isZeroCalls {
			if core.Precedes(z, ret) {
				compared = true
			}
		}
		skipped := len(skipHit) > 0 && core.OnlyBehind(cl, ret, skipHit)
		r.Check("C23.G3", lsKey("C23.G3", cl, fmt.Sprintf("return #%d after comparison or skip", nret)), ret.Pos(), compared || skipped,
			"the callback returns only after the peer matched the skip list or went through the candidate comparison", "a peer that is not on the skip list is passed over without being compared with the candidate")
	})
	r.Floor("C23.G3", "returns of the callback", nret, 2)

	// G2 result classification in ClosestPeer
	var closestCell ssa.Value
	for i, fv := range cl.FreeVars {
		if fv == closestFV {
			closestCell = mkCl.Bindings[i]
		}
	}
	cellLoad := func(v ssa.Value) bool {
		p, ok := core.LoadedFrom(v)
		return ok && p == closestCell
	}
	zero, _ := core.AtomEdges(fn, core.BoolCallAtom(func(c *ssa.Call) bool {
		return core.IsCallTo(c, "(pkg/boson.Address).IsZero") && cellLoad(c.Call.Args[0])
	}))
	empty, _ := core.AtomEdges(fn, cmpAtom(func(v ssa.Value) bool {
		c, _ := core.CallOf(v)
		return c != nil && core.IsCallTo(c, psT+"Length")
	}, func(y ssa.Value) bool { k, ok := core.ConstInt(y); return ok && k == 0 }, "=="))
	isSelf, _ := core.AtomEdges(fn, core.BoolCallAtom(func(c *ssa.Call) bool {
		return core.IsCallTo(c, "(pkg/boson.Address).Equal") && cellLoad(c.Call.Args[0]) && loadsField(kadT, "base")(core.Forward(c.Call.Args[1]))
	}))
	notFound := core.EdgeSet{}
	for e := range zero {
		notFound[e] = true
	}
	for e := range empty {
		notFound[e] = true
	}
	core.EachInstr(fn, func(_ *ssa.BasicBlock, _ int, in ssa.Instruction) {
		ret, ok := in.(*ssa.Return)
		if !ok || ret.Block() == fn.Recover {
			return
		}
		ev := core.Forward(ret.Results[1])
		g, _ := core.LoadedFrom(ev)
		gl, _ := g.(*ssa.Global)
		switch {
		case gl != nil && gl.Name() == "ErrWantSelf":
			r.Check("C23.G2", core.Key("C23.G2", fn, "ErrWantSelf only when the candidate is self"), ret.Pos(), len(isSelf) > 0 && core.OnlyBehind(fn, ret, isSelf),
				"'want self' is reported only when the selected candidate equals this node", "ErrWantSelf can be returned without closest.Equal(k.base)")
		case gl != nil && gl.Name() == "ErrNotFound":
			r.Check("C23.G2", core.Key("C23.G2", fn, "ErrNotFound only when no candidate"), ret.Pos(), len(notFound) > 0 && core.OnlyBehind(fn, ret, notFound),
				"'not found' is reported only when no eligible peer was selected", "ErrNotFound can be returned although a candidate exists")
		case core.IsNilConst(ev):
			// success: returns the candidate, behind !IsZero and !Equal(base)
			okv := cellLoad(core.Strip(ret.Results[0])) || cellLoad(ret.Results[0])
			_, nz := core.AtomEdges(fn, core.BoolCallAtom(func(c *ssa.Call) bool {
				return core.IsCallTo(c, "(pkg/boson.Address).IsZero") && cellLoad(c.Call.Args[0])
			}))
			r.Check("C23.G2", core.Key("C23.G2", fn, "success returns the candidate"), ret.Pos(), okv && len(nz) > 0 && core.OnlyBehind(fn, ret, nz),
				"a successful result is the selected, non-zero candidate", "the successful return is not the selected candidate behind the non-zero test")
		}
	})
	// self as initial candidate only when requested and public
	for _, u := range core.Uses(closestCell) {
		st, ok := u.(*ssa.Store)
		if !ok || st.Addr != closestCell || !loadsField(kadT, "base")(core.Forward(st.Val)) {
			continue
		}
		inc, _ := core.AtomEdges(fn, func(base ssa.Value) (bool, bool) {
			if base == ssa.Value(fn.Params[2]) {
				return true, true
			}
			return false, false
		})
		r.Check("C23.G2", core.Key("C23.G2", fn, "self eligible only when requested"), st.Pos(), len(inc) > 0 && core.OnlyBehind(fn, st, inc),
			"this node is a candidate only when includeSelf was requested", "self becomes the initial candidate without includeSelf")
	}

	// F1 ClosestPeers
	r.Saw(core.FuncName(cps))
	r.Eval(core.EdgeCount(cps))
	var outApp, skipApp *ssa.Call
	var cpCall *ssa.Call
	for _, c := range core.Calls(cps, "(*"+kadPkg+".Kad).ClosestPeer") {
		cpCall = c.(*ssa.Call)
	}
	core.EachInstr(cps, func(_ *ssa.BasicBlock, _ int, in ssa.Instruction) {
		c, ok := in.(*ssa.Call)
		if !ok {
			return
		}
		if _, isApp := isBuiltinCall(c, "append"); !isApp {
			return
		}
		el := variadicElems(c.Call.Args[1])
		if len(el) != 1 {
			return
		}
		if cc, idx := core.CallOf(el[0]); cc != nil && cc == cpCall && idx == 0 {
			if core.DerivesFrom(c.Call.Args[0], func(x ssa.Value) bool { return x == ssa.Value(cps.Params[4]) }, nil) {
				skipApp = c
			} else {
				outApp = c
			}
		}
	})
	okAcc := outApp != nil && skipApp != nil && cpCall != nil && skipApp.Block() == outApp.Block()
	if okAcc {
		// the extended skip list is what the next round's call receives (phi through the loop)
		okAcc = core.DerivesFrom(cpCall.Call.Args[len(cpCall.Call.Args)-1], func(x ssa.Value) bool { return x == ssa.Value(skipApp) }, nil)
	}
	r.Check("C23.F1", core.Key("C23.F1", cps, "results accumulate in the skip list"), cps.Pos(), okAcc,
		"every selected peer is added to the skip list used by the following selections (distinct results)", "ClosestPeers no longer passes its earlier results as skip list to the next ClosestPeer call")
}

func isLoadOf(v ssa.Value, cell ssa.Value) bool {
	p, ok := core.LoadedFrom(v)
	return ok && cell != nil && p == cell
}

func c24(r *core.Run) {
	psliceCopyOnWrite(r, "C24.W3")
	w := r.W
	c24KnownRemovals(r)
	c24ProtectReplaced(r)
	c24FullOnly(r)
	funcs := w.PkgFuncs(kadPkg)
	// W1 + F1
	allowedAdd := map[string]bool{kadPkg + ".(*Kad).Outbound": true, kadPkg + ".(*Kad).onConnected": true}
	allowedRem := map[string]bool{kadPkg + ".(*Kad).Disconnected": true, kadPkg + ".(*Kad).DisconnectForce": true}
	nMut := 0
	for _, fn := range funcs {
		core.EachInstr(fn, func(_ *ssa.BasicBlock, _ int, in ssa.Instruction) {
			c, ok := in.(*ssa.Call)
			if !ok {
				return
			}
			name := core.CalleeName(&c.Call)
			if !strings.HasPrefix(name, psT) || len(c.Call.Args) == 0 || !isKadList(c.Call.Args[0], "connectedPeers") {
				return
			}
			switch strings.TrimPrefix(name, psT) {
			case "Add", "AddBatch":
				nMut++
				r.Saw(core.FuncName(fn))
				r.Check("C24.W1", core.Key("C24.W1", fn, "connectedPeers.Add"), c.Pos(), allowedAdd[core.FuncName(fn)],
					"peers enter the connected set only in Outbound / onConnected", core.FuncName(fn)+" adds to connectedPeers")
				// F1 preceded by knownPeers.Add(same)
				el := variadicElems(c.Call.Args[1])
				okPrev := false
				for _, k := range core.Calls(fn, psT+"Add") {
					kc := k.(*ssa.Call)
					if kc == c || !isKadList(kc.Call.Args[0], "knownPeers") {
						continue
					}
					kel := variadicElems(kc.Call.Args[1])
					if len(el) == 1 && len(kel) == 1 && core.SameExpr(core.Forward(kel[0]), core.Forward(el[0])) && core.Precedes(kc, c) {
						okPrev = true
					}
				}
				r.Check("C24.F1", core.Key("C24.F1", fn, "known before connected"), c.Pos(), okPrev,
					"a peer is added to the known set before it is added to the connected set", "connectedPeers.Add is not preceded by knownPeers.Add of the same peer")
			case "Remove":
				nMut++
				r.Saw(core.FuncName(fn))
				r.Check("C24.W1", core.Key("C24.W1", fn, "connectedPeers.Remove"), c.Pos(), allowedRem[core.FuncName(fn)],
					"peers leave the connected set only in Disconnected / DisconnectForce", core.FuncName(fn)+" removes from connectedPeers")
			}
		})
		for _, st := range fieldStores(fn, kadT, "connectedPeers") {
			_, fresh := st.Addr.(*ssa.FieldAddr).X.(*ssa.Alloc)
			r.Check("C24.W1", core.Key("C24.W1", fn, "connectedPeers reassigned"), st.Pos(), fresh,
				"the connected set object is installed once by the constructor", core.FuncName(fn)+" replaces the connected set")
		}
	}
	r.Floor("C24.W1", "mutations of the connected set", nMut, 4)

	// G1 Outbound
	if fn := w.Func(kadPkg, "(*Kad).Outbound"); fn == nil {
		r.Fatal("unresolved anchor %s.(*Kad).Outbound", kadPkg)
	} else {
		r.Eval(core.EdgeCount(fn))
		_, notBoot := core.AtomEdges(fn, core.BoolCallAtom(func(c *ssa.Call) bool {
			if !strings.HasSuffix(core.CalleeName(&c.Call), ".IsBootNode") {
				return false
			}
			return core.DerivesFrom(c.Call.Args[0], func(x ssa.Value) bool { return x == ssa.Value(fn.Params[1]) }, nil)
		}))
		for _, c := range core.Calls(fn, psT+"Add") {
			if isKadList(core.Common(c).Args[0], "connectedPeers") {
				r.Check("C24.G1", core.Key("C24.G1", fn, "no boot node in connected set"), c.Pos(), len(notBoot) > 0 && core.OnlyBehind(fn, c, notBoot),
					"an outbound connection to a boot node is never counted as connected peer", "Outbound adds the peer to the connected set without the IsBootNode() exclusion")
			}
		}
	}
	// F2 removal on disconnect
	for _, name := range []string{"(*Kad).Disconnected", "(*Kad).DisconnectForce"} {
		fn := w.Func(kadPkg, name)
		if fn == nil {
			r.Fatal("unresolved anchor %s.%s", kadPkg, name)
			continue
		}
		r.Eval(core.EdgeCount(fn))
		isRem := func(in ssa.Instruction) bool {
			c, ok := in.(*ssa.Call)
			return ok && core.CalleeName(&c.Call) == psT+"Remove" && isKadList(c.Call.Args[0], "connectedPeers")
		}
		// every successful exit (nil error or no result) passed the Remove
		ok := true
		nexit := 0
		core.EachInstr(fn, func(b *ssa.BasicBlock, _ int, in ssa.Instruction) {
			ret, isRet := in.(*ssa.Return)
			if !isRet || b == fn.Recover {
				return
			}
			if len(ret.Results) == 1 && !core.IsNilConst(core.Forward(ret.Results[0])) {
				return // error exit
			}
			nexit++
			// Remove must dominate this return
			dom := false
			core.EachInstr(fn, func(_ *ssa.BasicBlock, _ int, x ssa.Instruction) {
				if isRem(x) && core.Precedes(x, ret) {
					dom = true
				}
			})
			if !dom {
				ok = false
			}
		})
		r.Check("C24.F2", core.Key("C24.F2", fn, "disconnect removes from connected set"), fn.Pos(), ok && nexit > 0,
			"a disconnected peer is removed from the connected set on every successful path", name+" can finish successfully without connectedPeers.Remove")
	}
	// P1: the saturation verdict keeps its operands' roles: the potential depth that exempts
	// bins from the cap is computed from the KNOWN peers (first list argument), the bin size
	// from the CONNECTED peers (second list argument) — and Pick/Connected pass
	// (knownPeers, connectedPeers) in that order
	if bs := w.Func(kadPkg, "binSaturated"); bs == nil || len(bs.AnonFuncs) == 0 {
		r.Fatal("unresolved anchor %s.binSaturated (closure expected)", kadPkg)
	} else {
		for _, cl := range bs.AnonFuncs {
			if len(cl.Params) != 4 {
				continue
			}
			r.Saw(core.FuncName(cl))
			r.Eval(core.EdgeCount(cl))
			known, connected := cl.Params[1], cl.Params[2]
			okD, okS := false, false
			for _, c := range core.Calls(cl, kadPkg+".recalcDepth") {
				okD = core.Common(c).Args[0] == ssa.Value(known)
			}
			for _, c := range core.Calls(cl, psT+"EachBin", psT+"EachBinRev", psT+"BinSize", psT+"BinPeers") {
				okS = core.Common(c).Args[0] == ssa.Value(connected)
			}
			r.Check("C24.P1", core.Key("C24.P1", bs, "depth from known peers, size from connected peers"), cl.Pos(), okD && okS,
				"the oversaturation verdict measures the bin over the connected peers and exempts bins by the depth of the known peers", "the saturation function computes the exempting depth / the bin size from the wrong peer set: with known ≠ connected an unprotected inbound peer is admitted into a full bin")
		}
		n := 0
		for _, fn := range w.PkgFuncs(kadPkg) {
			core.EachInstr(fn, func(_ *ssa.BasicBlock, _ int, in ssa.Instruction) {
				c, ok := in.(*ssa.Call)
				if !ok || c.Call.IsInvoke() || !loadsField(kadT, "saturationFunc")(core.Forward(c.Call.Value)) {
					return
				}
				n++
				a := c.Call.Args
				r.Check("C24.P1", core.Key("C24.P1", fn, "saturationFunc(po, known, connected)"), c.Pos(), len(a) == 4 && isKadList(a[1], "knownPeers") && isKadList(a[2], "connectedPeers"),
					"the saturation function is consulted with (known peers, connected peers)", "saturationFunc is called with other lists than (k.knownPeers, k.connectedPeers)")
			})
		}
		r.Floor("C24.P1", "saturationFunc calls", n, 2)
	}

	// G2 Connected
	if fn := w.Func(kadPkg, "(*Kad).Connected"); fn == nil {
		r.Fatal("unresolved anchor %s.(*Kad).Connected", kadPkg)
	} else {
		r.Saw(core.FuncName(fn))
		r.Eval(core.EdgeCount(fn))
		good := core.EdgeSet{}
		_, notOver := core.AtomEdges(fn, func(base ssa.Value) (bool, bool) {
			c, idx := core.CallOf(base)
			if c != nil && idx == 1 && !c.Call.IsInvoke() && loadsField(kadT, "saturationFunc")(core.Forward(c.Call.Value)) {
				return true, true
			}
			return false, false
		})
		prot, _ := core.AtomEdges(fn, core.BoolCallAtom(func(c *ssa.Call) bool { return core.IsCallTo(c, "(*"+kadPkg+".Kad).IsProtectPeer") }))
		boot, _ := core.AtomEdges(fn, core.BoolCallAtom(func(c *ssa.Call) bool {
			return strings.HasSuffix(core.CalleeName(&c.Call), ".IsBootNode") && core.DerivesFrom(c.Call.Args[0], func(x ssa.Value) bool { return loadsField(kadT, "nodeMode")(x) }, nil)
		}))
		force, _ := core.AtomEdges(fn, func(base ssa.Value) (bool, bool) {
			if base == ssa.Value(fn.Params[3]) {
				return true, true
			}
			return false, false
		})
		for _, es := range []core.EdgeSet{notOver, prot, boot, force} {
			for e := range es {
				good[e] = true
			}
		}
		admits := core.Calls(fn, "(*"+kadPkg+".Kad).onConnected")
		r.Floor("C24.G2", "admissions in Connected", len(admits), 1)
		for _, c := range admits {
			r.Check("C24.G2", core.Key("C24.G2", fn, "admit only if not oversaturated / protected / bootnode / forced"), c.Pos(), len(notOver) > 0 && len(prot) > 0 && len(force) > 0 && core.OnlyBehind(fn, c, good),
				"an inbound peer is admitted only when its bin is not oversaturated, or it is protected, or this is a boot node, or the connection is forced", "an unprotected inbound peer can be admitted into an oversaturated bin")
		}
	}
	// known / connected lists are PSlices: a batched AddPeers must not drop or duplicate peers
	psliceRules(r, "C24")
	deleteAtIndexLint(r, "C24.L1", "a peer that should be dropped from a list stays when it directly follows another removed entry", "pkg/topology/kademlia", "pkg/topology/pslice")
}
