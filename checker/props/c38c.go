package props

import (
	"aurora-verif/checker/core"

	"golang.org/x/tools/go/ssa"
)

// c38ForwardLists (G3): getForward builds the forward targets of one flooding step from two
// lists, the connected and the kept peers of the closest group, each enumerated inside the
// branch that tested that very list (`l != nil && l.Length() > 0`). Every BinPeers call of
// getForward therefore has, as receiver, a list parameter that was tested non-nil on every
// path to the call. Enumerating the connected list a second time inside the kept-branch
// (a copy-paste slip) sends one message twice to the same neighbour in one step and never
// uses a kept peer.
func c38ForwardLists(r *core.Run) {
	const rule = "C38.G3"
	fn := r.W.Func("pkg/multicast", "(*Service).getForward")
	if fn == nil {
		r.Fatal("unresolved anchor pkg/multicast.(*Service).getForward")
		return
	}
	r.Saw(core.FuncName(fn))
	r.Eval(core.EdgeCount(fn))
	n := 0
	used := map[ssa.Value]bool{}
	for _, c := range core.Calls(fn, psT+"BinPeers") {
		n++
		recv := core.Common(c).Args[0]
		used[recv] = true
		_, nonNil := core.AtomEdges(fn, func(base ssa.Value) (bool, bool) {
			x, eq, ok := core.NilCmp(base)
			if !ok || x != core.Forward(recv) {
				return false, false
			}
			return true, eq
		})
		_, isParam := recv.(*ssa.Parameter)
		r.Check(rule, lsKey(rule, fn, "list enumerated inside the branch that tested it"), c.Pos(), isParam && len(nonNil) > 0 && core.OnlyBehind(fn, c, nonNil),
			"each list is enumerated only behind its own non-nil test", "getForward enumerates a list in a branch that tested the other list: the connected peers are taken twice (the same neighbour gets the message twice in one flooding step) and the kept peers never")
	}
	nLists := 0
	for _, p := range fn.Params {
		if core.TypeName(p.Type()) == "pkg/topology/pslice.PSlice" {
			nLists++
			r.Check(rule, lsKey(rule, fn, "list "+p.Name()+" is enumerated"), fn.Pos(), used[p],
				"both lists contribute forward targets", "the list parameter "+p.Name()+" is never enumerated")
		}
	}
	r.Floor(rule, "BinPeers calls in getForward", n, 2)
	r.Floor(rule, "list parameters of getForward", nLists, 2)
}
