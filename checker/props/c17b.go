package props

import (
	"aurora-verif/checker/core"

	"golang.org/x/tools/go/ssa"
)

// c17Complete (V1/V2): "fully downloaded" is the all-bits-set test of the node's own record.
// V1 is the coverage rule of that test (shared with C39); V2: isDownload answers either the
// constant false or the result of BitVector.Equals on a vector read from the presence table.
func c17Complete(r *core.Run) {
	allSetCoverage(r, "C17.V1")
	c17ReloadAll(r)
	c17StoreBeforeMark(r)
	c17NoEmptyEntry(r)
	// the reference counts that decide which chunks a delete may remove also decide whether a
	// surviving file's record stays truthful: a chunk released twice is removed while the other
	// file still marks it present
	refCountMultiplicity(r, "C17.A2")
	refCountDisjoint(r, "C17.A3")
	fn := r.W.Func(ciPkg, "(*chunkInfoTabNeighbor).isDownload")
	if fn == nil {
		r.Fatal("unresolved anchor %s.(*chunkInfoTabNeighbor).isDownload", ciPkg)
		return
	}
	r.Saw(core.FuncName(fn))
	r.Eval(core.EdgeCount(fn))
	n := 0
	core.EachInstr(fn, func(b *ssa.BasicBlock, _ int, in ssa.Instruction) {
		ret, ok := in.(*ssa.Return)
		if !ok || b == fn.Recover {
			return
		}
		for _, v := range returnedValues(fn, ret) {
			if c, isC := core.ConstBool(v); isC && !c {
				continue
			}
			n++
			good := false
			if c, _ := core.CallOf(v); c != nil && core.CalleeName(&c.Call) == "(*pkg/bitvector.BitVector).Equals" {
				good = core.DerivesFrom(c.Call.Args[0], loadsField(ciPkg+".chunkInfoTabNeighbor", "presence"), nil)
			}
			r.Check("C17.V2", core.Key("C17.V2", fn, "complete == all bits of the presence record set"), ret.Pos(), good,
				"a file is reported fully downloaded only when BitVector.Equals holds for its presence record", "isDownload can answer true from something other than the all-bits-set test of the file's presence record")
		}
	})
	r.Floor("C17.V2", "answers of isDownload that may be true", n, 1)
}

// returnedValues: the values a Return may yield for its first result — through the named
// result cell when the function defers (results are spilled), through phis otherwise.
func returnedValues(fn *ssa.Function, ret *ssa.Return) []ssa.Value {
	var out []ssa.Value
	seen := map[ssa.Value]bool{}
	var walk func(v ssa.Value)
	walk = func(v ssa.Value) {
		if seen[v] {
			return
		}
		seen[v] = true
		switch x := v.(type) {
		case *ssa.Phi:
			for _, e := range x.Edges {
				walk(e)
			}
			return
		case *ssa.UnOp:
			if a, ok := x.X.(*ssa.Alloc); ok {
				stored := false
				for _, u := range core.Uses(a) {
					if st, ok := u.(*ssa.Store); ok && st.Addr == ssa.Value(a) {
						stored = true
						walk(st.Val)
					}
				}
				if stored {
					return
				}
			}
		}
		out = append(out, v)
	}
	walk(ret.Results[0])
	return out
}
