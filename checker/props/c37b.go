package props

import (
	"go/token"
	"go/types"
	"strings"

	"aurora-verif/checker/core"

	"golang.org/x/tools/go/ssa"
)

// c37ErrNilDeref (S10): a parser / decoder that is fed peer-controlled data returns
// (pointer, error); on error the pointer is nil. Inside the protocol packages the pointer
// result of such a call is dereferenced (field selection, load, element access) only
// behind the edge on which that call's error was found nil. Logging the error and going on
// ("not fatal yet") turns a malformed field of a peer's message into a nil dereference.
func c37ErrNilDeref(r *core.Run, t *core.Taint, funcs []*ssa.Function) {
	const rule = "C37.S10"
	n := 0
	for _, fn := range funcs {
		core.EachInstr(fn, func(_ *ssa.BasicBlock, _ int, in ssa.Instruction) {
			c, ok := in.(*ssa.Call)
			if !ok {
				return
			}
			if _, isB := c.Call.Value.(*ssa.Builtin); isB {
				return
			}
			res, ok := c.Type().(*types.Tuple)
			if !ok || res.Len() != 2 || res.At(1).Type().String() != "error" {
				return
			}
			if _, isPtr := res.At(0).Type().Underlying().(*types.Pointer); !isPtr {
				return
			}
			tainted := false
			for _, a := range c.Call.Args {
				if peerDerived(t, a, 0) {
					tainted = true
				}
			}
			if !tainted {
				return
			}
			var ptr ssa.Value
			for _, u := range core.Uses(c) {
				if e, ok := u.(*ssa.Extract); ok && e.Index == 0 {
					ptr = e
				}
			}
			if ptr == nil {
				return
			}
			okEdges, _ := core.AtomEdges(fn, core.ErrNilAtom(func(cc *ssa.Call) bool { return cc == c }))
			// … or behind a test of the pointer itself
			_, nonNil := core.AtomEdges(fn, func(base ssa.Value) (bool, bool) {
				x, eq, ok := core.NilCmp(base)
				if !ok || x != core.Forward(ptr) {
					return false, false
				}
				return true, eq
			})
			for e := range nonNil {
				okEdges[e] = true
			}
			for _, u := range core.Uses(ptr) {
				deref := false
				switch x := u.(type) {
				case *ssa.FieldAddr:
					deref = x.X == ptr
				case *ssa.UnOp:
					deref = x.Op == token.MUL && x.X == ptr
				case *ssa.IndexAddr:
					deref = x.X == ptr
				}
				if !deref {
					continue
				}
				n++
				r.Check(rule, lsKey(rule, fn, "result of "+core.CalleeName(&c.Call)+" dereferenced only after its error (or the pointer) was tested"), u.Pos(), len(okEdges) > 0 && core.OnlyBehind(fn, u, okEdges),
					"the pointer a decoder returns for peer-controlled input is dereferenced only where its error is nil", core.FuncName(fn)+" dereferences the result of "+core.CalleeName(&c.Call)+" (called on peer-controlled data) on a path where its error was not tested or was only logged: a malformed field makes the pointer nil and the node panics")
			}
		})
	}
	r.Floor(rule, "dereferences of (pointer, error) results computed from peer-controlled data", n, 1)
}

// peerDerived: v is peer-controlled, or was computed by a call / conversion from a
// peer-controlled value (results of library parsers such as ma.NewMultiaddrBytes, which the
// taint engine does not follow into).
func peerDerived(t *core.Taint, v ssa.Value, d int) bool {
	if v == nil || d > 4 {
		return false
	}
	if t.Tainted(v) {
		return true
	}
	switch x := v.(type) {
	case *ssa.Extract:
		return peerDerived(t, x.Tuple, d+1)
	case *ssa.Call:
		// only through library functions: calls inside the repository are followed by the
		// taint engine itself, and a local lookup keyed by peer data is not peer-controlled
		if f := core.CalleeFunc(&x.Call); f == nil || f.Pkg() == nil || strings.HasPrefix(f.Pkg().Path(), core.Mod) {
			return false
		}
		for _, a := range x.Call.Args {
			if peerDerived(t, a, d+1) {
				return true
			}
		}
	case *ssa.MakeInterface:
		return peerDerived(t, x.X, d+1)
	case *ssa.ChangeInterface:
		return peerDerived(t, x.X, d+1)
	case *ssa.Convert:
		return peerDerived(t, x.X, d+1)
	case *ssa.Phi:
		for _, e := range x.Edges {
			if e != v && peerDerived(t, e, d+1) {
				return true
			}
		}
	}
	return false
}
