package props

import (
	"aurora-verif/checker/core"

	"golang.org/x/tools/go/ssa"
)

// c18Snapshot (S1): "both state-store implementations visit the same entries with the same
// values". The in-memory store selects the matching keys by ranging over its map and then
// hands each key's value to the callback. The value lookup happens in the critical section
// that selected the keys (no Unlock of the store's mutex between the range and the lookup),
// or it is a comma-ok lookup and the callback is called only behind ok == true — a plain
// lookup after the lock was released and re-taken hands out the zero value of a key that
// was deleted in between: an entry with a value nobody wrote.
func c18Snapshot(r *core.Run) {
	const rule = "C18.S1"
	fn := r.W.Func("pkg/statestore/mock", "(*store).Iterate")
	if fn == nil {
		r.Fatal("unresolved anchor pkg/statestore/mock.(*store).Iterate")
		return
	}
	r.Saw(core.FuncName(fn))
	r.Eval(core.EdgeCount(fn))
	var ranges, unlocks []ssa.Instruction
	var lookups []*ssa.Lookup
	core.EachInstr(fn, func(_ *ssa.BasicBlock, _ int, in ssa.Instruction) {
		switch x := in.(type) {
		case *ssa.Range:
			if core.IsFieldOf(core.Forward(x.X), "pkg/statestore/mock.store", "store") {
				ranges = append(ranges, in)
			}
		case *ssa.Lookup:
			if core.IsFieldOf(core.Forward(x.X), "pkg/statestore/mock.store", "store") {
				lookups = append(lookups, x)
			}
		case *ssa.Call:
			n := core.CalleeName(&x.Call)
			if n == "(*sync.RWMutex).RUnlock" || n == "(*sync.RWMutex).Unlock" {
				unlocks = append(unlocks, in)
			}
		}
	})
	// instruction a can be followed by instruction b
	follows := func(a, b ssa.Instruction) bool {
		if a.Block() == b.Block() {
			ia, ib := -1, -1
			for i, in := range a.Block().Instrs {
				if in == a {
					ia = i
				}
				if in == b {
					ib = i
				}
			}
			if ia < ib {
				return true
			}
		}
		return reachAvoiding(a.Block(), nil)[b.Block()]
	}
	n := 0
	for _, l := range lookups {
		n++
		ok := true
		for _, rg := range ranges {
			for _, u := range unlocks {
				if follows(rg, u) && follows(u, l) {
					ok = false
				}
			}
		}
		if !ok && l.CommaOk {
			// comma-ok form: every callback call lies behind ok == true of this lookup
			present, _ := core.AtomEdges(fn, func(base ssa.Value) (bool, bool) {
				ex, isEx := base.(*ssa.Extract)
				if !isEx || ex.Index != 1 || ex.Tuple != ssa.Value(l) {
					return false, false
				}
				return true, true
			})
			ok = len(present) > 0
			core.EachInstr(fn, func(_ *ssa.BasicBlock, _ int, in ssa.Instruction) {
				if c, isC := in.(*ssa.Call); isC && c.Call.Value == ssa.Value(fn.Params[2]) && !core.OnlyBehind(fn, in, present) {
					ok = false
				}
			})
		}
		r.Check(rule, lsKey(rule, fn, "value read in the critical section that selected the key"), l.Pos(), ok,
			"the value handed to the callback is read while the lock that covered the key selection is still held (or the entry is re-checked for presence)",
			"the mutex is released between the selection of the keys and the value lookup: a key deleted in between is still visited, with an empty value nobody wrote (the disk store visits its real value, the locked walk does not see the delete)")
	}
	r.Floor(rule, "value lookups in the in-memory Iterate", n, 1)
	r.Floor(rule, "map ranges in the in-memory Iterate", len(ranges), 1)
}
