package core

import (
	"go/token"
	"go/types"
	"sort"
	"strings"

	"golang.org/x/tools/go/ssa"
)

// Engine Lk — lockset (guarded-by) analysis.
//
// Forward must-analysis of the set of held locks before every instruction. Lock identity
// is type-based: "<struct type>.<mutex field>" (or "<pkg>.<global>") with mode /W or /R.
// (Instances are not distinguished; the rule tables only name structs with one instance
// per function, confirmed by reading.) `defer mu.Unlock()` keeps the lock until the
// function's RunDefers point, where deferred calls are applied in LIFO order.
// Interprocedural inside the analysed packages: callee summaries (gen/kill), entry
// locksets for functions that are only called directly (∩ over call sites, fixed point),
// closures invoked synchronously (called in place, deferred, or passed to a function that
// only calls its parameter) inherit the lockset of the invocation point.

type LS map[string]bool

func (s LS) clone() LS {
	c := LS{}
	for k := range s {
		c[k] = true
	}
	return c
}

func (s LS) String() string {
	var ks []string
	for k := range s {
		ks = append(ks, k)
	}
	sort.Strings(ks)
	return "{" + strings.Join(ks, ",") + "}"
}

func intersect(a, b LS) LS {
	if a == nil {
		return b.clone()
	}
	out := LS{}
	for k := range a {
		if b[k] {
			out[k] = true
		}
	}
	return out
}

func sameLS(a, b LS) bool {
	if (a == nil) != (b == nil) || len(a) != len(b) {
		return false
	}
	for k := range a {
		if !b[k] {
			return false
		}
	}
	return true
}

// Holds reports whether lock id is held in write mode, or (if !write) in any mode.
func (s LS) Holds(id string, write bool) bool {
	if s[id+"/W"] {
		return true
	}
	return !write && s[id+"/R"]
}

type effect struct{ gen, kill LS }

// LockAnalysis holds the result for a set of packages.
type LockAnalysis struct {
	w        *World
	funcs    []*ssa.Function
	inSet    map[*ssa.Function]bool
	universe LS
	entry    map[*ssa.Function]LS
	eligible map[*ssa.Function]bool
	sum      map[*ssa.Function]effect
	held     map[ssa.Instruction]LS
	// paramHeld[g][i]: locks g holds whenever it calls its function-typed parameter i
	paramHeld map[*ssa.Function]map[int]LS
	// SyncCallees: external callees known to invoke a function argument synchronously
	SyncCallees map[string]bool
	// extra lock wrappers: callee name -> lock effect, e.g. reflect-dispatched helpers
	Wrappers map[string]func(c *ssa.CallCommon, s LS)
	Iter     int
}

// LockID names the mutex a Lock/Unlock receiver denotes ("" if unknown).
func LockID(v ssa.Value) string {
	v = Strip(v)
	if fr, ok := AsField(v); ok {
		return fr.Struct + "." + fr.Name
	}
	switch x := v.(type) {
	case *ssa.Global:
		return strings.TrimPrefix(x.Pkg.Pkg.Path(), Mod+"/") + "." + x.Name()
	case *ssa.UnOp:
		if x.Op == token.MUL {
			return LockID(x.X)
		}
	}
	return ""
}

func lockOp(c *ssa.CallCommon) (id, op string) {
	n := CalleeName(c)
	switch n {
	case "(*sync.Mutex).Lock", "(*sync.RWMutex).Lock":
		op = "+W"
	case "(*sync.Mutex).Unlock", "(*sync.RWMutex).Unlock":
		op = "-W"
	case "(*sync.RWMutex).RLock":
		op = "+R"
	case "(*sync.RWMutex).RUnlock":
		op = "-R"
	default:
		return "", ""
	}
	if len(c.Args) == 0 {
		return "", ""
	}
	return LockID(c.Args[0]), op
}

// NewLockAnalysis analyses all functions (closures included) of the given packages.
func NewLockAnalysis(w *World, rels ...string) *LockAnalysis {
	la := &LockAnalysis{w: w, inSet: map[*ssa.Function]bool{}, universe: LS{}, entry: map[*ssa.Function]LS{},
		eligible: map[*ssa.Function]bool{}, sum: map[*ssa.Function]effect{}, held: map[ssa.Instruction]LS{},
		paramHeld: map[*ssa.Function]map[int]LS{},
		SyncCallees: map[string]bool{
			"(*sync.Map).Range": true, "sort.Slice": true, "sort.SliceStable": true, "(*sync.Once).Do": true,
		},
		Wrappers: map[string]func(c *ssa.CallCommon, s LS){},
	}
	for _, rel := range rels {
		for _, fn := range w.PkgFuncs(rel) {
			la.funcs = append(la.funcs, fn)
			la.inSet[fn] = true
		}
	}
	// universe of lock ids
	for _, fn := range la.funcs {
		EachInstr(fn, func(_ *ssa.BasicBlock, _ int, in ssa.Instruction) {
			if c := Common(in); c != nil {
				if id, op := lockOp(c); id != "" {
					la.universe[id+"/"+op[1:]] = true
					la.universe[id+"/R"] = true
				}
			}
		})
	}
	return la
}

// Run computes summaries and entry locksets to a fixed point.
func (la *LockAnalysis) Run() {
	// which functions may get a non-empty entry lockset
	addrTaken := map[*ssa.Function]bool{}
	for _, fn := range la.funcs {
		EachInstr(fn, func(_ *ssa.BasicBlock, _ int, in ssa.Instruction) {
			var ops []*ssa.Value
			ops = in.Operands(ops)
			c := Common(in)
			for _, op := range ops {
				if op == nil || *op == nil {
					continue
				}
				f, ok := (*op).(*ssa.Function)
				if !ok {
					continue
				}
				if c != nil && c.Value == ssa.Value(f) {
					if _, isGo := in.(*ssa.Go); !isGo {
						continue // direct call
					}
				}
				addrTaken[f] = true
			}
		})
	}
	for _, fn := range la.funcs {
		if fn.Parent() != nil {
			la.eligible[fn] = true // closures: decided per creation site
			continue
		}
		exported := fn.Object() != nil && fn.Object().Exported()
		if fn.Name() == "init" || fn.Name() == "main" {
			exported = true
		}
		// methods satisfying interfaces may be called from anywhere even if unexported;
		// unexported methods can only be invoked via interfaces declared in this package:
		// treat as not eligible when address-taken or exported.
		la.eligible[fn] = !exported && !addrTaken[fn]
	}
	for _, fn := range la.funcs {
		if la.eligible[fn] {
			la.entry[fn] = nil // top (unknown yet)
		} else {
			la.entry[fn] = LS{}
		}
	}
	for iter := 0; iter < 12; iter++ {
		la.Iter = iter + 1
		// summaries with current knowledge
		changedSum := false
		for _, fn := range la.funcs {
			g := la.exitSet(fn, LS{})
			k := la.exitSet(fn, la.universe)
			e := effect{gen: g, kill: LS{}}
			for id := range la.universe {
				if !k[id] {
					e.kill[id] = true
				}
			}
			old, ok := la.sum[fn]
			if !ok || !sameLS(old.gen, e.gen) || !sameLS(old.kill, e.kill) {
				la.sum[fn] = e
				changedSum = true
			}
		}
		// entry locksets
		acc := map[*ssa.Function]LS{}
		seenSite := map[*ssa.Function]bool{}
		la.paramHeld = map[*ssa.Function]map[int]LS{}
		note := func(f *ssa.Function, s LS) {
			if !la.inSet[f] || !la.eligible[f] {
				return
			}
			if !seenSite[f] {
				acc[f] = s.clone()
				seenSite[f] = true
			} else {
				acc[f] = intersect(acc[f], s)
			}
		}
		la.held = map[ssa.Instruction]LS{}
		for _, fn := range la.funcs {
			ent := la.entry[fn]
			if ent == nil {
				ent = la.universe // optimistic start for eligible functions; shrinks monotonically
			}
			la.flow(fn, ent, func(in ssa.Instruction, s LS) {
				la.held[in] = s.clone()
				c := Common(in)
				if c == nil {
					return
				}
				if _, isGo := in.(*ssa.Go); isGo {
					if f := c.StaticCallee(); f != nil {
						note(f, LS{})
					}
					if mc, ok := c.Value.(*ssa.MakeClosure); ok {
						note(mc.Fn.(*ssa.Function), LS{})
					}
					for _, a := range c.Args {
						if mc, ok := a.(*ssa.MakeClosure); ok {
							note(mc.Fn.(*ssa.Function), LS{})
						}
					}
					return
				}
				if _, isDefer := in.(*ssa.Defer); isDefer {
					return // handled at RunDefers
				}
				if f := c.StaticCallee(); f != nil {
					note(f, s)
				}
				if mc, ok := c.Value.(*ssa.MakeClosure); ok { // func(){...}()
					note(mc.Fn.(*ssa.Function), s)
				}
				// call of a function-typed parameter
				if p, ok := c.Value.(*ssa.Parameter); ok {
					for i, q := range fn.Params {
						if q == p {
							if la.paramHeld[fn] == nil {
								la.paramHeld[fn] = map[int]LS{}
							}
							if old, ok := la.paramHeld[fn][i]; ok {
								la.paramHeld[fn][i] = intersect(old, s)
							} else {
								la.paramHeld[fn][i] = s.clone()
							}
						}
					}
				}
			}, func(cl *ssa.Function, s LS) { note(cl, s) })
		}
		// closures passed as arguments (needs paramHeld of all functions: second sweep)
		for _, fn := range la.funcs {
			EachInstr(fn, func(_ *ssa.BasicBlock, _ int, in ssa.Instruction) {
				call, ok := in.(*ssa.Call)
				if !ok {
					return
				}
				s := la.held[in]
				args := call.Call.Args
				for ai, a := range args {
					mc, ok := a.(*ssa.MakeClosure)
					if !ok {
						continue
					}
					cl := mc.Fn.(*ssa.Function)
					callee := call.Call.StaticCallee()
					name := CalleeName(&call.Call)
					switch {
					case callee != nil && la.inSet[callee] && la.callsParamOnly(callee, ai, 0):
						e := s.clone()
						if sm, ok := la.sum[callee]; ok {
							for k := range sm.kill {
								delete(e, k)
							}
						}
						if ph, ok := la.paramHeld[callee][ai]; ok {
							// locks the callee itself holds at the invocation (computed with its own entry)
							for k := range ph {
								if !s[k] {
									// only locks acquired inside the callee count here
									if g := la.exitSetAtParamCall(callee, ai); g[k] {
										e[k] = true
									}
								}
							}
						}
						note(cl, e)
					case callee != nil && !la.inSet[callee] && la.w.byName[callee.Pkg.Pkg.Path()+"."+callee.RelString(callee.Pkg.Pkg)] != nil && callsParamOnlyAny(callee, ai, 0):
						// repo function outside the analysed packages that only calls its parameter
						note(cl, s)
					case la.SyncCallees[name]:
						note(cl, s)
					default:
						note(cl, LS{})
					}
				}
			})
			// closures that escape otherwise (stored, returned): entry ∅
			EachInstr(fn, func(_ *ssa.BasicBlock, _ int, in ssa.Instruction) {
				mc, ok := in.(*ssa.MakeClosure)
				if !ok {
					return
				}
				for _, u := range Uses(mc) {
					switch x := u.(type) {
					case *ssa.Call:
						continue
					case *ssa.Defer:
						if x.Call.Value == ssa.Value(mc) {
							continue
						}
					case *ssa.Go:
						continue
					case *ssa.DebugRef:
						continue
					}
					note(mc.Fn.(*ssa.Function), LS{})
				}
			})
		}
		changed := changedSum
		for _, fn := range la.funcs {
			if !la.eligible[fn] {
				continue
			}
			var ne LS
			if seenSite[fn] {
				ne = acc[fn]
			} else {
				ne = LS{} // never called inside the analysed packages
			}
			if la.entry[fn] == nil || !sameLS(la.entry[fn], ne) {
				// monotone: only shrink
				if la.entry[fn] != nil {
					ne = intersect(la.entry[fn], ne)
				}
				if la.entry[fn] == nil || !sameLS(la.entry[fn], ne) {
					la.entry[fn] = ne
					changed = true
				}
			}
		}
		if !changed {
			break
		}
	}
	// final held map with final entries
	la.held = map[ssa.Instruction]LS{}
	for _, fn := range la.funcs {
		la.flow(fn, la.entry[fn], func(in ssa.Instruction, s LS) { la.held[in] = s.clone() }, nil)
	}
}

// exitSetAtParamCall: locks acquired by callee itself (entry ∅) at calls of parameter i.
func (la *LockAnalysis) exitSetAtParamCall(callee *ssa.Function, i int) LS {
	var res LS
	first := true
	la.flow(callee, LS{}, func(in ssa.Instruction, s LS) {
		c := Common(in)
		if c == nil {
			return
		}
		if p, ok := c.Value.(*ssa.Parameter); ok && i < len(callee.Params) && callee.Params[i] == p {
			if first {
				res, first = s.clone(), false
			} else {
				res = intersect(res, s)
			}
		}
	}, nil)
	if res == nil {
		return LS{}
	}
	return res
}

// callsParamOnly: every use of parameter i of g is a direct (non-go) call, or passing it on
// to an analysed function that does the same.
func (la *LockAnalysis) callsParamOnly(g *ssa.Function, i int, depth int) bool {
	return callsParamOnlyAny(g, i, depth)
}

func callsParamOnlyAny(g *ssa.Function, i int, depth int) bool {
	if i >= len(g.Params) || depth > 3 || g.Blocks == nil {
		return false
	}
	p := g.Params[i]
	for _, u := range Uses(p) {
		switch x := u.(type) {
		case *ssa.DebugRef:
		case *ssa.Call:
			if x.Call.Value == ssa.Value(p) {
				continue
			}
			callee := x.Call.StaticCallee()
			if callee == nil {
				return false
			}
			ok := false
			for ai, a := range x.Call.Args {
				if a == ssa.Value(p) && callsParamOnlyAny(callee, ai, depth+1) {
					ok = true
				}
			}
			if !ok {
				return false
			}
		case *ssa.Defer:
			if x.Call.Value != ssa.Value(p) {
				return false
			}
		default:
			return false
		}
	}
	return true
}

// exitSet: ∩ of the locksets after RunDefers at every return, starting from ent.
func (la *LockAnalysis) exitSet(fn *ssa.Function, ent LS) LS {
	var res LS
	first := true
	la.flowFull(fn, ent, nil, nil, func(s LS) {
		if first {
			res, first = s.clone(), false
		} else {
			res = intersect(res, s)
		}
	})
	if res == nil {
		return LS{} // no return (infinite loop / panics): holds nothing for callers' purposes
	}
	return res
}

func (la *LockAnalysis) flow(fn *ssa.Function, ent LS, visit func(ssa.Instruction, LS), deferred func(*ssa.Function, LS)) {
	la.flowFull(fn, ent, visit, deferred, nil)
}

func (la *LockAnalysis) apply(c *ssa.CallCommon, s LS) {
	if id, op := lockOp(c); op != "" {
		if id == "" {
			return
		}
		switch op {
		case "+W":
			// write mode subsumes read mode (so that ∩ over a write-locked and a
			// read-locked call site keeps the read fact)
			s[id+"/W"] = true
			s[id+"/R"] = true
		case "+R":
			s[id+"/R"] = true
		case "-W":
			delete(s, id+"/W")
			delete(s, id+"/R")
		case "-R":
			delete(s, id+"/R")
		}
		return
	}
	if w, ok := la.Wrappers[CalleeName(c)]; ok {
		w(c, s)
		return
	}
	var callee *ssa.Function
	if mc, ok := c.Value.(*ssa.MakeClosure); ok {
		callee = mc.Fn.(*ssa.Function)
	} else {
		callee = c.StaticCallee()
	}
	if callee != nil {
		if e, ok := la.sum[callee]; ok {
			for k := range e.kill {
				delete(s, k)
			}
			for k := range e.gen {
				s[k] = true
			}
		}
	}
}

func (la *LockAnalysis) flowFull(fn *ssa.Function, ent LS, visit func(ssa.Instruction, LS), deferred func(*ssa.Function, LS), atExit func(LS)) {
	if len(fn.Blocks) == 0 {
		return
	}
	if ent == nil {
		ent = LS{}
	}
	in := map[*ssa.BasicBlock]LS{fn.Blocks[0]: ent.clone()}
	work := []*ssa.BasicBlock{fn.Blocks[0]}
	var defers []*ssa.Defer
	EachInstr(fn, func(_ *ssa.BasicBlock, _ int, i ssa.Instruction) {
		if d, ok := i.(*ssa.Defer); ok {
			defers = append(defers, d)
		}
	})
	sort.Slice(defers, func(i, j int) bool { return defers[i].Pos() > defers[j].Pos() }) // LIFO approx
	transfer := func(b *ssa.BasicBlock, s LS, final bool) LS {
		s = s.clone()
		for _, i := range b.Instrs {
			if final && visit != nil {
				visit(i, s)
			}
			switch x := i.(type) {
			case *ssa.Call:
				la.apply(&x.Call, s)
			case *ssa.RunDefers:
				for _, d := range defers {
					if mc, ok := d.Call.Value.(*ssa.MakeClosure); ok && final && deferred != nil {
						deferred(mc.Fn.(*ssa.Function), s)
					}
					la.apply(&d.Call, s)
				}
			case *ssa.Return:
				if final && atExit != nil {
					atExit(s)
				}
			}
		}
		return s
	}
	for len(work) > 0 {
		b := work[len(work)-1]
		work = work[:len(work)-1]
		out := transfer(b, in[b], false)
		for _, succ := range b.Succs {
			old, ok := in[succ]
			var ns LS
			if !ok {
				ns = out.clone()
			} else {
				ns = intersect(old, out)
			}
			if !ok || !sameLS(old, ns) {
				in[succ] = ns
				work = append(work, succ)
			}
		}
	}
	for _, b := range fn.Blocks {
		if s, ok := in[b]; ok {
			transfer(b, s, true)
		}
	}
}

// HeldAt returns the lockset before instruction in (nil if in is unreachable/not analysed).
func (la *LockAnalysis) HeldAt(in ssa.Instruction) LS { return la.held[in] }

// Entry returns the entry lockset computed for fn.
func (la *LockAnalysis) Entry(fn *ssa.Function) LS { return la.entry[fn] }

// ---- guarded-by ---------------------------------------------------------------------

// Access is one read or write of a guarded field.
type Access struct {
	Fn    *ssa.Function
	In    ssa.Instruction
	Write bool
	Fresh bool // base object allocated in this function (not yet published)
}

// FieldAccesses lists reads and writes of struct field structName.field in the given
// functions. A write is: a store to the field; a map update / delete / element store on
// the value loaded from it; append results are stores. Everything else is a read.
func FieldAccesses(funcs []*ssa.Function, structName, field string) []Access {
	var out []Access
	for _, fn := range funcs {
		EachInstr(fn, func(_ *ssa.BasicBlock, _ int, in ssa.Instruction) {
			fa, ok := in.(*ssa.FieldAddr)
			if !ok {
				if f, ok := in.(*ssa.Field); ok {
					if fr, ok := AsField(f); ok && fr.Struct == structName && fr.Name == field {
						out = append(out, Access{Fn: fn, In: in})
					}
				}
				return
			}
			fr, ok := AsField(fa)
			if !ok || fr.Struct != structName || fr.Name != field {
				return
			}
			_, fresh := fa.X.(*ssa.Alloc)
			for _, u := range Uses(fa) {
				switch x := u.(type) {
				case *ssa.Store:
					if x.Addr == ssa.Value(fa) {
						out = append(out, Access{Fn: fn, In: x, Write: true, Fresh: fresh})
					} else {
						out = append(out, Access{Fn: fn, In: x, Fresh: fresh}) // address stored elsewhere
					}
				case *ssa.UnOp:
					if x.Op != token.MUL {
						continue
					}
					wrote := false
					for _, uu := range Uses(x) {
						switch y := uu.(type) {
						case *ssa.MapUpdate:
							if y.Map == ssa.Value(x) {
								out = append(out, Access{Fn: fn, In: y, Write: true, Fresh: fresh})
								wrote = true
							}
						case *ssa.Call:
							if b, ok := y.Call.Value.(*ssa.Builtin); ok && b.Name() == "delete" && y.Call.Args[0] == ssa.Value(x) {
								out = append(out, Access{Fn: fn, In: y, Write: true, Fresh: fresh})
								wrote = true
							}
						case *ssa.IndexAddr:
							for _, u3 := range Uses(y) {
								if st, ok := u3.(*ssa.Store); ok && st.Addr == ssa.Value(y) {
									out = append(out, Access{Fn: fn, In: st, Write: true, Fresh: fresh})
									wrote = true
								}
								if ld, ok := u3.(*ssa.UnOp); ok && ld.Op == token.MUL {
									// element read of the container held in the field
									out = append(out, Access{Fn: fn, In: ld, Fresh: fresh})
								}
							}
						}
					}
					_ = wrote
					out = append(out, Access{Fn: fn, In: x, Fresh: fresh})
				case *ssa.DebugRef:
				default:
					// address passed to a call (method on the field) etc.: a read of the field
					out = append(out, Access{Fn: fn, In: u, Fresh: fresh})
				}
			}
		})
	}
	return out
}

// Funcs returns the analysed functions.
func (la *LockAnalysis) Funcs() []*ssa.Function { return la.funcs }

// CheckGuarded records one obligation per (function, access kind) for field
// structName.field guarded by lockID. exempt maps function display names to a reason.
func (la *LockAnalysis) CheckGuarded(r *Run, rule, structName, field, lockID string, exempt map[string]string) (sites int) {
	type k struct {
		fn    *ssa.Function
		write bool
	}
	bad := map[k]ssa.Instruction{}
	seen := map[k]token.Pos{}
	var order []k
	for _, a := range FieldAccesses(la.funcs, structName, field) {
		if a.Fresh {
			continue
		}
		name := FuncName(a.Fn)
		if _, ok := exempt[name]; ok {
			continue
		}
		sites++
		kk := k{a.Fn, a.Write}
		if _, ok := seen[kk]; !ok {
			seen[kk] = a.In.Pos()
			order = append(order, kk)
		}
		held := la.HeldAt(a.In)
		if held == nil || !held.Holds(lockID, a.Write) {
			if _, ok := bad[kk]; !ok {
				bad[kk] = a.In
			}
		}
	}
	for _, kk := range order {
		kind := "read"
		if kk.write {
			kind = "write"
		}
		r.Saw(FuncName(kk.fn))
		pos := seen[kk]
		detail := ""
		if b, ok := bad[kk]; ok {
			pos = b.Pos()
			if !pos.IsValid() {
				pos = seen[kk]
			}
			detail = "held here: " + la.HeldAt(b).String() + " (entry " + la.entry[kk.fn].String() + ")"
		}
		_, isBad := bad[kk]
		if !pos.IsValid() {
			pos = kk.fn.Pos()
		}
		r.Check(rule, Key(rule, kk.fn, field+":"+kind), pos, !isBad,
			kind+" of "+structName+"."+field+" happens with "+lockID+" held", kind+" of "+structName+"."+field+" without "+lockID+"; "+detail)
	}
	r.Eval(sites)
	return sites
}

var _ = types.Typ
