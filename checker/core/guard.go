package core

import (
	"go/token"

	"golang.org/x/tools/go/ssa"
)

// Edge is a CFG edge.
type Edge struct{ From, To *ssa.BasicBlock }

// EdgeSet is a set of CFG edges.
type EdgeSet map[Edge]bool

// Normalize strips boolean negations: cond == (neg ? !base : base). Comparisons of a
// boolean with a constant true/false are folded as well.
func Normalize(cond ssa.Value) (base ssa.Value, neg bool) {
	base = cond
	for {
		switch x := base.(type) {
		case *ssa.UnOp:
			if x.Op == token.NOT {
				base = x.X
				neg = !neg
				continue
			}
		case *ssa.BinOp:
			if x.Op == token.EQL || x.Op == token.NEQ {
				if b, ok := ConstBool(x.Y); ok {
					base = x.X
					if (x.Op == token.EQL) != b {
						neg = !neg
					}
					continue
				}
				if b, ok := ConstBool(x.X); ok {
					base = x.Y
					if (x.Op == token.EQL) != b {
						neg = !neg
					}
					continue
				}
			}
		}
		return base, neg
	}
}

// Atom classifies a normalised branch condition. It returns match=true when the condition
// is an instance of the atom, and holdsWhenTrue = whether the atom's *positive* reading
// holds when the (normalised, un-negated) base value is true.
type Atom func(base ssa.Value) (match bool, holdsWhenTrue bool)

// AtomEdges returns the edges on which the atom holds (pos) and on which its negation
// holds (negE). Conditions that are phis of booleans (a guard first stored in a variable:
// `ok := a && b; if ok`) are resolved per predecessor where the incoming value is itself a
// recognisable condition or constant.
func AtomEdges(fn *ssa.Function, atom Atom) (pos, negE EdgeSet) {
	pos, negE = EdgeSet{}, EdgeSet{}
	for _, b := range fn.Blocks {
		if len(b.Instrs) == 0 {
			continue
		}
		ifi, ok := b.Instrs[len(b.Instrs)-1].(*ssa.If)
		if !ok {
			continue
		}
		base, neg := Normalize(ifi.Cond)
		base = Forward(base)
		if b2, n2 := Normalize(base); b2 != base {
			base, neg = b2, neg != n2
		}
		match, hwt := atom(base)
		if !match {
			continue
		}
		// atom holds on true edge iff hwt != neg
		tEdge := Edge{b, b.Succs[0]}
		fEdge := Edge{b, b.Succs[1]}
		if hwt != neg {
			pos[tEdge] = true
			negE[fEdge] = true
		} else {
			pos[fEdge] = true
			negE[tEdge] = true
		}
	}
	return
}

// NilCmp recognises `x == nil` / `x != nil`; eq reports the operator. x is forwarded.
func NilCmp(base ssa.Value) (x ssa.Value, eq bool, ok bool) {
	b, isBin := base.(*ssa.BinOp)
	if !isBin || (b.Op != token.EQL && b.Op != token.NEQ) {
		return nil, false, false
	}
	if IsNilConst(b.Y) {
		return Forward(b.X), b.Op == token.EQL, true
	}
	if IsNilConst(b.X) {
		return Forward(b.Y), b.Op == token.EQL, true
	}
	return nil, false, false
}

// ResultOf reports whether v is (an Extract of) the result of call instruction c; idx is
// the tuple index (0 for single results).
func ResultOf(v ssa.Value, c *ssa.Call) (idx int, ok bool) {
	v = Forward(v)
	if v == ssa.Value(c) {
		return 0, true
	}
	if e, isE := v.(*ssa.Extract); isE && e.Tuple == ssa.Value(c) {
		return e.Index, true
	}
	return 0, false
}

// CallOf returns the call instruction whose result v is (possibly via Extract).
func CallOf(v ssa.Value) (*ssa.Call, int) {
	v = Forward(v)
	if c, ok := v.(*ssa.Call); ok {
		return c, 0
	}
	if e, ok := v.(*ssa.Extract); ok {
		if c, ok := e.Tuple.(*ssa.Call); ok {
			return c, e.Index
		}
	}
	return nil, 0
}

// ErrNilAtom: atom "the error returned by a call matching pred is nil".
func ErrNilAtom(pred func(c *ssa.Call) bool) Atom {
	return func(base ssa.Value) (bool, bool) {
		x, eq, ok := NilCmp(base)
		if !ok {
			return false, false
		}
		c, _ := CallOf(x)
		if c == nil || !pred(c) {
			return false, false
		}
		if !isErrorType(x) {
			return false, false
		}
		return true, eq
	}
}

func isErrorType(v ssa.Value) bool {
	return v.Type().String() == "error"
}

// BoolCallAtom: atom "call matching pred returned true" (bool result, possibly one
// component of a tuple).
func BoolCallAtom(pred func(c *ssa.Call) bool) Atom {
	return func(base ssa.Value) (bool, bool) {
		c, _ := CallOf(base)
		if c == nil || !pred(c) {
			return false, false
		}
		return true, true
	}
}

// Or combines atoms: the first that matches decides.
func Or(atoms ...Atom) Atom {
	return func(base ssa.Value) (bool, bool) {
		for _, a := range atoms {
			if m, h := a(base); m {
				return true, h
			}
		}
		return false, false
	}
}

// ReachBlocks returns the blocks reachable from the start blocks without crossing an edge
// in avoid.
func ReachBlocks(start []*ssa.BasicBlock, avoid EdgeSet) map[*ssa.BasicBlock]bool {
	seen := map[*ssa.BasicBlock]bool{}
	work := append([]*ssa.BasicBlock{}, start...)
	for _, s := range start {
		seen[s] = true
	}
	for len(work) > 0 {
		b := work[len(work)-1]
		work = work[:len(work)-1]
		for _, s := range b.Succs {
			if avoid[Edge{b, s}] || seen[s] {
				continue
			}
			seen[s] = true
			work = append(work, s)
		}
	}
	return seen
}

// BackEdges returns the edges u->v where v dominates u.
func BackEdges(fn *ssa.Function) EdgeSet {
	es := EdgeSet{}
	for _, b := range fn.Blocks {
		for _, s := range b.Succs {
			if s.Dominates(b) {
				es[Edge{b, s}] = true
			}
		}
	}
	return es
}

// OnlyBehind reports whether instruction sink can be reached from the function entry only
// by crossing one of the edges in good (must-guard form). It returns false (violation) if
// a path avoiding all good edges reaches the sink's block. An unreachable sink is behind
// anything.
func OnlyBehind(fn *ssa.Function, sink ssa.Instruction, good EdgeSet) bool {
	if len(fn.Blocks) == 0 {
		return true
	}
	r := ReachBlocks([]*ssa.BasicBlock{fn.Blocks[0]}, good)
	return !r[sink.Block()]
}

// ReachableFromEdges reports whether sink is reachable from the target of any of the
// given edges; with sameIter, loop back edges are not followed.
func ReachableFromEdges(fn *ssa.Function, from EdgeSet, sink ssa.Instruction, sameIter bool) bool {
	var avoid EdgeSet
	if sameIter {
		avoid = BackEdges(fn)
	}
	var start []*ssa.BasicBlock
	for e := range from {
		if sameIter && avoid[e] {
			continue // the edge itself starts the next iteration (`continue`)
		}
		start = append(start, e.To)
	}
	if len(start) == 0 {
		return false
	}
	r := ReachBlocks(start, avoid)
	return r[sink.Block()]
}

// Precedes reports whether instruction a executes before b on every path from entry to b:
// a's block strictly dominates b's block, or same block with a earlier.
func Precedes(a, b ssa.Instruction) bool {
	if a.Block() == b.Block() {
		for _, in := range a.Block().Instrs {
			if in == a {
				return true
			}
			if in == b {
				return false
			}
		}
		return false
	}
	return a.Block().Dominates(b.Block())
}

// ExitBlocks returns blocks ending in Return or Panic.
func ExitBlocks(fn *ssa.Function) []*ssa.BasicBlock {
	var out []*ssa.BasicBlock
	for _, b := range fn.Blocks {
		if len(b.Instrs) == 0 {
			continue
		}
		switch b.Instrs[len(b.Instrs)-1].(type) {
		case *ssa.Return:
			out = append(out, b)
		}
	}
	return out
}

// MustPassAfter reports whether every path from instruction a to a function Return passes
// an instruction satisfying pred (deferred calls registered before a count when
// deferOK(defer) holds). It returns the first offending exit block if not.
func MustPassAfter(fn *ssa.Function, a ssa.Instruction, pred func(ssa.Instruction) bool) (bool, *ssa.BasicBlock) {
	// blocks containing pred instructions (with index)
	type loc struct {
		b *ssa.BasicBlock
		i int
	}
	idx := func(in ssa.Instruction) int {
		for i, x := range in.Block().Instrs {
			if x == in {
				return i
			}
		}
		return -1
	}
	ai := idx(a)
	// within a's block after a
	for _, in := range a.Block().Instrs[ai+1:] {
		if pred(in) {
			return true, nil
		}
	}
	if _, isRet := a.Block().Instrs[len(a.Block().Instrs)-1].(*ssa.Return); isRet {
		return false, a.Block()
	}
	seen := map[*ssa.BasicBlock]bool{}
	var work []*ssa.BasicBlock
	for _, s := range a.Block().Succs {
		if !seen[s] {
			seen[s] = true
			work = append(work, s)
		}
	}
	for len(work) > 0 {
		b := work[len(work)-1]
		work = work[:len(work)-1]
		hit := false
		for _, in := range b.Instrs {
			if pred(in) {
				hit = true
				break
			}
		}
		if hit {
			continue
		}
		if len(b.Instrs) > 0 {
			if _, isRet := b.Instrs[len(b.Instrs)-1].(*ssa.Return); isRet {
				return false, b
			}
		}
		for _, s := range b.Succs {
			if !seen[s] {
				seen[s] = true
				work = append(work, s)
			}
		}
	}
	return true, nil
}

// EdgeCount is the number of CFG edges of fn (used for evidence counting).
func EdgeCount(fn *ssa.Function) int {
	n := 0
	for _, b := range fn.Blocks {
		n += len(b.Succs) + len(b.Instrs)
	}
	return n
}
