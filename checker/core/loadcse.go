package core

import (
	"go/token"
	"go/types"

	"golang.org/x/tools/go/ssa"
)

// LoadReps is a sound "available loads" value numbering for fields of function-local
// structs: it maps a load L2 of field f of local object a to an earlier load L1 of the
// same field when L1 dominates L2 and no instruction on any path from L1 to L2 can change
// the field (a store to it, a store to the whole object, or a call that is handed the
// object). go/ssa performs no CSE, so `if req.Limit > 0 { use(req.Limit) }` yields two
// distinct values; with the representative the guard on one is a fact about the other.
//
// An object is tracked only if its address never leaves the function other than as a plain
// call argument (possibly boxed in an interface): not captured by a closure, not stored,
// not returned, not passed to go/defer. Callees are assumed not to retain the pointer
// beyond the call (decoders: ReadMsg, Unmarshal).
// readOnlyFreeVar: the closure uses its i-th free variable (a pointer to a struct) only to
// load fields or the whole value, directly or in nested closures.
func readOnlyFreeVar(cl *ssa.Function, i int, depth int) bool {
	if depth > 3 || i >= len(cl.FreeVars) {
		return false
	}
	fv := cl.FreeVars[i]
	for _, u := range Uses(fv) {
		switch x := u.(type) {
		case *ssa.DebugRef:
		case *ssa.UnOp:
			if !(x.Op == token.MUL && x.X == ssa.Value(fv)) {
				return false
			}
		case *ssa.FieldAddr:
			for _, fu := range Uses(x) {
				switch y := fu.(type) {
				case *ssa.DebugRef:
				case *ssa.UnOp:
					if !(y.Op == token.MUL && y.X == ssa.Value(x)) {
						return false
					}
				default:
					return false
				}
			}
		case *ssa.MakeClosure:
			for j, bnd := range x.Bindings {
				if bnd == ssa.Value(fv) && !readOnlyFreeVar(x.Fn.(*ssa.Function), j, depth+1) {
					return false
				}
			}
		default:
			return false
		}
	}
	return true
}

func LoadReps(fn *ssa.Function) map[ssa.Value]ssa.Value {
	reps := map[ssa.Value]ssa.Value{}
	type key struct {
		a *ssa.Alloc
		f int
	}
	loads := map[key][]*ssa.UnOp{}
	kills := map[*ssa.Alloc][]ssa.Instruction{} // kill every field
	fkills := map[key][]ssa.Instruction{}
	for _, b := range fn.Blocks {
		for _, in := range b.Instrs {
			a, ok := in.(*ssa.Alloc)
			if !ok {
				continue
			}
			if _, isStruct := a.Type().Underlying().(*types.Pointer).Elem().Underlying().(*types.Struct); !isStruct {
				continue
			}
			trackable := true
			var aKills []ssa.Instruction
			fieldLoads := map[int][]*ssa.UnOp{}
			fieldKills := map[int][]ssa.Instruction{}
			var visitPtr func(p ssa.Value)
			visitPtr = func(p ssa.Value) { // p is the object's address, possibly boxed
				for _, u := range Uses(p) {
					switch x := u.(type) {
					case *ssa.DebugRef:
					case *ssa.FieldAddr:
						if x.X != p {
							trackable = false
							continue
						}
						for _, fu := range Uses(x) {
							switch y := fu.(type) {
							case *ssa.DebugRef:
							case *ssa.UnOp:
								if y.Op == token.MUL && y.X == ssa.Value(x) {
									fieldLoads[x.Field] = append(fieldLoads[x.Field], y)
								} else {
									trackable = false
								}
							case *ssa.Store:
								if y.Addr == ssa.Value(x) && y.Val != ssa.Value(x) {
									fieldKills[x.Field] = append(fieldKills[x.Field], y)
								} else {
									trackable = false
								}
							default:
								// address of the field handed on: give up on the whole object
								trackable = false
							}
						}
					case *ssa.UnOp:
						if !(x.Op == token.MUL && x.X == p) {
							trackable = false
						}
					case *ssa.Store:
						if x.Addr == p && x.Val != p {
							aKills = append(aKills, x)
						} else {
							trackable = false
						}
					case *ssa.Call:
						if x.Call.Value == p {
							trackable = false
						}
						aKills = append(aKills, x)
					case *ssa.MakeClosure:
						// captured by a closure that only reads the object: no kill
						for i, bnd := range x.Bindings {
							if bnd == p && !readOnlyFreeVar(x.Fn.(*ssa.Function), i, 0) {
								trackable = false
							}
						}
					case *ssa.MakeInterface:
						visitPtr(x)
					case *ssa.ChangeInterface:
						visitPtr(x)
					default:
						trackable = false
					}
				}
			}
			visitPtr(a)
			if !trackable {
				continue
			}
			kills[a] = aKills
			for f, ls := range fieldLoads {
				loads[key{a, f}] = ls
			}
			for f, ks := range fieldKills {
				fkills[key{a, f}] = ks
			}
		}
	}
	if len(loads) == 0 {
		return reps
	}
	pos := map[ssa.Instruction]int{}
	for _, b := range fn.Blocks {
		for i, in := range b.Instrs {
			pos[in] = i
		}
	}
	fwd := map[*ssa.BasicBlock]map[*ssa.BasicBlock]bool{}
	reachFrom := func(b *ssa.BasicBlock) map[*ssa.BasicBlock]bool { // blocks reachable via >= 1 edge
		if r, ok := fwd[b]; ok {
			return r
		}
		r := map[*ssa.BasicBlock]bool{}
		st := append([]*ssa.BasicBlock{}, b.Succs...)
		for len(st) > 0 {
			x := st[len(st)-1]
			st = st[:len(st)-1]
			if r[x] {
				continue
			}
			r[x] = true
			st = append(st, x.Succs...)
		}
		fwd[b] = r
		return r
	}
	// killBetween: may instruction k execute after (the latest execution of) l1 and before l2?
	killBetween := func(l1, l2 ssa.Instruction, k ssa.Instruction) bool {
		b1, b2, bk := l1.Block(), l2.Block(), k.Block()
		if b1 == b2 && pos[l1] < pos[l2] {
			// straight-line: only instructions between them (l1 dominates l2; a trip around a
			// loop re-executes l1)
			return bk == b1 && pos[k] > pos[l1] && pos[k] < pos[l2]
		}
		if bk == b1 && pos[k] > pos[l1] {
			return true
		}
		if bk == b2 && pos[k] < pos[l2] {
			return true
		}
		// k's block strictly between: reachable from b1 and reaching b2
		if reachFrom(b1)[bk] && (reachFrom(bk)[b2]) {
			return true
		}
		return false
	}
	for k, ls := range loads {
		ks := append(append([]ssa.Instruction{}, kills[k.a]...), fkills[k]...)
		for _, l2 := range ls {
			var best *ssa.UnOp
			for _, l1 := range ls {
				if l1 == l2 {
					continue
				}
				dom := (l1.Block() == l2.Block() && pos[l1] < pos[l2]) || (l1.Block() != l2.Block() && l1.Block().Dominates(l2.Block()))
				if !dom {
					continue
				}
				clean := true
				for _, kk := range ks {
					if killBetween(l1, l2, kk) {
						clean = false
						break
					}
				}
				if !clean {
					continue
				}
				// prefer the earliest (most dominating) representative
				if best == nil || (l1.Block() == best.Block() && pos[l1] < pos[best]) || (l1.Block() != best.Block() && l1.Block().Dominates(best.Block())) {
					best = l1
				}
			}
			if best != nil {
				reps[l2] = best
			}
			// store-to-load forwarding: a dominating store to the same field with nothing
			// in between that can change it — the load yields the stored value
			for _, s := range fkills[k] {
				st := s.(*ssa.Store)
				dom := (st.Block() == l2.Block() && pos[st] < pos[l2]) || (st.Block() != l2.Block() && st.Block().Dominates(l2.Block()))
				if !dom || st.Val.Type() != l2.Type() {
					continue
				}
				clean := true
				for _, kk := range ks {
					if kk != s && killBetween(st, l2, kk) {
						clean = false
						break
					}
				}
				if clean {
					reps[l2] = st.Val
				}
			}
		}
	}
	return reps
}

// StoredFieldAt returns the value that field f of the function-local struct object a holds
// when instruction at executes, if a store to that field dominates at and nothing between
// the two can change it (see LoadReps for what is tracked); nil otherwise.
func StoredFieldAt(fn *ssa.Function, a *ssa.Alloc, f int, at ssa.Instruction) ssa.Value {
	// synthesise through LoadReps' machinery: find a load of the field after `at`? Simpler:
	// recompute locally with the same kill rules.
	var stores []*ssa.Store
	var kills []ssa.Instruction
	ok := true
	var visit func(p ssa.Value)
	visit = func(p ssa.Value) {
		for _, u := range Uses(p) {
			switch x := u.(type) {
			case *ssa.DebugRef:
			case *ssa.FieldAddr:
				for _, fu := range Uses(x) {
					switch y := fu.(type) {
					case *ssa.DebugRef:
					case *ssa.UnOp:
					case *ssa.Store:
						if y.Addr == ssa.Value(x) {
							if x.Field == f {
								stores = append(stores, y)
								kills = append(kills, y)
							}
						} else {
							ok = false
						}
					default:
						ok = false
					}
				}
			case *ssa.UnOp:
			case *ssa.Store:
				if x.Addr == p && x.Val != p {
					// whole-object store: a candidate too (the result then is the struct value)
					kills = append(kills, x)
					stores = append(stores, x)
				} else {
					ok = false
				}
			case *ssa.Call:
				kills = append(kills, x)
			case *ssa.MakeClosure:
				for i, bnd := range x.Bindings {
					if bnd == p && !readOnlyFreeVar(x.Fn.(*ssa.Function), i, 0) {
						ok = false
					}
				}
			case *ssa.MakeInterface:
				visit(x)
			case *ssa.ChangeInterface:
				visit(x)
			default:
				ok = false
			}
		}
	}
	visit(a)
	if !ok {
		return nil
	}
	pos := func(in ssa.Instruction) int {
		for i, x := range in.Block().Instrs {
			if x == in {
				return i
			}
		}
		return -1
	}
	reach := func(from *ssa.BasicBlock) map[*ssa.BasicBlock]bool {
		r := map[*ssa.BasicBlock]bool{}
		st := append([]*ssa.BasicBlock{}, from.Succs...)
		for len(st) > 0 {
			x := st[len(st)-1]
			st = st[:len(st)-1]
			if r[x] {
				continue
			}
			r[x] = true
			st = append(st, x.Succs...)
		}
		return r
	}
	between := func(s *ssa.Store, k ssa.Instruction) bool {
		b1, b2, bk := s.Block(), at.Block(), k.Block()
		if b1 == b2 && pos(s) < pos(at) {
			return bk == b1 && pos(k) > pos(s) && pos(k) < pos(at)
		}
		if bk == b1 && pos(k) > pos(s) {
			return true
		}
		if bk == b2 && pos(k) < pos(at) {
			return true
		}
		return reach(b1)[bk] && reach(bk)[b2]
	}
	var best *ssa.Store
	for _, s := range stores {
		dom := (s.Block() == at.Block() && pos(s) < pos(at)) || (s.Block() != at.Block() && s.Block().Dominates(at.Block()))
		if !dom {
			continue
		}
		clean := true
		for _, k := range kills {
			if k != ssa.Instruction(s) && k != at && between(s, k) {
				clean = false
				break
			}
		}
		if clean {
			best = s
		}
	}
	if best == nil {
		return nil
	}
	return best.Val
}
