package core

import (
	"golang.org/x/tools/go/ssa"
)

// reachingStore finds the unique Store to cell that reaches load u on every path, if any.
// It gives up (false) when the cell's address is used for anything but whole-cell stores,
// loads and bindings of closures that only run deferred, when a possible writer (a call
// taking the address, a RunDefers with a deferred closure that writes the cell) lies on a
// path, or when some path reaches the load with no store at all.
func reachingStore(u *ssa.UnOp, cell ssa.Value) (ssa.Value, bool) {
	refs := cell.Referrers()
	if refs == nil {
		return nil, false
	}
	killers := map[ssa.Instruction]bool{}
	deferredWriter := false
	for _, r := range *refs {
		switch x := r.(type) {
		case *ssa.Store:
			if x.Addr != ssa.Value(cell) {
				return nil, false // address itself stored somewhere
			}
		case *ssa.UnOp, *ssa.DebugRef:
		case *ssa.MakeClosure:
			cl := x.Fn.(*ssa.Function)
			idx := -1
			for i, b := range x.Bindings {
				if b == ssa.Value(cell) {
					idx = i
				}
			}
			writes := idx >= 0 && closureWrites(cl, cl.FreeVars[idx], 0)
			if !writes {
				continue
			}
			// a writing closure is tolerated only if it is used by defer alone
			for _, uu := range Uses(x) {
				d, ok := uu.(*ssa.Defer)
				if !ok || d.Call.Value != ssa.Value(x) {
					return nil, false
				}
			}
			deferredWriter = true
		case *ssa.Call:
			killers[x] = true
		case *ssa.Defer, *ssa.Go:
			return nil, false
		default:
			return nil, false // FieldAddr, IndexAddr, Phi, …: partial or aliased access
		}
	}
	type res struct {
		st   *ssa.Store
		fail bool
		none bool // reached function entry without a store
	}
	memo := map[*ssa.BasicBlock]*res{}
	var atEnd func(b *ssa.BasicBlock, stack map[*ssa.BasicBlock]bool) []*res
	scan := func(b *ssa.BasicBlock, upto int) *res {
		for i := upto - 1; i >= 0; i-- {
			in := b.Instrs[i]
			if st, ok := in.(*ssa.Store); ok && st.Addr == ssa.Value(cell) {
				return &res{st: st}
			}
			if killers[in] {
				return &res{fail: true}
			}
			if _, ok := in.(*ssa.RunDefers); ok && deferredWriter {
				return &res{fail: true}
			}
		}
		return nil
	}
	atEnd = func(b *ssa.BasicBlock, stack map[*ssa.BasicBlock]bool) []*res {
		if r, ok := memo[b]; ok && r != nil {
			return []*res{r}
		}
		if r := scan(b, len(b.Instrs)); r != nil {
			memo[b] = r
			return []*res{r}
		}
		if stack[b] {
			return nil // cycle without a store: contributes nothing new
		}
		if len(b.Preds) == 0 {
			return []*res{{none: true}}
		}
		stack[b] = true
		var out []*res
		for _, p := range b.Preds {
			out = append(out, atEnd(p, stack)...)
		}
		delete(stack, b)
		return out
	}
	b := u.Block()
	idx := 0
	for i, in := range b.Instrs {
		if in == ssa.Instruction(u) {
			idx = i
		}
	}
	var all []*res
	if r := scan(b, idx); r != nil {
		all = []*res{r}
	} else {
		if len(b.Preds) == 0 {
			return nil, false
		}
		stack := map[*ssa.BasicBlock]bool{b: true}
		for _, p := range b.Preds {
			all = append(all, atEnd(p, stack)...)
		}
	}
	var uniq *ssa.Store
	for _, r := range all {
		if r.fail || r.none {
			return nil, false
		}
		if uniq == nil {
			uniq = r.st
		} else if uniq != r.st {
			return nil, false
		}
	}
	if uniq == nil {
		return nil, false
	}
	return uniq.Val, true
}

// closureWrites: closure cl (or a closure nested in it that re-captures the variable)
// stores to free variable fv.
func closureWrites(cl *ssa.Function, fv *ssa.FreeVar, depth int) bool {
	if depth > 3 {
		return true
	}
	refs := fv.Referrers()
	if refs == nil {
		return false
	}
	for _, r := range *refs {
		switch x := r.(type) {
		case *ssa.Store:
			if x.Addr == ssa.Value(fv) {
				return true
			}
			return true
		case *ssa.UnOp, *ssa.DebugRef:
		case *ssa.MakeClosure:
			inner := x.Fn.(*ssa.Function)
			for i, b := range x.Bindings {
				if b == ssa.Value(fv) && closureWrites(inner, inner.FreeVars[i], depth+1) {
					return true
				}
			}
		default:
			return true
		}
	}
	return false
}
