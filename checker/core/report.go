package core

import (
	"encoding/json"
	"fmt"
	"go/token"
	"os"
	"path/filepath"
	"sort"
	"strings"
	"time"
)

// Ob is one decided obligation: a rule applied to one construct of the source.
type Ob struct {
	Rule   string `json:"rule"`
	Key    string `json:"key"` // <rule>@<pkg>.<func>#<construct> — never a line number
	Pos    string `json:"pos"`
	What   string `json:"what"`
	Status string `json:"status"` // ok | violation | known
	Detail string `json:"detail,omitempty"`
}

// Finding is an entry of /verif/known_findings.json.
type Finding struct {
	Property    string `json:"property"`
	Rule        string `json:"rule"`
	Key         string `json:"key"`
	Status      string `json:"status"` // open | fixed
	Commit      string `json:"commit,omitempty"`
	WhatFails   string `json:"what_fails"`
	WhyRecorded string `json:"why_recorded,omitempty"`
}

// Run collects everything one property check decides.
type Run struct {
	W           *World
	Prop        string
	Tier        string
	Seed        int64
	Explanation string
	Technique   string
	Assumptions []string
	Obs         []*Ob
	seen        map[string]bool
	Floors      []FloorRec
	Evals       int // CFG edges + instructions + call sites examined by the rules (measured)
	FuncsSeen   map[string]bool
	fatal       []string
	Controls    *Controls
	start       time.Time
}

type FloorRec struct {
	Rule string `json:"rule"`
	What string `json:"what"`
	Got  int    `json:"got"`
	Want int    `json:"want"`
	OK   bool   `json:"ok"`
}

// Controls are the seeded-variant self-test counts (thorough).
type Controls struct {
	Attempted int      `json:"attempted"`
	Compiled  int      `json:"compiled"`
	Detected  int      `json:"detected"`
	Missed    []string `json:"missed,omitempty"`
	List      []string `json:"list,omitempty"`
}

func NewRun(w *World, prop, tier string) *Run {
	return &Run{W: w, Prop: prop, Tier: tier, seen: map[string]bool{}, FuncsSeen: map[string]bool{}, start: time.Now()}
}

// Key builds a stable obligation key.
func Key(rule string, fn interface{ String() string }, construct string) string {
	name := "?"
	if fn != nil {
		name = fn.String()
	}
	name = strings.ReplaceAll(name, Mod+"/", "")
	return rule + "@" + name + "#" + construct
}

// Check records an obligation. Duplicate keys get a numeric suffix in source order, so a
// second identical construct in the same function is a different obligation.
func (r *Run) Check(rule, key string, pos token.Pos, ok bool, what, detail string) *Ob {
	k := key
	for i := 2; r.seen[k]; i++ {
		k = fmt.Sprintf("%s~%d", key, i)
	}
	r.seen[k] = true
	o := &Ob{Rule: rule, Key: k, Pos: r.W.Pos(pos), What: what, Status: "ok"}
	if !ok {
		o.Status = "violation"
		o.Detail = detail
	}
	r.Obs = append(r.Obs, o)
	return o
}

// Floor fails the run when a rule matched fewer sites than confirmed by hand.
func (r *Run) Floor(rule, what string, got, want int) {
	r.Floors = append(r.Floors, FloorRec{rule, what, got, want, got >= want})
}

// Fatal records an undecidable situation (unresolved anchor etc.): the run fails.
func (r *Run) Fatal(format string, a ...interface{}) {
	r.fatal = append(r.fatal, fmt.Sprintf(format, a...))
}

// Failed reports whether the run has undecided anchors or floor failures.
func (r *Run) Failed() bool {
	if len(r.fatal) > 0 {
		return true
	}
	for _, f := range r.Floors {
		if !f.OK {
			return true
		}
	}
	return false
}

func (r *Run) Eval(n int) { r.Evals += n }

func (r *Run) Saw(name string) { r.FuncsSeen[name] = true }

// LoadFindings reads the committed known-findings file.
func LoadFindings(path string) ([]Finding, error) {
	b, err := os.ReadFile(path)
	if err != nil {
		if os.IsNotExist(err) {
			return nil, nil
		}
		return nil, err
	}
	var fs []Finding
	if err := json.Unmarshal(b, &fs); err != nil {
		return nil, fmt.Errorf("%s: %w", path, err)
	}
	return fs, nil
}

// Finish prints the verdict lines, writes evidence and replay files, returns the exit code.
func (r *Run) Finish(verifDir string, findings []Finding, replayKey string) int {
	open := map[string]Finding{}
	for _, f := range findings {
		if f.Property == r.Prop && f.Status == "open" {
			open[f.Key] = f
		}
	}
	sort.SliceStable(r.Obs, func(i, j int) bool { return r.Obs[i].Key < r.Obs[j].Key })
	var viol []*Ob
	known := 0
	matched := map[string]bool{}
	for _, o := range r.Obs {
		if o.Status != "violation" {
			continue
		}
		if f, ok := open[o.Key]; ok {
			o.Status = "known"
			matched[o.Key] = true
			known++
			fmt.Printf("KNOWN-FINDING: property=%s %s [%s at %s] %s\n", r.Prop, f.WhatFails, o.Key, o.Pos, o.Detail)
			continue
		}
		viol = append(viol, o)
	}
	for k := range open {
		if !matched[k] {
			fmt.Printf("RESOLVED-FINDING: property=%s key=%s no longer violates (entry can be marked fixed)\n", r.Prop, k)
		}
	}
	exit := 0
	replayDir := filepath.Join(verifDir, "evidence", "replay")
	os.MkdirAll(replayDir, 0o755)
	// remove stale replay files of this property
	if old, _ := filepath.Glob(filepath.Join(replayDir, r.Prop+"-*.json")); len(old) > 0 {
		for _, f := range old {
			os.Remove(f)
		}
	}
	for i, o := range viol {
		path := filepath.Join(replayDir, fmt.Sprintf("%s-%d.json", r.Prop, i+1))
		b, _ := json.MarshalIndent(map[string]interface{}{"property": r.Prop, "tier": r.Tier, "obligation": o}, "", " ")
		os.WriteFile(path, b, 0o644)
		fmt.Printf("  rule %s violated at %s: %s — %s\n", o.Rule, o.Pos, o.What, o.Detail)
		fmt.Printf("VIOLATION property=%s replay=%s\n", r.Prop, path)
		exit = 1
	}
	for _, fl := range r.Floors {
		if !fl.OK {
			fmt.Printf("FLOOR-FAIL property=%s rule=%s matched %d sites, confirmed floor is %d (%s): the rule no longer sees the code it was written for\n", r.Prop, fl.Rule, fl.Got, fl.Want, fl.What)
			exit = 1
		}
	}
	for _, m := range r.fatal {
		fmt.Printf("UNDECIDED property=%s %s\n", r.Prop, m)
		exit = 1
	}
	if r.Controls != nil && len(r.Controls.Missed) > 0 {
		for _, m := range r.Controls.Missed {
			fmt.Printf("CONTROL-MISSED property=%s seeded variant not detected: %s\n", r.Prop, m)
		}
		exit = 1
	}
	if exit == 1 && len(viol) == 0 {
		// a failing run must carry a VIOLATION line the harness can parse
		path := filepath.Join(replayDir, fmt.Sprintf("%s-undecided.json", r.Prop))
		b, _ := json.MarshalIndent(map[string]interface{}{"property": r.Prop, "undecided": r.fatal, "floors": r.Floors}, "", " ")
		os.WriteFile(path, b, 0o644)
		fmt.Printf("VIOLATION property=%s replay=%s\n", r.Prop, path)
	}
	okCount := 0
	for _, o := range r.Obs {
		if o.Status == "ok" {
			okCount++
		}
	}
	if replayKey != "" {
		for _, o := range r.Obs {
			if o.Key == replayKey {
				fmt.Printf("REPLAY %s: %s at %s (%s) %s\n", o.Key, o.Status, o.Pos, o.What, o.Detail)
			}
		}
	}
	// evidence
	samples := []interface{}{}
	for _, o := range r.Obs {
		samples = append(samples, o)
	}
	funcs := []string{}
	for f := range r.FuncsSeen {
		funcs = append(funcs, f)
	}
	sort.Strings(funcs)
	distinct := map[string]bool{}
	for _, o := range r.Obs {
		distinct[o.Key] = true
	}
	cov := map[string]interface{}{
		"explanation":         r.Explanation,
		"obligations":         len(r.Obs),
		"discharged":          okCount,
		"known_findings":      known,
		"evaluations":         r.Evals,
		"distinct_nontrivial": len(distinct),
		"rule":                "one obligation per (rule, function, construct) matched in the SSA/AST of /repo's working tree; evaluations = CFG edges, instructions and call sites examined by the rules; distinct_nontrivial = distinct obligation keys",
		"samples":             samples,
		"packages":            len(r.W.Pkgs),
		"functions_in_program": len(r.W.Funcs),
		"functions_analysed":  funcs,
		"floors":              r.Floors,
		"exhaustive":          true,
		"technique":           r.Technique,
	}
	if r.Controls != nil {
		cov["controls"] = r.Controls
	}
	ev := map[string]interface{}{
		"property_id": r.Prop,
		"tier":        r.Tier,
		"seed":        r.Seed,
		"level":       "other",
		"coverage":    cov,
		"assumptions": r.Assumptions,
		"wall_s":      time.Since(r.start).Seconds() + r.W.LoadSecs,
		"violations":  len(viol),
	}
	b, _ := json.MarshalIndent(ev, "", " ")
	os.MkdirAll(filepath.Join(verifDir, "evidence"), 0o755)
	if err := os.WriteFile(filepath.Join(verifDir, "evidence", r.Prop+".json"), b, 0o644); err != nil {
		fmt.Println("cannot write evidence:", err)
		return 1
	}
	fmt.Printf("%s %s: %d obligations, %d discharged, %d known findings, %d violations; %d funcs, %d evaluations\n",
		r.Prop, r.Tier, len(r.Obs), okCount, known, len(viol), len(funcs), r.Evals)
	return exit
}
