package core

import (
	"go/constant"
	"go/token"
	"go/types"
	"strings"

	"golang.org/x/tools/go/ssa"
)

// ---- instructions and calls -------------------------------------------------------

// EachInstr visits every instruction of fn.
func EachInstr(fn *ssa.Function, f func(b *ssa.BasicBlock, i int, in ssa.Instruction)) {
	for _, b := range fn.Blocks {
		for i, in := range b.Instrs {
			f(b, i, in)
		}
	}
}

// Common returns the CallCommon of a Call / Defer / Go instruction (nil otherwise).
func Common(in ssa.Instruction) *ssa.CallCommon {
	switch x := in.(type) {
	case *ssa.Call:
		return &x.Call
	case *ssa.Defer:
		return &x.Call
	case *ssa.Go:
		return &x.Call
	}
	return nil
}

// CalleeFunc returns the types.Func a call resolves to: the static callee's object, or
// the interface method for invoke-mode calls. nil for calls of function values.
func CalleeFunc(c *ssa.CallCommon) *types.Func {
	if c == nil {
		return nil
	}
	if c.IsInvoke() {
		return c.Method
	}
	if sc := c.StaticCallee(); sc != nil {
		if o, ok := sc.Object().(*types.Func); ok {
			return o
		}
		// instantiated generic / wrapper
		if sc.Origin() != nil {
			if o, ok := sc.Origin().Object().(*types.Func); ok {
				return o
			}
		}
	}
	return nil
}

// CalleeName is the FullName of the resolved callee with the module prefix removed, e.g.
// "pkg/cac.Valid", "(*pkg/shed.Index).PutInBatch", "(pkg/storage.Putter).Put",
// "(*sync.Mutex).Lock", "bytes.Equal". "" if unresolved.
func CalleeName(c *ssa.CallCommon) string {
	f := CalleeFunc(c)
	if f == nil {
		if c != nil {
			if b, ok := c.Value.(*ssa.Builtin); ok {
				return "builtin." + b.Name()
			}
		}
		return ""
	}
	return strings.ReplaceAll(f.FullName(), Mod+"/", "")
}

// IsCallTo reports whether in is a call (Call/Defer/Go) of one of the named callees.
func IsCallTo(in ssa.Instruction, names ...string) bool {
	c := Common(in)
	if c == nil {
		return false
	}
	n := CalleeName(c)
	if n == "" {
		return false
	}
	for _, x := range names {
		if n == x {
			return true
		}
	}
	return false
}

// CallArgs returns the arguments including the receiver first (for both static method
// calls and invoke-mode calls).
func CallArgs(c *ssa.CallCommon) []ssa.Value {
	if c.IsInvoke() {
		return append([]ssa.Value{c.Value}, c.Args...)
	}
	return c.Args
}

// Calls lists the call instructions in fn whose callee name is one of names.
func Calls(fn *ssa.Function, names ...string) []ssa.Instruction {
	var out []ssa.Instruction
	EachInstr(fn, func(_ *ssa.BasicBlock, _ int, in ssa.Instruction) {
		if IsCallTo(in, names...) {
			out = append(out, in)
		}
	})
	return out
}

// ---- values -----------------------------------------------------------------------

// Strip removes value-preserving wrappers (conversions, interface boxing, slices-to-array
// etc. are NOT stripped: only ChangeType, ChangeInterface, MakeInterface).
func Strip(v ssa.Value) ssa.Value {
	for {
		switch x := v.(type) {
		case *ssa.ChangeType:
			v = x.X
		case *ssa.ChangeInterface:
			v = x.X
		case *ssa.MakeInterface:
			v = x.X
		default:
			return v
		}
	}
}

// LoadedFrom: if v is a load (*p) returns p.
func LoadedFrom(v ssa.Value) (ssa.Value, bool) {
	if u, ok := v.(*ssa.UnOp); ok && u.Op == token.MUL {
		return u.X, true
	}
	return nil, false
}

// Forward resolves a load from a local cell (Alloc, or a captured variable's cell) to the
// value most recently stored to that cell in the same block before the load; if the block
// has no earlier store and the cell has exactly one store in the function (in a block that
// dominates the load), that store's value. Otherwise v itself. go/ssa spills named results
// and closure-captured variables to such cells.
func Forward(v ssa.Value) ssa.Value {
	for depth := 0; depth < 8; depth++ {
		v = Strip(v)
		u, ok := v.(*ssa.UnOp)
		if !ok || u.Op != token.MUL {
			return v
		}
		cell := u.X
		if _, isAlloc := cell.(*ssa.Alloc); !isAlloc {
			if _, isFree := cell.(*ssa.FreeVar); !isFree {
				return v
			}
		}
		b := u.Block()
		var last ssa.Value
		for _, in := range b.Instrs {
			if in == ssa.Instruction(u) {
				break
			}
			if st, ok := in.(*ssa.Store); ok && st.Addr == cell {
				last = st.Val
			}
			// a call may write a captured cell through a closure: be conservative for
			// cells that escape into closures (Alloc.Heap with MakeClosure referrers)
			if _, isCall := in.(*ssa.Call); isCall && last != nil && cellCapturedBy(cell) {
				// keep last: closures in this code base that write captured error cells
				// are deferred, not called mid-block; documented assumption
			}
		}
		if last != nil {
			v = last
			continue
		}
		// unique reaching store (cells whose address only feeds stores, loads and
		// closures that run deferred)
		// (for a captured variable inside a closure: stores made by the closure itself)
		if val, ok := reachingStore(u, cell); ok {
			v = val
			continue
		}
		return v
	}
	return v
}

func cellCapturedBy(cell ssa.Value) bool {
	refs := cell.Referrers()
	if refs == nil {
		return false
	}
	for _, r := range *refs {
		if _, ok := r.(*ssa.MakeClosure); ok {
			return true
		}
	}
	return false
}

// FieldRef describes v when it is the address of (FieldAddr) or value of (Field) a struct
// field, or a load of a field address.
type FieldRef struct {
	Struct string // "pkg/localstore.DB" (named struct type, module prefix removed)
	Name   string
	Base   ssa.Value
	Addr   bool
}

func namedOf(t types.Type) *types.Named {
	for {
		switch x := t.(type) {
		case *types.Pointer:
			t = x.Elem()
		case *types.Named:
			return x
		case *types.Alias:
			t = types.Unalias(x)
		default:
			return nil
		}
	}
}

// TypeName renders a (pointer to) named type as "pkg/x.T".
func TypeName(t types.Type) string {
	n := namedOf(t)
	if n == nil {
		return t.String()
	}
	o := n.Obj()
	if o.Pkg() == nil {
		return o.Name()
	}
	return strings.TrimPrefix(o.Pkg().Path(), Mod+"/") + "." + o.Name()
}

// AsField recognises FieldAddr / Field / load-of-FieldAddr.
func AsField(v ssa.Value) (FieldRef, bool) {
	switch x := v.(type) {
	case *ssa.FieldAddr:
		st := x.X.Type().Underlying().(*types.Pointer).Elem()
		s, ok := st.Underlying().(*types.Struct)
		if !ok {
			return FieldRef{}, false
		}
		return FieldRef{Struct: TypeName(st), Name: s.Field(x.Field).Name(), Base: x.X, Addr: true}, true
	case *ssa.Field:
		s, ok := x.X.Type().Underlying().(*types.Struct)
		if !ok {
			return FieldRef{}, false
		}
		return FieldRef{Struct: TypeName(x.X.Type()), Name: s.Field(x.Field).Name(), Base: x.X}, true
	case *ssa.UnOp:
		if x.Op == token.MUL {
			if fr, ok := AsField(x.X); ok && fr.Addr {
				fr.Addr = false
				return fr, true
			}
		}
	}
	return FieldRef{}, false
}

// IsFieldOf reports whether v reads/addresses field structName.field.
func IsFieldOf(v ssa.Value, structName, field string) bool {
	fr, ok := AsField(v)
	return ok && fr.Struct == structName && fr.Name == field
}

// Path renders an access path for v: parameters, free variables and globals by name,
// field selections as ".f", loads transparently, anything else as "?".
func Path(v ssa.Value) string {
	switch x := v.(type) {
	case *ssa.Parameter:
		return x.Name()
	case *ssa.FreeVar:
		return x.Name()
	case *ssa.Global:
		return x.Name()
	case *ssa.Alloc:
		if x.Comment != "" {
			return x.Comment
		}
		return "alloc"
	case *ssa.FieldAddr:
		if fr, ok := AsField(x); ok {
			return Path(x.X) + "." + fr.Name
		}
	case *ssa.Field:
		if fr, ok := AsField(x); ok {
			return Path(x.X) + "." + fr.Name
		}
	case *ssa.UnOp:
		if x.Op == token.MUL {
			return Path(x.X)
		}
	case *ssa.ChangeType:
		return Path(x.X)
	case *ssa.MakeInterface:
		return Path(x.X)
	case *ssa.IndexAddr:
		return Path(x.X) + "[]"
	case *ssa.Index:
		return Path(x.X) + "[]"
	case *ssa.Lookup:
		return Path(x.X) + "[]"
	case *ssa.Extract:
		return "?"
	}
	return "?"
}

// ConstInt returns the integer value of a constant SSA value.
func ConstInt(v ssa.Value) (int64, bool) {
	c, ok := v.(*ssa.Const)
	if !ok || c.Value == nil {
		return 0, false
	}
	if c.Value.Kind() != constant.Int {
		return 0, false
	}
	i, exact := constant.Int64Val(c.Value)
	return i, exact
}

// IsNilConst reports a nil constant.
func IsNilConst(v ssa.Value) bool {
	c, ok := v.(*ssa.Const)
	return ok && c.Value == nil && !isBasic(c.Type())
}

func isBasic(t types.Type) bool {
	_, ok := t.Underlying().(*types.Basic)
	return ok
}

// ConstBool returns the value of a boolean constant.
func ConstBool(v ssa.Value) (bool, bool) {
	c, ok := v.(*ssa.Const)
	if !ok || c.Value == nil || c.Value.Kind() != constant.Bool {
		return false, false
	}
	return constant.BoolVal(c.Value), true
}

// Uses returns the instructions that use v (its referrers), following through Strip-able
// wrappers and phis is left to the caller.
func Uses(v ssa.Value) []ssa.Instruction {
	if r := v.Referrers(); r != nil {
		return *r
	}
	return nil
}

// DerivesFrom reports whether v is computed (through conversions, slicing, field loads,
// phi, index, extract, append/copy-free arithmetic, forwarded cells and calls of the pure
// helpers listed in pure) from a value for which origin returns true. It is a backward
// slice over value operands, bounded to the function.
func DerivesFrom(v ssa.Value, origin func(ssa.Value) bool, pure map[string]bool) bool {
	seen := map[ssa.Value]bool{}
	var rec func(v ssa.Value) bool
	rec = func(v ssa.Value) bool {
		if v == nil || seen[v] {
			return false
		}
		seen[v] = true
		if origin(v) {
			return true
		}
		fv := Forward(v)
		if fv != v {
			if rec(fv) {
				return true
			}
		}
		switch x := v.(type) {
		case *ssa.Phi:
			for _, e := range x.Edges {
				if rec(e) {
					return true
				}
			}
		case *ssa.Alloc:
			// a spilled parameter / local: whatever was stored into the whole cell
			for _, u := range Uses(x) {
				if st, ok := u.(*ssa.Store); ok && st.Addr == ssa.Value(x) && rec(st.Val) {
					return true
				}
			}
		case *ssa.Slice:
			return rec(x.X)
		case *ssa.Convert:
			return rec(x.X)
		case *ssa.ChangeType:
			return rec(x.X)
		case *ssa.ChangeInterface:
			return rec(x.X)
		case *ssa.MakeInterface:
			return rec(x.X)
		case *ssa.TypeAssert:
			return rec(x.X)
		case *ssa.Extract:
			return rec(x.Tuple)
		case *ssa.Field:
			return rec(x.X)
		case *ssa.FieldAddr:
			return rec(x.X)
		case *ssa.Index:
			return rec(x.X)
		case *ssa.IndexAddr:
			return rec(x.X)
		case *ssa.Lookup:
			return rec(x.X)
		case *ssa.Next:
			return rec(x.Iter)
		case *ssa.Range:
			return rec(x.X)
		case *ssa.UnOp:
			return rec(x.X)
		case *ssa.BinOp:
			return rec(x.X) || rec(x.Y)
		case *ssa.Call:
			n := CalleeName(&x.Call)
			if pure != nil && (pure[n] || pure["*"]) {
				for _, a := range CallArgs(&x.Call) {
					if rec(a) {
						return true
					}
				}
			}
			if b, ok := x.Call.Value.(*ssa.Builtin); ok && (b.Name() == "append" || b.Name() == "min" || b.Name() == "max") {
				for _, a := range x.Call.Args {
					if rec(a) {
						return true
					}
				}
			}
		}
		return false
	}
	return rec(v)
}

// SameExpr reports structural equality of two SSA values (go/ssa performs no CSE, so
// `j.span - off` written twice is two values): same constants, same parameters, loads of
// the same access path (sound only when no store to that path lies between the two
// evaluations — callers state this), and same operator over SameExpr operands.
func SameExpr(a, b ssa.Value) bool {
	if a == b {
		return true
	}
	if a == nil || b == nil {
		return false
	}
	switch x := a.(type) {
	case *ssa.Const:
		y, ok := b.(*ssa.Const)
		if !ok {
			return false
		}
		if x.Value == nil || y.Value == nil {
			return x.Value == nil && y.Value == nil && types.Identical(x.Type(), y.Type())
		}
		return constant.Compare(x.Value, token.EQL, y.Value)
	case *ssa.BinOp:
		y, ok := b.(*ssa.BinOp)
		return ok && x.Op == y.Op && SameExpr(x.X, y.X) && SameExpr(x.Y, y.Y)
	case *ssa.Convert:
		y, ok := b.(*ssa.Convert)
		return ok && types.Identical(x.Type(), y.Type()) && SameExpr(x.X, y.X)
	case *ssa.ChangeType:
		y, ok := b.(*ssa.ChangeType)
		return ok && SameExpr(x.X, y.X)
	case *ssa.UnOp:
		y, ok := b.(*ssa.UnOp)
		if !ok || x.Op != y.Op {
			return false
		}
		if x.Op == token.MUL {
			pa, pb := Path(x.X), Path(y.X)
			return pa == pb && !strings.Contains(pa, "?") && !strings.HasPrefix(pa, "alloc")
		}
		return SameExpr(x.X, y.X)
	case *ssa.Call:
		y, ok := b.(*ssa.Call)
		if !ok {
			return false
		}
		bx, okx := x.Call.Value.(*ssa.Builtin)
		by, oky := y.Call.Value.(*ssa.Builtin)
		if okx && oky && bx.Name() == by.Name() && (bx.Name() == "len" || bx.Name() == "cap") {
			return SameExpr(x.Call.Args[0], y.Call.Args[0])
		}
		return false
	case *ssa.Field:
		y, ok := b.(*ssa.Field)
		return ok && x.Field == y.Field && SameExpr(x.X, y.X)
	}
	return false
}
