package core

import (
	"go/token"
	"go/types"
	"strings"

	"golang.org/x/tools/go/ssa"
)

// Engine X — forward taint from peer-controlled message structs.
//
// Sources: the message object handed to protobuf Reader.ReadMsg / ReadMsgWithContext.
// Taint flows through field selection, indexing, slicing, ranging, conversions, phis,
// arithmetic, append, stores into local cells and maps, the transparent helpers listed in
// Transparent, calls between analysed functions (argument → parameter, return → call
// value; context-insensitive), closure bindings, and the hand-written summary of the
// reflect dispatcher (Dispatch). Sanitisers (Sanitize) cut the flow. Maps carry separate
// bits for "keys are peer-controlled" and "values are peer-controlled", so a map that is
// built locally under sanitised keys does not taint its keys. The result is an
// over-approximation of the values a remote peer controls inside the analysed functions.

const (
	TVal  uint8 = 1 // the value itself is peer-controlled
	TKeys uint8 = 2 // keys of the map are peer-controlled
	TElem uint8 = 4 // values of the map are peer-controlled
	tAll  uint8 = 7
)

type Taint struct {
	W        *World
	Funcs    []*ssa.Function
	inSet    map[*ssa.Function]bool
	val      map[ssa.Value]uint8
	cell     map[ssa.Value]bool // tainted memory cells
	retTaint map[*ssa.Function]map[int]uint8
	// Transparent callees: result tainted iff an argument is.
	Transparent map[string]bool
	// Sanitize callees: result never tainted.
	Sanitize map[string]bool
	// Dispatch: callee name -> (index of the method-value argument, index of the variadic
	// forwarded parameters); models f(ctx, obj, method, params...) calling method(params...).
	Dispatch map[string][2]int
	Sources  []ssa.Instruction
	Rounds   int
}

func NewTaint(w *World, funcs []*ssa.Function) *Taint {
	t := &Taint{W: w, Funcs: funcs, inSet: map[*ssa.Function]bool{}, val: map[ssa.Value]uint8{}, cell: map[ssa.Value]bool{},
		retTaint: map[*ssa.Function]map[int]uint8{},
		Transparent: map[string]bool{
			"pkg/boson.NewAddress": true, "(pkg/boson.Address).Bytes": true, "bytes.NewReader": true, "bytes.NewBuffer": true,
			"strings.TrimPrefix": true, "strings.TrimSuffix": true, "strings.TrimSpace": true, "strings.ToLower": true, "strings.Split": true,
			"strings.SplitN": true, "strings.Fields": true,
		},
		Sanitize: map[string]bool{"(pkg/boson.Address).String": true, "encoding/hex.EncodeToString": true},
		Dispatch: map[string][2]int{},
	}
	for _, f := range funcs {
		t.inSet[f] = true
	}
	return t
}

func isReadMsg(c *ssa.CallCommon) bool {
	return strings.HasPrefix(CalleeName(c), "(pkg/p2p/protobuf.Reader).ReadMsg")
}

// Tainted reports whether v itself is peer-controlled (for maps: any part of it).
func (t *Taint) Tainted(v ssa.Value) bool {
	if isMapType(v) {
		return t.val[v] != 0
	}
	return t.val[v]&TVal != 0
}

// Bits returns the raw taint bits of v.
func (t *Taint) Bits(v ssa.Value) uint8 { return t.val[v] }

func isMapType(v ssa.Value) bool {
	_, ok := v.Type().Underlying().(*types.Map)
	return ok
}

func (t *Taint) markBits(v ssa.Value, bits uint8) bool {
	if v == nil || bits == 0 || t.val[v]&bits == bits {
		return false
	}
	if _, isConst := v.(*ssa.Const); isConst {
		return false
	}
	t.val[v] |= bits
	return true
}

func (t *Taint) mark(v ssa.Value) bool { return t.markBits(v, tAll) }

// flow copies src's bits to dst.
func (t *Taint) flow(dst, src ssa.Value) bool { return t.markBits(dst, t.val[src]) }

func (t *Taint) markCell(c ssa.Value) bool {
	if c == nil || t.cell[c] {
		return false
	}
	t.cell[c] = true
	return true
}

func (t *Taint) addrTainted(a ssa.Value) bool { return t.cell[a] || t.val[a] != 0 }

func (t *Taint) has(v ssa.Value) bool { return t.val[v] != 0 }

// Run propagates to a fixed point.
func (t *Taint) Run() {
	for _, fn := range t.Funcs {
		EachInstr(fn, func(_ *ssa.BasicBlock, _ int, in ssa.Instruction) {
			if c := Common(in); c != nil && isReadMsg(c) {
				t.Sources = append(t.Sources, in)
				args := CallArgs(c)
				msg := Strip(args[len(args)-1])
				t.markCell(msg)
				t.mark(msg)
			}
		})
	}
	changed := true
	for t.Rounds = 0; changed && t.Rounds < 40; t.Rounds++ {
		changed = false
		for _, fn := range t.Funcs {
			EachInstr(fn, func(_ *ssa.BasicBlock, _ int, in ssa.Instruction) {
				if t.step(fn, in) {
					changed = true
				}
			})
		}
	}
}

func (t *Taint) step(fn *ssa.Function, in ssa.Instruction) bool {
	ch := false
	switch x := in.(type) {
	case *ssa.UnOp:
		switch {
		case x.Op == token.MUL:
			if t.cell[x.X] {
				ch = t.mark(x) // loaded from a tainted cell: everything about it is peer data
			} else if t.has(x.X) {
				ch = t.markBits(x, t.val[x.X]|TVal)
			}
		case t.has(x.X):
			ch = t.flow(x, x.X)
		}
	case *ssa.FieldAddr:
		if t.addrTainted(x.X) {
			ch = t.mark(x)
		}
	case *ssa.IndexAddr:
		if t.addrTainted(x.X) {
			ch = t.mark(x)
		}
	case *ssa.Field:
		if t.has(x.X) {
			ch = t.mark(x)
		}
	case *ssa.Index:
		if t.has(x.X) {
			ch = t.mark(x)
		}
	case *ssa.Lookup:
		if isMapType(x.X) {
			if t.val[x.X]&TElem != 0 {
				ch = t.mark(x)
			}
		} else if t.has(x.X) { // string index
			ch = t.mark(x)
		}
	case *ssa.Slice:
		if t.addrTainted(x.X) {
			ch = t.mark(x)
		}
	case *ssa.Convert:
		ch = t.flow(x, x.X)
	case *ssa.ChangeType:
		ch = t.flow(x, x.X)
	case *ssa.ChangeInterface:
		ch = t.flow(x, x.X)
	case *ssa.MakeInterface:
		ch = t.flow(x, x.X)
	case *ssa.TypeAssert:
		ch = t.flow(x, x.X)
	case *ssa.Extract:
		switch tup := x.Tuple.(type) {
		case *ssa.Next:
			rg, _ := tup.Iter.(*ssa.Range)
			if rg != nil && isMapType(rg.X) {
				if x.Index == 1 && t.val[rg.X]&TKeys != 0 {
					ch = t.mark(x)
				}
				if x.Index == 2 && t.val[rg.X]&TElem != 0 {
					ch = t.mark(x)
				}
			} else if rg != nil && t.has(rg.X) && x.Index > 0 {
				ch = t.mark(x)
			}
		case *ssa.Lookup: // comma-ok lookup
			if x.Index == 0 && t.has(tup) {
				ch = t.mark(x)
			}
		default:
			if t.has(x.Tuple) {
				// error / ok components are not data
				if s := x.Type().String(); s != "error" && s != "bool" {
					ch = t.mark(x)
				}
			}
			if c, ok := x.Tuple.(*ssa.Call); ok {
				if callee := calleeOf(&c.Call); callee != nil {
					if b := t.retTaint[callee][x.Index]; b != 0 {
						ch = t.markBits(x, b) || ch
					}
				}
			}
		}
	case *ssa.Phi:
		for _, e := range x.Edges {
			if t.flow(x, e) {
				ch = true
			}
		}
	case *ssa.BinOp:
		switch x.Op {
		case token.EQL, token.NEQ, token.LSS, token.LEQ, token.GTR, token.GEQ:
		default:
			if t.val[x.X]&TVal != 0 || t.val[x.Y]&TVal != 0 {
				ch = t.markBits(x, TVal)
			}
		}
	case *ssa.Store:
		if t.has(x.Val) {
			root := x.Addr
			partial := false
			for {
				switch a := root.(type) {
				case *ssa.FieldAddr:
					root, partial = a.X, true
					continue
				case *ssa.IndexAddr:
					root, partial = a.X, true
					continue
				}
				break
			}
			switch root.(type) {
			case *ssa.Alloc, *ssa.FreeVar:
				if partial || !isMapType(x.Val) {
					ch = t.markCell(root)
				}
				ch = t.markBits(root, t.val[x.Val]) || ch
			}
			ch = t.markBits(x.Addr, t.val[x.Val]) || ch
		}
	case *ssa.MapUpdate:
		if t.val[x.Key]&TVal != 0 {
			ch = t.markBits(x.Map, TKeys)
		}
		if t.has(x.Value) {
			ch = t.markBits(x.Map, TElem) || ch
		}
	case *ssa.MakeClosure:
		cl := x.Fn.(*ssa.Function)
		for i, b := range x.Bindings {
			if i >= len(cl.FreeVars) {
				continue
			}
			if t.cell[b] && t.markCell(cl.FreeVars[i]) {
				ch = true
			}
			if t.flow(cl.FreeVars[i], b) {
				ch = true
			}
		}
	case *ssa.Return:
		for i, rv := range x.Results {
			if b := t.val[rv]; b != 0 {
				if t.retTaint[fn] == nil {
					t.retTaint[fn] = map[int]uint8{}
				}
				if t.retTaint[fn][i]&b != b {
					t.retTaint[fn][i] |= b
					ch = true
				}
			}
		}
	}
	if c := Common(in); c != nil {
		if t.stepCall(in, c) {
			ch = true
		}
	}
	return ch
}

func calleeOf(c *ssa.CallCommon) *ssa.Function {
	if mc, ok := c.Value.(*ssa.MakeClosure); ok {
		return mc.Fn.(*ssa.Function)
	}
	return c.StaticCallee()
}

func (t *Taint) stepCall(in ssa.Instruction, c *ssa.CallCommon) bool {
	ch := false
	name := CalleeName(c)
	args := CallArgs(c)
	var anyBits uint8
	for _, a := range args {
		anyBits |= t.val[a]
	}
	callVal, _ := in.(ssa.Value)
	if b, ok := c.Value.(*ssa.Builtin); ok {
		switch b.Name() {
		case "append":
			if anyBits != 0 && callVal != nil {
				ch = t.mark(callVal)
			}
		case "copy":
			if len(args) == 2 && t.has(args[1]) {
				ch = t.mark(args[0])
			}
		}
		return ch
	}
	if t.Sanitize[name] {
		return false
	}
	if t.Transparent[name] && anyBits&TVal != 0 && callVal != nil {
		ch = t.mark(callVal)
	}
	// reflect dispatcher summary
	if d, ok := t.Dispatch[name]; ok && len(c.Args) > d[1] {
		if mc, ok := Strip(c.Args[d[0]]).(*ssa.MakeClosure); ok {
			bound := mc.Fn.(*ssa.Function)
			var target *ssa.Function
			EachInstr(bound, func(_ *ssa.BasicBlock, _ int, x ssa.Instruction) {
				if cc := Common(x); cc != nil && cc.StaticCallee() != nil {
					target = cc.StaticCallee()
				}
			})
			if target != nil && t.inSet[target] {
				if sl, ok := c.Args[d[1]].(*ssa.Slice); ok {
					if arr, ok := sl.X.(*ssa.Alloc); ok {
						for _, u := range Uses(arr) {
							ia, ok := u.(*ssa.IndexAddr)
							if !ok {
								continue
							}
							k, ok := ConstInt(ia.Index)
							if !ok {
								continue
							}
							for _, uu := range Uses(ia) {
								st, ok := uu.(*ssa.Store)
								if !ok {
									continue
								}
								pi := int(k) + 1 // after the receiver
								if pi < len(target.Params) && t.flow(target.Params[pi], Strip(st.Val)) {
									ch = true
								}
							}
						}
					}
				}
			}
		}
	}
	// calls between analysed functions
	if callee := calleeOf(c); callee != nil && t.inSet[callee] {
		for i, a := range c.Args {
			if i < len(callee.Params) && t.flow(callee.Params[i], a) {
				ch = true
			}
		}
		if callVal != nil && callee.Signature.Results().Len() == 1 {
			if b := t.retTaint[callee][0]; b != 0 && t.markBits(callVal, b) {
				ch = true
			}
		}
	}
	return ch
}

// IsPBMessagePtr: pointer to a struct declared in a generated protobuf package (…/pb).
func IsPBMessagePtr(tp types.Type) bool {
	p, ok := tp.Underlying().(*types.Pointer)
	if !ok {
		return false
	}
	n, ok := p.Elem().(*types.Named)
	if !ok || n.Obj().Pkg() == nil {
		return false
	}
	if _, isStruct := n.Underlying().(*types.Struct); !isStruct {
		return false
	}
	return strings.HasSuffix(n.Obj().Pkg().Path(), "/pb")
}
