package core

import (
	"fmt"
	"go/token"
	"strings"

	"golang.org/x/tools/go/ssa"
)

// Render produces a canonical string for the expression tree of v (engine A: sibling
// agreement). leaf may name a value by role (returning ok); otherwise operators, constants,
// resolved callees, field loads and parameters are rendered structurally. Cells are
// forwarded first, so `x := f(); if x > 0` and `if f() > 0` render alike.
func Render(v ssa.Value, leaf func(ssa.Value) (string, bool)) string {
	return render(v, leaf, 0)
}

func render(v ssa.Value, leaf func(ssa.Value) (string, bool), d int) string {
	if v == nil {
		return "nil"
	}
	if d > 10 {
		return "…"
	}
	v = Forward(v)
	if leaf != nil {
		if s, ok := leaf(v); ok {
			return s
		}
	}
	rec := func(x ssa.Value) string { return render(x, leaf, d+1) }
	switch x := v.(type) {
	case *ssa.Const:
		if x.Value == nil {
			return "nil"
		}
		return x.Value.ExactString()
	case *ssa.Parameter:
		return "param:" + x.Name()
	case *ssa.FreeVar:
		return "free:" + x.Name()
	case *ssa.Global:
		return "global:" + x.Name()
	case *ssa.BinOp:
		a, b := rec(x.X), rec(x.Y)
		op := x.Op
		// normalise operand order of comparisons: a > b  ==  b < a
		switch op {
		case token.GTR:
			op, a, b = token.LSS, b, a
		case token.GEQ:
			op, a, b = token.LEQ, b, a
		case token.EQL, token.NEQ, token.ADD, token.MUL, token.AND, token.OR, token.XOR:
			if a > b {
				a, b = b, a
			}
		}
		return fmt.Sprintf("(%s %s %s)", a, op, b)
	case *ssa.UnOp:
		if x.Op == token.MUL {
			if fr, ok := AsField(x); ok {
				return rec(fr.Base) + "." + fr.Name
			}
			return "*" + rec(x.X)
		}
		return x.Op.String() + rec(x.X)
	case *ssa.FieldAddr:
		if fr, ok := AsField(x); ok {
			return "&" + rec(fr.Base) + "." + fr.Name
		}
	case *ssa.Field:
		if fr, ok := AsField(x); ok {
			return rec(fr.Base) + "." + fr.Name
		}
	case *ssa.Convert:
		return "conv<" + x.Type().String() + ">(" + rec(x.X) + ")"
	case *ssa.Extract:
		return rec(x.Tuple) + "#" + fmt.Sprint(x.Index)
	case *ssa.Call:
		var as []string
		for _, a := range CallArgs(&x.Call) {
			as = append(as, rec(a))
		}
		n := CalleeName(&x.Call)
		if n == "" {
			n = "call:" + rec(x.Call.Value)
		}
		return n + "(" + strings.Join(as, ",") + ")"
	case *ssa.Phi:
		var es []string
		for _, e := range x.Edges {
			es = append(es, rec(e))
		}
		return "phi(" + strings.Join(es, "|") + ")"
	case *ssa.Slice:
		return rec(x.X) + "[" + rec(x.Low) + ":" + rec(x.High) + "]"
	case *ssa.Lookup:
		return rec(x.X) + "[" + rec(x.Index) + "]"
	case *ssa.Alloc:
		return "local:" + x.Comment
	}
	return fmt.Sprintf("%T", v)
}
