package core

import (
	"go/constant"
	"go/token"
	"go/types"
	"math"

	"golang.org/x/tools/go/ssa"
)

// Engine I — non-relational integer intervals over SSA values and over len(v) of slice /
// string values, refined along branch edges, with widening at loop heads followed by
// narrowing passes. Sound over-approximation: every concrete value lies in the reported
// interval. Unbounded ends are math.MinInt64 / math.MaxInt64 (uint64 values above
// MaxInt64 are folded into "+inf").

// Itv is an inclusive integer interval.
type Itv struct{ Lo, Hi int64 }

const (
	ninf = math.MinInt64
	pinf = math.MaxInt64
)

var top = Itv{ninf, pinf}

func (a Itv) Empty() bool      { return a.Lo > a.Hi }
func (a Itv) Within(b Itv) bool { return a.Lo >= b.Lo && a.Hi <= b.Hi }
func (a Itv) join(b Itv) Itv {
	if a.Empty() {
		return b
	}
	if b.Empty() {
		return a
	}
	return Itv{min64(a.Lo, b.Lo), max64(a.Hi, b.Hi)}
}
func (a Itv) meet(b Itv) Itv { return Itv{max64(a.Lo, b.Lo), min64(a.Hi, b.Hi)} }

func min64(a, b int64) int64 {
	if a < b {
		return a
	}
	return b
}
func max64(a, b int64) int64 {
	if a > b {
		return a
	}
	return b
}

func satAdd(a, b int64) int64 {
	if a == pinf || b == pinf {
		if a == ninf || b == ninf {
			return pinf // undefined mix: callers only use as bound after range clamp
		}
		return pinf
	}
	if a == ninf || b == ninf {
		return ninf
	}
	s := a + b
	if a > 0 && b > 0 && s < 0 {
		return pinf
	}
	if a < 0 && b < 0 && s >= 0 {
		return ninf
	}
	return s
}

func satNeg(a int64) int64 {
	if a == ninf {
		return pinf
	}
	if a == pinf {
		return ninf
	}
	return -a
}

func satMul(a, b int64) int64 {
	if a == 0 || b == 0 {
		return 0
	}
	neg := (a < 0) != (b < 0)
	if a == ninf || a == pinf || b == ninf || b == pinf {
		if neg {
			return ninf
		}
		return pinf
	}
	p := a * b
	if p/b != a {
		if neg {
			return ninf
		}
		return pinf
	}
	return p
}

// lenOf is the canonical term "len(V)".
type lenOf struct{ V ssa.Value }

type term interface{}

type istate map[term]Itv // nil = unreachable

func (s istate) clone() istate {
	if s == nil {
		return nil
	}
	c := make(istate, len(s))
	for k, v := range s {
		c[k] = v
	}
	return c
}

// IA is the result of the interval analysis of one function.
type IA struct {
	fn      *ssa.Function
	in      map[*ssa.BasicBlock]istate // after phis, with same-block defs killed
	edge    map[Edge]istate
	visits  map[*ssa.BasicBlock]int
	Steps   int
	widened map[*ssa.Phi]bool
	reps    map[ssa.Value]ssa.Value // available-load representatives (LoadReps)
	entry   istate
	// Incomplete is set when the fixed point was not reached within the step budget:
	// results must then be treated as undecided.
	Incomplete bool
}

func typeRange(t types.Type) Itv {
	b, ok := t.Underlying().(*types.Basic)
	if !ok {
		return top
	}
	switch b.Kind() {
	case types.Int8:
		return Itv{-128, 127}
	case types.Int16:
		return Itv{-32768, 32767}
	case types.Int32:
		return Itv{math.MinInt32, math.MaxInt32}
	case types.Int, types.Int64, types.UntypedInt:
		return top
	case types.Uint8:
		return Itv{0, 255}
	case types.Uint16:
		return Itv{0, 65535}
	case types.Uint32:
		return Itv{0, math.MaxUint32}
	case types.Uint, types.Uint64, types.Uintptr:
		return Itv{0, pinf}
	}
	return top
}

func isInteger(t types.Type) bool {
	b, ok := t.Underlying().(*types.Basic)
	return ok && b.Info()&types.IsInteger != 0
}

// termOf of the analysis: loads of a local struct's field are named by their available-load
// representative (see LoadReps), so a fact learned on one load holds for the re-load.
func (ia *IA) termOf(v ssa.Value) term { return termOf(ia.Canon(v)) }

// Canon follows the available-load / store-forwarding representatives of v.
func (ia *IA) Canon(v ssa.Value) ssa.Value {
	for i := 0; i < 8; i++ {
		r, ok := ia.reps[v]
		if !ok {
			break
		}
		v = r
	}
	return v
}

// widenedFrom strips integer conversions that cannot change the value (the source type's
// range lies within the destination's).
func widenedFrom(v ssa.Value) ssa.Value {
	for {
		c, ok := v.(*ssa.Convert)
		if !ok || !isInteger(c.X.Type()) || !isInteger(c.Type()) || !typeRange(c.X.Type()).Within(typeRange(c.Type())) {
			return v
		}
		v = c.X
	}
}

func termOf(v ssa.Value) term {
	if c, ok := v.(*ssa.Call); ok {
		if b, ok := c.Call.Value.(*ssa.Builtin); ok && b.Name() == "len" && len(c.Call.Args) == 1 {
			return lenOf{Strip(c.Call.Args[0])}
		}
	}
	return v
}

// eval computes the interval of an integer value (or of a len term) in state s.
func (ia *IA) eval(v ssa.Value, s istate, depth int) Itv {
	v = ia.Canon(v)
	if c, ok := v.(*ssa.Const); ok {
		if c.Value != nil && c.Value.Kind() == constant.Int {
			if i, exact := constant.Int64Val(c.Value); exact {
				return Itv{i, i}
			}
			return Itv{0, pinf}.meet(typeRange(c.Type())) // large uint64 constant
		}
		return typeRange(c.Type())
	}
	t := ia.termOf(v)
	tr := typeRange(v.Type())
	if r, ok := s[t]; ok {
		if lo, isLen := t.(lenOf); isLen && depth < 12 {
			return r.meet(ia.evalLen(lo.V, s, depth+1))
		}
		if depth < 12 {
			return r.meet(ia.structural(v, s, depth+1))
		}
		return r.meet(tr)
	}
	if depth >= 12 {
		if _, isLen := t.(lenOf); isLen {
			return Itv{0, pinf}
		}
		return tr
	}
	if lo, isLen := t.(lenOf); isLen {
		return ia.evalLen(lo.V, s, depth+1)
	}
	return ia.structural(v, s, depth+1)
}

func (ia *IA) evalLen(x ssa.Value, s istate, depth int) Itv {
	nonneg := Itv{0, pinf}
	if r, ok := s[lenOf{x}]; ok {
		nonneg = nonneg.meet(r)
	}
	if depth > 12 {
		return nonneg
	}
	switch y := x.(type) {
	case *ssa.Const:
		if y.Value != nil && y.Value.Kind() == constant.String {
			n := int64(len(constant.StringVal(y.Value)))
			return Itv{n, n}
		}
		if y.Value == nil { // nil slice
			return Itv{0, 0}
		}
	case *ssa.MakeSlice:
		return ia.eval(y.Len, s, depth+1).meet(nonneg)
	case *ssa.Slice:
		base := ia.lenOfOperand(y.X, s, depth+1)
		lo := Itv{0, 0}
		if y.Low != nil {
			lo = ia.eval(y.Low, s, depth+1)
		}
		hi := base
		if y.High != nil {
			hi = ia.eval(y.High, s, depth+1)
			// a successful slice implies high <= cap; for strings/arrays cap == len
		}
		r := Itv{satAdd(hi.Lo, satNeg(lo.Hi)), satAdd(hi.Hi, satNeg(lo.Lo))}
		return r.meet(nonneg)
	case *ssa.Convert:
		// string <-> []byte conversions preserve length
		if _, ok := y.X.Type().Underlying().(*types.Basic); ok {
			if bt, ok := y.X.Type().Underlying().(*types.Basic); ok && bt.Info()&types.IsString != 0 {
				return ia.evalLen(Strip(y.X), s, depth+1).meet(nonneg)
			}
		}
		if sl, ok := y.X.Type().Underlying().(*types.Slice); ok {
			if eb, ok := sl.Elem().Underlying().(*types.Basic); ok && eb.Kind() == types.Byte {
				return ia.evalLen(Strip(y.X), s, depth+1).meet(nonneg)
			}
		}
	case *ssa.Phi:
		// handled through refinements stored for the phi; fall through
	}
	if at, ok := x.Type().Underlying().(*types.Array); ok {
		return Itv{at.Len(), at.Len()}
	}
	return nonneg
}

// lenOfOperand: length of the operand of a Slice instruction (slice, string, or *array).
func (ia *IA) lenOfOperand(x ssa.Value, s istate, depth int) Itv {
	if p, ok := x.Type().Underlying().(*types.Pointer); ok {
		if at, ok := p.Elem().Underlying().(*types.Array); ok {
			return Itv{at.Len(), at.Len()}
		}
	}
	return ia.evalLen(Strip(x), s, depth)
}

func (ia *IA) structural(v ssa.Value, s istate, depth int) Itv {
	tr := typeRange(v.Type())
	clamp := func(r Itv) Itv {
		if r.Within(tr) {
			return r
		}
		return tr // may wrap
	}
	switch x := v.(type) {
	case *ssa.Convert:
		if !isInteger(x.X.Type()) || !isInteger(x.Type()) {
			return tr
		}
		return clamp(ia.eval(x.X, s, depth))
	case *ssa.ChangeType:
		return ia.eval(x.X, s, depth).meet(tr)
	case *ssa.UnOp:
		if x.Op == token.SUB {
			a := ia.eval(x.X, s, depth)
			return clamp(Itv{satNeg(a.Hi), satNeg(a.Lo)})
		}
		return tr
	case *ssa.BinOp:
		if !isInteger(x.Type()) {
			return tr
		}
		a, b := ia.eval(x.X, s, depth), ia.eval(x.Y, s, depth)
		switch x.Op {
		case token.ADD:
			return clamp(Itv{satAdd(a.Lo, b.Lo), satAdd(a.Hi, b.Hi)})
		case token.SUB:
			r := Itv{satAdd(a.Lo, satNeg(b.Hi)), satAdd(a.Hi, satNeg(b.Lo))}
			// x - x/c (c >= 1, x >= 0) is monotone in x: the one relational shape the
			// non-relational domain would otherwise lose ("the rest after taking a share")
			if q, ok := widenedFrom(x.Y).(*ssa.BinOp); ok && q.Op == token.QUO && a.Lo >= 0 {
				if c, isC := ConstInt(q.Y); isC && c >= 1 && ia.termOf(widenedFrom(q.X)) == ia.termOf(widenedFrom(x.X)) {
					hi := int64(pinf)
					if a.Hi != pinf {
						hi = a.Hi - a.Hi/c
					}
					r = r.meet(Itv{a.Lo - a.Lo/c, hi})
				}
			}
			// a dominating comparison of the two operands bounds their difference; applied
			// only when the subtraction cannot wrap in its type
			if r.Within(tr) {
				tx, ty := ia.termOf(widenedFrom(x.X)), ia.termOf(widenedFrom(x.Y))
				if d, ok := s[diffOf{tx, ty}]; ok {
					r = r.meet(d)
				}
				if d, ok := s[diffOf{ty, tx}]; ok {
					r = r.meet(Itv{satNeg(d.Hi), satNeg(d.Lo)})
				}
			}
			return clamp(r)
		case token.MUL:
			c := []int64{satMul(a.Lo, b.Lo), satMul(a.Lo, b.Hi), satMul(a.Hi, b.Lo), satMul(a.Hi, b.Hi)}
			r := Itv{c[0], c[0]}
			for _, y := range c[1:] {
				r = Itv{min64(r.Lo, y), max64(r.Hi, y)}
			}
			return clamp(r)
		case token.QUO:
			if b.Lo > 0 && a.Lo >= 0 {
				hi := a.Hi
				if hi != pinf {
					hi = a.Hi / b.Lo
				}
				lo := int64(0)
				if b.Hi != pinf {
					lo = a.Lo / b.Hi
				}
				return clamp(Itv{lo, hi})
			}
			return tr
		case token.REM:
			if b.Lo > 0 && b.Hi != pinf {
				if a.Lo >= 0 {
					return Itv{0, min64(a.Hi, b.Hi-1)}.meet(tr)
				}
				return Itv{-(b.Hi - 1), b.Hi - 1}.meet(tr)
			}
			return tr
		case token.SHR:
			if a.Lo >= 0 && b.Lo >= 0 && b.Lo == b.Hi && b.Lo < 63 {
				hi := a.Hi
				if hi != pinf {
					hi >>= uint(b.Lo)
				}
				return Itv{a.Lo >> uint(b.Lo), hi}.meet(tr)
			}
			if a.Lo >= 0 {
				return Itv{0, a.Hi}.meet(tr)
			}
			return tr
		case token.SHL:
			if a.Lo >= 0 && b.Lo == b.Hi && b.Lo >= 0 && b.Lo < 62 {
				m := int64(1) << uint(b.Lo)
				return clamp(Itv{satMul(a.Lo, m), satMul(a.Hi, m)})
			}
			return tr
		case token.AND:
			r := tr
			if a.Lo >= 0 {
				r = r.meet(Itv{0, a.Hi})
			}
			if b.Lo >= 0 {
				r = r.meet(Itv{0, b.Hi})
			}
			if a.Lo >= 0 || b.Lo >= 0 {
				r = r.meet(Itv{0, pinf})
			}
			return r
		case token.OR, token.XOR:
			if a.Lo >= 0 && b.Lo >= 0 && a.Hi != pinf && b.Hi != pinf {
				m := max64(a.Hi, b.Hi)
				p := int64(1)
				for p <= m && p < (1<<62) {
					p <<= 1
				}
				return Itv{0, p - 1}.meet(tr)
			}
			return tr
		}
		return tr
	case *ssa.Call:
		if b, ok := x.Call.Value.(*ssa.Builtin); ok {
			switch b.Name() {
			case "len":
				return ia.evalLen(Strip(x.Call.Args[0]), s, depth)
			case "cap":
				l := ia.evalLen(Strip(x.Call.Args[0]), s, depth)
				return Itv{l.Lo, pinf}
			case "min":
				r := ia.eval(x.Call.Args[0], s, depth)
				for _, a := range x.Call.Args[1:] {
					y := ia.eval(a, s, depth)
					r = Itv{min64(r.Lo, y.Lo), min64(r.Hi, y.Hi)}
				}
				return r
			case "max":
				r := ia.eval(x.Call.Args[0], s, depth)
				for _, a := range x.Call.Args[1:] {
					y := ia.eval(a, s, depth)
					r = Itv{max64(r.Lo, y.Lo), max64(r.Hi, y.Hi)}
				}
				return r
			case "copy":
				d := ia.evalLen(Strip(x.Call.Args[0]), s, depth)
				sr := ia.evalLen(Strip(x.Call.Args[1]), s, depth)
				return Itv{0, min64(d.Hi, sr.Hi)}
			}
		}
		return tr
	}
	return tr
}

// refine narrows the terms compared by cond, assuming cond == truth. Returns nil when the
// edge is infeasible.
func (ia *IA) refine(s istate, cond ssa.Value, truth bool) istate {
	if s == nil {
		return nil
	}
	base, neg := Normalize(cond)
	if neg {
		truth = !truth
	}
	if b, ok := ConstBool(base); ok {
		if b != truth {
			return nil
		}
		return s
	}
	bin, ok := base.(*ssa.BinOp)
	if !ok {
		return s
	}
	op := bin.Op
	switch op {
	case token.LSS, token.LEQ, token.GTR, token.GEQ, token.EQL, token.NEQ:
	default:
		return s
	}
	if !isInteger(bin.X.Type()) {
		return s
	}
	if !truth {
		switch op {
		case token.LSS:
			op = token.GEQ
		case token.LEQ:
			op = token.GTR
		case token.GTR:
			op = token.LEQ
		case token.GEQ:
			op = token.LSS
		case token.EQL:
			op = token.NEQ
		case token.NEQ:
			op = token.EQL
		}
	}
	a, b := ia.eval(bin.X, s, 0), ia.eval(bin.Y, s, 0)
	na, nb := a, b
	switch op {
	case token.LSS:
		na.Hi = min64(a.Hi, satAdd(b.Hi, -1))
		nb.Lo = max64(b.Lo, satAdd(a.Lo, 1))
	case token.LEQ:
		na.Hi = min64(a.Hi, b.Hi)
		nb.Lo = max64(b.Lo, a.Lo)
	case token.GTR:
		na.Lo = max64(a.Lo, satAdd(b.Lo, 1))
		nb.Hi = min64(b.Hi, satAdd(a.Hi, -1))
	case token.GEQ:
		na.Lo = max64(a.Lo, b.Lo)
		nb.Hi = min64(b.Hi, a.Hi)
	case token.EQL:
		m := a.meet(b)
		na, nb = m, m
	case token.NEQ:
		if b.Lo == b.Hi {
			if a.Lo == b.Lo && a.Lo != ninf {
				na.Lo = a.Lo + 1
			}
			if a.Hi == b.Lo && a.Hi != pinf {
				na.Hi = a.Hi - 1
			}
		}
		if a.Lo == a.Hi {
			if b.Lo == a.Lo && b.Lo != ninf {
				nb.Lo = b.Lo + 1
			}
			if b.Hi == a.Lo && b.Hi != pinf {
				nb.Hi = b.Hi - 1
			}
		}
	}
	if na.Empty() || nb.Empty() {
		return nil
	}
	out := s.clone()
	ia.assign(out, bin.X, na, 0)
	ia.assign(out, bin.Y, nb, 0)
	// relational fact for two non-constant terms: the interval of X - Y (used when a later
	// instruction computes that difference)
	_, cx := ia.Canon(widenedFrom(bin.X)).(*ssa.Const)
	_, cy := ia.Canon(widenedFrom(bin.Y)).(*ssa.Const)
	if !cx && !cy {
		tx, ty := ia.termOf(widenedFrom(bin.X)), ia.termOf(widenedFrom(bin.Y))
		var d Itv
		ok := true
		switch op {
		case token.LSS:
			d = Itv{ninf, -1}
		case token.LEQ:
			d = Itv{ninf, 0}
		case token.GTR:
			d = Itv{1, pinf}
		case token.GEQ:
			d = Itv{0, pinf}
		case token.EQL:
			d = Itv{0, 0}
		default:
			ok = false
		}
		if ok {
			k := diffOf{tx, ty}
			if old, has := out[k]; has {
				d = d.meet(old)
			}
			out[k] = d
		}
	}
	return out
}

// diffOf is the relational term "A - B" (mathematical difference of two integer terms).
type diffOf struct{ A, B term }

// assign stores a refinement for v and pushes it through value-preserving wrappers:
// integer conversions that cannot truncate, and +/- constant.
func (ia *IA) assign(s istate, v ssa.Value, r Itv, depth int) {
	v = ia.Canon(v)
	if _, isConst := v.(*ssa.Const); isConst || depth > 6 {
		return
	}
	t := ia.termOf(v)
	if old, ok := s[t]; ok {
		r = r.meet(old)
	}
	s[t] = r
	// len(x[k:]) == len(x) - k for a slice or string x and a constant k: a bound on the
	// length of the tail is a bound on the length of the whole
	if lo, isLen := t.(lenOf); isLen {
		if sl, ok := lo.V.(*ssa.Slice); ok && sl.High == nil && sl.Max == nil {
			_, isPtr := sl.X.Type().Underlying().(*types.Pointer)
			k, okK := int64(0), true
			if sl.Low != nil {
				li := ia.eval(sl.Low, s, 0)
				k, okK = li.Lo, li.Lo == li.Hi && li.Lo >= 0
			}
			if !isPtr && okK {
				tb := term(lenOf{Strip(sl.X)})
				nr := Itv{satAdd(r.Lo, k), satAdd(r.Hi, k)}
				if old, ok := s[tb]; ok {
					nr = nr.meet(old)
				}
				s[tb] = nr
			}
		}
	}
	switch x := v.(type) {
	case *ssa.Convert:
		if isInteger(x.X.Type()) && isInteger(x.Type()) {
			src := ia.eval(x.X, s, 0)
			if src.Within(typeRange(x.Type())) { // conversion preserved the value
				ia.assign(s, x.X, r, depth+1)
			}
		}
	case *ssa.ChangeType:
		ia.assign(s, x.X, r, depth+1)
	case *ssa.BinOp:
		if !isInteger(x.Type()) {
			return
		}
		tr := typeRange(x.Type())
		a, b := ia.eval(x.X, s, 0), ia.eval(x.Y, s, 0)
		switch x.Op {
		case token.ADD:
			sum := Itv{satAdd(a.Lo, b.Lo), satAdd(a.Hi, b.Hi)}
			if !sum.Within(tr) {
				return // may have wrapped
			}
			if b.Lo == b.Hi {
				ia.assign(s, x.X, Itv{satAdd(r.Lo, -b.Lo), satAdd(r.Hi, -b.Lo)}, depth+1)
			} else if a.Lo == a.Hi {
				ia.assign(s, x.Y, Itv{satAdd(r.Lo, -a.Lo), satAdd(r.Hi, -a.Lo)}, depth+1)
			}
		case token.SUB:
			d := Itv{satAdd(a.Lo, satNeg(b.Hi)), satAdd(a.Hi, satNeg(b.Lo))}
			if !d.Within(tr) {
				return
			}
			if b.Lo == b.Hi {
				ia.assign(s, x.X, Itv{satAdd(r.Lo, b.Lo), satAdd(r.Hi, b.Lo)}, depth+1)
			}
		}
	}
}

func joinStates(a, b istate) istate {
	if a == nil {
		return b.clone()
	}
	if b == nil {
		return a
	}
	out := istate{}
	for k, va := range a {
		if vb, ok := b[k]; ok {
			out[k] = va.join(vb)
		}
	}
	return out
}

func sameState(a, b istate) bool {
	if (a == nil) != (b == nil) || len(a) != len(b) {
		return false
	}
	for k, v := range a {
		if w, ok := b[k]; !ok || w != v {
			return false
		}
	}
	return true
}

// Intervals runs the analysis on fn.
func Intervals(fn *ssa.Function) *IA { return IntervalsSeeded(fn, nil) }

// IntervalsSeeded runs the analysis with the given intervals assumed for parameters (or
// free variables) at function entry — the caller is responsible for their soundness
// (e.g. the join over every call site).
func IntervalsSeeded(fn *ssa.Function, seeds map[ssa.Value]Itv) *IA {
	ia := &IA{fn: fn, in: map[*ssa.BasicBlock]istate{}, edge: map[Edge]istate{}, visits: map[*ssa.BasicBlock]int{}, widened: map[*ssa.Phi]bool{}, reps: LoadReps(fn)}
	if len(fn.Blocks) == 0 {
		return ia
	}
	entry := fn.Blocks[0]
	ia.in[entry] = istate{}
	for v, r := range seeds {
		ia.in[entry][ia.termOf(v)] = r
	}
	work := []*ssa.BasicBlock{entry}
	inWork := map[*ssa.BasicBlock]bool{entry: true}
	const widenAfter = 4
	for len(work) > 0 && ia.Steps < 20000 {
		b := work[0]
		work = work[1:]
		inWork[b] = false
		ia.Steps++
		s := ia.in[b]
		if s == nil {
			continue
		}
		// terminator
		outs := make([]istate, len(b.Succs))
		if ifi, ok := b.Instrs[len(b.Instrs)-1].(*ssa.If); ok {
			outs[0] = ia.refine(s, ifi.Cond, true)
			outs[1] = ia.refine(s, ifi.Cond, false)
		} else {
			for i := range outs {
				outs[i] = s
			}
		}
		for i, succ := range b.Succs {
			e := Edge{b, succ}
			if len(b.Succs) == 2 && b.Succs[0] == b.Succs[1] {
				outs[i] = s
			}
			ia.edge[e] = outs[i]
			// recompute succ in-state
			ns := ia.blockIn(succ)
			if !sameState(ns, ia.in[succ]) {
				ia.visits[succ]++
				if ia.visits[succ] > widenAfter && ia.in[succ] != nil && ns != nil {
					// widen growing phi bounds to the type range
					for _, in := range succ.Instrs {
						phi, ok := in.(*ssa.Phi)
						if !ok {
							break
						}
						old, okO := ia.in[succ][phi]
						nw, okN := ns[phi]
						if okO && okN {
							tr := typeRange(phi.Type())
							if _, isInt := phi.Type().Underlying().(*types.Basic); !isInt {
								continue
							}
							if nw.Lo < old.Lo {
								nw.Lo = tr.Lo
							}
							if nw.Hi > old.Hi {
								nw.Hi = tr.Hi
							}
							ns[phi] = nw
						}
					}
				}
				ia.in[succ] = ns
				if !inWork[succ] {
					work = append(work, succ)
					inWork[succ] = true
				}
			}
		}
	}
	if len(work) > 0 {
		ia.Incomplete = true
	}
	return ia
}

// blockIn joins the incoming edge states of b, evaluates phis per edge, and kills
// refinements of values (re)defined in b.
func (ia *IA) blockIn(b *ssa.BasicBlock) istate {
	if b == ia.fn.Blocks[0] {
		return istate{}
	}
	var s istate
	reach := false
	for _, p := range b.Preds {
		es, ok := ia.edge[Edge{p, b}]
		if !ok || es == nil {
			continue
		}
		reach = true
		s = joinStates(s, es)
	}
	if !reach {
		return nil
	}
	if s == nil {
		s = istate{}
	}
	s = s.clone()
	for _, in := range b.Instrs {
		if v, ok := in.(ssa.Value); ok {
			delete(s, term(v))
			delete(s, term(lenOf{v}))
			for k := range s {
				if d, ok := k.(diffOf); ok && (d.A == term(v) || d.B == term(v) || d.A == term(lenOf{v}) || d.B == term(lenOf{v})) {
					delete(s, k)
				}
			}
		}
	}
	for _, in := range b.Instrs {
		phi, ok := in.(*ssa.Phi)
		if !ok {
			break
		}
		isInt := isInteger(phi.Type())
		var r, rl Itv
		first := true
		for i, p := range b.Preds {
			es, ok := ia.edge[Edge{p, b}]
			if !ok || es == nil {
				continue
			}
			var x, xl Itv
			if isInt {
				x = ia.eval(phi.Edges[i], es, 0)
			} else {
				xl = ia.evalLen(Strip(phi.Edges[i]), es, 0)
			}
			if first {
				r, rl, first = x, xl, false
			} else {
				r, rl = r.join(x), rl.join(xl)
			}
		}
		if isInt {
			s[phi] = r
		} else if hasLen(phi.Type()) {
			s[lenOf{phi}] = rl
		}
	}
	return s
}

func hasLen(t types.Type) bool {
	switch u := t.Underlying().(type) {
	case *types.Slice:
		return true
	case *types.Basic:
		return u.Info()&types.IsString != 0
	}
	return false
}

// Reachable reports whether the analysis found block b reachable.
func (ia *IA) Reachable(b *ssa.BasicBlock) bool { return ia.in[b] != nil }

// ValueAt is the interval of integer value v at (the entry of the block of) instruction at.
func (ia *IA) ValueAt(v ssa.Value, at ssa.Instruction) Itv {
	s := ia.in[at.Block()]
	if s == nil {
		return Itv{1, 0}
	}
	return ia.eval(v, s, 0)
}

// LenAt is the interval of len(x) at instruction at.
func (ia *IA) LenAt(x ssa.Value, at ssa.Instruction) Itv {
	s := ia.in[at.Block()]
	if s == nil {
		return Itv{1, 0}
	}
	return ia.evalLen(Strip(x), s, 0)
}

// LenOnEdge is the interval of len(x) on CFG edge e (before the target block's own
// definitions are re-executed, which matters on loop back edges).
func (ia *IA) LenOnEdge(x ssa.Value, e Edge) Itv {
	s := ia.edge[e]
	if s == nil {
		return Itv{1, 0}
	}
	return ia.evalLen(Strip(x), s, 0)
}

// ValueOnEdge is the interval of integer value v on CFG edge e.
func (ia *IA) ValueOnEdge(v ssa.Value, e Edge) Itv {
	s := ia.edge[e]
	if s == nil {
		return Itv{1, 0}
	}
	return ia.eval(v, s, 0)
}

// OperandLenAt is LenAt for the operand of a Slice/Index instruction (handles *array).
func (ia *IA) OperandLenAt(x ssa.Value, at ssa.Instruction) Itv {
	s := ia.in[at.Block()]
	if s == nil {
		return Itv{1, 0}
	}
	return ia.lenOfOperand(x, s, 0)
}
