// Package core is the shared layer of the aurorafs static checker: loading the
// type-checked program and its SSA form from /repo's working tree, resolving anchors,
// collecting obligations, known findings and evidence.
package core

import (
	"fmt"
	"go/ast"
	"go/token"
	"go/types"
	"os"
	"sort"
	"strings"
	"time"

	"golang.org/x/tools/go/packages"
	"golang.org/x/tools/go/ssa"
	"golang.org/x/tools/go/ssa/ssautil"
)

// Mod is the module path of the analysed repository.
const Mod = "github.com/gauss-project/aurorafs"

// skipPkgs never type-check in the pinned tree (DESIGN §2.2); none is anchored by a
// property. Any other package with errors fails the run.
var skipPkgs = map[string]string{
	Mod + "/pkg/shed/wiredtiger":                  "cgo, wiredtiger.h absent, not part of the -tags leveldb build",
	Mod + "/pkg/settlement/traffic/cheque/mock":   "stale mock (does not implement cheque.ChequeStore)",
	Mod + "/pkg/topology/mock":                    "stale mock (does not implement topology.Driver)",
}

// World is the loaded program.
type World struct {
	Dir      string
	Fset     *token.FileSet
	Pkgs     map[string]*packages.Package
	Prog     *ssa.Program
	SSA      map[string]*ssa.Package
	Funcs    []*ssa.Function            // every source function (incl. closures) of repo packages
	byName   map[string]*ssa.Function   // "<pkgpath>.<RelString>"
	byPkg    map[string][]*ssa.Function // pkgpath -> funcs
	LoadSecs float64
	Overlay  map[string][]byte
}

// Load loads ./pkg/... ./cmd/... of dir (the whole repository: the build covers it and a
// warm load is < 5 s, so every check sees the whole program).
func Load(dir string, overlay map[string][]byte, patterns ...string) (*World, error) {
	t0 := time.Now()
	if len(patterns) == 0 {
		patterns = []string{"./pkg/...", "./cmd/..."}
	}
	env := []string{}
	for _, e := range os.Environ() {
		if strings.HasPrefix(e, "GOFLAGS=") || strings.HasPrefix(e, "GOWORK=") || strings.HasPrefix(e, "GOPROXY=") || strings.HasPrefix(e, "GOSUMDB=") || strings.HasPrefix(e, "GOTOOLCHAIN=") {
			continue
		}
		env = append(env, e)
	}
	env = append(env, "GOFLAGS=-mod=mod", "GOPROXY=off", "GOSUMDB=off", "GOWORK=off", "GOTOOLCHAIN=local")
	cfg := &packages.Config{
		Mode:       packages.LoadSyntax | packages.NeedModule,
		Dir:        dir,
		BuildFlags: []string{"-tags=leveldb"},
		Env:        env,
		Overlay:    overlay,
	}
	pkgs, err := packages.Load(cfg, patterns...)
	if err != nil {
		return nil, fmt.Errorf("packages.Load: %w", err)
	}
	if len(pkgs) == 0 {
		return nil, fmt.Errorf("no packages loaded from %s", dir)
	}
	w := &World{Dir: dir, Pkgs: map[string]*packages.Package{}, SSA: map[string]*ssa.Package{},
		byName: map[string]*ssa.Function{}, byPkg: map[string][]*ssa.Function{}, Overlay: overlay}
	var good []*packages.Package
	var errs []string
	for _, p := range pkgs {
		if _, skip := skipPkgs[p.PkgPath]; skip {
			continue
		}
		if len(p.Errors) > 0 {
			errs = append(errs, fmt.Sprintf("%s: %v", p.PkgPath, p.Errors[0]))
			continue
		}
		if p.Types == nil || p.TypesInfo == nil || len(p.TypeErrors) > 0 { // IllTyped alone is transitive (quic-go/qtls tripwire below libp2p) and is accepted
			errs = append(errs, fmt.Sprintf("%s: not type-checked", p.PkgPath))
			continue
		}
		good = append(good, p)
		w.Pkgs[p.PkgPath] = p
		w.Fset = p.Fset
	}
	if len(errs) > 0 {
		sort.Strings(errs)
		return nil, fmt.Errorf("packages with errors (the tree must build): %s", strings.Join(errs, "; "))
	}
	// Like ssautil.Packages, but a package whose only defect is an ill-typed *dependency*
	// (IllTyped is transitive) still gets SSA: its own syntax type-checked cleanly.
	isGood := map[*packages.Package]bool{}
	for _, p := range good {
		isGood[p] = true
	}
	prog := ssa.NewProgram(w.Fset, ssa.InstantiateGenerics)
	created := map[*types.Package]bool{}
	packages.Visit(pkgs, nil, func(p *packages.Package) {
		if p.Types == nil || created[p.Types] {
			return
		}
		if _, skip := skipPkgs[p.PkgPath]; skip {
			return
		}
		created[p.Types] = true
		if isGood[p] {
			w.SSA[p.PkgPath] = prog.CreatePackage(p.Types, p.Syntax, p.TypesInfo, true)
		} else if len(p.Errors) == 0 {
			prog.CreatePackage(p.Types, nil, nil, true)
		}
	})
	w.Prog = prog
	for _, p := range good {
		sp := w.SSA[p.PkgPath]
		if sp == nil {
			return nil, fmt.Errorf("no SSA for %s", p.PkgPath)
		}
		sp.Build()
	}
	for fn := range ssautil.AllFunctions(prog) {
		if fn.Synthetic != "" || fn.Pkg == nil {
			continue
		}
		if _, ok := w.SSA[fn.Pkg.Pkg.Path()]; !ok {
			continue
		}
		if fn.Blocks == nil {
			continue
		}
		w.Funcs = append(w.Funcs, fn)
	}
	sort.Slice(w.Funcs, func(i, j int) bool {
		a, b := w.Funcs[i], w.Funcs[j]
		if a.Pkg.Pkg.Path() != b.Pkg.Pkg.Path() {
			return a.Pkg.Pkg.Path() < b.Pkg.Pkg.Path()
		}
		if a.Pos() != b.Pos() {
			return a.Pos() < b.Pos()
		}
		return a.String() < b.String()
	})
	for _, fn := range w.Funcs {
		pp := fn.Pkg.Pkg.Path()
		w.byName[pp+"."+fn.RelString(fn.Pkg.Pkg)] = fn
		w.byPkg[pp] = append(w.byPkg[pp], fn)
	}
	w.LoadSecs = time.Since(t0).Seconds()
	return w, nil
}

// P expands a repo-relative package path ("pkg/cac") to the full import path.
func P(rel string) string { return Mod + "/" + rel }

// Func resolves a function by repo-relative package and its RelString name, e.g.
// ("pkg/localstore", "(*DB).put"), ("pkg/cac", "Valid"). Returns nil if absent.
func (w *World) Func(rel, name string) *ssa.Function { return w.byName[P(rel)+"."+name] }

// PkgFuncs returns every source function (closures included) of a package.
func (w *World) PkgFuncs(rel string) []*ssa.Function { return w.byPkg[P(rel)] }

// Closures returns the anonymous functions nested (at any depth) in fn.
func Closures(fn *ssa.Function) []*ssa.Function {
	var out []*ssa.Function
	var rec func(f *ssa.Function)
	rec = func(f *ssa.Function) {
		for _, a := range f.AnonFuncs {
			out = append(out, a)
			rec(a)
		}
	}
	rec(fn)
	return out
}

// WithClosures returns fn followed by its nested closures.
func WithClosures(fn *ssa.Function) []*ssa.Function {
	return append([]*ssa.Function{fn}, Closures(fn)...)
}

// Pos renders a position repo-relative.
func (w *World) Pos(p token.Pos) string {
	if !p.IsValid() {
		return "-"
	}
	pos := w.Fset.Position(p)
	f := strings.TrimPrefix(pos.Filename, w.Dir+"/")
	return fmt.Sprintf("%s:%d", f, pos.Line)
}

// FuncName is the short display name "<pkg rel>.<RelString>".
func FuncName(fn *ssa.Function) string {
	if fn == nil {
		return "<nil>"
	}
	if fn.Pkg == nil {
		return fn.String()
	}
	return strings.TrimPrefix(fn.Pkg.Pkg.Path(), Mod+"/") + "." + fn.RelString(fn.Pkg.Pkg)
}

// TypesPkg returns the go/types package for a repo-relative path.
func (w *World) TypesPkg(rel string) *types.Package {
	if p := w.Pkgs[P(rel)]; p != nil {
		return p.Types
	}
	return nil
}

// Lookup finds a package-level object.
func (w *World) Lookup(rel, name string) types.Object {
	tp := w.TypesPkg(rel)
	if tp == nil {
		return nil
	}
	return tp.Scope().Lookup(name)
}

// FileOf returns the syntax file containing pos.
func (w *World) FileOf(rel string, pos token.Pos) *ast.File {
	p := w.Pkgs[P(rel)]
	if p == nil {
		return nil
	}
	for _, f := range p.Syntax {
		if f.Pos() <= pos && pos <= f.End() {
			return f
		}
	}
	return nil
}

// Syntax returns the FuncDecl/FuncLit node of fn.
func Syntax(fn *ssa.Function) ast.Node { return fn.Syntax() }
