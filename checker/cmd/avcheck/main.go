// avcheck decides the aurorafs properties C01–C40 by static analysis of /repo's current
// working tree (see /verif/DESIGN.md).
package main

import (
	"encoding/json"
	"flag"
	"fmt"
	"os"
	"path/filepath"
	"sort"
	"strconv"
	"strings"

	"aurora-verif/checker/core"
	"aurora-verif/checker/props"

	"golang.org/x/tools/go/ssa"
)

func main() {
	prop := flag.String("p", "", "property id (C01..C40) or 'all'")
	tier := flag.String("tier", "quick", "quick|thorough")
	repo := flag.String("repo", "/repo", "repository working tree")
	verif := flag.String("verif", "/verif", "verification directory (evidence, known findings)")
	replay := flag.String("replay", "", "replay file written by an earlier failing run")
	dump := flag.String("dump", "", "debug: 'pkg/rel FuncRelString' — print the SSA and resolved callee names of one function")
	manifest := flag.Bool("manifest", false, "print MANIFEST.json for the registered properties and exit")
	flag.Parse()
	if *dump != "" {
		w, err := core.Load(*repo, nil)
		if err != nil {
			fmt.Println(err)
			os.Exit(1)
		}
		parts := strings.SplitN(*dump, " ", 2)
		for _, fn := range w.PkgFuncs(parts[0]) {
			if len(parts) == 2 && !strings.HasPrefix(fn.RelString(fn.Pkg.Pkg), parts[1]) {
				continue
			}
			fn.WriteTo(os.Stdout)
			core.EachInstr(fn, func(_ *ssa.BasicBlock, _ int, in ssa.Instruction) {
				if c := core.Common(in); c != nil {
					fmt.Printf("  call %-60s at %s\n", core.CalleeName(c), w.Pos(in.Pos()))
				}
			})
		}
		return
	}
	if *manifest {
		writeManifest()
		return
	}
	if t := os.Getenv("VERIF_TIER"); t == "quick" || t == "thorough" {
		*tier = t
	}
	seed, _ := strconv.ParseInt(os.Getenv("VERIF_SEED"), 10, 64)
	replayKey := ""
	if *replay != "" {
		b, err := os.ReadFile(*replay)
		if err != nil {
			fmt.Println("cannot read replay file:", err)
			os.Exit(2)
		}
		var rp struct {
			Property   string   `json:"property"`
			Obligation *core.Ob `json:"obligation"`
		}
		if err := json.Unmarshal(b, &rp); err != nil {
			fmt.Println("bad replay file:", err)
			os.Exit(2)
		}
		*prop = rp.Property
		if rp.Obligation != nil {
			replayKey = rp.Obligation.Key
		}
	}
	var ids []string
	if *prop == "all" {
		for id := range props.Registry {
			ids = append(ids, id)
		}
		sort.Strings(ids)
	} else {
		for _, id := range strings.Split(*prop, ",") {
			if _, ok := props.Registry[id]; !ok {
				fmt.Printf("unknown or unclaimed property %q\n", id)
				os.Exit(2)
			}
			ids = append(ids, id)
		}
	}
	findings, err := core.LoadFindings(filepath.Join(*verif, "known_findings.json"))
	if err != nil {
		fmt.Println("known findings:", err)
		os.Exit(1)
	}
	w, err := core.Load(*repo, nil)
	if err != nil {
		// the tree does not load: nothing can be decided
		for _, id := range ids {
			fmt.Printf("UNDECIDED property=%s %v\n", id, err)
			fmt.Printf("VIOLATION property=%s replay=%s\n", id, "-")
		}
		os.Exit(1)
	}
	fmt.Printf("loaded %d packages, %d source functions from %s in %.1fs\n", len(w.Pkgs), len(w.Funcs), *repo, w.LoadSecs)
	exit := 0
	for _, id := range ids {
		r := core.NewRun(w, id, *tier)
		r.Seed = seed
		func() {
			defer func() {
				if e := recover(); e != nil {
					r.Fatal("analyser panic: %v", e)
					if os.Getenv("AVCHECK_PANIC") != "" {
						panic(e)
					}
				}
			}()
			props.Run(id, r)
		}()
		if *tier == "thorough" {
			r.Controls = props.RunControls(id, *repo, *verif, r, findings)
			fmt.Printf("%s controls: attempted %d, compiled %d, detected %d, missed %d\n", id, r.Controls.Attempted, r.Controls.Compiled, r.Controls.Detected, len(r.Controls.Missed))
		}
		if rc := r.Finish(*verif, findings, replayKey); rc != 0 {
			exit = 1
		}
	}
	os.Exit(exit)
}

func writeManifest() {
	base := struct {
		Cmd string `json:"cmd"`
	}{}
	if b, err := os.ReadFile("/root/.vp/BASELINE.json"); err == nil {
		json.Unmarshal(b, &base)
	}
	var ids []string
	for id := range props.Registry {
		ids = append(ids, id)
	}
	sort.Strings(ids)
	checks := []map[string]interface{}{}
	for _, id := range ids {
		m := props.Registry[id].Meta
		checks = append(checks, map[string]interface{}{
			"property_id":         id,
			"quick_cmd":           "./check " + id + " quick",
			"thorough_cmd":        "./check " + id + " thorough",
			"evidence_file":       "/verif/evidence/" + id + ".json",
			"replay_cmd_template": "./check --replay {path}",
			"engine":              "avcheck",
			"technique":           m.Technique,
			"level_claimed": map[string]string{
				"category":   "other",
				"text":       "Sound static decision of structural necessary clauses of the property on every CFG path of the anchored functions in /repo's current tree (not the behavioural statement as a whole). " + m.Explanation,
				"design_ref": m.DesignRef,
			},
			"level_note": "Trusted: go/types + go/ssa (x/tools v0.29.0) as a model of Go; the frozen rule tables in /verif/checker/props (anchors, guarded-by relations, validators), confirmed by reading the pinned tree; " + strings.Join(m.Assumptions, "; "),
		})
	}
	var na []map[string]string
	var naIDs []string
	reasons := map[string]string{}
	for id, why := range props.NotApplicable {
		reasons[id] = why
	}
	if b, err := os.ReadFile("/verif/properties.jsonl"); err == nil {
		for _, line := range strings.Split(string(b), "\n") {
			var p struct {
				ID string `json:"id"`
			}
			if json.Unmarshal([]byte(line), &p) == nil && p.ID != "" {
				if _, ok := reasons[p.ID]; !ok {
					reasons[p.ID] = "not claimed: no check built for it (yet); see DESIGN.md"
				}
			}
		}
	}
	for id := range reasons {
		naIDs = append(naIDs, id)
	}
	sort.Strings(naIDs)
	for _, id := range naIDs {
		if _, claimed := props.Registry[id]; claimed {
			continue
		}
		na = append(na, map[string]string{"property_id": id, "reason": reasons[id]})
	}
	m := map[string]interface{}{
		"version":   1,
		"setup_cmd": "cd /verif/checker && GOFLAGS=-mod=mod GOPROXY=off GOSUMDB=off GOTOOLCHAIN=local GOWORK=off go build -o /verif/bin/avcheck ./cmd/avcheck",
		"hooks": map[string]interface{}{
			"guard": "verif", "enable": "none needed: static analysis reads /repo's source directly, no instrumentation",
			"baseline_off_cmd": base.Cmd, "source_commits": []string{}, "add_only": true,
		},
		"engines": []map[string]interface{}{{"name": "avcheck", "path": "/verif/checker", "serves_properties": ids,
			"kind_free_text": "repository-specific static analyser on go/packages + go/ssa: guard/bad-edge reachability, must-follow, lockset, who-may-write, provenance, intervals, sibling agreement, batch discipline, targeted lints"}},
		"checks":         checks,
		"not_applicable": na,
		"notes":          "Static analysis only. Every check loads the whole repository (./pkg/... ./cmd/..., -tags leveldb) from /repo's working tree and never executes repository code. Known findings: /verif/known_findings.json.",
	}
	b, _ := json.MarshalIndent(m, "", " ")
	fmt.Println(string(b))
}
