package c17_test

import (
	"bytes"
	"context"
	"errors"
	"io"
	"testing"

	"github.com/gauss-project/aurorafs/pkg/boson"
	"github.com/gauss-project/aurorafs/pkg/chunkinfo"
	"github.com/gauss-project/aurorafs/pkg/file/loadsave"
	"github.com/gauss-project/aurorafs/pkg/file/pipeline"
	"github.com/gauss-project/aurorafs/pkg/file/pipeline/builder"
	"github.com/gauss-project/aurorafs/pkg/logging"
	"github.com/gauss-project/aurorafs/pkg/manifest"
	"github.com/gauss-project/aurorafs/pkg/p2p/streamtest"
	rmock "github.com/gauss-project/aurorafs/pkg/routetab/mock"
	omock "github.com/gauss-project/aurorafs/pkg/settlement/chain/oracle/mock"
	"github.com/gauss-project/aurorafs/pkg/shed/driver"
	ldbstate "github.com/gauss-project/aurorafs/pkg/statestore/leveldb"
	"github.com/gauss-project/aurorafs/pkg/storage"
	"github.com/gauss-project/aurorafs/pkg/storage/mock"
	"github.com/gauss-project/aurorafs/pkg/subscribe"
	"github.com/gauss-project/aurorafs/pkg/traversal"
)

const fileContentType = "text/plain; charset=utf-8"

// node bundles one chunkinfo service with the stores it works on.
type node struct {
	addr  boson.Address
	store *mock.MockStorer
	state storage.StateStorer
	trav  traversal.Traverser
	ci    *chunkinfo.ChunkInfo

	// reference of the plain file (inside the manifest) of the last upload
	lastFileRef boson.Address
}

// newNode builds (or, when called again with the same stores, restarts) a node.
func newNode(t *testing.T, addr boson.Address, store *mock.MockStorer, state storage.StateStorer) *node {
	t.Helper()
	if store == nil {
		store = mock.NewStorer()
	}
	logger := logging.New(io.Discard, 0)
	if state == nil {
		state = newState(t)
	}
	route := rmock.NewMockRouteTable()
	trav := traversal.New(store)
	rec := streamtest.New(streamtest.WithBaseAddr(addr))
	ci := chunkinfo.New(addr, rec, logger, trav, state, store, &route, omock.NewServer(), nil, subscribe.NewSubPub())
	if err := ci.InitChunkInfo(); err != nil {
		t.Fatalf("init chunkinfo: %v", err)
	}
	return &node{addr: addr, store: store, state: state, trav: trav, ci: ci}
}

// newState returns the real (leveldb backed, in memory) state store: the mock
// one dead-locks when a key is deleted from inside Iterate.
func newState(t *testing.T) storage.StateStorer {
	t.Helper()
	state, err := ldbstate.NewInMemoryStateStore(logging.New(io.Discard, 0))
	if err != nil {
		t.Fatal(err)
	}
	return state
}

func pipelineFactory(s storage.Putter, mode storage.ModePut, encrypt bool) func() pipeline.Interface {
	return func() pipeline.Interface {
		return builder.NewPipelineBuilder(context.Background(), s, mode, encrypt)
	}
}

// upload stores the content under the given file name the way the aurora
// upload handler does: file chunks, a manifest around them, and one
// OnChunkRetrieved call for every data chunk of the new reference.
// It returns the reference and the data chunk addresses of the file.
func (n *node) upload(t *testing.T, content []byte, filename string) (boson.Address, []boson.Address) {
	t.Helper()
	ctx := context.Background()
	pipe := builder.NewPipelineBuilder(ctx, n.store, storage.ModePutUpload, false)
	fr, err := builder.FeedPipeline(ctx, pipe, bytes.NewReader(content))
	if err != nil {
		t.Fatal(err)
	}
	n.lastFileRef = fr
	ls := loadsave.New(n.store, pipelineFactory(n.store, storage.ModePutRequest, false))
	m, err := manifest.NewDefaultManifest(ls, false)
	if err != nil {
		t.Fatal(err)
	}
	rootMtdt := map[string]string{
		manifest.WebsiteIndexDocumentSuffixKey: filename,
		manifest.EntryMetadataDirnameKey:       filename,
	}
	if err = m.Add(ctx, "/", manifest.NewEntry(boson.ZeroAddress, rootMtdt)); err != nil {
		t.Fatal(err)
	}
	fileMtdt := map[string]string{
		manifest.EntryMetadataFilenameKey:    filename,
		manifest.EntryMetadataContentTypeKey: fileContentType,
	}
	if err = m.Add(ctx, filename, manifest.NewEntry(fr, fileMtdt)); err != nil {
		t.Fatal(err)
	}
	ref, err := m.Store(ctx)
	if err != nil {
		t.Fatal(err)
	}

	dataChunks, _, err := n.trav.GetChunkHashes(ctx, ref, nil)
	if err != nil {
		t.Fatal(err)
	}
	var cids []boson.Address
	seen := make(map[string]struct{})
	for _, li := range dataChunks {
		for _, b := range li {
			c := boson.NewAddress(b)
			if err := n.ci.OnChunkRetrieved(c, ref, n.addr); err != nil {
				t.Fatalf("OnChunkRetrieved: %v", err)
			}
			if _, ok := seen[c.String()]; !ok {
				seen[c.String()] = struct{}{}
				cids = append(cids, c)
			}
		}
	}
	return ref, cids
}

// deleteFile is the aurora delete handler: the chunks chunkinfo names as not
// shared with another file are removed from the store, then the root.
func (n *node) deleteFile(root boson.Address) error {
	ctx := context.Background()
	del := func() error {
		pyramid := n.ci.GetChunkPyramid(root)
		for _, chunk := range pyramid {
			if chunk.Cid.Equal(root) {
				continue
			}
			for i := 0; i < chunk.Number; i++ {
				if err := n.store.Set(ctx, storage.ModeSetRemove, chunk.Cid); err != nil {
					if errors.Is(err, driver.ErrNotFound) {
						continue
					}
					return err
				}
			}
		}
		if err := n.store.Set(ctx, storage.ModeSetRemove, root); err != nil {
			if !errors.Is(err, driver.ErrNotFound) {
				return err
			}
		}
		return nil
	}
	return n.ci.DelFile(root, del)
}

// ownVector returns the availability vector the node keeps for itself.
func (n *node) ownVector(root boson.Address) (length int, b []byte, ok bool) {
	for _, o := range n.ci.GetChunkInfoServerOverlays(root) {
		if o.Overlay == n.addr.String() {
			return o.Bit.Len, o.Bit.B, true
		}
	}
	return 0, nil, false
}

// checkNoOverclaim verifies that every data chunk the node's own record marks
// present is in the local store, cids being the file's data chunks in order.
func (n *node) checkNoOverclaim(t *testing.T, name string, root boson.Address, cids []boson.Address) {
	t.Helper()
	l, b, ok := n.ownVector(root)
	if !ok {
		return
	}
	if l != len(cids) {
		t.Fatalf("%s: vector length %d, file has %d data chunks", name, l, len(cids))
	}
	all := true
	for i, c := range cids {
		set := b[i/8]&(1<<uint(i%8)) != 0
		if !set {
			all = false
			continue
		}
		has, err := n.store.Has(context.Background(), storage.ModeHasChunk, c)
		if err != nil {
			t.Fatal(err)
		}
		if !has {
			t.Errorf("VIOLATION %s (%s): own availability record marks data chunk %d (%s) present, but it is not in the local store", name, root, i, c)
		}
	}
	if all {
		t.Logf("%s: reported fully downloaded (%d/%d chunks)", name, l, l)
	}
}

// stateKeys lists the state store keys that mention the reference.
func stateKeys(t *testing.T, state storage.StateStorer, root boson.Address) []string {
	t.Helper()
	var keys []string
	for _, prefix := range []string{"chunk-", "discover-", "sourceChunk-", "sourcePyramid-"} {
		if err := state.Iterate(prefix+root.String(), func(k, _ []byte) (bool, error) {
			keys = append(keys, string(k))
			return false, nil
		}); err != nil {
			t.Fatal(err)
		}
	}
	return keys
}
