package c17_test

import (
	"context"
	"errors"
	"math/rand"
	"strings"
	"sync"
	"testing"

	"github.com/gauss-project/aurorafs/pkg/boson"
	"github.com/gauss-project/aurorafs/pkg/storage"
)

// PRE-EXISTING (fails on the unmodified tree).
//
// ChunkInfo.DelFile removes the chunks first (del callback) and only then the
// records, one table after the other, returning at the first failure. A
// single failing state store Delete while the source records are removed
// (chunkInfoSource.DelChunkInfoSource) leaves the node's own availability
// record in place - in memory and persisted - with every bit set although
// none of the chunks is stored any more. The deletion cannot be repeated
// either: the root chunk is gone, so DelFile fails in getPyramid for ever.

type faultyState struct {
	storage.StateStorer
	mu   sync.Mutex
	fail func(key string) error
}

func (f *faultyState) Delete(key string) error {
	f.mu.Lock()
	fail := f.fail
	f.mu.Unlock()
	if fail != nil {
		if err := fail(key); err != nil {
			return err
		}
	}
	return f.StateStorer.Delete(key)
}

func randomContent(seed int64, size int) []byte {
	b := make([]byte, size)
	rand.New(rand.NewSource(seed)).Read(b)
	return b
}

func TestPreexistingDelFileStateFaultLeavesOverclaimingRecord(t *testing.T) {
	addr := boson.MustParseHexAddress("0c")
	state := &faultyState{StateStorer: newState(t)}
	n := newNode(t, addr, nil, state)

	root, cids := n.upload(t, randomContent(17, 3*boson.ChunkSize), "data.bin")
	if len(cids) != 3 {
		t.Fatalf("expected 3 data chunks, got %d", len(cids))
	}
	n.checkNoOverclaim(t, "after upload", root, cids)

	// one failing delete of a source record
	failed := false
	state.mu.Lock()
	state.fail = func(key string) error {
		if !failed && strings.HasPrefix(key, "sourceChunk-") {
			failed = true
			return errors.New("injected: state store delete failed")
		}
		return nil
	}
	state.mu.Unlock()

	err := n.deleteFile(root)
	if err == nil {
		t.Fatal("expected the deletion to report the injected failure")
	}
	t.Logf("first delete: %v", err)

	for i, c := range cids {
		has, _ := n.store.Has(context.Background(), storage.ModeHasChunk, c)
		t.Logf("data chunk %d stored: %v", i, has)
	}
	// the record must not claim what the failed deletion already removed
	n.checkNoOverclaim(t, "after failed deletion", root, cids)

	// and it cannot be repaired by deleting again
	if err := n.deleteFile(root); err != nil {
		t.Errorf("second delete (no fault any more): %v", err)
	}
	if keys := stateKeys(t, n.state, root); len(keys) != 0 {
		t.Errorf("records still persisted for the file: %v", keys)
	}
}
