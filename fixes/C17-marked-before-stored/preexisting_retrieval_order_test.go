package c17_test

import (
	"bytes"
	"context"
	"errors"
	"sync/atomic"
	"testing"
	"time"

	accmock "github.com/gauss-project/aurorafs/pkg/accounting/mock"
	"github.com/gauss-project/aurorafs/pkg/boson"
	"github.com/gauss-project/aurorafs/pkg/logging"
	"github.com/gauss-project/aurorafs/pkg/p2p"
	"github.com/gauss-project/aurorafs/pkg/p2p/streamtest"
	"github.com/gauss-project/aurorafs/pkg/retrieval"
	rmock "github.com/gauss-project/aurorafs/pkg/routetab/mock"
	"github.com/gauss-project/aurorafs/pkg/storage"
	"github.com/gauss-project/aurorafs/pkg/storage/mock"
	"github.com/gauss-project/aurorafs/pkg/subscribe"
)

// PRE-EXISTING (fails on the unmodified tree).
//
// retrieval.Service.retrieveChunk reports the chunk to chunkinfo
// (OnChunkRetrieved: bit set in memory and persisted, progress published)
// BEFORE it puts the chunk into the local store. If that Put fails (or the
// node stops between the two steps) the node's own availability record marks
// a data chunk present that was never stored.

type failingPutStorer struct {
	*mock.MockStorer
	failPut  bool
	attempts int32
}

func (f *failingPutStorer) Put(ctx context.Context, mode storage.ModePut, chs ...boson.Chunk) ([]bool, error) {
	if f.failPut {
		atomic.AddInt32(&f.attempts, 1)
		return nil, errors.New("injected: local store put failed")
	}
	return f.MockStorer.Put(ctx, mode, chs...)
}

// lateCloseStream keeps the recorder's in-memory stream open a little longer:
// the recorder returns io.EOF together with the last bytes once the writer has
// closed, which a buffered reader turns into an unexpected EOF.
type lateCloseStream struct{ p2p.Stream }

func (s lateCloseStream) Close() error {
	time.Sleep(300 * time.Millisecond)
	return s.Stream.Close()
}

func (s lateCloseStream) FullClose() error {
	time.Sleep(300 * time.Millisecond)
	return s.Stream.FullClose()
}

func TestPreexistingRetrievalRecordsChunkBeforeStoringIt(t *testing.T) {
	ctx := context.Background()
	var logBuf bytes.Buffer
	logger := logging.New(&logBuf, 6)
	srvAddr := boson.MustParseHexAddress("0d")
	cliAddr := boson.MustParseHexAddress("0e")

	// the serving node holds the whole file
	srv := newNode(t, srvAddr, nil, nil)
	root, cids := srv.upload(t, randomContent(23, 3*boson.ChunkSize), "data.bin")
	if len(cids) != 3 {
		t.Fatalf("expected 3 data chunks, got %d", len(cids))
	}
	srvRoute := rmock.NewMockRouteTable()
	srvRetrieval := retrieval.New(srvAddr, nil, &srvRoute, srv.store, true, logger, nil, accmock.NewAccounting(), subscribe.NewSubPub())

	// the client has the file's pyramid and data chunk 0, read locally under
	// the file's context (what netstore.Get reports on a local hit)
	cli := newNode(t, cliAddr, nil, nil)
	pyramid, err := srv.trav.GetPyramid(ctx, root)
	if err != nil {
		t.Fatal(err)
	}
	if _, _, err := cli.trav.GetChunkHashes(ctx, root, pyramid); err != nil {
		t.Fatal(err)
	}
	ch0, err := srv.store.Get(ctx, storage.ModeGetRequest, cids[0])
	if err != nil {
		t.Fatal(err)
	}
	if _, err := cli.store.Put(ctx, storage.ModePutRequest, ch0); err != nil {
		t.Fatal(err)
	}
	if err := cli.ci.OnChunkRetrieved(cids[0], root, cliAddr); err != nil {
		t.Fatal(err)
	}
	cli.checkNoOverclaim(t, "client after local read of chunk 0", root, cids)

	// the client's retrieval service stores into a local store whose Put fails
	proto := srvRetrieval.Protocol()
	h := proto.StreamSpecs[0].Handler
	proto.StreamSpecs[0].Handler = func(ctx context.Context, p p2p.Peer, s p2p.Stream) error {
		return h(ctx, p, lateCloseStream{s})
	}
	rec := streamtest.New(streamtest.WithProtocols(proto), streamtest.WithBaseAddr(cliAddr))
	cliRoute := rmock.NewMockRouteTable()
	cliStore := &failingPutStorer{MockStorer: cli.store, failPut: true}
	cliRetrieval := retrieval.New(cliAddr, rec, &cliRoute, cliStore, true, logger, nil, accmock.NewAccounting(), subscribe.NewSubPub())
	cliRetrieval.Config(cli.ci)

	_, err = cliRetrieval.RetrieveChunkFromNode(ctx, srvAddr, root, cids[1])
	if err == nil {
		t.Fatal("expected the retrieval to fail on the injected store error")
	}
	if atomic.LoadInt32(&cliStore.attempts) == 0 {
		t.Log(logBuf.String())
		t.Fatal("no delivery reached the client's store")
	}
	t.Logf("retrieval: %v", err)
	has, _ := cli.store.Has(ctx, storage.ModeHasChunk, cids[1])
	t.Logf("data chunk 1 stored on the client: %v", has)

	cli.checkNoOverclaim(t, "client after failed retrieval of chunk 1", root, cids)
}
