//go:build leveldb
// +build leveldb

package c19alias

import (
	"testing"

	"github.com/gauss-project/aurorafs/pkg/shed"
)

func newIndex(t *testing.T, db *shed.DB) shed.Index {
	idx, err := db.NewIndex("k->v", shed.IndexFuncs{
		EncodeKey:   func(f shed.Item) ([]byte, error) { return f.Address, nil },
		DecodeKey:   func(k []byte) (shed.Item, error) { return shed.Item{Address: k}, nil },
		EncodeValue: func(f shed.Item) ([]byte, error) { return f.Data, nil },
		DecodeValue: func(k shed.Item, v []byte) (shed.Item, error) { k.Data = v; return k, nil },
	})
	if err != nil {
		t.Fatal(err)
	}
	return idx
}

// Nested iteration over one index with two short prefixes, after a reopen.
func TestNestedPrefixIterationAfterReopen(t *testing.T) {
	dir := t.TempDir()
	db, err := shed.NewDB(dir, nil)
	if err != nil {
		t.Fatal(err)
	}
	idx := newIndex(t, db)
	for _, k := range []string{"a1", "a2", "a3", "b1", "b2"} {
		if err := idx.Put(shed.Item{Address: []byte(k), Data: []byte("v")}); err != nil {
			t.Fatal(err)
		}
	}
	count := func(idx shed.Index) (outer int) {
		err := idx.Iterate(func(it shed.Item) (bool, error) {
			outer++
			// a nested walk with another prefix
			_ = idx.Iterate(func(shed.Item) (bool, error) { return false, nil }, &shed.IterateOptions{Prefix: []byte("b")})
			return false, nil
		}, &shed.IterateOptions{Prefix: []byte("a")})
		if err != nil {
			t.Fatal(err)
		}
		return outer
	}
	if n := count(idx); n != 3 {
		t.Fatalf("before reopen: outer walk with prefix a saw %d items, want 3", n)
	}
	if err := db.Close(); err != nil {
		t.Fatal(err)
	}
	db, err = shed.NewDB(dir, nil)
	if err != nil {
		t.Fatal(err)
	}
	defer db.Close()
	idx = newIndex(t, db)
	if n := count(idx); n != 3 {
		t.Fatalf("after reopen: outer walk with prefix a saw %d items, want 3", n)
	}
}
