//go:build c38preexisting

package multicast

// PRE-EXISTING (independent of the seeded change): the de-duplication in
// onMulticast relies on gcache.SetIfNotExist, which is Contains() followed by
// SetWithLock(); SetWithLock silently keeps the existing item and the caller
// still gets (true, nil). Two stream handlers that receive the same message
// from two neighbours at the same moment can therefore both pass the check and
// both deliver the message to the subscribers.

import (
	"sync"
	"testing"
	"time"

	"github.com/gauss-project/aurorafs/pkg/boson/test"
	"github.com/gauss-project/aurorafs/pkg/multicast/pb"
)

func TestPreexistingC38_ConcurrentCopiesDeliveredOnce(t *testing.T) {
	s, rec, gid := c38Member(t)
	origin := test.RandomAddress().Bytes()
	const rounds = 20000
	const neighbours = 8
	dups := 0
	for i := 0; i < rounds; i++ {
		id := uint64(1000 + i)
		msg := &pb.MulticastMsg{Id: id, CreateTime: time.Now().UnixMilli(), Origin: origin, Gid: gid.Bytes(), Data: []byte("x")}
		start := make(chan struct{})
		var wg sync.WaitGroup
		for n := 0; n < neighbours; n++ {
			from := test.RandomAddress()
			wg.Add(1)
			go func() {
				defer wg.Done()
				<-start
				c38Receive(t, s, from, msg)
			}()
		}
		close(start)
		wg.Wait()
		if rec.count(id) > 1 {
			dups++
		}
	}
	if dups > 0 {
		t.Fatalf("VIOLATION C38 (pre-existing): %d of %d fresh messages were delivered more than once when %d neighbours forwarded them concurrently", dups, rounds, neighbours)
	}
}
