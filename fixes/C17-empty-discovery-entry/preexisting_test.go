package c17_test

// PRE-EXISTING (independent of the seeded change): a chunk-info response for a
// file that arrives after the file was deleted (late / unsolicited answer)
// re-creates an in-memory discovery entry for the deleted root:
// updateQueue() calls updateChunkInfo() even when no queue exists, and
// updateChunkInfo() does `ci.cd.presence[rc] = make(...)` before it finds out
// that the pyramid is gone and returns. From then on cd.isExists(root) is true
// and Init(root) claims the file is known although nothing is stored.

import (
	"context"
	"io"
	"strings"
	"testing"
	"time"

	"github.com/gauss-project/aurorafs/pkg/boson"
	"github.com/gauss-project/aurorafs/pkg/chunkinfo/pb"
	"github.com/gauss-project/aurorafs/pkg/logging"
	"github.com/gauss-project/aurorafs/pkg/p2p/protobuf"
	"github.com/gauss-project/aurorafs/pkg/p2p/streamtest"
	"github.com/gauss-project/aurorafs/pkg/statestore/leveldb"
	"github.com/gauss-project/aurorafs/pkg/storage"
	smock "github.com/gauss-project/aurorafs/pkg/storage/mock"
)

func TestPreexistingLateChunkInfoRespAfterDelete(t *testing.T) {
	self := boson.MustParseHexAddress("0a" + strings.Repeat("00", 31))
	peer := boson.MustParseHexAddress("0b" + strings.Repeat("00", 31))

	store := smock.NewStorer()
	state, err := leveldb.NewInMemoryStateStore(logging.New(io.Discard, 0))
	if err != nil {
		t.Fatal(err)
	}
	defer state.Close()
	root := upload(t, store, 3)

	n := newNode(t, self, store, state)
	for _, c := range n.GetChunkPyramid(root) {
		if err := n.OnChunkRetrieved(c.Cid, root, self); err != nil {
			t.Fatal(err)
		}
	}
	if err := n.DelFile(root, func() error {
		for _, c := range n.GetChunkPyramid(root) {
			_ = store.Set(context.Background(), storage.ModeSetRemove, c.Cid)
		}
		return store.Set(context.Background(), storage.ModeSetRemove, root)
	}); err != nil {
		t.Fatal(err)
	}
	if n.Init(context.Background(), nil, root) {
		t.Fatal("deleted file must be unknown right after delete")
	}

	// late answer of a peer for the deleted file
	wire := streamtest.New(streamtest.WithProtocols(n.Protocol()), streamtest.WithBaseAddr(peer))
	stream, err := wire.NewStream(context.Background(), self, nil, "chunkinfo", "2.0.0", "chunkinforesp")
	if err != nil {
		t.Fatal(err)
	}
	resp := pb.ChunkInfoResp{RootCid: root.Bytes(), Target: peer.Bytes(), Req: self.Bytes(),
		Presence: map[string][]byte{peer.String(): {0xff}}}
	if err := protobuf.NewWriter(stream).WriteMsgWithContext(context.Background(), &resp); err != nil {
		t.Fatal(err)
	}
	deadline := time.Now().Add(2 * time.Second)
	for time.Now().Before(deadline) {
		if n.Init(context.Background(), nil, root) {
			t.Fatal("C17 violated (pre-existing): an in-memory discovery entry for the deleted file was re-created by a late chunk-info response; Init() now reports the file as known")
		}
		time.Sleep(20 * time.Millisecond)
	}
	_ = stream.Close()
}
