package c38

import (
	"testing"

	"github.com/gauss-project/aurorafs/pkg/boson/test"
	"github.com/gauss-project/aurorafs/pkg/multicast/pb"
)

// PRE-EXISTING (fails on the unmodified tree).
//
// A node that is not in the message's group forwards through the closest group
// it knows (getForwardNodes -> getForward). getForward's second loop, meant
// for the kept peers, iterates conn.BinPeers(0) again, so with one connected
// peer a and one kept peer k the forward list is [a, a]: the node forwards the
// same message twice to a in one flooding step and never to k.
func TestPreexistingForwardListHasNoDuplicates(t *testing.T) {
	n := newNode(t, test.RandomAddress())

	a := test.RandomAddress() // neighbour, member of group H
	k := test.RandomAddress() // not a neighbour, member of group H
	h := test.RandomAddress() // some group the node only knows about
	n.route.set(a, true)
	n.handshakeFrom(t, a, h) // H: connected = [a]
	n.handshakeFrom(t, k, h) // H: kept = [k]

	x := test.RandomAddress() // the neighbour the message comes from
	msg := &pb.MulticastMsg{
		Id:     1,
		Origin: test.RandomAddress().Bytes(),
		Gid:    test.RandomAddress().Bytes(), // a group this node has no entry for
		Data:   []byte("hello"),
	}
	n.multicastFrom(t, x, msg)

	toA := len(n.out.sent(a, "multicast"))
	toK := len(n.out.sent(k, "multicast"))
	t.Logf("copies forwarded: to connected peer a = %d, to kept peer k = %d", toA, toK)
	if toA > 1 {
		t.Fatalf("C38: the node forwarded the same message %d times to the same peer in one flooding step", toA)
	}
}
