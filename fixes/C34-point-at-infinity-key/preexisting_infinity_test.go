package c34

import (
	"math/big"
	"testing"

	"github.com/btcsuite/btcd/btcec"
	"github.com/gauss-project/aurorafs/pkg/aurora"
	"github.com/gauss-project/aurorafs/pkg/crypto"
	ma "github.com/multiformats/go-multiaddr"
)

// forgeInfinity builds, WITHOUT any private key, a 65 byte signature over
// data for which btcec.RecoverCompact returns the point at infinity (0,0):
// pick R = k*G and s = e/k, then Q = r^-1 (s*R - e*G) = r^-1 (e*G - e*G) = O.
func forgeInfinity(t *testing.T, data []byte) []byte {
	t.Helper()
	curve := btcec.S256()
	n := curve.Params().N
	half := new(big.Int).Rsh(n, 1)

	// e exactly as crypto.Recover computes it
	msg := []byte("\x19Ethereum Signed Message:\n")
	msg = append(msg, []byte(itoa(len(data)))...)
	msg = append(msg, data...)
	hash, err := crypto.LegacyKeccak256(msg)
	if err != nil {
		t.Fatal(err)
	}
	e := new(big.Int).SetBytes(hash)
	e.Mod(e, n)

	for i := int64(2); i < 1000; i++ {
		k := big.NewInt(i)
		rx, ry := curve.ScalarBaseMult(k.Bytes())
		if rx.Cmp(n) >= 0 {
			continue
		}
		s := new(big.Int).ModInverse(k, n)
		s.Mul(s, e).Mod(s, n)
		odd := ry.Bit(0) == 1
		if s.Cmp(half) > 0 {
			// use -R instead of R: same x, opposite parity, s -> N-s
			s.Sub(n, s)
			odd = !odd
		}
		if s.Sign() == 0 {
			continue
		}
		sig := make([]byte, 65)
		rb, sb := rx.Bytes(), s.Bytes()
		copy(sig[32-len(rb):32], rb)
		copy(sig[64-len(sb):64], sb)
		sig[64] = 27
		if odd {
			sig[64] = 28
		}
		return sig
	}
	t.Fatal("no forgery found")
	return nil
}

func itoa(i int) string { return big.NewInt(int64(i)).String() }

// TestPreexistingInfinityKey: on the UNMODIFIED tree anybody can produce a
// record for the fixed overlay "overlay of the point at infinity" with an
// arbitrary underlay and network id, without owning any key. ParseAddress
// must reject it (or at least not blow up); it either accepts it or panics.
func TestPreexistingInfinityKey(t *testing.T) {
	const networkID = 7
	underlay, err := ma.NewMultiaddr("/ip4/6.6.6.6/tcp/6666/p2p/16Uiu2HAkx8ULY8cTXhdVAcMmLcH9AsTKz6uBQ7DPLKRjMLgBVYkS")
	if err != nil {
		t.Fatal(err)
	}
	ub, _ := underlay.MarshalBinary()

	// the overlay that NewOverlayAddress derives from the key (0,0), computed
	// by hand so that no library call can panic here
	pubHash, _ := crypto.LegacyKeccak256(make([]byte, 64))
	ovHash := sha3256(pubHash)

	signData := append([]byte("aurorafs-handshake-"), ub...)
	signData = append(signData, ovHash...)
	signData = append(signData, 0, 0, 0, 0, 0, 0, 0, networkID)
	sig := forgeInfinity(t, signData)

	pk, err := crypto.Recover(sig, signData)
	if err == nil {
		t.Logf("crypto.Recover accepted a key-less forgery, recovered key X=%v Y=%v", pk.X, pk.Y)
	}

	defer func() {
		if r := recover(); r != nil {
			t.Fatalf("aurora.ParseAddress panicked on a key-less forged record: %v", r)
		}
	}()
	addr, err := aurora.ParseAddress(ub, ovHash, sig, networkID)
	if err == nil {
		t.Fatalf("aurora.ParseAddress accepted a record nobody signed: %s", addr)
	}
}
