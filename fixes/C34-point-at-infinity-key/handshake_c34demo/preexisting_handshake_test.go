// Package c34demo holds demonstrations of PRE-EXISTING weaknesses of the
// handshake (they fail on the unmodified tree). It lives here because the
// handshake package is internal to pkg/p2p/libp2p.
package c34demo

import (
	"bytes"
	"context"
	"io"
	"math/big"
	"strconv"
	"testing"

	"github.com/btcsuite/btcd/btcec"
	"github.com/gauss-project/aurorafs/pkg/aurora"
	"github.com/gauss-project/aurorafs/pkg/crypto"
	"github.com/gauss-project/aurorafs/pkg/logging"
	"github.com/gauss-project/aurorafs/pkg/p2p/libp2p/internal/handshake"
	"github.com/gauss-project/aurorafs/pkg/p2p/libp2p/internal/handshake/mock"
	"github.com/gauss-project/aurorafs/pkg/p2p/libp2p/internal/handshake/pb"
	"github.com/gauss-project/aurorafs/pkg/p2p/protobuf"
	"github.com/gauss-project/aurorafs/pkg/topology/lightnode"
	libp2ppeer "github.com/libp2p/go-libp2p-core/peer"
	ma "github.com/multiformats/go-multiaddr"
	"golang.org/x/crypto/sha3"
)

// identity resolver: what both real resolvers (static NAT / upnp) do with an
// observed address they have no better idea about, peer id included.
type identityResolver struct{}

func (identityResolver) Resolve(observed ma.Multiaddr) (ma.Multiaddr, error) { return observed, nil }

const networkID = uint64(3)

func newService(t *testing.T) (*handshake.Service, libp2ppeer.ID) {
	t.Helper()
	key, err := crypto.GenerateSecp256k1Key()
	if err != nil {
		t.Fatal(err)
	}
	overlay, err := crypto.NewOverlayAddress(key.PublicKey, networkID)
	if err != nil {
		t.Fatal(err)
	}
	own, err := ma.NewMultiaddr("/ip4/127.0.0.1/tcp/1634/p2p/16Uiu2HAkx8ULY8cTXhdVAcMmLcH9AsTKz6uBQ7DPLKRjMLgBVYkA")
	if err != nil {
		t.Fatal(err)
	}
	info, err := libp2ppeer.AddrInfoFromP2pAddr(own)
	if err != nil {
		t.Fatal(err)
	}
	svc, err := handshake.New(crypto.NewDefaultSigner(key), identityResolver{}, overlay, networkID,
		aurora.NewModel().SetMode(aurora.FullNode), "", info.ID, logging.New(io.Discard, 0),
		lightnode.NewContainer(overlay), lightnode.DefaultLightNodeLimit)
	if err != nil {
		t.Fatal(err)
	}
	return svc, info.ID
}

// forgeInfinity: key-less signature for which RecoverCompact yields (0,0).
func forgeInfinity(t *testing.T, data []byte) []byte {
	t.Helper()
	curve := btcec.S256()
	n := curve.Params().N
	half := new(big.Int).Rsh(n, 1)
	msg := append([]byte("\x19Ethereum Signed Message:\n"+strconv.Itoa(len(data))), data...)
	hash, err := crypto.LegacyKeccak256(msg)
	if err != nil {
		t.Fatal(err)
	}
	e := new(big.Int).SetBytes(hash)
	e.Mod(e, n)
	k := big.NewInt(2)
	rx, ry := curve.ScalarBaseMult(k.Bytes())
	s := new(big.Int).ModInverse(k, n)
	s.Mul(s, e).Mod(s, n)
	odd := ry.Bit(0) == 1
	if s.Cmp(half) > 0 {
		s.Sub(n, s)
		odd = !odd
	}
	sig := make([]byte, 65)
	rb, sb := rx.Bytes(), s.Bytes()
	copy(sig[32-len(rb):32], rb)
	copy(sig[64-len(sb):64], sb)
	sig[64] = 27
	if odd {
		sig[64] = 28
	}
	return sig
}

// An inbound peer that owns NO key at all completes the handshake as overlay
// 5bf4d7b2... (the "overlay" of the point at infinity) with any underlay.
func TestPreexistingHandleAcceptsKeylessRecord(t *testing.T) {
	svc, _ := newService(t)

	attacker, err := ma.NewMultiaddr("/ip4/6.6.6.6/tcp/6666/p2p/16Uiu2HAkx8ULY8cTXhdVAcMmLcH9AsTKz6uBQ7DPLKRjMLgBVYkS")
	if err != nil {
		t.Fatal(err)
	}
	attackerInfo, _ := libp2ppeer.AddrInfoFromP2pAddr(attacker)
	ub, _ := attacker.MarshalBinary()

	pubHash, _ := crypto.LegacyKeccak256(make([]byte, 64))
	ov := sha3.Sum256(pubHash)
	signData := append([]byte("aurorafs-handshake-"), ub...)
	signData = append(signData, ov[:]...)
	signData = append(signData, 0, 0, 0, 0, 0, 0, 0, byte(networkID))
	sig := forgeInfinity(t, signData)

	var b1, b2 bytes.Buffer
	s1, s2 := mock.NewStream(&b1, &b2), mock.NewStream(&b2, &b1)
	w := protobuf.NewWriter(s2)
	own, _ := ma.NewMultiaddr("/ip4/127.0.0.1/tcp/1634/p2p/16Uiu2HAkx8ULY8cTXhdVAcMmLcH9AsTKz6uBQ7DPLKRjMLgBVYkA")
	if err := w.WriteMsg(&pb.Syn{ObservedUnderlay: own.Bytes()}); err != nil {
		t.Fatal(err)
	}
	if err := w.WriteMsg(&pb.Ack{
		Address:   &pb.BzzAddress{Underlay: ub, Overlay: ov[:], Signature: sig},
		NetworkID: networkID,
		NodeMode:  aurora.NewModel().SetMode(aurora.FullNode).Bv.Bytes(),
	}); err != nil {
		t.Fatal(err)
	}
	res, err := svc.Handle(context.Background(), s1, attackerInfo.Addrs[0], attackerInfo.ID)
	if err == nil {
		t.Fatalf("handshake.Handle accepted a peer record that no key signed: %s", res.Address.ShortString())
	}
}

// Signing oracle: the inbound side signs whatever underlay the dialer claims
// to observe, even one that carries a foreign libp2p peer id, and hands the
// signed (underlay, own overlay) record back. The record verifies everywhere.
func TestPreexistingHandleSignsForeignUnderlay(t *testing.T) {
	svc, ownID := newService(t)

	dialer, _ := ma.NewMultiaddr("/ip4/6.6.6.6/tcp/6666/p2p/16Uiu2HAkx8ULY8cTXhdVAcMmLcH9AsTKz6uBQ7DPLKRjMLgBVYkS")
	dialerInfo, _ := libp2ppeer.AddrInfoFromP2pAddr(dialer)

	// "observed" underlay chosen by the dialer: its own host and peer id
	var b1, b2 bytes.Buffer
	s1, s2 := mock.NewStream(&b1, &b2), mock.NewStream(&b2, &b1)
	if err := protobuf.NewWriter(s2).WriteMsg(&pb.Syn{ObservedUnderlay: dialer.Bytes()}); err != nil {
		t.Fatal(err)
	}
	// no Ack follows: Handle fails afterwards, the SynAck is already out
	_, _ = svc.Handle(context.Background(), s1, dialerInfo.Addrs[0], dialerInfo.ID)

	var got pb.SynAck
	if err := protobuf.NewReader(s2).ReadMsg(&got); err != nil {
		t.Skipf("no synack written: %v", err)
	}
	rec, err := aurora.ParseAddress(got.Ack.Address.Underlay, got.Ack.Address.Overlay, got.Ack.Address.Signature, networkID)
	if err != nil {
		t.Skipf("record does not verify: %v", err)
	}
	info, err := libp2ppeer.AddrInfoFromP2pAddr(rec.Underlay)
	if err != nil {
		t.Fatal(err)
	}
	if info.ID != ownID {
		t.Fatalf("node signed, as its own address record, an underlay of peer id %s (own id %s): %s", info.ID, ownID, rec.ShortString())
	}
}
