package c34

import (
	"math/big"
	"testing"

	"github.com/btcsuite/btcd/btcec"
	"github.com/ethereum/go-ethereum/common/math"
	"github.com/gauss-project/aurorafs/pkg/crypto"
	"github.com/gauss-project/aurorafs/pkg/crypto/eip712"
)

// The same key-less forgery against crypto.RecoverEIP712 (the cheque signature check):
// R = kG, s = e/k makes btcec.RecoverCompact return the point at infinity (0, 0).
func TestPreexistingInfinityKeyEIP712(t *testing.T) {
	data := &eip712.TypedData{
		Domain: eip712.TypedDataDomain{Name: "Chequebook", Version: "1.0", ChainId: math.NewHexOrDecimal256(1)},
		Types: eip712.Types{
			"EIP712Domain": {{Name: "name", Type: "string"}, {Name: "version", Type: "string"}, {Name: "chainId", Type: "uint256"}},
			"Cheque":       {{Name: "recipient", Type: "address"}, {Name: "beneficiary", Type: "address"}, {Name: "cumulativePayout", Type: "uint256"}},
		},
		Message: eip712.TypedDataMessage{
			"recipient":        "0x8d3766440f0d7b949a5e32995d09619a7f86e632",
			"beneficiary":      "0xb8d424e9662fe0837fb1d728f1ac97cebb1085fe",
			"cumulativePayout": "1000000",
		},
		PrimaryType: "Cheque",
	}
	raw, err := eip712.EncodeForSigning(data)
	if err != nil {
		t.Fatal(err)
	}
	hash, err := crypto.LegacyKeccak256(raw)
	if err != nil {
		t.Fatal(err)
	}
	curve := btcec.S256()
	n := curve.Params().N
	e := new(big.Int).SetBytes(hash)
	e.Mod(e, n)
	for i := int64(2); i < 100; i++ {
		k := big.NewInt(i)
		rx, ry := curve.ScalarBaseMult(k.Bytes())
		s := new(big.Int).ModInverse(k, n)
		s.Mul(s, e).Mod(s, n)
		if s.Sign() == 0 {
			continue
		}
		sig := make([]byte, 65)
		rb, sb := rx.Bytes(), s.Bytes()
		copy(sig[32-len(rb):32], rb)
		copy(sig[64-len(sb):64], sb)
		sig[64] = 27 + byte(ry.Bit(0))
		pk, err := crypto.RecoverEIP712(sig, data)
		if err == nil {
			t.Fatalf("RecoverEIP712 accepted a signature nobody made; recovered key X=%v Y=%v", pk.X, pk.Y)
		}
		return
	}
}
