//go:build preexisting

// PRE-EXISTING violation of C13 in the unmodified tree (independent of the
// seeded change). Run with:
//
//	go test -count=1 -tags 'leveldb preexisting' -ldflags=-checklinkname=0 \
//	    -run TestPreexistingForcedZeroCounter -v ./verifdemo/c13/
//
// collectGarbage ends with
//
//	if len(recycledItems) == 0 { currentCollectedCount = gcSize }
//
// so when every candidate of a run is skipped because it was accessed while
// the run was in progress (dirtyAddresses), the persisted counter is forced to
// zero although all the files are still cached and still in the gc index.
package c13_test

import (
	"context"
	"crypto/rand"
	"io"
	"testing"
	"time"

	"github.com/gauss-project/aurorafs/pkg/boson"
	"github.com/gauss-project/aurorafs/pkg/localstore"
	"github.com/gauss-project/aurorafs/pkg/logging"
	"github.com/gauss-project/aurorafs/pkg/sctx"
	"github.com/gauss-project/aurorafs/pkg/storage"
)

func TestPreexistingForcedZeroCounter(t *testing.T) {
	dir := t.TempDir()
	baseKey := make([]byte, 32)
	if _, err := rand.Read(baseKey); err != nil {
		t.Fatal(err)
	}
	db, err := localstore.New(dir, baseKey, &localstore.Options{Capacity: capacity}, logging.New(io.Discard, 0))
	if err != nil {
		t.Fatal(err)
	}
	defer db.Close()

	ci := &fakeChunkInfo{files: make(map[string][]boson.Address)}
	db.SetChunkInfo(ci)

	// While the collector is about to evict file A, a client reads A's root
	// chunk with A's root hash in the context (ModeGetRequest). That marks A
	// dirty, so the collector skips it.
	evicting := make(chan struct{})
	var getErr error
	ci.onEvict = func(root boson.Address) {
		ctx := sctx.SetRootHash(context.Background(), root)
		_, getErr = db.Get(ctx, storage.ModeGetRequest, root)
		// the gc index update of a get is asynchronous
		time.Sleep(300 * time.Millisecond)
		close(evicting)
	}

	putFile(t, db, ci, 10) // A, oldest, the only candidate of the run
	putFile(t, db, ci, 10) // B, reaches capacity and starts the run

	select {
	case <-evicting:
	case <-time.After(10 * time.Second):
		t.Fatal("collection did not start")
	}
	if getErr != nil {
		t.Fatalf("racing get: %v", getErr)
	}
	time.Sleep(500 * time.Millisecond) // let the run finish

	idx := indices(t, db)
	t.Logf("after collection run that skipped its only candidate: %v", idx)
	if idx["gcSize"] != idx["retrievalDataIndex"] {
		t.Errorf("C13 violated (pre-existing): persisted counter %d, cached chunks %d in %d collectable files",
			idx["gcSize"], idx["retrievalDataIndex"], idx["gcIndex"])
	}

	// With the counter at zero, further puts do not start collection.
	putFile(t, db, ci, 10)
	time.Sleep(time.Second)
	idx = indices(t, db)
	t.Logf("after 10 more chunks: %v", idx)
	if idx["retrievalDataIndex"] > capacity {
		t.Errorf("C13 violated (pre-existing): collection quiescent with %d cached chunks, capacity %d, counter %d",
			idx["retrievalDataIndex"], capacity, idx["gcSize"])
	}
}
