package c29_test

import (
	"testing"

	"github.com/gauss-project/aurorafs/pkg/boson/test"
)

// TestPreexistingOrderTruncation fails on the UNMODIFIED code: inArray in
// pkg/hive2/lookup.go compares `bin == uint8(v)`, so a requested order of 258
// (or -254) is truncated to 2 and peers whose proximity to the target is 2 are
// returned although 2 is not among the requested orders.
func TestPreexistingOrderTruncation(t *testing.T) {
	r := newResponder(t)
	requester := test.RandomAddress()
	target := requester
	r.addPeer(t, requester, true)
	for i := 0; i < 3; i++ {
		r.addPeer(t, test.RandomAddressAt(target, 2), true)
		r.addPeer(t, test.RandomAddressAt(target, 2), false)
	}
	for _, pos := range [][]int32{{258}, {-254}} {
		peers := r.findNode(t, requester, target, pos, 10)
		checkReply(t, peers, requester, target, pos, 10)
	}
}
