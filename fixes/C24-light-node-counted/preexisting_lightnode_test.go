package c24_test

import (
	"context"
	"sync"
	"sync/atomic"
	"testing"
	"time"

	"github.com/gauss-project/aurorafs/pkg/aurora"
	"github.com/gauss-project/aurorafs/pkg/boson"
	"github.com/gauss-project/aurorafs/pkg/boson/test"
	"github.com/gauss-project/aurorafs/pkg/p2p"
	"github.com/gauss-project/aurorafs/pkg/topology/kademlia"
	ma "github.com/multiformats/go-multiaddr"
)

// PRE-EXISTING (fails on the unmodified tree).
//
// A light node L is connected inbound (libp2p keeps it in its registry and in
// the light-node container, kademlia is not told). L's overlay is also a known
// peer with an address-book entry, so kademlia dials it. libp2p answers
// ErrAlreadyConnected together with the registry entry, whose Mode is "light".
// Kad.connect returns that peer with a nil error, Kad.Connection hands it to
// Kad.Outbound, and Outbound never looks at Mode.IsFull(): the light node is
// reported as a connected full node.
func TestPreexistingLightNodeCountedAfterAlreadyConnectedDial(t *testing.T) {
	base := test.RandomAddress()
	light := test.RandomAddressAt(base, 1)

	connect := func(context.Context, ma.Multiaddr) (*p2p.Peer, error) {
		// what libp2p.Service.Connect returns from peerRegistry.isConnected
		return &p2p.Peer{Address: light, Mode: aurora.NewModel()}, p2p.ErrAlreadyConnected
	}
	kad, ab, signer := newKad(t, base, connect, kademlia.Options{
		ReachabilityFunc: func(boson.Address) bool { return false },
	})

	addr := auroraAddr(t, signer, light)
	if err := ab.Put(light, *addr); err != nil {
		t.Fatal(err)
	}
	kad.AddPeers(light)

	if err := kad.Connection(context.Background(), addr); err != nil {
		t.Fatalf("Connection: %v", err)
	}

	if kad.ConnectedPeers().Exists(light) {
		t.Errorf("VIOLATION (pre-existing): light node %s is reported as a connected full node", light)
	}
}

// PRE-EXISTING (fails on the unmodified tree, probabilistic: check-then-act race).
//
// GetAuroraAddress (run by the manage loop's connection workers) does
//
//	if !k.connectedPeers.Exists(overlay) { k.knownPeers.Remove(overlay) }
//
// while onConnected does knownPeers.Add; connectedPeers.Add. The two steps of
// each side are not atomic: Exists may answer "not connected", then the peer
// connects inbound (known+connected), then the Remove drops it from the known
// set. The peer ends up connected but not known. The same shape is in
// Connection's remove helper, in connect's prune branch and in Outbound's
// boot-node branch.
func TestPreexistingConnectedButNotKnownRace(t *testing.T) {
	base := test.RandomAddress()
	kad, _, _ := newKad(t, base, nil, kademlia.Options{
		ReachabilityFunc: func(boson.Address) bool { return false },
	})
	peer := test.RandomAddressAt(base, 2)
	// no address-book entry for peer: GetAuroraAddress takes the ErrNotFound branch

	var (
		stop     int32
		wg       sync.WaitGroup
		deadline = time.Now().Add(20 * time.Second)
	)
	for i := 0; i < 4; i++ {
		wg.Add(1)
		go func() {
			defer wg.Done()
			for atomic.LoadInt32(&stop) == 0 {
				_, _ = kad.GetAuroraAddress(peer)
			}
		}()
	}

	violated := false
	rounds := 0
	for time.Now().Before(deadline) && !violated {
		rounds++
		if err := kad.Connected(context.Background(), fullPeer(peer), false); err != nil {
			t.Fatal(err)
		}
		// Connected has returned: from here on the peer is connected, and no
		// later GetAuroraAddress may remove it. Let in-flight calls drain.
		time.Sleep(50 * time.Microsecond)
		if kad.ConnectedPeers().Exists(peer) && !kad.KnownPeers().Exists(peer) {
			violated = true
			break
		}
		kad.Disconnected(fullPeer(peer), "")
	}
	atomic.StoreInt32(&stop, 1)
	wg.Wait()

	if violated {
		// stable: nothing re-adds it
		if kad.ConnectedPeers().Exists(peer) && !kad.KnownPeers().Exists(peer) {
			t.Errorf("VIOLATION (pre-existing): after %d rounds peer is connected but not known", rounds)
		}
	} else {
		t.Logf("race not hit in %d rounds", rounds)
	}
}
