package c31_test

import (
	"context"
	"math/big"
	"sync"
	"testing"
)

// PRE-EXISTING (fails on the unmodified tree as well).
// trafficInit snapshots LastSendCheques() first and applies the snapshot per peer later
// (trafficPeerChequeUpdate). A cheque issued in between is forgotten in memory, so the next Pay
// issues a cheque with the SAME cumulative payout again (and notifies accounting a second time).
func TestPreexistingRefreshUsesStaleChequeSnapshot(t *testing.T) {
	n := newNode(t)
	ctx := context.Background()
	n.credit(t, 100)

	var once sync.Once
	n.chain.onAddress = func() { // runs inside trafficInit, after the snapshot was taken
		once.Do(func() {
			if err := n.svc.Pay(ctx, peerAddr, big.NewInt(50)); err != nil {
				t.Error(err)
			}
		})
	}
	if err := n.svc.TrafficInit(); err != nil { // the 24h refresh
		t.Fatal(err)
	}
	n.chain.onAddress = nil
	if err := n.svc.Pay(ctx, peerAddr, big.NewInt(50)); err != nil {
		t.Fatal(err)
	}
	got := n.proto.payouts()
	t.Logf("delivered cumulative payouts: %v", got)
	checkPayouts(t, got, 100)
}

// PRE-EXISTING (fails on the unmodified tree as well).
// Pay with paymentThreshold 0 while nothing is owed: 0 >= 0 passes the threshold test and a cheque
// with an unchanged cumulative payout is issued.
func TestPreexistingZeroThresholdReissuesSameCheque(t *testing.T) {
	n := newNode(t)
	ctx := context.Background()
	n.credit(t, 100)
	if err := n.svc.Pay(ctx, peerAddr, big.NewInt(50)); err != nil {
		t.Fatal(err)
	}
	if err := n.svc.Pay(ctx, peerAddr, big.NewInt(0)); err != nil {
		t.Fatal(err)
	}
	got := n.proto.payouts()
	t.Logf("delivered cumulative payouts: %v", got)
	checkPayouts(t, got, 100)
}

// PRE-EXISTING (fails on the unmodified tree as well, probabilistic).
// Pay computes the unpaid balance (retrieveTraffic()) BEFORE it takes the per-peer lock, so two
// concurrent Pay calls for one peer can both use the same stale balance; the second cheque is then
// C + 2*balance, more than the traffic owed. (accounting.settle serialises Pay in production.)
func TestPreexistingConcurrentPayOverpays(t *testing.T) {
	ctx := context.Background()
	for round := 0; round < 300; round++ {
		n := newNode(t)
		n.credit(t, 100)
		var wg sync.WaitGroup
		start := make(chan struct{})
		for i := 0; i < 8; i++ {
			wg.Add(1)
			go func() {
				defer wg.Done()
				<-start
				_ = n.svc.Pay(ctx, peerAddr, big.NewInt(50))
			}()
		}
		close(start)
		wg.Wait()
		for _, p := range n.proto.payouts() {
			if p.Cmp(big.NewInt(100)) > 0 {
				t.Fatalf("round %d: cumulative payout %v exceeds credited traffic 100; all=%v", round, p, n.proto.payouts())
			}
		}
	}
}
