package c31

import (
	"context"
	"errors"
	"math/big"
	"sync"

	"github.com/ethereum/go-ethereum/common"
	"github.com/ethereum/go-ethereum/core/types"
	"github.com/gauss-project/aurorafs/pkg/boson"
	chequePkg "github.com/gauss-project/aurorafs/pkg/settlement/traffic/cheque"
)

// Minimal stubs shared by the tests in this directory.

const overlayA = "1111111111111111111111111111111111111111111111111111111111111111"

// chainStub supplies every on-chain value.
type chainStub struct {
	mu        sync.Mutex
	balance   map[common.Address]*big.Int
	amounts   map[[2]common.Address]*big.Int // (beneficiary, recipient) -> cashed amount
	retrieved []common.Address
}

func newChain() *chainStub {
	return &chainStub{
		balance: make(map[common.Address]*big.Int),
		amounts: make(map[[2]common.Address]*big.Int),
	}
}

func (c *chainStub) TransferredAddress(common.Address) ([]common.Address, error) { return nil, nil }
func (c *chainStub) RetrievedAddress(common.Address) ([]common.Address, error) {
	c.mu.Lock()
	defer c.mu.Unlock()
	return append([]common.Address(nil), c.retrieved...), nil
}
func (c *chainStub) BalanceOf(a common.Address) (*big.Int, error) {
	c.mu.Lock()
	defer c.mu.Unlock()
	if b, ok := c.balance[a]; ok {
		return new(big.Int).Set(b), nil
	}
	return big.NewInt(0), nil
}
func (c *chainStub) RetrievedTotal(common.Address) (*big.Int, error)   { return big.NewInt(0), nil }
func (c *chainStub) TransferredTotal(common.Address) (*big.Int, error) { return big.NewInt(0), nil }
func (c *chainStub) TransAmount(beneficiary, recipient common.Address) (*big.Int, error) {
	c.mu.Lock()
	defer c.mu.Unlock()
	if v, ok := c.amounts[[2]common.Address{beneficiary, recipient}]; ok {
		return new(big.Int).Set(v), nil
	}
	return big.NewInt(0), nil
}
func (c *chainStub) CashChequeBeneficiary(context.Context, boson.Address, common.Address, common.Address, *big.Int, []byte) (*types.Transaction, error) {
	return nil, errors.New("not used")
}

type signerStub struct{}

func (signerStub) Sign(*chequePkg.Cheque) ([]byte, error) { return []byte{1}, nil }

type protoStub struct {
	mu   sync.Mutex
	fail bool
	sent []*chequePkg.SignedCheque
}

func (p *protoStub) EmitCheque(_ context.Context, _ boson.Address, c *chequePkg.SignedCheque) error {
	p.mu.Lock()
	defer p.mu.Unlock()
	if p.fail {
		return errors.New("delivery failed")
	}
	p.sent = append(p.sent, c)
	return nil
}
