//go:build preexisting

package c31

import (
	"context"
	"errors"
	"math/big"
	"testing"
	"time"

	"github.com/ethereum/go-ethereum/common"
	"github.com/gauss-project/aurorafs/pkg/boson"
	"github.com/gauss-project/aurorafs/pkg/logging"
	"github.com/gauss-project/aurorafs/pkg/settlement/traffic"
	chequePkg "github.com/gauss-project/aurorafs/pkg/settlement/traffic/cheque"
	statemock "github.com/gauss-project/aurorafs/pkg/statestore/mock"
	"github.com/gauss-project/aurorafs/pkg/subscribe"
	"github.com/sirupsen/logrus"
	"io"
)

// flakyChain fails TransAmount on demand (transient RPC error), everything else works.
type flakyChain struct {
	*chainStub
	failAmount bool
}

func (f *flakyChain) TransAmount(b, r common.Address) (*big.Int, error) {
	f.mu.Lock()
	fail := f.failAmount
	f.mu.Unlock()
	if fail {
		return nil, errors.New("rpc unavailable")
	}
	return f.chainStub.TransAmount(b, r)
}

type okCashout struct{}

func (okCashout) CashCheque(context.Context, boson.Address, common.Address, common.Address) (common.Hash, error) {
	return common.HexToHash("0x01"), nil
}
func (okCashout) WaitForReceipt(context.Context, common.Hash) (uint64, error) { return 1, nil }

// Unmodified code: cashChequeReceiptUpdate persists retrieveChequeTraffic (everything WE issued to
// the peer) under the "chain retrieve" key when OUR cash-out of THEIR cheque succeeds; if the
// following TransAmount call fails, trafficPeerChainUpdate falls back to that stored value and the
// "already cashed by the peer" record jumps to the issued total although the peer cashed nothing.
func TestPreexistingCashoutReceiptInflatesCashed(t *testing.T) {
	self := common.HexToAddress("0x00000000000000000000000000000000000000aa")
	addrA := common.HexToAddress("0x0000000000000000000000000000000000000a01")
	store := statemock.NewStateStore()
	base := newChain()
	base.balance[self] = big.NewInt(1000)
	chain := &flakyChain{chainStub: base}

	cs := chequePkg.NewChequeStore(store, self, func(*chequePkg.SignedCheque, int64) (common.Address, error) { return self, nil }, 1)
	ab := traffic.NewAddressBook(store)
	pA := boson.MustParseHexAddress(overlayA)
	if err := ab.PutBeneficiary(pA, addrA); err != nil {
		t.Fatal(err)
	}
	svc := traffic.New(logging.New(io.Discard, logrus.PanicLevel), self, store, chain, cs, okCashout{}, nil, ab, signerStub{}, &protoStub{}, 1, subscribe.NewSubPub())
	svc.SetNotifyPaymentFunc(func(boson.Address, *big.Int) error { return nil })
	if err := svc.Init(); err != nil {
		t.Fatal(err)
	}

	if err := svc.PutRetrieveTraffic(pA, big.NewInt(50)); err != nil {
		t.Fatal(err)
	}
	if err := svc.Pay(context.Background(), pA, big.NewInt(1)); err != nil {
		t.Fatal(err)
	}
	got, _ := svc.AvailableBalance()
	if got.Cmp(big.NewInt(950)) != 0 {
		t.Fatalf("before cash-out: available=%v want 950", got)
	}

	base.mu.Lock()
	chain.failAmount = true
	base.mu.Unlock()
	if _, err := svc.CashCheque(context.Background(), pA); err != nil {
		t.Fatal(err)
	}
	// the receipt is processed asynchronously
	deadline := time.Now().Add(2 * time.Second)
	for time.Now().Before(deadline) {
		got, _ = svc.AvailableBalance()
		if got.Cmp(big.NewInt(950)) != 0 {
			t.Fatalf("PRE-EXISTING C31 violation: peer A cashed nothing on chain, yet after our cash-out receipt (TransAmount failing) AvailableBalance()=%v, want 1000+0-50=950", got)
		}
		time.Sleep(20 * time.Millisecond)
	}
}
