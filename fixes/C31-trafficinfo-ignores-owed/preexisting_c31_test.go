// Sequences for which the UNMODIFIED code already breaks (parts of) C31.
// They are independent of the seeded change and are not part of the
// demonstration command (which selects TestC31_ only).
package c31

import (
	"math/big"
	"testing"

	"github.com/ethereum/go-ethereum/common"
	"github.com/gauss-project/aurorafs/pkg/boson"
	chequePkg "github.com/gauss-project/aurorafs/pkg/settlement/traffic/cheque"
)

// A: a KNOWN peer re-runs the init handshake announcing a different chain
// address X together with a genuine cheque we issued to it. Handshake checks
// the cheque against the address-book entry but records it under X: a phantom
// entry with payout=owed=cheque amount appears, the available balance drops by
// that amount (repeatable for any number of X, survives restarts), and the
// payout recorded for X exceeds the traffic owed to X (nothing).
func TestPreexisting_HandshakeRecordsChequeUnderAnnouncedAddress(t *testing.T) {
	w := newWorld(t)
	w.chain.balance[w.us] = big.NewInt(10000)
	w.start()
	p1 := boson.MustParseHexAddress("01")
	a1 := common.HexToAddress("0x00000000000000000000000000000000000000b1")
	w.addPeer(p1, a1)
	w.credit(p1, 100)
	if err := w.pay(p1, 100); err != nil {
		t.Fatal(err)
	}
	w.check("pay")

	genuine := chequePkg.SignedCheque{
		Cheque:    chequePkg.Cheque{Recipient: a1, Beneficiary: w.us, CumulativePayout: big.NewInt(100)},
		Signature: []byte{1},
	}
	for i := 0; i < 3; i++ {
		x := common.BigToAddress(big.NewInt(int64(0xc0 + i)))
		if err := w.svc.Handshake(p1, x, genuine); err != nil {
			t.Logf("handshake %d rejected: %v", i, err)
		}
	}
	w.check("3 handshakes of known peer announcing foreign addresses") // want 9900, got 9600
	info, _ := w.svc.TrafficInfo()
	if info.TotalSendTraffic.Cmp(big.NewInt(100)) != 0 {
		t.Errorf("TotalSendTraffic=%v although only one cheque of 100 was ever issued", info.TotalSendTraffic)
	}
}

// B: TrafficInfo().AvailableBalance (the value served by the API and pushed to
// "traffic/header" subscribers) subtracts the issued cheques
// (retrieveChequeTraffic), not the traffic owed (retrieveTraffic) that
// AvailableBalance() subtracts: any credited-but-unpaid traffic is reported as
// still available.
func TestPreexisting_TrafficInfoIgnoresUnpaidTraffic(t *testing.T) {
	w := newWorld(t)
	w.chain.balance[w.us] = big.NewInt(10000)
	w.start()
	p1 := boson.MustParseHexAddress("01")
	w.addPeer(p1, common.HexToAddress("0x00000000000000000000000000000000000000b1"))
	w.credit(p1, 30) // below any threshold: no cheque
	w.check("credit")
	avail, _ := w.svc.AvailableBalance()
	info, _ := w.svc.TrafficInfo()
	if info.AvailableBalance.Cmp(avail) != 0 {
		t.Errorf("TrafficInfo().AvailableBalance=%v, AvailableBalance()=%v (chainBalance+cashed-owed)", info.AvailableBalance, avail)
	}
}

// C: Pay with a threshold <= 0 while nothing is owed issues and delivers a
// cheque whose cumulative payout equals the previous one (not strictly
// increasing); the receiver rejects it with ErrChequeNotIncreasing.
func TestPreexisting_PayZeroThresholdRepeatsPayout(t *testing.T) {
	w := newWorld(t)
	w.chain.balance[w.us] = big.NewInt(10000)
	w.start()
	p1 := boson.MustParseHexAddress("01")
	w.addPeer(p1, common.HexToAddress("0x00000000000000000000000000000000000000b1"))
	w.credit(p1, 100)
	if err := w.pay(p1, 0); err != nil {
		t.Fatal(err)
	}
	if err := w.pay(p1, 0); err != nil {
		t.Fatal(err)
	}
	w.check("two pays with threshold 0")
}

// D: a refresh in which the per-peer chain amounts are read but BalanceOf then
// fails leaves the new "cashed" amounts combined with the old, higher chain
// balance: the available balance is inflated by what the peer cashed until the
// next successful refresh (24h later).
func TestPreexisting_RefreshHalfApplied(t *testing.T) {
	w := newWorld(t)
	w.chain.balance[w.us] = big.NewInt(10000)
	w.start()
	p1 := boson.MustParseHexAddress("01")
	w.addPeer(p1, common.HexToAddress("0x00000000000000000000000000000000000000b1"))
	w.credit(p1, 100)
	if err := w.pay(p1, 100); err != nil {
		t.Fatal(err)
	}
	w.peerCashes(p1, 100)
	w.chain.failBalance = true
	if err := w.svc.TrafficInit(); err == nil {
		t.Fatal("expected refresh error")
	}
	w.chain.failBalance = false
	// compare with what the node itself last read as chain balance (10000) and
	// with the real one (9900): neither matches balance+cashed-owed
	got, _ := w.svc.AvailableBalance()
	t.Logf("available=%v; real chain: 9900+100-100=9900; consistent old snapshot: 10000+0-100=9900", got)
	w.check("refresh whose BalanceOf failed")
}
