package c24_test

// Sequences for which the UNMODIFIED topology already ends up with a peer that
// is connected but no longer known. They are independent of the seeded change
// and are not part of the demonstration (run them with -run TestPreexisting).

import (
	"context"
	"testing"

	"github.com/gauss-project/aurorafs/pkg/aurora"
	"github.com/gauss-project/aurorafs/pkg/boson"
	"github.com/gauss-project/aurorafs/pkg/boson/test"
	"github.com/gauss-project/aurorafs/pkg/p2p"
	"github.com/gauss-project/aurorafs/pkg/topology"
)

func connectedNotKnown(h *harness) (bad []boson.Address) {
	_ = h.kad.EachPeer(func(a boson.Address, _ uint8) (bool, bool, error) {
		if !h.kad.KnownPeers().Exists(a) {
			bad = append(bad, a)
		}
		return false, false, nil
	}, topology.Filter{})
	return bad
}

// GetAuroraAddress drops the peer from knownPeers on an address book miss
// without looking at connectedPeers.
func TestPreexistingAddressBookMissOnConnectedPeer(t *testing.T) {
	h := newHarness(t)
	x := test.RandomAddressAt(h.base, 1)

	h.connectInbound(x) // inbound peers need no address book entry at this level
	if _, err := h.kad.GetAuroraAddress(x); err == nil {
		t.Fatal("expected address book miss")
	}
	if bad := connectedNotKnown(h); len(bad) > 0 {
		t.Fatalf("connected but not known after GetAuroraAddress miss: %v", bad)
	}
}

// A failed dial prunes the peer from knownPeers (maxConnAttempts == 1) even if
// the same peer has meanwhile connected inbound.
func TestPreexistingFailedDialPrunesConnectedPeer(t *testing.T) {
	h := newHarness(t)
	x := test.RandomAddressAt(h.base, 1)

	u := h.underlayOf(x)
	delete(h.dial, u.String()) // dialling this underlay fails
	h.kad.AddPeers(x)
	h.connectInbound(x) // x dials in while our own dial is still pending

	if err := h.kad.Connection(context.Background(), &aurora.Address{Overlay: x, Underlay: u}); err == nil {
		t.Fatal("expected dial failure")
	}
	if bad := connectedNotKnown(h); len(bad) > 0 {
		t.Fatalf("connected but not known after failed dial: %v", bad)
	}
}

// Outbound to a boot-node-mode peer removes it from knownPeers and returns,
// although the same peer may already be counted in connectedPeers because it
// dialled in earlier (Connected does not look at the boot-node flag).
func TestPreexistingOutboundBootNodeAfterInbound(t *testing.T) {
	h := newHarness(t)
	x := test.RandomAddressAt(h.base, 1)
	boot := aurora.NewModel().SetMode(aurora.FullNode).SetMode(aurora.BootNode)

	if err := h.kad.Connected(context.Background(), p2p.Peer{Address: x, Mode: boot}, false); err != nil {
		t.Fatal(err)
	}
	h.kad.Outbound(p2p.Peer{Address: x, Mode: boot}) // e.g. connect() got ErrAlreadyConnected
	if bad := connectedNotKnown(h); len(bad) > 0 {
		t.Fatalf("connected but not known after Outbound to boot node: %v", bad)
	}
}
