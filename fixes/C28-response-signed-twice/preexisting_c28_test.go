//go:build c28preexisting

package routetab_test

import (
	"context"
	"sync/atomic"
	"testing"
	"time"

	"github.com/gauss-project/aurorafs/pkg/p2p"
	"github.com/gauss-project/aurorafs/pkg/p2p/streamtest"
	"github.com/gauss-project/aurorafs/pkg/routetab"
)

// PRE-EXISTING (independent of the seeded change): respForward() hands the
// same *pb.RouteResp to doRouteResp() once per pending requester, and
// doRouteResp() re-assigns resp.Paths = generatePaths(resp.Paths) each time, so
// the 2nd (3rd, ...) requester receives a path in which the forwarding node is
// appended twice (three times, ...). The receiver is not the duplicated node,
// so its self check passes and it records a path with repeated items.
//
// Topology (alpha = 2):
//
//	    1
//	  /   \
//	0       3 -- 4
//	  \   /
//	    2
//
// 0 searches for 4; both 1 and 2 forward to 3, which therefore holds two
// pending requesters when the answer of 4 arrives.
func TestPreexistingC28_DuplicateNodeInForwardedResponse(t *testing.T) {
	oldTTL := atomic.LoadInt32(&routetab.MaxTTL)
	oldAlpha := routetab.NeighborAlpha
	defer func() {
		atomic.StoreInt32(&routetab.MaxTTL, oldTTL)
		routetab.NeighborAlpha = oldAlpha
	}()
	atomic.StoreInt32(&routetab.MaxTTL, 10)
	routetab.NeighborAlpha = 2

	nodes := make([]*Node, 0, 5)
	for i := 0; i < 5; i++ {
		nodes = append(nodes, newTestNode(t))
	}
	links := map[int][]int{
		0: {1, 2},
		1: {0, 3},
		2: {0, 3},
		3: {1, 2, 4},
		4: {3},
	}
	for a, peers := range links {
		protos := make(map[string]p2p.ProtocolSpec)
		for _, b := range peers {
			nodes[a].addOne(t, nodes[b].addr, true)
			protos[nodes[b].overlay.String()] = nodes[b].Protocol()
		}
		opts := []streamtest.Option{
			streamtest.WithBaseAddr(nodes[a].overlay),
			streamtest.WithPeerProtocols(protos),
		}
		if a == 3 {
			// everything node 3 sends is delivered with a small latency, so that
			// the requests of 1 and 2 are both pending at 3 when 4 answers
			opts = append(opts, streamtest.WithMiddlewares(func(h p2p.HandlerFunc) p2p.HandlerFunc {
				return func(ctx context.Context, p p2p.Peer, s p2p.Stream) error {
					time.Sleep(150 * time.Millisecond)
					return h(ctx, p, s)
				}
			}))
		}
		nodes[a].SetStreamer(streamtest.New(opts...))
	}

	_, err := nodes[0].FindRoute(context.Background(), nodes[4].overlay, 2*time.Second)
	if err != nil {
		t.Logf("FindRoute: %v", err)
	}
	time.Sleep(time.Second)

	if v := auditRecordedPaths(nodes); len(v) > 0 {
		for _, s := range v {
			t.Errorf("C28 violated on unmodified code: %s", s)
		}
	}
}
