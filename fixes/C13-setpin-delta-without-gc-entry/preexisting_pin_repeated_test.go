// PRE-EXISTING (fails on the unmodified tree, independent of patch.diff):
// setPin decrements the persisted counter for every pin of a chunk whose file
// has an access-index entry, even when the file no longer has a gc index entry
// to take the count from. A file in which one chunk occurs twice is pinned
// once per occurrence, but was only counted once when it was cached, so the
// extra decrement is taken from the counts that belong to other files.
package c13_test

import (
	"context"
	"io"
	"testing"

	"github.com/gauss-project/aurorafs/pkg/boson"
	"github.com/gauss-project/aurorafs/pkg/localstore"
	"github.com/gauss-project/aurorafs/pkg/logging"
	"github.com/gauss-project/aurorafs/pkg/sctx"
	"github.com/gauss-project/aurorafs/pkg/storage"
)

func TestPreexistingPinFileWithRepeatedChunk(t *testing.T) {
	dir := t.TempDir()
	base := make([]byte, boson.HashSize)
	logger := logging.New(io.Discard, 0)
	db, err := localstore.New(dir, base, &localstore.Options{Driver: "leveldb", Capacity: 1000}, logger)
	if err != nil {
		t.Fatal(err)
	}
	closed := false
	defer func() {
		if !closed {
			db.Close()
		}
	}()

	// unrelated cached file A (one chunk)
	a := addr(0xa0, 0)
	putReq(t, db, a, a)

	// file B = root + chunk b1, where b1 occurs twice in the file
	b, b1 := addr(0xb0, 0), addr(0xb0, 1)
	putReq(t, db, b, b)
	putReq(t, db, b, b1)
	putReq(t, db, b, b1) // second occurrence: already stored, not counted again

	ctxB := sctx.SetRootHash(context.Background(), b)
	for _, c := range []boson.Address{b, b1, b1} { // pin every occurrence
		if err := db.Set(ctxB, storage.ModeSetPin, c); err != nil {
			t.Fatal(err)
		}
	}

	if err := db.Close(); err != nil {
		t.Fatal(err)
	}
	closed = true

	gcSize, sum, entries := rawAccounting(t, dir)
	t.Logf("persisted gcSize=%d, sum of GCounter over gc index=%d (%d files)", gcSize, sum, entries)
	if gcSize != sum {
		t.Fatalf("C13 VIOLATION (pre-existing): persisted counter %d != total of recorded cached-chunk counts %d", gcSize, sum)
	}
}
