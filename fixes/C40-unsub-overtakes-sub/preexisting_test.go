package c40_test

import (
	"testing"
	"time"

	"github.com/gauss-project/aurorafs/pkg/subscribe"
)

// PRE-EXISTING (independent of the seeded change):
// subPub.Subscribe queues the registration on subInfoChan and the watcher
// goroutine queues the unsubscription on unsubInfoChan. subPub.process selects
// over both channels, so when the error channel fires before the registration
// has been consumed, the unsubscription can be processed FIRST (select picks a
// ready case at random). The registration is then added afterwards and never
// removed: the subscriber keeps receiving messages for ever although its error
// channel fired.
func TestPreexistingUnsubscribeOvertakesSubscribe(t *testing.T) {
	sp := subscribe.NewSubPub()

	const n = 2000
	subs := make([]*subscribe.NotifierWithMsgChan, n)
	for i := range subs {
		s := subscribe.NewNotifierWithMsgChan()
		s.MsgChan = make(chan interface{}, 4)
		close(s.ErrChan) // the subscriber has already left
		subs[i] = s
		_ = sp.Subscribe(s, "ns", "kind", "p")
	}

	time.Sleep(time.Second) // let every queued (un)subscription be processed

	done := make(chan struct{})
	go func() {
		_ = sp.Publish("ns", "kind", "p", "late")
		close(done)
	}()
	select {
	case <-done:
	case <-time.After(5 * time.Second):
		t.Fatal("publish blocked")
	}

	leaked := 0
	for _, s := range subs {
		if len(s.MsgChan) > 0 {
			leaked++
		}
	}
	if leaked > 0 {
		t.Fatalf("C40 violated on unmodified code: %d of %d subscribers whose error channel had fired still received a message published afterwards", leaked, n)
	}
}

type recordKey struct {
	Key  string
	Info int
}

// PRE-EXISTING: PublishArray groups the messages per key in a Go map and then
// ranges over that map, so a notifier registered for two specific keys of the
// same namespace/kind receives the groups in random order, not in the order of
// the published list.
func TestPreexistingPublishArrayOrderAcrossKeys(t *testing.T) {
	for attempt := 0; attempt < 50; attempt++ {
		sp := subscribe.NewSubPub()
		s := subscribe.NewNotifierWithMsgChan()
		_ = sp.Subscribe(s, "ns", "kind", "a")
		_ = sp.Subscribe(s, "ns", "kind", "b")
		time.Sleep(20 * time.Millisecond)

		_ = sp.PublishArray("ns", "kind", "Key", []interface{}{
			recordKey{Key: "a", Info: 1},
			recordKey{Key: "b", Info: 2},
		})
		if len(s.MsgChan) != 2 {
			t.Fatalf("expected 2 messages, got %d", len(s.MsgChan))
		}
		first := (<-s.MsgChan).(recordKey)
		second := (<-s.MsgChan).(recordKey)
		if first.Info != 1 || second.Info != 2 {
			t.Fatalf("C40 (publication order) violated on unmodified code at attempt %d: got %v then %v", attempt, first, second)
		}
	}
}
