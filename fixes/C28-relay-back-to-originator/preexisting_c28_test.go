package c28

// PRE-EXISTING C28 findings (fail on the unmodified tree, independent of the
// seeded change). They reuse the helpers of helpers_test.go and c28_demo_test.go.
//
// Ring used by both tests:
//
//	A --- R --- X
//	|           |
//	Y --------- T

import (
	"bytes"
	"context"
	"sync/atomic"
	"testing"
	"time"

	"github.com/gauss-project/aurorafs/pkg/p2p"
	"github.com/gauss-project/aurorafs/pkg/p2p/protobuf"
	"github.com/gauss-project/aurorafs/pkg/p2p/streamtest"
	"github.com/gauss-project/aurorafs/pkg/routetab"
	"github.com/gauss-project/aurorafs/pkg/routetab/pb"
)

type c28Ring struct {
	A, R, X, T, Y *Node
	trap          *c28Trap
}

func c28NewRing(t *testing.T) *c28Ring {
	t.Helper()
	g := &c28Ring{A: newTestNode(t), R: newTestNode(t), X: newTestNode(t), T: newTestNode(t), Y: newTestNode(t), trap: &c28Trap{}}
	A, R, X, T, Y := g.A, g.R, g.X, g.T, g.Y
	c28Link(t, A, R)
	c28Link(t, R, X)
	c28Link(t, X, T)
	c28Link(t, T, Y)
	c28Link(t, Y, A)
	c28Wire(A, map[string]p2p.ProtocolSpec{R.overlay.String(): R.Protocol(), Y.overlay.String(): Y.Protocol()})
	c28Wire(R, map[string]p2p.ProtocolSpec{A.overlay.String(): g.trap.trapRelay(A), X.overlay.String(): g.trap.trapRelay(X)})
	c28Wire(X, map[string]p2p.ProtocolSpec{R.overlay.String(): R.Protocol(), T.overlay.String(): T.Protocol()})
	c28Wire(T, map[string]p2p.ProtocolSpec{X.overlay.String(): X.Protocol(), Y.overlay.String(): Y.Protocol()})
	c28Wire(Y, map[string]p2p.ProtocolSpec{T.overlay.String(): T.Protocol(), A.overlay.String(): A.Protocol()})
	return g
}

// discover runs A.FindRoute(T) and waits until A knows T via R and via Y and
// R knows T via X.
func (g *c28Ring) discover(t *testing.T) {
	t.Helper()
	ctx := context.Background()
	if _, err := g.A.FindRoute(ctx, g.T.overlay); err != nil {
		t.Fatalf("A.FindRoute(T): %v", err)
	}
	deadline := time.Now().Add(5 * time.Second)
	for {
		ap, _ := g.A.GetRoute(ctx, g.T.overlay)
		rp, _ := g.R.GetRoute(ctx, g.T.overlay)
		hops := c28LastHops(ap)
		if g.R.overlay.MemberOf(hops) && g.Y.overlay.MemberOf(hops) && g.X.overlay.MemberOf(c28LastHops(rp)) {
			return
		}
		if time.Now().After(deadline) {
			t.Fatalf("setup: discovery did not populate the tables")
		}
		time.Sleep(20 * time.Millisecond)
	}
}

func (g *c28Ring) dropRX(t *testing.T) {
	t.Helper()
	if err := g.R.kad.DisconnectForce(g.X.overlay, "c28"); err != nil {
		t.Fatal(err)
	}
	if err := g.X.kad.DisconnectForce(g.R.overlay, "c28"); err != nil {
		t.Fatal(err)
	}
}

func c28Params(t *testing.T) {
	oldAlpha, oldTTL := routetab.NeighborAlpha, atomic.LoadInt32(&routetab.MaxTTL)
	routetab.NeighborAlpha = 2
	atomic.StoreInt32(&routetab.MaxTTL, 10)
	t.Cleanup(func() {
		routetab.NeighborAlpha = oldAlpha
		atomic.StoreInt32(&routetab.MaxTTL, oldTTL)
	})
}

// The originator of a relayed stream is never put on RouteRelayReq.Paths
// (libp2p NewRelayStream / NewConnChainRelayStream send Src but no Paths, and
// onRelay / onRelayConnChain build the skip list from Paths only). The first
// relay hop can therefore hand the stream straight back to its originator.
func TestC28Preexisting_RelayReturnsToOriginator(t *testing.T) {
	c28Params(t)
	ctx := context.Background()
	g := c28NewRing(t)
	g.discover(t) // A: T via R, T via Y.   R: T via X
	g.dropRX(t)
	// R itself looks T up again: the only answer is A's "T via Y"
	if _, err := g.R.FindRoute(ctx, g.T.overlay); err != nil {
		t.Fatalf("R.FindRoute(T): %v", err)
	}

	// A originates a relayed stream to T and picks its route via R. This is
	// byte for byte what libp2p.NewConnChainRelayStream writes: Src, no Paths.
	drv := streamtest.New(streamtest.WithBaseAddr(g.A.overlay), streamtest.WithProtocols(g.R.Protocol()))
	st, err := drv.NewStream(ctx, g.R.overlay, nil, routetab.ProtocolName, routetab.ProtocolVersion, routetab.StreamOnRelayConnChain)
	if err != nil {
		t.Fatal(err)
	}
	req := &pb.RouteRelayReq{
		Src:             g.A.overlay.Bytes(),
		Dest:            g.T.overlay.Bytes(),
		ProtocolName:    []byte("x"),
		ProtocolVersion: []byte("1"),
		StreamName:      []byte("y"),
	}
	if err = protobuf.NewWriter(st).WriteMsgWithContext(ctx, req); err != nil {
		t.Fatal(err)
	}
	done := make(chan struct{})
	go func() {
		_, _ = drv.Records(g.R.overlay, routetab.ProtocolName, routetab.ProtocolVersion, routetab.StreamOnRelayConnChain)
		close(done)
	}()
	select {
	case <-done:
	case <-time.After(10 * time.Second):
		_ = st.Reset()
		t.Fatal("R's relay handler did not terminate")
	}
	for _, h := range g.trap.list() {
		if bytes.Equal(h.to.Bytes(), req.Src) {
			t.Fatalf("C28 violated (pre-existing): relay hop %s forwarded the stream for target %s back to its originator %s (relay path carried: %x)",
				h.from, g.T.overlay, h.to, h.paths)
		}
	}
}

// onRouteReq answers from the table without checking that the path's last hop
// is still a neighbour (getNextHopEffective and getClosestNeighborLimit do
// check). After the link R--X is gone, R still returns [T X R] and the
// requester records a path over a link that does not exist.
func TestC28Preexisting_DiscoveryReturnsPathOverDeadLink(t *testing.T) {
	c28Params(t)
	ctx := context.Background()
	g := c28NewRing(t)
	g.discover(t)
	g.dropRX(t)
	// let the pending-request log of the first discovery expire, otherwise A
	// suppresses the repeated request to one of its two neighbours
	time.Sleep(routetab.PendingTimeout + time.Second)
	// A forgets T and discovers it again, after the link went down
	if err := g.A.DelRoute(ctx, g.T.overlay); err != nil {
		t.Fatal(err)
	}
	if p, _ := g.A.GetRoute(ctx, g.T.overlay); len(p) != 0 {
		t.Fatalf("setup: A still has %d paths", len(p))
	}
	if _, err := g.A.FindRoute(ctx, g.T.overlay); err != nil {
		t.Fatalf("A.FindRoute(T): %v", err)
	}
	deadline := time.Now().Add(2 * time.Second)
	for time.Now().Before(deadline) {
		paths, _ := g.A.GetRoute(ctx, g.T.overlay)
		for _, p := range paths {
			for i := 0; i+1 < len(p.Items); i++ {
				a, b := p.Items[i], p.Items[i+1]
				if (a.Equal(g.X.overlay) && b.Equal(g.R.overlay)) || (a.Equal(g.R.overlay) && b.Equal(g.X.overlay)) {
					t.Fatalf("C28 violated (pre-existing): after link R--X went down A recorded path %v which uses that link", p.Items)
				}
			}
		}
		time.Sleep(20 * time.Millisecond)
	}
}
