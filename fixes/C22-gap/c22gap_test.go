package kademlia

import (
	"testing"

	"github.com/gauss-project/aurorafs/pkg/boson"
	"github.com/gauss-project/aurorafs/pkg/boson/test"
	"github.com/gauss-project/aurorafs/pkg/topology/pslice"
)

func TestC22GapBin(t *testing.T) {
	base := test.RandomAddress()
	ps := pslice.New(int(boson.MaxBins), base)
	unreach := map[string]bool{}
	add := func(bin int, un bool) {
		a := test.RandomAddressAt(base, bin)
		ps.Add(a)
		if un {
			unreach[a.ByteString()] = true
		}
	}
	for _, bin := range []int{0, 2, 3} {
		for i := 0; i < quickSaturationPeers; i++ {
			add(bin, false)
		}
	}
	for i := 0; i < 4; i++ {
		add(1, true) // bin 1: only unreachable peers
	}
	d := recalcDepth(ps, boson.MaxPO, func(a boson.Address) bool { return unreach[a.ByteString()] })
	t.Logf("depth=%d", d)
	if d > 1 {
		t.Fatalf("depth %d although bin 1 holds 0 reachable peers", d)
	}
}
