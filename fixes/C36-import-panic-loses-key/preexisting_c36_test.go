package c36

import (
	"encoding/json"
	"testing"

	filekeystore "github.com/gauss-project/aurorafs/pkg/keystore/file"
)

// A key file whose decryption PANICS (instead of returning an error) during ImportKey leaves
// the stored key renamed to its backup: the next Key() creates a new identity.
//   A: crypto.cipherparams.iv of a length other than 16 (the MAC does not cover the IV)
//   B: crypto.kdfparams.dklen = 0 (derivedKey[16:32] on an empty slice)
func importMutated(t *testing.T, mutate func(m map[string]interface{})) {
	t.Helper()
	s := filekeystore.New(t.TempDir())
	k1, created, err := s.Key("boson", "pw")
	if err != nil || !created {
		t.Fatalf("create: %v %v", created, err)
	}
	exported, err := s.ExportKey("boson", "pw")
	if err != nil {
		t.Fatal(err)
	}
	var m map[string]interface{}
	if err := json.Unmarshal(exported, &m); err != nil {
		t.Fatal(err)
	}
	mutate(m)
	bad, _ := json.Marshal(m)

	func() {
		defer func() {
			if r := recover(); r != nil {
				t.Logf("ImportKey panicked (as the HTTP server would recover): %v", r)
			}
		}()
		if err := s.ImportKey("boson", "pw", bad); err == nil {
			t.Log("import of the damaged file reported success")
		}
	}()

	k2, created, err := s.Key("boson", "pw")
	if err != nil {
		t.Fatalf("Key after the failed import: %v", err)
	}
	if created {
		t.Errorf("C36 VIOLATION: Key() created a NEW key after a failed import")
	}
	if k1.D.Cmp(k2.D) != 0 {
		t.Errorf("C36 VIOLATION: the stored key changed")
	}
}

func TestPreexistingImportBadIVLength(t *testing.T) {
	importMutated(t, func(m map[string]interface{}) {
		m["crypto"].(map[string]interface{})["cipherparams"].(map[string]interface{})["iv"] = ""
	})
}

func TestPreexistingImportZeroDKLen(t *testing.T) {
	importMutated(t, func(m map[string]interface{}) {
		m["crypto"].(map[string]interface{})["kdfparams"].(map[string]interface{})["dklen"] = 0
	})
}
