package c37_test

// PRE-EXISTING violation of C37 in pkg/multicast (fails on the UNMODIFIED tree,
// independent of patch.diff):
//
//	go test -count=1 -ldflags=-checklinkname=0 -run TestPreexistingMulticastSendReceiveExtraFrame ./verifdemo/c37/

import (
	"context"
	"io"
	"testing"
	"time"

	"github.com/gauss-project/aurorafs/pkg/aurora"
	"github.com/gauss-project/aurorafs/pkg/logging"
	"github.com/gauss-project/aurorafs/pkg/multicast"
	"github.com/gauss-project/aurorafs/pkg/multicast/model"
	"github.com/gauss-project/aurorafs/pkg/multicast/pb"
	"github.com/gauss-project/aurorafs/pkg/p2p/protobuf"
	"github.com/gauss-project/aurorafs/pkg/p2p/streamtest"
	rmock "github.com/gauss-project/aurorafs/pkg/routetab/mock"
	"github.com/gauss-project/aurorafs/pkg/subscribe"
	kmock "github.com/gauss-project/aurorafs/pkg/topology/kademlia/mock"
)

// a SubPub without websocket clients behind it
type nopSubPub struct{}

func (nopSubPub) Subscribe(subscribe.INotifier, string, string, string) error { return nil }
func (nopSubPub) Publish(string, string, string, interface{}) error          { return nil }
func (nopSubPub) PublishArray(string, string, string, []interface{}) error   { return nil }

// The node has joined a group and a local client has subscribed to the group
// messages. A peer sends a GroupMsg of type SendReceive on the "message" stream
// and then ONE more frame (a zero length message: the single byte 0x00).
// notifyMessage waits for the sender to close with
//
//	var nothing protobuf.Message
//	err := st.r.ReadMsg(nothing)
//
// on a goroutine of its own. With EOF that returns an error, but with any frame
// gogo's proto.Unmarshal calls Reset() on the nil interface: nil pointer
// dereference on a goroutine the recover() of notifyMessage does not cover.
func TestPreexistingMulticastSendReceiveExtraFrame(t *testing.T) {
	route := rmock.NewMockRouteTable()
	out := streamtest.New(streamtest.WithBaseAddr(victimAddr))
	svc := multicast.NewService(victimAddr, aurora.NewModel(), nil, out, kmock.NewMockKademlia(), &route,
		logging.New(io.Discard, 0), nopSubPub{}, multicast.Option{Dev: true})

	if err := svc.AddGroup([]model.ConfigNodeGroup{{Name: "group1", GType: model.GTypeJoin}}); err != nil {
		t.Fatal(err)
	}
	gid := multicast.GenerateGID("group1")
	if err := svc.SubscribeGroupMessage(nil, nil, gid); err != nil {
		t.Fatal(err)
	}

	in := streamtest.New(streamtest.WithProtocols(svc.Protocol()), streamtest.WithBaseAddr(peerAddr))
	s, err := in.NewStream(context.Background(), victimAddr, nil, "multicast", "1.2.0", "message")
	if err != nil {
		t.Fatal(err)
	}
	w := protobuf.NewWriter(s)
	if err := w.WriteMsg(&pb.GroupMsg{Gid: gid.Bytes(), Data: []byte("hi"), Type: int32(multicast.SendReceive)}); err != nil {
		t.Fatal(err)
	}
	// the extra frame: an empty, perfectly framed message
	if _, err := s.Write([]byte{0x00}); err != nil {
		t.Fatal(err)
	}
	time.Sleep(2 * time.Second) // the reader goroutine of the node panics meanwhile
	t.Log("node survived the extra frame")
}
